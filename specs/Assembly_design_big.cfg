SPECIFICATION Spec
CONSTANTS
  Meshes <- MeshesAsmBig
  EmitMode = "none"
VIEW View
INVARIANT AssembledEqualsReducedHessian
INVARIANT AssembledSymmetric
CHECK_DEADLOCK FALSE
