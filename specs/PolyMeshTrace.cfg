SPECIFICATION TSpec
CONSTANTS
  MaxDeg = 7
INVARIANT Verdict
CHECK_DEADLOCK FALSE
