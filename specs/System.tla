-------------------------------- MODULE System --------------------------------
(***************************************************************************)
(* EXTENSION (not a listed property): the load-stepping driver protocol of *)
(* a whole analysis, as coded in material/MaterialUniaxialSimulator.run —  *)
(* the composition of LoadStep (parameters installed, warm start),         *)
(* TrustRegion (solve), MaterialPoint (state update + commit) and output.  *)
(* Per time step i:                                                         *)
(*   Install(i)  p <- (strain_i, state_{i-1})        [param_index_update 0] *)
(*   Solve       free strains minimise the energy under p                   *)
(*   Update      state_i = compute_state_new(strain_i, state_{i-1}, dt)     *)
(*   Record      energy, stress evaluated at (strain_i, state_i)            *)
(*   Commit      p <- (strain_i, state_i); objective.p = p                  *)
(***************************************************************************)
EXTENDS Integers, Sequences, TLC
CONSTANT Steps
VARIABLES pc, i, pStrain, pState, state, solvedFor, rec
vars == <<pc, i, pStrain, pState, state, solvedFor, rec>>
\* state versions: 0 = initial; version k = state after k updates
Init == pc = "install" /\ i = 1 /\ pStrain = 0 /\ pState = 0 /\ state = 0 /\ solvedFor = <<0, 0>> /\ rec = <<>>
Install == /\ pc = "install" /\ i <= Steps /\ pStrain' = i /\ pc' = "solve" /\ UNCHANGED <<i, pState, state, solvedFor, rec>>
Solve   == /\ pc = "solve" /\ solvedFor' = <<pStrain, pState>> /\ pc' = "update" /\ UNCHANGED <<i, pStrain, pState, state, rec>>
Update  == /\ pc = "update" /\ state' = state + 1 /\ pc' = "record" /\ UNCHANGED <<i, pStrain, pState, solvedFor, rec>>
Record  == /\ pc = "record" /\ rec' = Append(rec, [strain |-> pStrain, state |-> state, solvedWithState |-> solvedFor[2]])
           /\ pc' = "commit" /\ UNCHANGED <<i, pStrain, pState, state, solvedFor>>
Commit  == /\ pc = "commit" /\ pState' = state /\ i' = i + 1 /\ pc' = "install" /\ UNCHANGED <<pStrain, state, solvedFor, rec>>
Next == Install \/ Solve \/ Update \/ Record \/ Commit
Spec == Init /\ [][Next]_vars
\* every step is solved with the state committed by the previous step, updated exactly once, and recorded with its own state
SolvedWithPreviousState == \A k \in 1..Len(rec) : rec[k].solvedWithState = k - 1
OneUpdatePerStep == \A k \in 1..Len(rec) : rec[k].state = k /\ rec[k].strain = k
CommittedBeforeNextSolve == pc = "solve" => pState = i - 1
=============================================================================
