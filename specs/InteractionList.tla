---------------------------- MODULE InteractionList ----------------------------
(***************************************************************************)
(* EXTENSION (not a listed property): Contact.get_potential_interaction_   *)
(* list — for every integration-side edge the maxNeighbors main-side edges *)
(* with the smallest node-to-node distance (k-nearest selection by argsort).*)
(* Lattice model: main edges have integer "distance ranks" to the current  *)
(* integration edge; the selection must be a k-subset that is downward      *)
(* closed w.r.t. the rank (ties may be broken either way).                  *)
(***************************************************************************)
EXTENDS Integers, FiniteSets, Sequences, TLC
CONSTANTS NM, K, MaxRank
VARIABLES rank, sel
Init == /\ rank \in [1..NM -> 0..MaxRank]
        /\ sel = {}
\* argsort(rank)[:K] with any tie-breaking
Select == /\ sel = {}
          /\ \E S \in SUBSET (1..NM) :
               /\ Cardinality(S) = (IF K <= NM THEN K ELSE NM)
               /\ \A s \in S, u \in (1..NM) \ S : rank[s] <= rank[u]
               /\ sel' = S
          /\ rank' = rank
Spec == Init /\ [][Select]_<<rank, sel>>
IsKNearest(S, r, n, k) == /\ Cardinality(S) = (IF k <= n THEN k ELSE n)
                          /\ \A s \in S, u \in (1..n) \ S : r[s] <= r[u]
SelectionIsKNearest == sel # {} => IsKNearest(sel, rank, NM, K)
\* consequence used by the contact search: the nearest main edge is always a candidate
NearestIsListed == sel # {} => \E s \in sel : \A u \in 1..NM : rank[s] <= rank[u]
=============================================================================
