---------------------------- MODULE TrustRegionGen ----------------------------
(* Design-run wrapper and behaviour generator for TrustRegion.tla.  hist records the  *)
(* environment's answers (one record per trial); complete behaviours (pc = "done") are *)
(* printed for replay into the real solver through the value-oracle proxy.            *)
EXTENDS TrustRegion, Json

CONSTANTS EmitMode, MaxHist
VARIABLE hist

GInit == Init /\ hist = <<>>

GNext ==
  \/ (StartConverged \/ StartNotConverged \/ MaxItersReturn) /\ hist' = hist
  \/ \E b \in BOOLEAN : BeginOuter(b) /\ hist' = hist
  \/ \E e \in Envs : ConvergedReturn(e) /\ hist' = Append(hist, e)
  \/ \E e \in Envs : Trial(e) /\ hist' = Append(hist, e)

GSpec == GInit /\ [][GNext]_<<vars, hist>>

Bound == Len(hist) <= MaxHist
View == vars

\* printed for every generated successor (= every transition of the abstract state graph when the
\* history is hidden by VIEW): the trial answers along one path reaching that transition.
Emit == (EmitMode = "all" /\ Len(hist) > 0) => PrintT(<<"BEH", ToJson([trials |-> hist, pc |-> pc])>>)
=============================================================================
