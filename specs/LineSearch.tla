------------------------------ MODULE LineSearch ------------------------------
(***************************************************************************)
(* EXTENSION (not a listed property): optimism.MinimizeScalar — Newton /    *)
(* gradient-descent iteration on a scalar function with Armijo line         *)
(* searches (backtracking by 0.2, forward tracking by 5, at most 20 steps). *)
(* Environment per trial step length: does the Armijo test                  *)
(*      F(x + a p) <= f + c g p a      hold?                                *)
(* Step lengths are abstracted to levels (level k = alpha0 * 5^k).          *)
(***************************************************************************)
EXTENDS Integers, Sequences, TLC

CONSTANTS MaxLS, MaxIters, R   \* line-search cap (20 in the code), outer iteration cap, objective ranks

VARIABLES pc,       \* "outer" | "back" | "fwd" | "done"
          o,        \* rank of f at the current iterate
          it, ls, lvl,
          capped,   \* the current line search ran into its iteration cap
          up        \* an accepted step increased f although its line search was not capped
vars == <<pc, o, it, ls, lvl, capped, up>>

Init == pc = "outer" /\ o = R /\ it = 0 /\ ls = 0 /\ lvl = 0 /\ capped = FALSE /\ up = FALSE

\* residual small or iteration cap: stop
Stop == pc = "outer" /\ pc' = "done" /\ UNCHANGED <<o, it, ls, lvl, capped, up>>

\* positive curvature: Newton direction, backtracking from alpha = 1;
\* non-positive curvature: gradient direction, bidirectional search from the previous alpha
Begin(posCurv, firstOk) ==
  /\ pc = "outer" /\ it < MaxIters
  /\ ls' = 0 /\ capped' = FALSE /\ lvl' = IF posCurv THEN 0 ELSE lvl
  /\ pc' = IF posCurv THEN "back" ELSE (IF firstOk THEN "fwd" ELSE "back")
  /\ UNCHANGED <<o, it, up>>

\* while F(x + a p) > f + c g p a and i < 20: a *= 0.2
Back(armijoHolds) ==
  /\ pc = "back"
  /\ IF armijoHolds \/ ls = MaxLS
     THEN /\ capped' = (~armijoHolds)
          /\ pc' = "step" /\ UNCHANGED <<ls, lvl>>
     ELSE /\ ls' = ls + 1 /\ lvl' = lvl - 1 /\ pc' = "back" /\ capped' = capped
  /\ UNCHANGED <<o, it, up>>

\* while F(x + 5 a p) < f + c g p a and i < 20: a *= 5      (current a satisfies Armijo)
Fwd(nextHolds) ==
  /\ pc = "fwd"
  /\ IF nextHolds /\ ls < MaxLS
     THEN ls' = ls + 1 /\ lvl' = lvl + 1 /\ pc' = "fwd"
     ELSE pc' = "step" /\ UNCHANGED <<ls, lvl>>
  /\ UNCHANGED <<o, it, capped, up>>

\* x += alpha p ; f = F(x): with Armijo satisfied (g p < 0) the objective strictly decreases
Step(newRank) ==
  /\ pc = "step"
  /\ (~capped => newRank < o)                    \* Armijo with a descent direction
  /\ o' = newRank /\ up' = (up \/ (newRank > o /\ ~capped))
  /\ it' = it + 1 /\ pc' = "outer" /\ UNCHANGED <<ls, lvl, capped>>

Next == Stop \/ (\E a, b \in BOOLEAN : Begin(a, b)) \/ (\E h \in BOOLEAN : Back(h)) \/ (\E h \in BOOLEAN : Fwd(h))
        \/ (\E r \in 0..R : Step(r))
Spec == Init /\ [][Next]_vars

\* the objective never increases on a step whose line search was not capped
DescentUnlessCapped == ~up
LineSearchBounded == ls <= MaxLS
=============================================================================
