SPECIFICATION TSpec
CONSTANTS
  Models = {}
  ExecModes = {}
  DefClasses = {}
  LoadClasses = {}
  DtClasses = {}
  MaxRank = 0
  MaxClass = 0
INVARIANT Verdict
CHECK_DEADLOCK FALSE
