-------------------------------- MODULE Dogleg --------------------------------
(***************************************************************************)
(* Model of optimism.EquationSolver.dogleg_step(cp, newtonP, trSize,       *)
(* mat_mul) (property C06, second sentence), on squared norms in the       *)
(* approximate-Hessian inner product:                                      *)
(*      cc = cp.M cp     nn = newtonP.M newtonP     tt = trSize^2          *)
(* The four-way split is written exactly as coded (first matching branch   *)
(* wins, ties included):                                                   *)
(*      cc >= tt -> cp * sqrt(tt/cc)                       "scaledCP"      *)
(*      cc >  nn -> cp                                     "CP"            *)
(*      nn >  tt -> preconditioned_project_to_boundary     "onSecondLeg"   *)
(*      else     -> newtonP                                "newton"        *)
(* TLC enumerates every ordering of (cc, nn, tt) on a small lattice.       *)
(* Root = "plus" is the root of the boundary quadratic the code takes; the *)
(* value "minus" is a design mutant TLC must reject.                       *)
(* Geometry used (f(s) = squared norm along a leg is a convex quadratic):  *)
(*   leg 1 = {s cp : 0 <= s <= 1} has squared norms s^2 cc;                *)
(*   on leg 2 = {cp + s (newtonP - cp) : 0 <= s <= 1}, if cc < tt < nn the *)
(*   quadratic f(s) - tt is negative at 0 and positive at 1, so it has one *)
(*   positive root, that root is the "+" root and lies in (0,1); the "-"   *)
(*   root is negative, i.e. off the path.                                  *)
(***************************************************************************)
EXTENDS Integers, TLC, Json

CONSTANTS N,          \* cc, nn \in 0..N
          TT,         \* values of tt (positive)
          Root,       \* "plus" | "minus"
          EmitMode    \* "all" | "none"

VARIABLES cc, nn, tt
dvars == <<cc, nn, tt>>

Cmp(a, b) == IF a < b THEN "LT" ELSE IF a = b THEN "EQ" ELSE "GT"

\* the branch taken, as a function of the three comparisons the code makes
Branch(cVt, cVn, nVt) ==
  IF cVt \in {"GT", "EQ"} THEN "scaledCP"
  ELSE IF cVn = "GT" THEN "CP"
  ELSE IF nVt = "GT" THEN "onSecondLeg"
  ELSE "newton"

Kind == Branch(Cmp(cc, tt), Cmp(cc, nn), Cmp(nn, tt))

\* squared norm of the returned vector
Norm2 == CASE Kind = "scaledCP"    -> tt          \* cc * (tt/cc)
           [] Kind = "CP"          -> cc
           [] Kind = "onSecondLeg" -> tt          \* root of the boundary quadratic
           [] Kind = "newton"      -> nn

\* which part of the path origin -> cp -> newtonP the returned vector lies on ("off" = not on the path)
Where == CASE Kind = "scaledCP"    -> IF cc > 0 /\ tt <= cc THEN "leg1" ELSE "off"     \* factor sqrt(tt/cc) \in (0,1]
           [] Kind = "CP"          -> "cp"
           [] Kind = "onSecondLeg" -> IF Root = "plus" /\ cc < tt /\ tt < nn THEN "leg2" ELSE "off"
           [] Kind = "newton"      -> "newton"

Init == cc \in 0..N /\ nn \in 0..N /\ tt \in TT
Next == UNCHANGED dvars
Spec == Init /\ [][Next]_dvars

\* ---- the property
Inside == Norm2 <= tt
OnPath == Where # "off"
\* what the dogleg is for (not part of the property statement; checked at design level only):
\* the returned point is the last point of the path inside the region, unless the Cauchy point is
\* farther out than the quasi-Newton point (the "preconditioner likely inaccurate" branch)
Farthest == (cc <= nn) => (Norm2 = tt \/ Kind = "newton")

Emit == EmitMode = "all" =>
  PrintT(<<"BEH", ToJson([cc |-> cc, nn |-> nn, tt |-> tt, kind |-> Kind, where |-> Where])>>)
===============================================================================
