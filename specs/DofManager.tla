------------------------------ MODULE DofManager ------------------------------
(***************************************************************************)
(* Model of optimism.FunctionSpace.DofManager and of the index maps used   *)
(* by SparseMatrixAssembler.assemble_sparse_stiffness_matrix (property     *)
(* C14).                                                                   *)
(*                                                                         *)
(* A DofManager is immutable: its whole state is the mesh (node count,     *)
(* connectivity, named node sets), the number of fields per node `Dim`     *)
(* and the list of EssentialBC(nodeSet, component) it was built from.      *)
(* The constructor loops over that list (`isBc[nodeSets[s], c] = True`),   *)
(* which is the only action of this spec (AddBC*: one more list entry);    *)
(* every public attribute / method is a FUNCTION of the state and is       *)
(* written below twice:                                                    *)
(*   - MECHANISM operators mirror the code line by line (boolean-mask      *)
(*     gathers in row-major order, scatter of arange into dofToUnknown,    *)
(*     tiled/transposed COO coordinates, element bc mask);                 *)
(*   - CONTRACT clauses C* are literal readings of property C14 over an    *)
(*     OBSERVATION (index arrays, sizes, token fields, slices, per-element *)
(*     COO segments).  They never mention the mechanism.                   *)
(* The design run feeds the mechanism's outputs to the contract clauses    *)
(* for EVERY (node, component) mask of the small meshes; the trace spec    *)
(* DofManagerTrace feeds the values logged from the real DofManager to the *)
(* same clause operators (mesh, BC list and observations bound per trace). *)
(*                                                                         *)
(* Conventions: node ids, components, dof ids, unknown numbers are 0-based *)
(* integers exactly as in the code; arrays are TLA+ sequences (1-based     *)
(* positions); a field is a sequence (nodes) of sequences (components).    *)
(* mesh == [name, N, Dim, conns : Seq(Seq(node)), nodeSets : name -> Seq]  *)
(* bcs  == Seq([nodeSet : name, component : 0..Dim-1])                     *)
(***************************************************************************)
EXTENDS Integers, Sequences, FiniteSets, Bags, TLC

CONSTANTS Meshes          \* mesh records explored by the design run ({} in the trace spec)

VARIABLES mesh, bcs
vars == <<mesh, bcs>>

Range(s) == {s[k] : k \in DOMAIN s}
ND(m)    == m.N * m.Dim
NodesOf(m) == 0..(m.N - 1)
CompsOf(m) == 0..(m.Dim - 1)
Dofs(m)  == 0..(ND(m) - 1)
Iota(n)  == [k \in 1..n |-> k - 1]                    \* <<0, 1, ..., n-1>>

(***************************************************************************)
(* The declared essential set: what the BC list MEANS (property-level).    *)
(***************************************************************************)
Decl(m, b) ==
  UNION { {<<n, b[k].component>> : n \in Range(m.nodeSets[b[k].nodeSet])} : k \in DOMAIN b }

\* declared-essential flag per flat dof id  n*Dim + c
BcFlat(m, b) == LET d == Decl(m, b) IN [i \in Dofs(m) |-> <<i \div m.Dim, i % m.Dim>> \in d]

(***************************************************************************)
(* MECHANISM (mirror of FunctionSpace.DofManager).  New(m, b) is           *)
(* __init__: it returns the object `dm` (a record of the attributes the    *)
(* code stores); the methods take `dm` like the code takes `self`.         *)
(***************************************************************************)
\* isBc = full(False); for ebc in EssentialBCs: isBc[nodeSets[ebc.nodeSet], ebc.component] = True
RECURSIVE IsBcLoop(_, _, _, _)
IsBcLoop(m, b, k, acc) ==
  IF k > Len(b) THEN acc
  ELSE LET ns == Range(m.nodeSets[b[k].nodeSet])
           c  == b[k].component
       IN IsBcLoop(m, b, k + 1,
                   [n \in NodesOf(m) |-> IF n \in ns THEN [acc[n] EXCEPT ![c] = TRUE] ELSE acc[n]])
IsBc(m, b) == IsBcLoop(m, b, 1, [n \in NodesOf(m) |-> [c \in CompsOf(m) |-> FALSE]])

\* ids = arange(size).reshape(N, Dim)
Ids(m) == [n \in NodesOf(m) |-> [c \in CompsOf(m) |-> n * m.Dim + c]]

\* numpy  tab[mask]  for (N, Dim) tables: row-major order of the selected entries
FlatPairs(m) == [k \in 1..ND(m) |-> <<(k - 1) \div m.Dim, (k - 1) % m.Dim>>]
MaskGather(m, tab, mask, want) ==
  LET sel == SelectSeq(FlatPairs(m), LAMBDA p : mask[p[1]][p[2]] = want)
  IN  [k \in 1..Len(sel) |-> tab[sel[k][1]][sel[k][2]]]

\* f[idx] = arange(len(idx))     (entries of idx outside DOMAIN f are ignored: total on bad observations)
RECURSIVE ScatterArange(_, _, _)
ScatterArange(f, idx, k) ==
  IF k > Len(idx) THEN f
  ELSE ScatterArange(IF idx[k] \in DOMAIN f THEN [f EXCEPT ![idx[k]] = k - 1] ELSE f, idx, k + 1)

New(m, b) ==
  LET isbc == IsBc(m, b)
      ids  == Ids(m)
      ui   == MaskGather(m, ids, isbc, FALSE)                        \* ids[isUnknown]
      bi   == MaskGather(m, ids, isbc, TRUE)                         \* ids[isBc]
  IN [isBc |-> isbc, ids |-> ids, unknownIndices |-> ui, bcIndices |-> bi,
      \* dofToUnknown = -ones(size); dofToUnknown[unknownIndices] = arange(unknownIndices.size)
      dofToUnknown |-> ScatterArange([i \in Dofs(m) |-> 0 - 1], ui, 1)]

UnknownIdx(m, b)   == New(m, b).unknownIndices
BcIdx(m, b)        == New(m, b).bcIndices
DofToUnknown(m, b) == New(m, b).dofToUnknown

UnknownSize(m, dm) == Cardinality({p \in NodesOf(m) \X CompsOf(m) : ~dm.isBc[p[1]][p[2]]})   \* sum(isUnknown)
BcSize(m, dm)      == Cardinality({p \in NodesOf(m) \X CompsOf(m) : dm.isBc[p[1]][p[2]]})    \* sum(isBc)

\* fields are Seq(Seq): zero-based table view for the gathers
AsTable(m, U) == [n \in NodesOf(m) |-> [c \in CompsOf(m) |-> U[n + 1][c + 1]]]
GetUnknown(m, dm, U) == MaskGather(m, AsTable(m, U), dm.isBc, FALSE)     \* U[isUnknown]
GetBc(m, dm, U)      == MaskGather(m, AsTable(m, U), dm.isBc, TRUE)      \* U[isBc]

\* zeros.at[isBc].set(Ubc).at[isUnknown].set(Uu): the k-th selected entry (row-major) receives the k-th
\* value; the row-major rank of an entry is its position in ids[isBc] resp. ids[isUnknown]
CreateField(m, dm, Uu, Ubc) ==
  LET bpos == ScatterArange([i \in Dofs(m) |-> 0 - 1], dm.bcIndices, 1)
      upos == ScatterArange([i \in Dofs(m) |-> 0 - 1], dm.unknownIndices, 1)
  IN [n1 \in 1..m.N |-> [c1 \in 1..m.Dim |->
        LET i == (n1 - 1) * m.Dim + (c1 - 1)
        IN IF dm.isBc[n1 - 1][c1 - 1] THEN Ubc[bpos[i] + 1] ELSE Uu[upos[i] + 1]]]

\* slice_unknowns_with_dof_indices(Uu, (slice(None), comp)):
\*   i = isUnknown[:, comp]; j = dofToUnknown.reshape(N, Dim)[:, comp]; Uu[j[i]]
Slice(m, dm, Uu, comp) ==
  LET sel == SelectSeq(Iota(m.N), LAMBDA n : ~dm.isBc[n][comp])
  IN [k \in 1..Len(sel) |-> Uu[dm.dofToUnknown[sel[k] * m.Dim + comp] + 1]]

\* ---- COO coordinates (_make_hessian_coordinates) and element mask (_make_hessian_bc_mask)
NDE(m, e) == Len(m.conns[e]) * m.Dim                                     \* dofs of element e
ElDof(m, e, i) == m.conns[e][(i \div m.Dim) + 1] * m.Dim + (i % m.Dim)   \* ids[eNodes,:].ravel()[i], i 0-based
ElFlag(m, dm, e, i) == dm.isBc[m.conns[e][(i \div m.Dim) + 1]][i % m.Dim]    \* isBc[eNodes,:].ravel()[i]
\* elUnknowns = dofToUnknown[elDofs[elUnknownFlags]]
ElUnknowns(m, dm, e) ==
  LET sel == SelectSeq(Iota(NDE(m, e)), LAMBDA i : ~ElFlag(m, dm, e, i))
  IN [k \in 1..Len(sel) |-> dm.dofToUnknown[ElDof(m, e, sel[k])]]
\* elHessCoords = tile(elUnknowns, (ne, 1)); rows <- ravel(), cols <- T.ravel()
HessRowSeg(m, dm, e) ==
  LET eu == ElUnknowns(m, dm, e)  ne == Len(eu) IN [k \in 1..(ne * ne) |-> eu[((k - 1) % ne) + 1]]
HessColSeg(m, dm, e) ==
  LET eu == ElUnknowns(m, dm, e)  ne == Len(eu) IN [k \in 1..(ne * ne) |-> eu[((k - 1) \div ne) + 1]]
\* mask[e] = True; mask[e, eFlag, :] = False; mask[e, :, eFlag] = False  -> row-major positions i*nd+j still True
HessMaskPos(m, dm, e) ==
  LET nd == NDE(m, e)
  IN SelectSeq(Iota(nd * nd), LAMBDA p : ~ElFlag(m, dm, e, p \div nd) /\ ~ElFlag(m, dm, e, p % nd))
\* the bag of (row, col) pairs the assembler addresses for element e
HessPairs(m, dm, e) ==
  LET r == HessRowSeg(m, dm, e)  c == HessColSeg(m, dm, e)
      ps == [k \in 1..Len(r) |-> <<r[k], c[k]>>]
  IN [x \in Range(ps) |-> Cardinality({k \in 1..Len(ps) : ps[k] = x})]

(***************************************************************************)
(* CONTRACT CLAUSES (property C14) over observations.                      *)
(*   m    mesh record            bcf  BcFlat(m, b): declared flag per dof  *)
(*   U    token field, entries pairwise distinct, values in 1..ND(m)       *)
(*   upos position (0-based) of each unknown dof in the unknown vector     *)
(*        as the split reports it (-1 if absent), see UPos                 *)
(* Every clause is total on malformed observations (never a TLC error).    *)
(***************************************************************************)
DeclDofs(m, bcf) == {i \in Dofs(m) : bcf[i]}
FreeDofs(m, bcf) == {i \in Dofs(m) : ~bcf[i]}
Tok(m, U, i) == U[(i \div m.Dim) + 1][(i % m.Dim) + 1]

\* "the unknown and constrained indices partition all degrees of freedom"
CPartition(m, ui, bi) ==
  /\ Len(ui) + Len(bi) = ND(m)
  /\ Range(ui) \cup Range(bi) = Dofs(m)        \* with the count: disjoint and duplicate-free
\* the constrained indices are exactly the declared (node, component) pairs (dof id = node*Dim + comp)
CBcExact(m, bcf, bi) == Range(bi) = DeclDofs(m, bcf)
\* "the reported sizes equal the number of entries of each kind"
CSizes(m, bcf, nU, nB) ==
  /\ nB = Cardinality(DeclDofs(m, bcf))
  /\ nU = ND(m) - Cardinality(DeclDofs(m, bcf))
\* "splitting a field into unknown and boundary values ...": each part holds exactly the entries of its kind
CSplit(m, bcf, U, Uu, Ubc) ==
  /\ Len(Uu)  = Cardinality(FreeDofs(m, bcf))
  /\ Range(Uu) = {Tok(m, U, i) : i \in FreeDofs(m, bcf)}
  /\ Len(Ubc) = Cardinality(DeclDofs(m, bcf))
  /\ Range(Ubc) = {Tok(m, U, i) : i \in DeclDofs(m, bcf)}
\* "... and recombining them returns the original field exactly"
CRoundTrip(U, R) == R = U
\* "slicing the unknown vector by field component returns exactly the unconstrained entries of that
\*  component in node order"
CSlice(m, bcf, U, comp, out) ==
  LET sel == SelectSeq(Iota(m.N), LAMBDA n : ~bcf[n * m.Dim + comp])
  IN out = [k \in 1..Len(sel) |-> U[sel[k] + 1][comp + 1]]

\* unknown number of a dof = its position in the unknown vector (tokens are distinct)
UPos(m, U, Uu) ==
  LET t2p == ScatterArange([t \in 1..ND(m) |-> 0 - 1], Uu, 1)
  IN [i \in Dofs(m) |-> t2p[Tok(m, U, i)]]

\* "the sparse-assembly index maps address exactly the unknown-by-unknown entries of every element, each once"
\*  (a) the element mask selects exactly the local entries (i, j) with both dofs unconstrained
\*      (ExpPos: their row-major positions i*nd + j; passed to the other clauses as `ex`)
ExpPos(m, bcf, e) ==
  LET nd == NDE(m, e)
  IN SelectSeq(Iota(nd * nd), LAMBDA p : ~bcf[ElDof(m, e, p \div nd)] /\ ~bcf[ElDof(m, e, p % nd)])
CHessMask(ex, pos) == pos = ex
\*  (b) the coordinates belonging to element e, as a bag, are {<<u(a), u(b)>> : a, b unconstrained dofs of e},
\*      each exactly once  (n pairs with n distinct values covering an n-element set)
ElFree(m, bcf, e) == {ElDof(m, e, i) : i \in {i \in 0..(NDE(m, e) - 1) : ~bcf[ElDof(m, e, i)]}}
ExpPairs(m, bcf, upos, e) == {<<upos[a], upos[b]>> : a \in ElFree(m, bcf, e), b \in ElFree(m, bcf, e)}
CHessBag(m, bcf, upos, e, row, col) ==
  LET ne == Cardinality(ElFree(m, bcf, e))
      xp == ExpPairs(m, bcf, upos, e)
  IN /\ Len(row) = ne * ne /\ Len(col) = ne * ne
     /\ Cardinality(xp) = ne * ne
     /\ {<<row[k], col[k]>> : k \in 1..Len(row)} = xp
\*  (c) the k-th selected element entry (i, j) is addressed to the global entry of its own two dofs
\*      (either orientation: the addressed block and the element matrices are symmetric)
CHessEntry(m, upos, e, ex, row, col) ==
  LET nd == NDE(m, e)
  IN /\ Len(row) = Len(ex) /\ Len(col) = Len(ex)
     /\ \A k \in 1..Len(ex) :
          {row[k], col[k]} = {upos[ElDof(m, e, ex[k] \div nd)], upos[ElDof(m, e, ex[k] % nd)]}
\*  (d) the coordinate arrays have one entry per selected mask entry
CHessLen(nMask, nRow, nCol) == nMask = nRow /\ nMask = nCol

(***************************************************************************)
(* MECHANISM-DRIFT clauses: equality with the exact arrays of the          *)
(* mechanism above (never a violation).                                    *)
(***************************************************************************)
DIds(m, ids)               == ids = [n \in 1..m.N |-> [c \in 1..m.Dim |-> (n - 1) * m.Dim + (c - 1)]]
DOrder(dm, ui, bi)         == ui = dm.unknownIndices /\ bi = dm.bcIndices
DDofToUnknown(m, dm, d2u)  == d2u = [k \in 1..ND(m) |-> dm.dofToUnknown[k - 1]]
DSplitOrder(m, dm, U, Uu, Ubc) == Uu = GetUnknown(m, dm, U) /\ Ubc = GetBc(m, dm, U)
DHessTransposed(m, upos, e, ex, row, col) ==
  LET nd == NDE(m, e)
  IN /\ Len(row) = Len(ex) /\ Len(col) = Len(ex)
     /\ \A k \in 1..Len(ex) : /\ row[k] = upos[ElDof(m, e, ex[k] % nd)]
                              /\ col[k] = upos[ElDof(m, e, ex[k] \div nd)]

(***************************************************************************)
(* DESIGN SPEC: the constructor's loop over the BC list.  Node-set classes *)
(* are separate actions so that coverage shows each class was exercised.   *)
(***************************************************************************)
IsSingle(ns)   == Len(mesh.nodeSets[ns]) = 1
IsEmpty(ns)    == Len(mesh.nodeSets[ns]) = 0
IsRepeated(ns) == Cardinality(Range(mesh.nodeSets[ns])) < Len(mesh.nodeSets[ns])
IsFull(ns)     == Range(mesh.nodeSets[ns]) = NodesOf(mesh) /\ ~IsRepeated(ns)
IsPartial(ns)  == ~IsSingle(ns) /\ ~IsEmpty(ns) /\ ~IsRepeated(ns) /\ ~IsFull(ns)

Add(ns, c) == bcs' = Append(bcs, [nodeSet |-> ns, component |-> c]) /\ UNCHANGED mesh

AddSingleBC   == \E ns \in DOMAIN mesh.nodeSets, c \in CompsOf(mesh) : IsSingle(ns)   /\ Add(ns, c)
AddEmptyBC    == \E ns \in DOMAIN mesh.nodeSets, c \in CompsOf(mesh) : IsEmpty(ns)    /\ Add(ns, c)
AddFullBC     == \E ns \in DOMAIN mesh.nodeSets, c \in CompsOf(mesh) : IsFull(ns)     /\ Add(ns, c)
AddOverlapBC  == \E ns \in DOMAIN mesh.nodeSets, c \in CompsOf(mesh) : IsPartial(ns)  /\ Add(ns, c)
AddRepeatedBC == \E ns \in DOMAIN mesh.nodeSets, c \in CompsOf(mesh) : IsRepeated(ns) /\ Add(ns, c)

Init == mesh \in Meshes /\ bcs = <<>>
Next == AddSingleBC \/ AddEmptyBC \/ AddFullBC \/ AddOverlapBC \/ AddRepeatedBC
Spec == Init /\ [][Next]_vars

\* ---- a token field with pairwise distinct entries (reverse numbering, so that "value = index"
\* ---- coincidences cannot hide a mix-up)
TokenField(m) == [n \in 1..m.N |-> [c \in 1..m.Dim |-> ND(m) - ((n - 1) * m.Dim + (c - 1))]]

\* ---- invariants: the mechanism satisfies every contract clause in every state
M  == mesh
B  == bcs
F  == BcFlat(mesh, bcs)
DM == New(mesh, bcs)
TU == TokenField(mesh)
Elems == 1..Len(mesh.conns)

TypeOK ==
  /\ mesh \in Meshes
  /\ \A k \in DOMAIN bcs : bcs[k].nodeSet \in DOMAIN mesh.nodeSets /\ bcs[k].component \in CompsOf(mesh)
  /\ \A ns \in DOMAIN mesh.nodeSets : Range(mesh.nodeSets[ns]) \subseteq NodesOf(mesh)
  /\ \A e \in Elems : Range(mesh.conns[e]) \subseteq NodesOf(mesh)
                      /\ Cardinality(Range(mesh.conns[e])) = Len(mesh.conns[e])

\* the imperative mask loop computes the declared set (order / repetition of BCs and members is irrelevant)
MaskIsDecl(m, b) ==
  LET isbc == IsBc(m, b)  f == BcFlat(m, b)
  IN \A n \in NodesOf(m), c \in CompsOf(m) : isbc[n][c] = f[n * m.Dim + c]
InvMaskIsDecl == MaskIsDecl(mesh, bcs)
\* the same on EVERY transition TLC generates (action property; invariants are only evaluated on new masks):
\* every BC list built, including lists with repeated / overlapping / empty sets.  All other mechanism
\* operators depend on the list only through IsBc, so the invariants below extend to every list.
StepMaskIsDecl == [][MaskIsDecl(mesh, bcs')]_vars

InvPartition  == LET dm == DM IN CPartition(M, dm.unknownIndices, dm.bcIndices)
InvBcExact    == CBcExact(M, F, DM.bcIndices)
InvSizes      == LET dm == DM IN CSizes(M, F, UnknownSize(M, dm), BcSize(M, dm))
InvSplit      == LET dm == DM IN CSplit(M, F, TU, GetUnknown(M, dm, TU), GetBc(M, dm, TU))
InvRoundTrip  == LET dm == DM IN CRoundTrip(TU, CreateField(M, dm, GetUnknown(M, dm, TU), GetBc(M, dm, TU)))
InvSlice      == LET dm == DM  f == F  uu == GetUnknown(M, dm, TU)
                 IN \A c \in CompsOf(M) : CSlice(M, f, TU, c, Slice(M, dm, uu, c))
InvDofToUnknown ==            \* -1 exactly on constrained dofs, position in the unknown vector otherwise
  LET dm == DM  f == F  up == UPos(M, TU, GetUnknown(M, dm, TU))
  IN \A i \in Dofs(M) : dm.dofToUnknown[i] = up[i] /\ (f[i] <=> dm.dofToUnknown[i] = 0 - 1)
InvHess ==                    \* all Hessian-map clauses (one LET so that the object is built once per state)
  LET dm == DM  f == F  up == UPos(M, TU, GetUnknown(M, dm, TU))
  IN \A e \in Elems :
       LET r == HessRowSeg(M, dm, e)  c == HessColSeg(M, dm, e)  p == HessMaskPos(M, dm, e)
           ex == ExpPos(M, f, e)
       IN /\ CHessMask(ex, p)
          /\ CHessBag(M, f, up, e, r, c)
          /\ CHessEntry(M, up, e, ex, r, c)
          /\ CHessLen(Len(p), Len(r), Len(c))
          \* the mechanism fills rows/cols transposed w.r.t. the mask order (harmless, see CHessEntry)
          /\ DHessTransposed(M, up, e, ex, r, c)
InvHessBagTrue ==             \* the bag statement with genuine bags (Bags module): every pair exactly once
  LET dm == DM  f == F  up == UPos(M, TU, GetUnknown(M, dm, TU))
  IN \A e \in Elems : HessPairs(M, dm, e) = SetToBag(ExpPairs(M, f, up, e))
=============================================================================
