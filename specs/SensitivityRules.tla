--------------------------- MODULE SensitivityRules ---------------------------
(* Parameter-slot routing of the reverse rules in optimism/inverse/NonlinearSolve.py (C07):          *)
(* Params has six slots (bc_data, state_data, design_data, app_data, time, dynamic_data); the        *)
(* adjoint is contracted with the residual's parameter Jacobian of slots 0, 1, 2 and 4 when present; *)
(* slots 3 and 5 never receive a cotangent.                                                          *)
EXTENDS Integers, FiniteSets
Slots == 0..5
Routed == {0, 1, 2, 4}
\* which Jacobian-vector product serves which slot: vec_jacobian_p<k> for slot k
JacFor(s) == s
ExpectedCalls(present) == present \cap Routed
ExpectedCot(present, s) == IF s \in (present \cap Routed) THEN "value" ELSE "none"
=============================================================================
