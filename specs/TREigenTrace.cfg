SPECIFICATION TSpec
CONSTANTS
  HardVector = "column"
INVARIANT Verdict
CHECK_DEADLOCK FALSE
