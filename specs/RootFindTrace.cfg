SPECIFICATION TSpec
CONSTANTS
  N = 0
  Brackets = {}
  TolSettings = {}
  FVals = {}
  DVals = {}
  MaxIters = 0
  Degenerate = TRUE
  StopOnExactRoot = TRUE
INVARIANT Verdict
CHECK_DEADLOCK FALSE
