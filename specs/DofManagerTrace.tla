--------------------------- MODULE DofManagerTrace ---------------------------
(* Trace validation for DofManager.tla.  Each line of IOEnv.TRACE_FILE is one  *)
(* REAL optimism.FunctionSpace.DofManager, built from a real FunctionSpace on  *)
(* a real Mesh, observed through its public attributes and methods:            *)
(*  {"id": n,                                                                   *)
(*   "mesh": {name, N, Dim, conns: [[node]], nodeSets: {name: [node]}},         *)
(*   "bcs":  [{nodeSet, component}],          the EssentialBC list              *)
(*   "U":    [[token]],     token field given to the methods (distinct, 1..N*Dim)*)
(*   "Uu":   [token],       get_unknown_values(U)  (defines unknown numbering)  *)
(*   "ev": [ {op: "Construct", ui, bi, ids, d2u, nU, nB},                       *)
(*           {op: "RoundTrip", Uu, Ubc, R},    R = create_field(Uu, Ubc)        *)
(*           {op: "Slice", comp, out},         one per component                *)
(*           {op: "HessLen", nMask, nRow, nCol},                                *)
(*           {op: "Hess", e, pos, row, col}    one per element: mask positions  *)
(*                      and the COO coordinates paired with them by the         *)
(*                      assembler (kValues[mask] <-> (rows, cols)) ]}           *)
(* mesh / bcs are the spec variables of DofManager.tla, bound per trace; the    *)
(* clause operators are those of DofManager.tla (the design run applies them to *)
(* the mechanism's outputs, this module to the logged values).  Verdicts are    *)
(* total: a failing clause is recorded as <<id, event index, clause>> and       *)
(* validation continues.  Clauses named drift_* compare with the mechanism's    *)
(* exact arrays and never raise a violation.                                    *)
EXTENDS DofManager, Json, IOUtils

Traces == ndJsonDeserialize(IOEnv.TRACE_FILE)
NT == Len(Traces)

VARIABLES tid, l, viol,
          dm,      \* New(mesh, bcs): the mechanism's object (drift clauses only)
          bcf,     \* BcFlat(mesh, bcs): declared flag per dof
          upos     \* UPos(mesh, U, Uu): position of each dof in the observed unknown vector
tvars == <<vars, tid, l, viol, dm, bcf, upos>>

ClausesOf(t, e) ==
  CASE e.op = "Construct" ->
         [ partition  |-> CPartition(mesh, e.ui, e.bi),
           bc_exact   |-> CBcExact(mesh, bcf, e.bi),
           sizes      |-> CSizes(mesh, bcf, e.nU, e.nB),
           drift_ids  |-> DIds(mesh, e.ids),
           drift_index_order    |-> DOrder(dm, e.ui, e.bi),
           drift_dof_to_unknown |-> DDofToUnknown(mesh, dm, e.d2u) ]
    [] e.op = "RoundTrip" ->
         [ split      |-> CSplit(mesh, bcf, t.U, e.Uu, e.Ubc),
           round_trip |-> CRoundTrip(t.U, e.R),
           drift_split_order |-> DSplitOrder(mesh, dm, t.U, e.Uu, e.Ubc) ]
    [] e.op = "Slice" ->
         [ slice      |-> CSlice(mesh, bcf, t.U, e.comp, e.out) ]
    [] e.op = "HessLen" ->
         [ hess_len   |-> CHessLen(e.nMask, e.nRow, e.nCol) ]
    [] e.op = "Hess" ->
         LET ex == ExpPos(mesh, bcf, e.e)
         IN [ hess_mask  |-> CHessMask(ex, e.pos),
              hess_bag   |-> CHessBag(mesh, bcf, upos, e.e, e.row, e.col),
              hess_entry |-> CHessEntry(mesh, upos, e.e, ex, e.row, e.col),
              drift_hess_transposed |-> DHessTransposed(mesh, upos, e.e, ex, e.row, e.col) ]

NoMesh == [name |-> "none", N |-> 0, Dim |-> 1, conns |-> <<>>, nodeSets |-> <<>>]

TInit ==
  /\ tid = 1 /\ l = 0 /\ viol = {}
  /\ mesh = IF NT >= 1 THEN Traces[1].mesh ELSE NoMesh
  /\ bcs  = IF NT >= 1 THEN Traces[1].bcs ELSE <<>>
  /\ dm   = IF NT >= 1 THEN New(Traces[1].mesh, Traces[1].bcs) ELSE <<>>
  /\ bcf  = IF NT >= 1 THEN BcFlat(Traces[1].mesh, Traces[1].bcs) ELSE <<>>
  /\ upos = IF NT >= 1 THEN UPos(Traces[1].mesh, Traces[1].U, Traces[1].Uu) ELSE <<>>

Step ==
  /\ tid <= NT /\ l < Len(Traces[tid].ev)
  /\ LET t  == Traces[tid]
         e  == t.ev[l + 1]
         cl == ClausesOf(t, e)
     IN viol' = viol \cup { <<t.id, l + 1, c>> : c \in {c \in DOMAIN cl : ~cl[c]} }
  /\ l' = l + 1
  /\ UNCHANGED <<tid, mesh, bcs, dm, bcf, upos>>

NextTrace ==
  /\ tid <= NT /\ l = Len(Traces[tid].ev)
  /\ tid' = tid + 1 /\ l' = 0 /\ viol' = viol
  /\ IF tid + 1 <= NT
     THEN LET t == Traces[tid + 1]
          IN /\ mesh' = t.mesh /\ bcs' = t.bcs
             /\ dm'   = New(t.mesh, t.bcs)
             /\ bcf'  = BcFlat(t.mesh, t.bcs)
             /\ upos' = UPos(t.mesh, t.U, t.Uu)
     ELSE UNCHANGED <<mesh, bcs, dm, bcf, upos>>

TNext == Step \/ NextTrace
TSpec == TInit /\ [][TNext]_tvars

Done == tid > NT
Verdict == Done => PrintT(<<"VERDICT", ToJson([n |-> NT, viol |-> viol])>>)
=============================================================================
