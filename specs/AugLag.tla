-------------------------------- MODULE AugLag --------------------------------
(***************************************************************************)
(* Mechanism + contract model of optimism.AlSolver.augmented_lagrange_     *)
(* solve (property C04), written like the code: per outer iteration        *)
(*   Top        callback(x, p); decide whether the second-order (Newton on  *)
(*              [grad L; FB]) multiplier update runs                        *)
(*   LineSearch up to 10 trials  lam <- lam + dl ; accept if the total      *)
(*              residual decreased, else restore lamSave and cut the step   *)
(*   SubStep    sub-problem solve; lam <- max(lam - kappa c, 0);            *)
(*              kappa_j <- s kappa_j where progress is poor AND the sub-    *)
(*              solver succeeded; return x iff ||total residual|| < tol     *)
(* After max_al_iters the code raises (not a normal return).               *)
(* The ENVIRONMENT chooses: sign class of each multiplier after a Newton   *)
(* update, whether a line-search trial improves, sub-solver success, the   *)
(* sign class of each multiplier after the first-order update (zero/pos:   *)
(* the max(.,0) is the code's), which constraints make poor progress and   *)
(* whether the termination test passes.                                    *)
(***************************************************************************)
EXTENDS Integers, Sequences, FiniteSets, TLC

CONSTANTS M,            \* number of constraints
          MaxAl,        \* max_al_iters
          K,            \* penalty levels 0..K (level = number of growth steps; growth factor >= 1)
          NumLow,       \* num_initial_low_order_iterations
          SecondOrder,  \* use_second_order_update
          NewtonOnly,   \* use_newton_only
          MaxLS         \* line-search trials (10 in the code)

Cons == 1..M
LamClasses == {"neg", "zero", "pos"}

VARIABLES pc,        \* "top" | "ls" | "sub" | "done" | "raised"
          it, lam, lamSave, kap, ls,
          snapOk,    \* multipliers were non-negative at every callback so far
          nsnap,     \* callbacks made
          ret        \* None | [lamNonneg, viaTest]
vars == <<pc, it, lam, lamSave, kap, ls, snapOk, nsnap, ret>>
None == [none |-> TRUE]

NonNeg(f) == \A j \in Cons : f[j] # "neg"

Init ==
  /\ pc = "top" /\ it = 0 /\ ls = 0
  /\ lam \in [Cons -> {"zero", "pos"}]          \* initial multipliers are non-negative
  /\ lamSave = lam
  /\ kap = [j \in Cons |-> 0]
  /\ snapOk = TRUE /\ nsnap = 0 /\ ret = None

RunsSecondOrder == (SecondOrder /\ it >= NumLow) \/ NewtonOnly

\* top of the loop: callback(x, p)
Top ==
  /\ pc = "top" /\ it < MaxAl
  /\ snapOk' = (snapOk /\ NonNeg(lam)) /\ nsnap' = nsnap + 1
  /\ lamSave' = lam /\ ls' = 0
  /\ pc' = IF RunsSecondOrder THEN "ls" ELSE "sub"
  /\ UNCHANGED <<it, lam, kap, ret>>

Raise ==
  /\ pc = "top" /\ it = MaxAl /\ pc' = "raised"
  /\ UNCHANGED <<it, lam, lamSave, kap, ls, snapOk, nsnap, ret>>

AfterSecondOrder == IF NewtonOnly THEN "top" ELSE "sub"

\* one line-search trial: lam <- lam + dl (ANY sign), accepted iff the total residual decreased
LineSearchTrial(newLam, better) ==
  /\ pc = "ls"
  /\ IF better
     THEN /\ lam' = newLam /\ pc' = AfterSecondOrder /\ ls' = ls
          /\ it' = IF NewtonOnly THEN it + 1 ELSE it
     ELSE /\ lam' = lamSave                         \* alObjective.lam = lamSave
          /\ ls' = ls + 1
          /\ pc' = IF ls + 1 = MaxLS THEN AfterSecondOrder ELSE "ls"
          /\ it' = IF (ls + 1 = MaxLS /\ NewtonOnly) THEN it + 1 ELSE it
  /\ UNCHANGED <<lamSave, kap, snapOk, nsnap, ret>>

\* solve_sub_step + termination test
SubStep(success, newLam, poor, errSmall) ==
  /\ pc = "sub"
  /\ lam' = newLam                                   \* np.maximum(lam - kappa*c, 0): classes zero/pos only
  /\ kap' = [j \in Cons |-> IF poor[j] /\ success /\ kap[j] < K THEN kap[j] + 1 ELSE kap[j]]
  /\ IF errSmall
     THEN /\ pc' = "done" /\ nsnap' = nsnap + 1       \* callback(x, p); return x
          /\ snapOk' = (snapOk /\ NonNeg(newLam))
          /\ ret' = [lamNonneg |-> NonNeg(newLam), viaTest |-> TRUE]
          /\ it' = it
     ELSE /\ pc' = "top" /\ it' = it + 1 /\ UNCHANGED <<snapOk, nsnap, ret>>
  /\ UNCHANGED <<lamSave, ls>>

Next ==
  \/ Top \/ Raise
  \/ \E nl \in [Cons -> LamClasses], b \in BOOLEAN : LineSearchTrial(nl, b)
  \/ \E s \in BOOLEAN, nl \in [Cons -> {"zero", "pos"}], p \in [Cons -> BOOLEAN], e \in BOOLEAN :
        SubStep(s, nl, p, e)

Spec == Init /\ [][Next]_vars

\* ------------------------------------------------------------------ contract (property C04)
TypeOK == /\ pc \in {"top", "ls", "sub", "done", "raised"} /\ it \in 0..MaxAl /\ ls \in 0..MaxLS
          /\ \A j \in Cons : kap[j] \in 0..K
\* after every outer iteration (= at every callback) the multipliers are non-negative ...
LamNonnegAtSnapshots == ~NewtonOnly => snapOk
\* ... and no penalty parameter has decreased
KappaMonotone == [][\A j \in Cons : kap'[j] >= kap[j]]_vars
\* a normal return happens only through the termination test, with non-negative multipliers
ReturnIsHonest == ret # None => (ret.viaTest /\ ret.lamNonneg)
\* Newton-only mode can never return normally
NewtonOnlyNeverReturns == NewtonOnly => pc # "done"

\* sanity / non-vacuity: multipliers DO go negative inside an iteration (expected to be violated)
NeverNegativeInside == NonNeg(lam)
=============================================================================
