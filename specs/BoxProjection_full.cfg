SPECIFICATION Spec
CONSTANTS
  N = 2
  TRMode = "full"
  EmitMode = "none"
INVARIANT ProjInBox
INVARIANT ProjClosest
INVARIANT ProjIdempotent
INVARIANT ProjFixesFeasible
INVARIANT TrSatisfiable
CHECK_DEADLOCK FALSE
