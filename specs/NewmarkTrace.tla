---------------------------- MODULE NewmarkTrace ----------------------------
(* Trace validation for Newmark.tla (property C15).  Each line of              *)
(* IOEnv.TRACE_FILE is one execution of the REAL optimism dynamics functions   *)
(* (Mechanics.create_dynamics_functions: predict, compute_algorithmic_energy,  *)
(* correct, compute_output_kinetic_energy, compute_output_strain_energy,       *)
(* compute_element_masses) on a real mesh:                                     *)
(*   {"id": n, "kind": "modal" | "field", "par": [[bn,bd],[gn,gd]], "k": 0|1,  *)
(*    "u0": int, "v0": int, "linear": bool, "rigid": bool,                     *)
(*    "ev": [ {"op":"Mass","sumM":c,"sumEl":c},                                *)
(*            {"op":"Predict","dt":[n,d],"cup":c,"cvp":c},                     *)
(*            {"op":"Minimise","conv":bool,"cum":c},                           *)
(*            {"op":"Correct","ref":[[n,d],[n,d],[n,d]],"cu":c,"cv":c,"ca":c,  *)
(*             "onMode":bool,"bal":c,"fu":c,"fv":c,"en":c,"ff":c} ... ]}       *)
(* c is a comparison code "LT" | "EQ" | "GT" | "NE" | "NA" computed by the     *)
(* harness under the rounding allowance stated in checks/c15.py.               *)
(*                                                                             *)
(* "modal" traces are replays of behaviours of NewmarkGen.tla: the field is    *)
(* amplitude * eigenmode, the spec state is advanced by the spec's own actions *)
(* Predict / Minimise / Correct with the logged step size and the observed     *)
(* modal amplitudes are judged against it.  "field" traces are general fields  *)
(* (the exact part of the spec idles at zero); only the protocol and the       *)
(* observation registers are judged.                                           *)
(* Verdicts are total: a failing clause is recorded as <<id, event, clause>>   *)
(* and validation continues.                                                   *)
EXTENDS Newmark, Json, IOUtils

Traces == ndJsonDeserialize(IOEnv.TRACE_FILE)
NT == Len(Traces)

VARIABLES tid, l, viol, convOK
tvars == <<vars, tid, l, viol, convOK>>

Hdr(t) == Traces[t]

EnabledOp(e) ==
  CASE e.op = "Mass"     -> phase = "idle" /\ ~massSeen
    [] e.op = "Predict"  -> phase = "idle"
    [] e.op = "Minimise" -> phase = "predicted"
    [] e.op = "Correct"  -> phase = "minimised"
    [] OTHER             -> FALSE

Apply(e) ==
  CASE e.op = "Mass"     -> ObserveMass
    [] e.op = "Predict"  -> Predict(e.dt)
    [] e.op = "Minimise" -> Minimise
    [] e.op = "Correct"  -> Correct

Ok(c) == c = "EQ"

\* ---- clauses.  Contract clauses are literal readings of property C15; "drift_" clauses compare
\* ---- with the mechanism (intermediate values of the exact model; exact rigid translation for
\* ---- parameter sets / materials the statement does not mention) and never raise a violation;
\* ---- "oracle_binding" / "protocol" guard the harness itself (machinery errors).
Clauses(h, e) ==
  LET modal == h.kind = "modal"
      trapLin == h.par = Trapezoidal /\ h.linear
  IN
  CASE e.op = "Mass" ->
         [ mass_sum      |-> Ok(e.sumM),
           mass_elements |-> Ok(e.sumEl) ]
    [] e.op = "Predict" ->
         [ drift_pred_u  |-> modal => Ok(e.cup),
           drift_pred_v  |-> modal => Ok(e.cvp) ]
    [] e.op = "Minimise" ->
         [ drift_min_u   |-> (modal /\ e.conv) => Ok(e.cum) ]
    [] e.op = "Correct" ->
         [ balance        |-> convOK => Ok(e.bal),
           formula_u      |-> convOK => Ok(e.fu),
           formula_v      |-> convOK => Ok(e.fv),
           energy         |-> (convOK /\ trapLin) => Ok(e.en),
           free_flight    |-> (convOK /\ trapLin /\ h.rigid) => Ok(e.ff),
           modal_u        |-> (convOK /\ modal) => (Ok(e.cu) /\ e.onMode),
           modal_v        |-> (convOK /\ modal) => (Ok(e.cv) /\ e.onMode),
           modal_a        |-> (convOK /\ modal) => (Ok(e.ca) /\ e.onMode),
           oracle_binding |-> modal => e.ref = <<u', v', a'>>,
           drift_free_flight |-> (convOK /\ h.rigid /\ ~trapLin) => Ok(e.ff) ]
    [] OTHER -> [ protocol |-> FALSE ]

Reset(t) ==
  IF t <= NT
  THEN LET h == Hdr(t) IN
       /\ par' = h.par /\ k' = R(h.k)
       /\ u' = R(h.u0) /\ v' = R(h.v0) /\ a' = Neg(Mul(R(h.k), R(h.u0)))
       /\ up' = R(h.u0) /\ dt' = One
       /\ old' = <<R(h.u0), R(h.v0), Neg(Mul(R(h.k), R(h.u0)))>>
       /\ phase' = "idle" /\ n' = 0 /\ massSeen' = FALSE
  ELSE UNCHANGED vars

TInit ==
  /\ tid = 1 /\ l = 0 /\ viol = {} /\ convOK = FALSE
  /\ IF NT >= 1
     THEN LET h == Hdr(1) IN InitWith(h.par, h.k, h.u0, h.v0)
     ELSE InitWith(Trapezoidal, 0, 0, 0)

Step ==
  /\ tid <= NT /\ l < Len(Hdr(tid).ev)
  /\ LET e == Hdr(tid).ev[l + 1]
         h == Hdr(tid)
     IN
     /\ l' = l + 1 /\ tid' = tid
     /\ IF EnabledOp(e)
        THEN /\ Apply(e)
             /\ convOK' = IF e.op = "Minimise" THEN e.conv ELSE convOK
             /\ LET cl == Clauses(h, e)
                IN viol' = viol \cup { <<h.id, l + 1, c>> : c \in {c \in DOMAIN cl : ~cl[c]} }
        ELSE /\ UNCHANGED vars /\ convOK' = convOK
             /\ viol' = viol \cup { <<h.id, l + 1, "protocol">> }

NextTrace ==
  /\ tid <= NT /\ l = Len(Hdr(tid).ev)
  /\ tid' = tid + 1 /\ l' = 0 /\ viol' = viol /\ convOK' = FALSE
  /\ Reset(tid + 1)

TNext == Step \/ NextTrace
TSpec == TInit /\ [][TNext]_tvars

Done == tid > NT
Verdict == Done => PrintT(<<"VERDICT", ToJson([n |-> NT, viol |-> viol])>>)
=============================================================================
