----------------------------- MODULE DenseMatFn -----------------------------
(* C12, dense part - LinAlg.sqrtm (Denman-Beavers product form) and           *)
(* LinAlg.logm_iss (inverse scaling and squaring, Pade partial fractions) on  *)
(* general matrices with positive spectrum, n = 2..NMax.                      *)
(* Lattice point = (n, spectrum class, shear pattern):  M = S D S^-1 with     *)
(* D positive integers and S a product of integer shears I + c e_i e_j^T      *)
(* (unimodular: the inverse is the reversed product with -c, exact integers). *)
(* TLC builds S, S^-1, M in exact integer arithmetic and checks the algebra   *)
(* the oracle S f(D) S^-1 relies on; the harness scales M by 2^j (exact).     *)
EXTENDS Integers, Sequences, TLC

CONSTANTS Sizes, Spectra, Shears
VARIABLE pt
vars == <<pt>>

IdN(n)        == [i \in 1..n |-> [j \in 1..n |-> IF i = j THEN 1 ELSE 0]]
DiagN(n, d)   == [i \in 1..n |-> [j \in 1..n |-> IF i = j THEN d[i] ELSE 0]]
RECURSIVE Dot(_, _, _, _, _)
Dot(A, B, i, j, k) == IF k = 0 THEN 0 ELSE A[i][k] * B[k][j] + Dot(A, B, i, j, k - 1)
\* TLCEval: function constructors are lazy in TLC; force each product to a value once
MulN(n, A, B) == TLCEval([i \in 1..n |-> [j \in 1..n |-> Dot(A, B, i, j, n)]])
RECURSIVE SumD(_, _)
SumD(d, k) == IF k = 0 THEN 0 ELSE d[k] + SumD(d, k - 1)
RECURSIVE TrN(_, _)
TrN(A, k) == IF k = 0 THEN 0 ELSE A[k][k] + TrN(A, k - 1)
RECURSIVE Pow4(_)
Pow4(k) == IF k = 0 THEN 1 ELSE 4 * Pow4(k - 1)
RECURSIVE Pow2(_)
Pow2(k) == IF k = 0 THEN 1 ELSE 2 * Pow2(k - 1)

\* spectrum classes (all positive)
SpecOf(n, c) ==
  CASE c = "distinct" -> [k \in 1..n |-> k]
    [] c = "equal"    -> [k \in 1..n |-> 2]
    [] c = "pairs"    -> [k \in 1..n |-> (k + 1) \div 2]
    [] c = "wide"     -> [k \in 1..n |-> Pow4((k - 1) % 5)]          \* 1,4,16,64,256,1,...: exact square roots
RootOf(n, c) == [k \in 1..n |-> Pow2((k - 1) % 5)]

\* shear patterns, as closed forms of the products of elementary shears I + c e_i e_j^T (TLC evaluates operator
\* arguments lazily, so long recursive products are avoided; InverseOK checks every closed form):
\*  chain : E(1,2,1) E(2,3,1) .. E(n-1,n,1) = unit upper triangular of ones; inverse = I - superdiagonal
\*  fan   : prod_j E(1,j,c_j) = I + sum_j c_j e_1 e_j^T ;             inverse = I - sum_j c_j e_1 e_j^T
\*  lower : transpose of chain
\*  mixed : lower * fan  (a full, non-triangular S)
FanC(j)     == IF j % 3 = 0 THEN 2 ELSE IF j % 3 = 1 THEN 1 ELSE -1
Chain(n)    == [i \in 1..n |-> [j \in 1..n |-> IF j >= i THEN 1 ELSE 0]]
ChainInv(n) == [i \in 1..n |-> [j \in 1..n |-> IF j = i THEN 1 ELSE IF j = i + 1 THEN -1 ELSE 0]]
Fan(n)      == [i \in 1..n |-> [j \in 1..n |-> IF j = i THEN 1 ELSE IF i = 1 THEN FanC(j) ELSE 0]]
FanInv(n)   == [i \in 1..n |-> [j \in 1..n |-> IF j = i THEN 1 ELSE IF i = 1 THEN -FanC(j) ELSE 0]]
TrM(n, A)   == [i \in 1..n |-> [j \in 1..n |-> A[j][i]]]
ShearOf(n, p) ==
  CASE p = "none"  -> [s |-> IdN(n), si |-> IdN(n)]
    [] p = "chain" -> [s |-> Chain(n), si |-> ChainInv(n)]
    [] p = "fan"   -> [s |-> Fan(n), si |-> FanInv(n)]
    [] p = "mixed" -> [s |-> MulN(n, TrM(n, Chain(n)), Fan(n)), si |-> MulN(n, FanInv(n), TrM(n, ChainInv(n)))]

Point(n, c, p) ==
  LET sh  == ShearOf(n, p)
      S   == sh.s
      Si  == sh.si
      d   == SpecOf(n, c)
  IN [n |-> n, spec |-> c, shear |-> p, S |-> S, Sinv |-> Si, D |-> d,
      M |-> MulN(n, MulN(n, S, DiagN(n, d)), Si)]

None == [n |-> 0]
Init == pt = None
Pick == pt = None /\ \E n \in Sizes, c \in Spectra, p \in Shears : pt' = Point(n, c, p)
Next == Pick
Spec == Init /\ [][Next]_vars

Is == pt.n > 0
InverseOK    == Is => MulN(pt.n, pt.S, pt.Sinv) = IdN(pt.n) /\ MulN(pt.n, pt.Sinv, pt.S) = IdN(pt.n)
SimilarityOK == Is => MulN(pt.n, pt.M, pt.S) = MulN(pt.n, pt.S, DiagN(pt.n, pt.D))   \* columns of S are eigenvectors
PositiveOK   == Is => \A k \in 1..pt.n : pt.D[k] > 0
TraceOK      == Is => TrN(pt.M, pt.n) = SumD(pt.D, pt.n)
\* S sqrt(D) S^-1 squared is M (checked where the roots are integers)
RootOK       == Is /\ pt.spec = "wide" =>
                  LET X == MulN(pt.n, MulN(pt.n, pt.S, DiagN(pt.n, RootOf(pt.n, pt.spec))), pt.Sinv)
                  IN MulN(pt.n, X, X) = pt.M
TypeOK == pt.n = 0 \/ pt.n \in Sizes
=============================================================================
