SPECIFICATION Spec
CONSTANTS
  N = 32
  Brackets <- BracketsK5
  TolSettings <- TolsQ
  FVals <- F124
  DVals <- D2
  MaxIters = 14
  Degenerate = TRUE
  StopOnExactRoot = TRUE
INVARIANT TypeOK
INVARIANT Contract
INVARIANT RootInBracket
INVARIANT Oriented
INVARIANT ConvergedMeansTolerance
INVARIANT NaNOnlyWhenUnbracketed
INVARIANT ItersBounded
PROPERTY WidthShrinks
PROPERTY CallFixed
VIEW DesignView
CHECK_DEADLOCK FALSE
