------------------------------ MODULE VTKWriter ------------------------------
(***************************************************************************)
(* Abstract model of optimism.VTKWriter.VTKWriter (property C20).          *)
(*                                                                         *)
(* The writer is a stateful object: nodal and cell field dictionaries      *)
(* (insertion ordered, re-adding a name replaces in place), a list of      *)
(* marker spheres, a table of contact edges.  write() must emit a          *)
(* legacy-VTK unstructured grid that is a FUNCTION OF THAT STATE ONLY and  *)
(* must leave the state unchanged.  One action per public call.            *)
(*                                                                         *)
(* Mesh constants: NOut = number of points written for the mesh            *)
(* (all nodes for degree 2, vertex nodes otherwise), NEl = elements,       *)
(* NPE = nodes per written element (6 for degree 2, else 3).               *)
(***************************************************************************)
EXTENDS Naturals, Sequences, FiniteSets, TLC

CONSTANTS Meshes,         \* set of [nOut, nEl, npe] records explored by the design run
          Names,          \* field names usable for nodal / cell fields
          Kinds,          \* {"S","V","T"}
          DTypes,         \* subset of VTK data type names
          OkNodal, OkCell, \* which 'shape accepted' outcomes are explored (a wrong-shaped field is skipped with a warning)
          MaxSpheres, MaxEdgeRows, EdgeBatches

VARIABLES mesh,    \* [nOut |-> .., nEl |-> .., npe |-> ..] fixed at construction
          nodal,   \* Seq of [name, kind, dtype]  (insertion order = dict order)
          cell,    \* same for cell fields
          nS,      \* number of marker spheres
          nE,      \* number of contact edge rows
          lastFile \* abstract record of the most recent file, or NoFile

vars == <<mesh, nodal, cell, nS, nE, lastFile>>

NoFile == [none |-> TRUE]

\* ---- python-dict semantics: assign to key keeps position of an existing key
Put(seq, rec) ==
  IF \E i \in 1..Len(seq) : seq[i].name = rec.name
  THEN [i \in 1..Len(seq) |-> IF seq[i].name = rec.name THEN rec ELSE seq[i]]
  ELSE Append(seq, rec)

RowsPer(kind) == IF kind = "T" THEN 3 ELSE 1      \* text lines per entity

\* ---- the file as a function of the writer state (what a correct write() produces)
NOut == mesh.nOut
NEl  == mesh.nEl
NPE  == mesh.npe
Points == NOut + nS
Cells  == NEl + nE

ArrayRec(f, entities) == [name |-> f.name, kind |-> f.kind, dtype |-> f.dtype,
                          lines |-> entities * RowsPer(f.kind)]

SphereArr == [name |-> "sphere_radius", kind |-> "S", dtype |-> "double", lines |-> Points]

NodalArrays ==
  LET user == [i \in 1..Len(nodal) |-> ArrayRec(nodal[i], Points)]
  IN IF nS > 0 THEN Append(user, SphereArr) ELSE user

CellArrays == [i \in 1..Len(cell) |-> ArrayRec(cell[i], Cells)]

FileOf ==
  [ pointsDecl  |-> Points,  pointLines |-> Points,
    cellsDecl   |-> Cells,   cellLines  |-> Cells,
    intsDecl    |-> NEl * (NPE + 1) + 3 * nE,
    intsWritten |-> NEl * (NPE + 1) + 3 * nE,
    typesDecl   |-> Cells,   typeLines  |-> Cells,
    pdPresent   |-> (Len(nodal) > 0 \/ nS > 0),
    pdDecl      |-> IF (Len(nodal) > 0 \/ nS > 0) THEN Points ELSE 0,
    nodalArrays |-> IF (Len(nodal) > 0 \/ nS > 0) THEN NodalArrays ELSE <<>>,
    cdPresent   |-> Len(cell) > 0,
    cdDecl      |-> IF Len(cell) > 0 THEN Cells ELSE 0,
    cellArrays  |-> CellArrays ]

\* ---- structural validity of a file record (property C20, clause 1)
WellFormed(f) ==
  /\ f.pointsDecl = f.pointLines
  /\ f.cellsDecl = f.cellLines
  /\ f.intsDecl = f.intsWritten
  /\ f.typesDecl = f.cellsDecl /\ f.typeLines = f.cellLines
  /\ f.pdPresent => /\ f.pdDecl = f.pointLines
                    /\ \A i \in 1..Len(f.nodalArrays) :
                         f.nodalArrays[i].lines = f.pointLines * RowsPer(f.nodalArrays[i].kind)
  /\ f.cdPresent => /\ f.cdDecl = f.cellLines
                    /\ \A i \in 1..Len(f.cellArrays) :
                         f.cellArrays[i].lines = f.cellLines * RowsPer(f.cellArrays[i].kind)
  /\ \A i, j \in 1..Len(f.nodalArrays) : i # j => f.nodalArrays[i].name # f.nodalArrays[j].name
  /\ \A i, j \in 1..Len(f.cellArrays) : i # j => f.cellArrays[i].name # f.cellArrays[j].name

\* ---- actions: one per public call
Init == mesh \in Meshes /\ nodal = <<>> /\ cell = <<>> /\ nS = 0 /\ nE = 0 /\ lastFile = NoFile

AddNodal(n, k, d, ok) ==
  /\ nodal' = IF ok THEN Put(nodal, [name |-> n, kind |-> k, dtype |-> d]) ELSE nodal
  /\ UNCHANGED <<mesh, cell, nS, nE>> /\ lastFile' = NoFile

AddCell(n, k, d, ok) ==
  /\ cell' = IF ok THEN Put(cell, [name |-> n, kind |-> k, dtype |-> d]) ELSE cell
  /\ UNCHANGED <<mesh, nodal, nS, nE>> /\ lastFile' = NoFile

AddSphere ==
  /\ nS < MaxSpheres /\ nS' = nS + 1
  /\ UNCHANGED <<mesh, nodal, cell, nE>> /\ lastFile' = NoFile

AddEdges(k) ==
  /\ nE + k <= MaxEdgeRows /\ nE' = nE + k
  /\ UNCHANGED <<mesh, nodal, cell, nS>> /\ lastFile' = NoFile

Write ==
  /\ lastFile' = FileOf
  /\ UNCHANGED <<mesh, nodal, cell, nS, nE>>       \* writing never changes the writer

Next ==
  \/ \E n \in Names, k \in Kinds, d \in DTypes, ok \in OkNodal : AddNodal(n, k, d, ok)
  \/ \E n \in Names, k \in Kinds, d \in DTypes, ok \in OkCell : AddCell(n, k, d, ok)
  \/ AddSphere
  \/ \E k \in EdgeBatches : AddEdges(k)
  \/ Write

Spec == Init /\ [][Next]_vars

\* ---- properties
TypeOK ==
  /\ nS \in 0..MaxSpheres /\ nE \in 0..MaxEdgeRows
  /\ \A i \in 1..Len(nodal) : nodal[i].name \in Names
  /\ \A i \in 1..Len(cell) : cell[i].name \in Names

EveryFileWellFormed == lastFile # NoFile => WellFormed(lastFile)

\* consecutive writes with no add in between give the same file
Idempotent == [][(lastFile # NoFile /\ Write) => lastFile' = lastFile]_vars

\* the file only depends on the writer state
FileIsFunctionOfState == lastFile # NoFile => lastFile = FileOf
=============================================================================
