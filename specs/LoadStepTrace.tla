----------------------------- MODULE LoadStepTrace -----------------------------
(* Trace validation for load stepping (C19).  One trace = one history of load steps on real drivers.  *)
(* {"id":n,"ev":[                                                                                    *)
(*   {"e":"Step","drv":"TR|SPG|AL|BAL","warm":b,"upd":b,"ops":[...],"pIsNew":b,"jvpAtOld":b,         *)
(*    "ws":"EQ|NE|NA","lands":"EQ|NE|NA","startIsX0":b,"ret":"flagTrue|flagFalse|normal|raised",     *)
(*    "gSmallNew":b},                                                                                *)
(*   {"e":"Direct","index":0|2,"ws":"EQ|NE","lands":"EQ|NE|NA"},      warm_start_increment called directly *)
(*   {"e":"Scaled","agree":"EQ|NE","flagS":b,"flagU":b} ]}            ScaledObjective vs Objective         *)
EXTENDS Integers, Sequences, TLC, LoadStepRules, Json, IOUtils

Traces == ndJsonDeserialize(IOEnv.TRACE_FILE)
NT == Len(Traces)
VARIABLES tid, l, viol
tvars == <<tid, l, viol>>

Clauses(t, i) ==
  LET e == Traces[t].ev[i] IN
  [ params_installed |-> (e.e = "Step" /\ e.ret # "raised") => e.pIsNew,
    flag_refers_to_new_params |-> (e.e = "Step" /\ e.ret \in {"flagTrue", "normal"}) => e.gSmallNew,
    warm_start_is_linear_predictor |-> (e.e \in {"Step", "Direct"}) => e.ws \in {"EQ", "NA"},
    warm_start_lands_for_quadratic |-> (e.e \in {"Step", "Direct"}) => e.lands \in {"EQ", "NA"},
    scaling_transparent |-> (e.e = "Scaled") => (e.agree = "EQ" /\ e.flagS = e.flagU),
    drift_ops   |-> (e.e = "Step" /\ e.ret # "raised") => e.ops = ExpectedOps(e.drv, e.warm, e.upd),
    drift_jvp_at_old |-> (e.e = "Step" /\ e.warm) => e.jvpAtOld,
    drift_cold_start |-> (e.e = "Step" /\ ~e.warm) => e.startIsX0 ]
ClauseNames == {"params_installed", "flag_refers_to_new_params", "warm_start_is_linear_predictor",
                "warm_start_lands_for_quadratic", "scaling_transparent", "drift_ops", "drift_jvp_at_old",
                "drift_cold_start"}

TInit == tid = 1 /\ l = 0 /\ viol = {}
Step == /\ tid <= NT /\ l < Len(Traces[tid].ev)
        /\ l' = l + 1 /\ tid' = tid
        /\ LET cl == Clauses(tid, l + 1)
           IN viol' = viol \cup { <<Traces[tid].id, l + 1, c>> : c \in {c \in ClauseNames : ~cl[c]} }
NextTrace == /\ tid <= NT /\ l = Len(Traces[tid].ev) /\ tid' = tid + 1 /\ l' = 0 /\ viol' = viol
TSpec == TInit /\ [][Step \/ NextTrace]_tvars
Done == tid > NT
Verdict == Done => PrintT(<<"VERDICT", ToJson([n |-> NT, viol |-> viol])>>)
=============================================================================
