---------------------------- MODULE RayTraceTrace ----------------------------
(* One line per lattice query evaluated on the REAL functions:
   {"id":n,"kind":"single","den":..,"tn":..,"un":..,"valid":b,"end":b (all from TLC, exact),
        "ct":code,"cu":code (real t,u against tn/den, un/den: "EQ"/"NE"), "inf":b (valid-distance is +inf), "cs": code (smoothed
        distance against u + (overshoot of t)^2/2)}
   {"id":n,"kind":"select","cands":[{"valid":"yes|no|end","num":un,"den":d,"self":b}...],"best":k (0-based, real get_best_neighbor)} *)
EXTENDS Integers, Sequences, FiniteSets, TLC, Json, IOUtils
Traces == ndJsonDeserialize(IOEnv.TRACE_FILE)
NT == Len(Traces)
VARIABLES tid, viol
Sgn(x) == IF x > 0 THEN 1 ELSE IF x < 0 THEN 0 - 1 ELSE 0
\* a/b < c/d for nonzero b, d
Less(a, b, c, d) == a * d * Sgn(b) * Sgn(d) < c * b * Sgn(b) * Sgn(d)
Usable(c) == c.valid = "yes" /\ ~c.self          \* hit strictly inside the span
MayBeUsed(c) == c.valid # "no" /\ ~c.self       \* ... or exactly on an end point (either outcome after rounding)
Clauses(t) ==
  LET tr == Traces[t] IN
  IF tr.kind = "single"
  THEN [ hit_parameters   |-> tr.ct = "EQ" /\ tr.cu = "EQ",
         \* a hit exactly on an end point of the segment (t = 0 or 1) may fall on either side after rounding
         invalid_is_inf   |-> tr.end \/ (tr.inf = ~tr.valid),
         smoothing        |-> tr.cs = "EQ",
         selects_nearest  |-> TRUE ]
  ELSE LET n == Len(tr.cands)  b == tr.best + 1 IN
       [ hit_parameters |-> TRUE, invalid_is_inf |-> TRUE, smoothing |-> TRUE,
         \* if any edge is hit on its span, the chosen one is hit and no other usable edge is strictly nearer along the ray
         selects_nearest |-> (\E i \in 1..n : Usable(tr.cands[i])) =>
                               /\ b \in 1..n /\ MayBeUsed(tr.cands[b])
                               /\ \A i \in 1..n : Usable(tr.cands[i]) =>
                                     ~Less(tr.cands[i].num, tr.cands[i].den, tr.cands[b].num, tr.cands[b].den) ]
ClauseNames == {"hit_parameters", "invalid_is_inf", "smoothing", "selects_nearest"}
TInit == tid = 1 /\ viol = {}
Step == /\ tid <= NT /\ tid' = tid + 1
        /\ LET cl == Clauses(tid) IN viol' = viol \cup { <<Traces[tid].id, 1, c>> : c \in {c \in ClauseNames : ~cl[c]} }
TSpec == TInit /\ [][Step]_<<tid, viol>>
Done == tid > NT
Verdict == Done => PrintT(<<"VERDICT", ToJson([n |-> NT, viol |-> viol])>>)
=============================================================================
