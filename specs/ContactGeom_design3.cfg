SPECIFICATION Spec
CONSTANTS
  N = 3
  NG = 1
  M = 4
  PhiMax = 3
  NSamp = 3
  Kinds = {"cpp"}
VIEW View
INVARIANT TypeOK
INVARIANT ClosestPointIsNearest
INVARIANT SignedDistanceMagnitude
INVARIANT SignedDistanceSide
INVARIANT OverlapIsCommonShadow
INVARIANT DisjointVanish
INVARIANT MeasureNonNegative
INVARIANT ParallelExact
INVARIANT ChainPartition
INVARIANT PenaltySign
INVARIANT LevelsetSign
PROPERTY RigidInvariance
PROPERTY MirrorInvariance
PROPERTY ChainInvariance
PROPERTY PenaltyMonotone
CHECK_DEADLOCK FALSE
