------------------------------- MODULE CompSum -------------------------------
(* EXTENSION X14 (not a listed property): optimism.Math -- the error-free transformations _two_sum, _float_split,           *)
(* _two_product and the compensated scans sum2 / dot2 (Ogita, Rump, Oishi) built from them.                                  *)
(*                                                                                                                          *)
(* Floating point is modelled EXACTLY for a toy binary format: significands of P bits, exponents >= 0 (so every value is an *)
(* integer m * 2^e with |m| < 2^P and there is neither underflow nor overflow), round to nearest, ties to even.  Fl(n) is    *)
(* the rounding of the integer n.  Every arithmetic operation of the code is one Fl(..) of an exact integer result.          *)
(*                                                                                                                          *)
(* Design claims checked by TLC for EVERY pair of toy floats up to MaxIn:                                                   *)
(*   TwoSumExact      x + y = a + b and x = Fl(a + b)                                                                        *)
(*   SplitExact       hi + lo = a, hi has at most P - S significant bits, lo at most S - 1 (with sign)                       *)
(*   TwoProductExact  x + y = a * b and x = Fl(a * b)                                                                        *)
(* where S = ceil(P/2) and the split factor is the CONSTANT SplitFactor.  The Veltkamp factor is 2^S + 1.  The library      *)
(* writes `1<<_SPLIT_S + 1`, which Python parses as 1 << (S + 1) = 2^(S+1): CompSumPrec.cfg instantiates that reading and   *)
(* TLC REFUTES TwoProductExact for it (the counterexample is the design-level image of finding F35).                        *)
(*                                                                                                                          *)
(* The scans are a state machine: one Add action per element (one lax.scan iteration), state (p, sigma) as in the code plus  *)
(* history variables exact (the exact sum so far), comp (the exact sum of all discarded-and-recovered error terms) and        *)
(* absSum.  Invariants: EFTChain  p + comp = exact (nothing is ever lost, only moved into comp), and ResultBound, the        *)
(* a-priori bound of the reference |res - s| <= u|s| + gamma_n^2 * absSum with u = 2^-P, gamma_n = n u / (1 - n u).          *)
EXTENDS ToyFloat, Sequences, FiniteSets, TLC, Json
CONSTANTS SumBound, DotMags, Depth, EmitMode
DotSet == DotMags \cup { -m : m \in DotMags }
VARIABLES mode, k, p, sigma, exact, comp, absSum, hist
vars == <<mode, k, p, sigma, exact, comp, absSum, hist>>
Init == /\ mode \in {"sum", "dot"} /\ k = 0 /\ p = 0 /\ sigma = 0 /\ exact = 0 /\ comp = 0 /\ absSum = 0 /\ hist = <<>>
AddSum(a) == LET t == TwoSum(p, a) IN
  /\ mode = "sum" /\ p' = t[1] /\ sigma' = Fl(sigma + t[2])
  /\ exact' = exact + a /\ comp' = comp + t[2] /\ absSum' = absSum + Abs(a) /\ hist' = Append(hist, <<a, 1>>)
AddDot(a, b) == LET hr == TwoProduct(a, b)
                    t == TwoSum(p, hr[1]) IN
  /\ mode = "dot" /\ p' = t[1] /\ sigma' = Fl(sigma + Fl(t[2] + hr[2]))
  /\ exact' = exact + a * b /\ comp' = comp + t[2] + hr[2] /\ absSum' = absSum + Abs(a * b) /\ hist' = Append(hist, <<a, b>>)
Next == /\ k < Depth /\ k' = k + 1 /\ UNCHANGED mode
        /\ \/ \E a \in Floats(SumBound) : AddSum(a)
           \/ \E a \in DotSet, b \in DotSet : AddDot(a, b)
Spec == Init /\ [][Next]_vars
Result == Fl(p + sigma)
EFTChain == p + comp = exact
\* |res - s| * 2^P * (2^P - n)^2 <= |s| (2^P - n)^2 + 2^P n^2 absSum       (u = 2^-P, gamma_n = n / (2^P - n))
ResultBound == LET n == IF mode = "dot" THEN k ELSE k IN
  Abs(Result - exact) * TwoP * (TwoP - n) * (TwoP - n) <= Abs(exact) * (TwoP - n) * (TwoP - n) + TwoP * n * n * absSum
\* a well-conditioned sum is returned correctly rounded-or-neighbour: when nothing cancels the answer is within one rounding
FaithfulWhenPositive == (absSum = Abs(exact) /\ k <= 3) => Abs(Result - exact) * TwoP <= 2 * Abs(exact)
View == <<mode, k, p, sigma, exact, comp, absSum>>
Emit == (EmitMode = "all" /\ k = Depth) => PrintT(<<"BEH", ToJson([mode |-> mode, hist |-> hist, res |-> Result, exact |-> exact])>>)
=============================================================================
