------------------------------- MODULE LoadStep -------------------------------
(***************************************************************************)
(* Load stepping protocol shared by the four drivers (property C19):       *)
(*   nonlinear_equation_solve, TrustRegionSPG.solve,                       *)
(*   augmented_lagrange_solve, bound_constrained_solve.                    *)
(* Each load step is                                                        *)
(*   [RefreshBefore]  (warm start and updatePrecond)                       *)
(*   [WarmStart]      increment computed WITH THE OLD PARAMETERS INSTALLED  *)
(*   Install          objective.p = p_new                                   *)
(*   [Refresh]        (updatePrecond)                                       *)
(*   Solve            the flag refers to whatever parameters are installed  *)
(* plus an exact 1-D model  E = k x^2/2 - p x  (rationals as <<num,den>>)   *)
(* fixing the sign convention of the predictor: x_old + dx = p_new / k.    *)
(***************************************************************************)
EXTENDS Integers, Sequences, TLC, LoadStepRules

CONSTANTS Drivers, Ks, Ps, MaxSteps

VARIABLES pc,       \* "idle" | "begin" | "warmed" | "installed" | "refreshed" | "solved"
          drv, warm, upd,
          k,        \* stiffness of the 1-D model (fixed per history)
          pInst,    \* parameter value installed on the objective
          pReq,     \* parameter value the current step was asked to solve for
          x,        \* current point <<num, den>>
          flagFor,  \* parameter value the last success flag referred to
          jvpAt,    \* parameter value installed when the warm-start jvp was taken (or "none")
          steps,    \* load steps finished
          ops       \* ordered operations of the current step
vars == <<pc, drv, warm, upd, k, pInst, pReq, x, flagFor, jvpAt, steps, ops>>

PsDef == -2..2
PsSmall == {-1, 0, 2}
Rat(n, d) == <<n, d>>
RatEq(a, b) == a[1] * b[2] = b[1] * a[2]

Init ==
  /\ pc = "idle" /\ k \in Ks /\ pInst \in Ps /\ pReq = pInst /\ x = Rat(pInst, k)
  /\ flagFor = pInst /\ jvpAt = "none" /\ steps = 0 /\ ops = <<>>
  /\ drv \in Drivers /\ warm \in BOOLEAN /\ upd \in BOOLEAN

Begin(d, w, u, p) ==
  /\ pc = "idle" /\ steps < MaxSteps
  /\ drv' = d /\ warm' = w /\ upd' = u /\ pReq' = p /\ pc' = "begin" /\ ops' = <<>> /\ jvpAt' = "none"
  /\ UNCHANGED <<k, pInst, x, flagFor, steps>>

\* warm_start_increment: dp = p_old - p_new ; b = (dg/dp) dp = -(p_old - p_new) ; dx = b / k
WarmStart ==
  /\ pc = "begin" /\ warm
  /\ jvpAt' = pInst
  /\ LET b == -(pInst - pReq) IN x' = Rat(x[1] * k + b * x[2], x[2] * k)      \* x + b/k
  /\ ops' = ops \o (IF upd THEN <<"refresh", "jvp">> ELSE <<"jvp">>)
  /\ pc' = "warmed" /\ UNCHANGED <<drv, warm, upd, k, pInst, pReq, flagFor, steps>>

Install ==
  /\ (pc = "warmed" \/ (pc = "begin" /\ ~warm))
  /\ pInst' = pReq /\ ops' = Append(ops, "install") /\ pc' = "installed"
  /\ UNCHANGED <<drv, warm, upd, k, pReq, x, flagFor, jvpAt, steps>>

Refresh ==
  /\ pc = "installed"
  /\ ops' = IF upd THEN Append(ops, "refresh") ELSE ops
  /\ pc' = "refreshed" /\ UNCHANGED <<drv, warm, upd, k, pInst, pReq, x, flagFor, jvpAt, steps>>

\* bound_constrained_solve hands over to augmented_lagrange_solve(useWarmStart=False), which assigns p again
Reinstall ==
  /\ pc = "refreshed" /\ drv = "BAL"
  /\ pInst' = pReq /\ ops' = Append(ops, "install") /\ pc' = "reinstalled"
  /\ UNCHANGED <<drv, warm, upd, k, pReq, x, flagFor, jvpAt, steps>>

Solve ==
  /\ (pc = "reinstalled" \/ (pc = "refreshed" /\ drv # "BAL"))
  /\ x' = Rat(pInst, k) /\ flagFor' = pInst /\ ops' = Append(ops, "solve") /\ pc' = "solved"
  /\ UNCHANGED <<drv, warm, upd, k, pInst, pReq, jvpAt, steps>>

End ==
  /\ pc = "solved" /\ pc' = "idle" /\ steps' = steps + 1
  /\ UNCHANGED <<drv, warm, upd, k, pInst, pReq, x, flagFor, jvpAt, ops>>

Next ==
  \/ \E d \in Drivers, w \in BOOLEAN, u \in BOOLEAN, p \in Ps : Begin(d, w, u, p)
  \/ WarmStart \/ Install \/ Refresh \/ Reinstall \/ Solve \/ End
Spec == Init /\ [][Next]_vars

\* ---- property C19
\* after a load step the objective carries the new parameters and the flag refers to them
AfterStep == pc = "solved" => (pInst = pReq /\ flagFor = pReq)
\* the predictor is exact for quadratic energies: it lands on the new solution
PredictorLands == pc = "warmed" => RatEq(x, Rat(pReq, k))
\* the jvp is taken at the old parameters (before Install)
JvpAtOld == (pc \in {"warmed", "installed", "refreshed", "solved"} /\ warm) => jvpAt # pReq \/ jvpAt = pInst
OpsAsExpected == pc = "solved" => ops = ExpectedOps(drv, warm, upd)
=============================================================================
