SPECIFICATION Spec
CONSTANTS
  N = 16
  Brackets <- BracketsK4
  TolSettings <- TolsAll
  FVals <- F4
  DVals <- D2
  MaxIters = 12
  Degenerate = TRUE
  StopOnExactRoot = TRUE
INVARIANT TypeOK
INVARIANT Contract
INVARIANT RootInBracket
INVARIANT Oriented
INVARIANT ConvergedMeansTolerance
INVARIANT NaNOnlyWhenUnbracketed
INVARIANT ItersBounded
PROPERTY WidthShrinks
PROPERTY CallFixed
VIEW DesignView
CHECK_DEADLOCK FALSE
