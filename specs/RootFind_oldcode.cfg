SPECIFICATION Spec
CONSTANTS
  N = 16
  Brackets <- BracketsOne
  TolSettings <- TolsOne
  FVals <- F1
  DVals <- D01
  MaxIters = 12
  Degenerate = TRUE
  StopOnExactRoot = FALSE
INVARIANT Contract
VIEW DesignView
CHECK_DEADLOCK FALSE
