SPECIFICATION GSpec
CONSTANTS
  M = 2
  MaxAl = 3
  K = 2
  NumLow = 1
  SecondOrder = TRUE
  NewtonOnly = FALSE
  MaxLS = 2
  EmitMode = "all"
VIEW View
INVARIANT TypeOK
INVARIANT Emit
INVARIANT LamNonnegAtSnapshots
INVARIANT ReturnIsHonest
INVARIANT NewtonOnlyNeverReturns
PROPERTY KappaMonotone
CHECK_DEADLOCK FALSE
