--------------------------- MODULE MeshTopologyGen ---------------------------
(* Design-run / behaviour generator wrapper of MeshTopology.tla.  Supplies the      *)
(* constants that cannot be written in a cfg file, carries the operation history    *)
(* (hidden from the fingerprint by VIEW) and prints one record per explored mesh    *)
(* state: the mesh, how it was built and its topological situation.                 *)
EXTENDS MeshTopology, Json

CONSTANTS MaxDepth, EmitMode      \* EmitMode: "meshes" | "none"
VARIABLE hist

SizesSmall == { <<2, 2>>, <<3, 2>>, <<2, 3>> }
SizesMore  == { <<2, 2>>, <<3, 2>>, <<2, 3>>, <<3, 3>> }
\* <<order, interior nodes per element>>: plain and bubble layouts of orders 2 and 3 (and an abstract 4)
ElevSmall == { <<2, 0>>, <<2, 1>>, <<3, 1>>, <<3, 3>> }
ElevMore  == { <<2, 0>>, <<2, 1>>, <<3, 1>>, <<3, 3>>, <<4, 3>>, <<5, 6>> }
ElevMid   == { <<2, 0>>, <<3, 1>>, <<4, 3>> }

GInit == Init /\ hist = <<>>

GNext ==
  \/ \E sz \in StructSizes : Structured(sz[1], sz[2]) /\ hist' = Append(hist, [op |-> "Structured", a |-> <<sz[1], sz[2]>>])
  \/ Ring /\ hist' = Append(hist, [op |-> "Ring", a |-> <<>>])
  \/ \E a, b, c \in 0..(MaxVerts - 1) : Attach(<<a, b, c>>) /\ hist' = Append(hist, [op |-> "Attach", a |-> <<a, b, c>>])
  \/ \E e \in 1..MaxTri : RotateElement(e) /\ hist' = Append(hist, [op |-> "Rotate", a |-> <<e - 1>>])
  \/ Edges /\ UNCHANGED hist
  \/ \E pe \in Elevations : Elevate(pe[1], pe[2]) /\ UNCHANGED hist
  \/ \E bn, nn, sn \in NamesB, es, self \in BOOLEAN : Merge(bn, nn, sn, es, self) /\ UNCHANGED hist
  \/ \E npe \in {3, 6}, nb \in {1, 2}, named \in BOOLEAN, base \in {0, 1} : WriteRead(npe, nb, named, base) /\ UNCHANGED hist

GSpec == GInit /\ [][GNext]_<<vars, hist>>

Bound == Len(hist) <= MaxDepth
View == vars

\* every state TLC evaluates the invariants on reports the action that produced it (coverage of the
\* design run without -coverage, whose cost model does not terminate on nested operators); bare
\* meshes (out = None) are also printed in full: the catalogue for the replay.
LastAct == IF out.kind # "none" THEN out.kind
           ELSE IF hist = <<>> THEN "init" ELSE hist[Len(hist)].op
Emit ==
  /\ EmitMode # "none" => PrintT(<<"ACT", LastAct>>)
  /\ (EmitMode = "meshes" /\ m # Empty /\ out = None) =>
          PrintT(<<"BEH", ToJson([nN |-> m.nN, conns |-> m.conns, ops |-> hist, sit |-> Situation(m.conns)])>>)
=============================================================================
