SPECIFICATION Spec
CONSTANTS
  P = 5
  SplitFactor = 9
  MaxIn = 256
INVARIANT TwoSumExact
INVARIANT SplitExact
INVARIANT TwoProductExact
CHECK_DEADLOCK FALSE
