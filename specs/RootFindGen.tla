---------------------------- MODULE RootFindGen ----------------------------
(* Behaviour generator for RootFind.tla.  Carries the evaluation history     *)
(* (abscissa, value, slope revealed by the environment at every evaluation)  *)
(* and prints one complete behaviour whenever the loop has exited.  The      *)
(* harness installs the revealed values in host-side tables and runs the     *)
(* REAL rtsafe_ against them.                                                *)
EXTENDS RootFind, Sequences, TLC, Json

VARIABLE hist
gvars == <<vars, hist>>

Rec(a) == [a |-> a, x |-> root', F |-> F', DF |-> DF', conv |-> conv']

GInit == Init /\ hist = <<[a |-> "Init", x |-> root, F |-> F, DF |-> DF, conv |-> conv]>>

GNext ==
  \/ Bisect    /\ hist' = Append(hist, Rec("Bisect"))
  \/ Newton    /\ hist' = Append(hist, Rec("Newton"))
  \/ ZeroSlope /\ hist' = Append(hist, Rec("ZeroSlope"))
  \/ NaNStep   /\ hist' = Append(hist, Rec("NaNStep"))
  \/ Stop      /\ hist' = hist

GSpec == GInit /\ [][GNext]_gvars

GView == DesignView

Emit == pc = "done" =>
          PrintT(<<"BEH", ToJson([call |-> [b0 |-> b0, b1 |-> b1, fl |-> fl, fh |-> fh, guess |-> guess,
                                            T |-> T, R |-> R, maxit |-> MaxIters],
                                  evals |-> hist,
                                  res |-> [x |-> Result, conv |-> conv, it |-> i]])>>)
=============================================================================
