SPECIFICATION TSpec
CONSTANTS
  DMin <- NegOne
  DMax = 1
  Gaps = {10}
  K = 1
  KB = 1
INVARIANT Verdict
INVARIANT Orthogonal
INVARIANT Symmetric
INVARIANT TraceOK
INVARIANT SecondOK
INVARIANT DetOK
INVARIANT SquareOK
INVARIANT EigenPairs
INVARIANT CayleyHamilton
INVARIANT DiscNonNeg
INVARIANT DetPlusI
INVARIANT TypeOK
CHECK_DEADLOCK FALSE
