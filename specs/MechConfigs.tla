----------------------------- MODULE MechConfigs -----------------------------
(* The lattice of advertised options of the mechanics / dynamics function factories (property C02,     *)
(* third sentence).  TLC enumerates it (design run) and the trace spec measures which configurations  *)
(* were actually exercised on the real code.                                                          *)
EXTENDS Integers, TLC, Json
Kinds == {"static_single", "static_multi", "newmark"}
Modes == {"plane strain", "axisymmetric"}
Projs == {"none", "p0", "p1"}
Materials == {"neohookean", "j2", "linear"}
\* the multi-block factory documents axisymmetric as not implemented (raises NotImplementedError)
Advertised == { c \in [kind : Kinds, mode : Modes, proj : Projs, mat : Materials] :
                  ~(c.kind = "static_multi" /\ c.mode = "axisymmetric") }
VARIABLE cfg
Init == cfg \in Advertised
Next == UNCHANGED cfg
Spec == Init /\ [][Next]_cfg
Emit == PrintT(<<"BEH", ToJson(cfg)>>)
=============================================================================
