SPECIFICATION Spec
CONSTANTS
  NM = 4
  K = 2
  MaxRank = 3
INVARIANT SelectionIsKNearest
INVARIANT NearestIsListed
CHECK_DEADLOCK FALSE
