SPECIFICATION Spec
CONSTANTS
  P = 5
  SplitFactor = 16
  MaxIn = 256
INVARIANT TwoSumExact
INVARIANT SplitSums
INVARIANT TwoProductExact
CHECK_DEADLOCK FALSE
