SPECIFICATION Spec
CONSTANTS
  P = 6
  SplitFactor = 9
  MaxIn = 512
INVARIANT TwoSumExact
INVARIANT SplitExact
INVARIANT TwoProductExact
CHECK_DEADLOCK FALSE
