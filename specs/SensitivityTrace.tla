--------------------------- MODULE SensitivityTrace ---------------------------
(* Trace validation for differentiable equilibrium solves and the inverse-analysis helpers (C07).     *)
(* {"id":n,"present":[b0..b5],"ev":[                                                                  *)
(*   {"e":"Fwd","k":i}                          forward solve i started                               *)
(*   {"e":"Bwd","k":i,"reinstalled":b,"calls":[slots whose vec_jacobian was called]}                  *)
(*   {"e":"Cot","slot":s,"code":"EQ|NE|none|unexpected"}   cotangent of the whole computation per slot *)
(*   {"e":"Guess","zero":b}                                                                           *)
(*   {"e":"Helper","name":..,"code":"EQ|NE"}    helper vjp vs dense Jacobian transpose                *)
(*   {"e":"Space","code":"EQ|NE"}               adjoint function space vs direct construction         *)
(*   {"e":"Update","slot":s,"ok":b}             param_index_update replaces exactly slot s            *)
(*   {"e":"Raised","what":..} ]}                                                                      *)
EXTENDS Integers, Sequences, TLC, SensitivityRules, Json, IOUtils

Traces == ndJsonDeserialize(IOEnv.TRACE_FILE)
NT == Len(Traces)
VARIABLES tid, l, viol
tvars == <<tid, l, viol>>

Present(t) == { s \in Slots : Traces[t].present[s + 1] }
Ks(t, kind) == LET ev == Traces[t].ev IN [i \in 1..Len(SelectSeq(ev, LAMBDA e : e.e = kind)) |->
                   SelectSeq(ev, LAMBDA e : e.e = kind)[i].k]
Rev(s) == [i \in 1..Len(s) |-> s[Len(s) + 1 - i]]
ToSet(s) == { s[i] : i \in 1..Len(s) }

Clauses(t, i) ==
  LET e == Traces[t].ev[i] IN
  [ derivative_exists    |-> e.e # "Raised",
    cotangent_equals_ift |-> (e.e = "Cot" /\ ExpectedCot(Present(t), e.slot) = "value") => e.code = "EQ",
    absent_slot_has_none |-> (e.e = "Cot" /\ ExpectedCot(Present(t), e.slot) = "none") => e.code = "none",
    guess_cotangent_zero |-> (e.e = "Guess") => e.zero,
    helper_vjp_equals_dense_transpose |-> (e.e = "Helper") => e.code = "EQ",
    adjoint_space_identical |-> (e.e = "Space") => e.code = "EQ",
    param_update_exact_slot |-> (e.e = "Update") => e.ok,
    \* mechanism
    drift_reverse_order  |-> (i = Len(Traces[t].ev)) => Ks(t, "Bwd") = Rev(Ks(t, "Fwd")),
    drift_reinstall      |-> (e.e = "Bwd") => e.reinstalled,
    drift_routing        |-> (e.e = "Bwd") => ToSet(e.calls) = ExpectedCalls(Present(t)) ]
ClauseNames == {"derivative_exists", "cotangent_equals_ift", "absent_slot_has_none", "guess_cotangent_zero",
                "helper_vjp_equals_dense_transpose", "adjoint_space_identical", "param_update_exact_slot",
                "drift_reverse_order", "drift_reinstall", "drift_routing"}

TInit == tid = 1 /\ l = 0 /\ viol = {}
Step == /\ tid <= NT /\ l < Len(Traces[tid].ev)
        /\ l' = l + 1 /\ tid' = tid
        /\ LET cl == Clauses(tid, l + 1)
           IN viol' = viol \cup { <<Traces[tid].id, l + 1, c>> : c \in {c \in ClauseNames : ~cl[c]} }
NextTrace == /\ tid <= NT /\ l = Len(Traces[tid].ev) /\ tid' = tid + 1 /\ l' = 0 /\ viol' = viol
TSpec == TInit /\ [][Step \/ NextTrace]_tvars
Done == tid > NT
Verdict == Done => PrintT(<<"VERDICT", ToJson([n |-> NT, viol |-> viol])>>)
=============================================================================
