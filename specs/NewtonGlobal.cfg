SPECIFICATION Spec
CONSTANTS
  MaxLS = 4
INVARIANT StepIsSufficient
INVARIANT ZeroHasAReason
INVARIANT CutbacksBounded
INVARIANT ExhaustedMeansAllFailed
CHECK_DEADLOCK FALSE
