------------------------------ MODULE SteihaugCG ------------------------------
(***************************************************************************)
(* Model of optimism.EquationSolver.solve_trust_region_minimization        *)
(* (Steihaug-Toint truncated conjugate gradients), property C06, first     *)
(* sentence.  Written like the code: one action per way through the loop   *)
(* body.                                                                   *)
(*                                                                         *)
(*   if r.r < cgTolSquared: return z(=0), z, 'interior', 0   TinyResidual  *)
(*   d = -P r ; cauchyP = d                                  Begin         *)
(*   for i in range(max_cg_iters):                                         *)
(*      curvature <= 0      -> project, 'neg curve', i+1     ProjectedExit *)
(*      zzNp1 > trSize^2    -> project, 'boundary',  i+1     ProjectedExit *)
(*      z = zNp1 ; r.r < tol-> 'interior', i+1               InteriorStep  *)
(*   return 'interior_', i+1   (cap reached)                 InteriorStep  *)
(*                                                                         *)
(* ENVIRONMENT per iteration (the operator, preconditioner, radius):       *)
(*    curv   "pos" | "nonpos"   sign of d.H d                              *)
(*    cross  the TRACKED squared norm of z + alpha d exceeds trSize^2      *)
(*    small  residual below the configured tolerance after the step        *)
(*    dq     change of the model value along the segment taken             *)
(*    tn     TRUE norm class of the new point in the configured norm       *)
(* Model values are ranks relative to q(0) = 0 (only their order matters). *)
(* The norm the solver tracks (zz, by direct dot products or by the        *)
(* recurrences of Gould et al.) is Faithful when it equals the squared     *)
(* norm of z in the configured norm; Root is the root of the boundary      *)
(* quadratic that project_to_boundary_with_coefs takes.  The registered    *)
(* design has Faithful = TRUE, Root = "plus"; the other values are design  *)
(* mutants that TLC must reject (sanity of the invariants).                *)
(***************************************************************************)
EXTENDS Integers, Sequences, TLC

CONSTANTS MaxCG,       \* largest settings.max_cg_iters explored
          Root,        \* "plus" | "minus"
          Faithful     \* BOOLEAN

Modes == {"direct", "recurrence"}       \* use_preconditioned_inner_product_for_cg = False | True
NormClasses == {"zero", "in", "on", "out"}
Exits == {"none", "interior", "neg curve", "boundary", "interior_"}

VARIABLES pc,        \* "start" | "loop" | "done"
          mode,      \* inner-product mode
          cap,       \* settings.max_cg_iters
          i,         \* loop counter (interior steps completed)
          q,         \* rank of the model value at the current z (0 at z = 0)
          qC,        \* rank of the model value at the clipped Cauchy step (end of the first segment)
          nrm,       \* true norm class of the current z
          res,       \* residual of the Newton system at z is below the configured tolerance
          exit,      \* returned step type
          iters,     \* returned iteration count
          cauchyOut  \* "none" | "zero" (the tiny-residual exit returns z twice) | "unclipped" (-P r)
cgvars == <<pc, mode, cap, i, q, qC, nrm, res, exit, iters, cauchyOut>>

Cmp(a, b) == IF a < b THEN "LT" ELSE IF a = b THEN "EQ" ELSE "GT"

Envs == [curv : {"pos", "nonpos"}, cross : BOOLEAN, small : BOOLEAN, dq : {-1, 0, 1}, tn : NormClasses]

Init ==
  /\ pc = "start" /\ mode \in Modes /\ cap \in 1..MaxCG
  /\ i = 0 /\ q = 0 /\ qC = 0 /\ nrm = "zero" /\ res = FALSE
  /\ exit = "none" /\ iters = 0 /\ cauchyOut = "none"

\* ---- iteration 0: r.r < cgTolSquared: return z, z, interiorString, 0
TinyResidual ==
  /\ pc = "start" /\ pc' = "done"
  /\ exit' = "interior" /\ iters' = 0 /\ res' = TRUE /\ cauchyOut' = "zero"
  /\ UNCHANGED <<mode, cap, i, q, qC, nrm>>

Begin ==
  /\ pc = "start" /\ pc' = "loop" /\ cauchyOut' = "unclipped"
  /\ UNCHANGED <<mode, cap, i, q, qC, nrm, res, exit, iters>>

\* ---- what the environment may answer, given how the code chose the segment
\* the segment from z along d: the model strictly decreases on (0, alpha] for positive curvature and on
\* (0, inf) otherwise; the "+" root is >= 0 (0 only if z already has norm trSize, impossible at z = 0);
\* the "-" root is < 0: the model increases for positive curvature, anything can happen otherwise
ProjDq(e) ==
  IF Root = "plus" THEN (IF i = 0 THEN e.dq = -1 ELSE e.dq \in {-1, 0})
  ELSE (IF e.curv = "pos" THEN e.dq = 1 ELSE TRUE)
ProjTn(e) == IF Faithful THEN e.tn = "on" ELSE e.tn \in {"in", "on", "out"}
StepTn(e) == IF Faithful THEN e.tn = "in" ELSE e.tn \in {"in", "out"}      \* "in" = norm <= trSize

GuardExit(e, kind) ==
  /\ pc = "loop" /\ i < cap
  /\ \/ kind = "neg curve" /\ e.curv = "nonpos"
     \/ kind = "boundary" /\ e.curv = "pos" /\ e.cross
DoExit(e, kind) ==
  /\ q' = q + e.dq /\ nrm' = e.tn
  /\ qC' = IF i = 0 THEN q + e.dq ELSE qC         \* at i = 0 the projected point IS the clipped Cauchy step
  /\ exit' = kind /\ iters' = i + 1 /\ pc' = "done"
  /\ UNCHANGED <<mode, cap, i, res, cauchyOut>>
ProjectedExit(e, kind) == GuardExit(e, kind) /\ ProjDq(e) /\ ProjTn(e) /\ DoExit(e, kind)

GuardStep(e) == pc = "loop" /\ i < cap /\ e.curv = "pos" /\ ~e.cross
DoStep(e) ==
  /\ q' = q + e.dq /\ nrm' = e.tn
  /\ qC' = IF i = 0 THEN q + e.dq ELSE qC         \* the unclipped Cauchy step was inside: it is the first iterate
  /\ i' = i + 1
  /\ res' = e.small
  /\ IF e.small THEN /\ exit' = "interior" /\ iters' = i + 1 /\ pc' = "done"
     ELSE IF i + 1 = cap THEN /\ exit' = "interior_" /\ iters' = i + 1 /\ pc' = "done"
     ELSE UNCHANGED <<exit, iters, pc>>
  /\ UNCHANGED <<mode, cap, cauchyOut>>
InteriorStep(e) == GuardStep(e) /\ e.dq = -1 /\ StepTn(e) /\ DoStep(e)

Next ==
  \/ TinyResidual \/ Begin
  \/ \E e \in Envs : ProjectedExit(e, "neg curve") \/ ProjectedExit(e, "boundary") \/ InteriorStep(e)

Spec == Init /\ [][Next]_cgvars

\* ---------------------------------------------------------------- the property, on an observation record
\* (the same predicates judge the spec's own state here and the REAL solver's return in SteihaugCGTrace)
Obs == [exit |-> exit, iters |-> iters, nrm |-> nrm, res |-> res, cmpC |-> Cmp(q, qC), cmp0 |-> Cmp(q, 0)]

InsideTR(o)        == o.exit # "none" => o.nrm # "out"
OnBoundary(o)      == o.exit \in {"neg curve", "boundary"} => o.nrm = "on"
NewtonResidual(o)  == o.exit = "interior" => o.res /\ o.nrm # "out"
BeatsCauchy(o)     == (o.exit # "none" /\ o.iters >= 1) => o.cmpC \in {"LT", "EQ"}
NeverIncreases(o)  == o.cmp0 \in {"LT", "EQ"}

TypeOK ==
  /\ pc \in {"start", "loop", "done"} /\ mode \in Modes /\ cap \in 1..MaxCG /\ i \in 0..cap
  /\ q \in -(MaxCG + 1)..(MaxCG + 1) /\ qC \in -(MaxCG + 1)..(MaxCG + 1)
  /\ nrm \in NormClasses /\ res \in BOOLEAN /\ exit \in Exits /\ iters \in 0..cap
  /\ cauchyOut \in {"none", "zero", "unclipped"}
InvInside         == InsideTR(Obs)
InvOnBoundary     == OnBoundary(Obs)
InvNewtonResidual == NewtonResidual(Obs)
InvBeatsCauchy    == BeatsCauchy(Obs)
InvNeverIncreases == NeverIncreases(Obs)
\* bookkeeping of the return
InvReturn ==
  /\ (pc = "done") = (exit # "none")
  /\ exit = "interior_" => iters = cap /\ ~res
  /\ (exit # "none" /\ iters = 0) => (exit = "interior" /\ cauchyOut = "zero" /\ nrm = "zero" /\ q = 0)
  /\ (exit # "none" /\ iters >= 1) => cauchyOut = "unclipped"
  /\ iters <= cap
\* the model never goes up along the iterates
Monotone == [][q' <= q]_cgvars
===============================================================================
