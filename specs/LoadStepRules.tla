---------------------------- MODULE LoadStepRules ----------------------------
(* Order of operations of one load step, shared by LoadStep.tla and its trace spec. *)
EXTENDS Sequences
\* expected order of operations for the mechanism (used by the trace spec as a drift clause)
ExpectedOps(d, w, u) ==
  (IF w THEN (IF u THEN <<"refresh", "jvp">> ELSE <<"jvp">>) ELSE <<>>) \o <<"install">>
  \o (IF u THEN <<"refresh">> ELSE <<>>)
  \o (IF d = "BAL" THEN <<"install">> ELSE <<>>)     \* the bound-constrained front end delegates to the AL driver,
                                                      \* which assigns the (same) parameters again
  \o <<"solve">>
=============================================================================
