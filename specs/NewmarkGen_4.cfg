SPECIFICATION GSpec
CONSTANTS
  ParamSets <- ParamsAll
  Stiff = {0, 1}
  Dts <- DtsAll
  Inits <- InitsAll
  MaxSteps = 4
  MaxMag = 46340
CONSTRAINT Small
INVARIANT TypeOK
INVARIANT Stationary
INVARIANT Balance
INVARIANT FormulaU
INVARIANT FormulaV
INVARIANT EnergyConserved
INVARIANT ClosedFormTrap
INVARIANT FreeFlight
INVARIANT Emit
CHECK_DEADLOCK FALSE
