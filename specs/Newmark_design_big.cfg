SPECIFICATION Spec
CONSTANTS
  ParamSets <- ParamsBig
  Stiff = {0, 1}
  Dts <- DtsBig
  Inits <- InitsAll
  MaxSteps = 3
  MaxMag = 12000
CONSTRAINT Small
INVARIANT TypeOK
INVARIANT Stationary
INVARIANT Balance
INVARIANT FormulaU
INVARIANT FormulaV
INVARIANT EnergyConserved
INVARIANT ClosedFormTrap
INVARIANT FreeFlight
PROPERTY OrderOK
CHECK_DEADLOCK FALSE
