---------------------------- MODULE CompSumTrace ----------------------------
(* X14 trace judgement.  One record per behaviour of CompSum.tla replayed on binary64 through the REAL optimism.Math kernels    *)
(* (the harness steps _two_sum / _two_product / _float_split exactly as the scan does and also calls the real sum2 / dot2):      *)
(* {"id":n,"mode":"sum|dot|sqrt","n":len,                                                                                         *)
(*  "steps":[{"eft_sum":b   x + y = p + a exactly (rationals)     "rounded_sum":b  x is the correctly rounded p + a              *)
(*            "eft_prod":b  h + r = a * b exactly                  "rounded_prod":b h is the correctly rounded a * b              *)
(*            "split":b     hi + lo = a exactly, hi and lo fit in 26 significant bits}],                                          *)
(*  "same":b   sum2 / dot2 (eager and jitted) return bit for bit what chaining the kernels gives,                                 *)
(*  "chain":b  p + (all recovered error terms) = exact sum,   "bound":b  |res - s| <= u|s| + gamma_n^2 sum|a_i b_i|, u = 2^-53,   *)
(*  "grad":b   (sum) the gradient is exactly the vector of ones; (sqrt) value and derivative as documented (0 for x <= 0)}        *)
EXTENDS Integers, Sequences, TLC, Json, IOUtils
Traces == ndJsonDeserialize(IOEnv.TRACE_FILE)
NT == Len(Traces)
VARIABLES tid, viol
AllSteps(tr, f) == \A i \in 1..Len(tr.steps) : tr.steps[i][f]
Clauses(t) == LET tr == Traces[t] IN
  [ two_sum_error_free |-> AllSteps(tr, "eft_sum"),
    two_sum_rounded |-> AllSteps(tr, "rounded_sum"),
    two_product_error_free |-> AllSteps(tr, "eft_prod"),
    two_product_rounded |-> AllSteps(tr, "rounded_prod"),
    split_halves |-> AllSteps(tr, "split"),
    scan_is_kernel_chain |-> tr.same,
    nothing_lost |-> tr.chain,
    result_bound |-> tr.bound,
    derivative |-> tr.grad ]
ClauseNames == {"two_sum_error_free", "two_sum_rounded", "two_product_error_free", "two_product_rounded", "split_halves",
                "scan_is_kernel_chain", "nothing_lost", "result_bound", "derivative"}
TInit == tid = 1 /\ viol = {}
Step == /\ tid <= NT /\ tid' = tid + 1
        /\ LET cl == Clauses(tid) IN viol' = viol \cup { <<Traces[tid].id, 1, c>> : c \in {c \in ClauseNames : ~cl[c]} }
TSpec == TInit /\ [][Step]_<<tid, viol>>
Done == tid > NT
Verdict == Done => PrintT(<<"VERDICT", ToJson([n |-> NT, viol |-> viol])>>)
=============================================================================
