SPECIFICATION Spec
CONSTANTS
  MaxDeg = 6
INVARIANT TypeOK
INVARIANT WellFormed
INVARIANT OrientPositive
INVARIANT ShiftKeepsElement
INVARIANT AreaSum
INVARIANT BoundaryClosed
INVARIANT BoundaryShift
INVARIANT ShiftInvariant
INVARIANT Additive
INVARIANT DivX
INVARIANT DivY
INVARIANT EvenPositive
INVARIANT AxiPositive
INVARIANT AxiShift
INVARIANT MonoOne
CHECK_DEADLOCK FALSE
