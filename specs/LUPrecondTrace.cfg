SPECIFICATION TSpec
INVARIANT Verdict
CHECK_DEADLOCK FALSE
