------------------------ MODULE PhaseFieldDamageTrace ------------------------
(* One line per lattice case evaluated on the real PhaseFieldThreshold model (both kinematics):
   {"id":n,"kin":"small|large","p":..,"q":..,"D":..,"V":..,"sg":..,"n":N,"wp":..,"wq":.. (TLC, N^2 x energy in the units mu|dev e|^2, kappa/2 tr^2),
    "cmp":"LT|EQ|GT" (real W(q) against W(p)),"ratio":"EQ|NE" (real W(q) wp = W(p) wq: the degradation is exactly (1-phi)^2),
    "pot":"EQ|NE" (phase potential = 3Gc/8 (phi/l + l |grad phi|^2)), "rest":"EQ|NE" (zero stress and zero strain energy at zero strain),
    "obj":"EQ|NE|NA" (energy unchanged by a superposed rotation; NA for small strains), "tot":"EQ|NE" (energy = strain energy + potential)} *)
EXTENDS Integers, Sequences, TLC, Json, IOUtils
Traces == ndJsonDeserialize(IOEnv.TRACE_FILE)
NT == Len(Traces)
VARIABLES tid, viol
Clauses(t) ==
  LET tr == Traces[t] IN
  [ damage_never_stiffens   |-> tr.cmp # "GT",
    degradation_is_quadratic |-> tr.ratio = "EQ" /\ (tr.wq < tr.wp => tr.cmp = "LT") /\ (tr.wq = tr.wp => tr.cmp = "EQ"),
    potential_linear        |-> tr.pot = "EQ",
    rest_is_stress_free     |-> tr.rest = "EQ",
    objective_at_every_phase |-> tr.obj # "NE",
    energy_is_sum           |-> tr.tot = "EQ" ]
ClauseNames == {"damage_never_stiffens", "degradation_is_quadratic", "potential_linear", "rest_is_stress_free",
                "objective_at_every_phase", "energy_is_sum"}
TInit == tid = 1 /\ viol = {}
Step == /\ tid <= NT /\ tid' = tid + 1
        /\ LET cl == Clauses(tid) IN viol' = viol \cup { <<Traces[tid].id, 1, c>> : c \in {c \in ClauseNames : ~cl[c]} }
TSpec == TInit /\ [][Step]_<<tid, viol>>
Done == tid > NT
Verdict == Done => PrintT(<<"VERDICT", ToJson([n |-> NT, viol |-> viol])>>)
=============================================================================
