---------------------------- MODULE SmoothFnGen ----------------------------
(* Oracle generator for SmoothFn.tla: prints every lattice evaluation (one    *)
(* state per lattice point) as JSON:                                          *)
(*   {fn, p (lattice point), cls (in|on|out relative to the switch), near,    *)
(*    val <<num, den>>, d1 <<num, den>>, d2 <<num, den>>}                     *)
(* The harness scales the point, evaluates the REAL functions and jax.grad    *)
(* there and compares with these exact rationals.                             *)
EXTENDS SmoothFn, Json, TLC
CONSTANT EmitFns            \* which functions to emit
Emit == obs.fn \in EmitFns => PrintT(<<"OBS", ToJson(obs)>>)
=============================================================================
