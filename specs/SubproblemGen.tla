---------------------------- MODULE SubproblemGen ----------------------------
(* Path catalogue of SteihaugCG.tla: TLC enumerates every way the truncated-CG loop can return      *)
(* (inner-product mode x iteration cap x exit type x iteration of the exit) together with the         *)
(* environment answers that lead there.  Each returned state prints one BEH line; the harness keeps   *)
(* one behaviour per catalogue key and searches synthetic operators realising it on the real solver.  *)
EXTENDS SteihaugCG, Json

VARIABLE hist
gvars == <<cgvars, hist>>

Ev(a, e) == [a |-> a, curv |-> e.curv, cross |-> e.cross, small |-> e.small]

GInit == Init /\ hist = <<>>
GNext ==
  \/ TinyResidual /\ hist' = Append(hist, [a |-> "tiny", curv |-> "pos", cross |-> FALSE, small |-> TRUE])
  \/ Begin /\ hist' = hist
  \/ \E e \in Envs :
       \/ ProjectedExit(e, "neg curve") /\ hist' = Append(hist, Ev("negcurve", e))
       \/ ProjectedExit(e, "boundary") /\ hist' = Append(hist, Ev("boundary", e))
       \/ InteriorStep(e) /\ hist' = Append(hist, Ev("step", e))
GSpec == GInit /\ [][GNext]_gvars

Emit == (exit # "none") =>
          PrintT(<<"BEH", ToJson([mode |-> mode, cap |-> cap, exit |-> exit, iters |-> iters, path |-> hist])>>)
===============================================================================
