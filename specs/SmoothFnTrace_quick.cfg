SPECIFICATION TSpec
CONSTANTS
  E = 8
  R = 8
  MuMax = 3
  N = 16
INVARIANT Verdict
INVARIANT MinOneSided
INVARIANT MinQuarter
INVARIANT MinOutside
INVARIANT MinSym
INVARIANT MinTight
INVARIANT MaxOneSided
INVARIANT MaxQuarter
INVARIANT MaxOutside
INVARIANT MaxSym
INVARIANT AbsOneSided
INVARIANT AbsQuarter
INVARIANT AbsOutside
INVARIANT AbsSym
INVARIANT HalfLattice
INVARIANT Translate
INVARIANT FricNonNeg
INVARIANT FricCoulomb
INVARIANT FricOffset
INVARIANT FricConvex
INVARIANT FricMonoD
INVARIANT FricEven
INVARIANT MinC1
INVARIANT MaxC1
INVARIANT AbsC1
INVARIANT RampC1
INVARIANT FricC1
INVARIANT LinC1
INVARIANT MinLip
INVARIANT RampLip
INVARIANT AbsLip
INVARIANT FricLip
INVARIANT LinLip
INVARIANT TypeOK
CHECK_DEADLOCK FALSE
