SPECIFICATION GSpec
CONSTANTS
  R = 4
  StartRank = 2
  MaxIters = 3
  L0 = 2
  LMax = 3
  Incremental = FALSE
  Bounded = TRUE
  EmitMode = "all"
  MaxHist = 100

INVARIANT TypeOK
INVARIANT Descent
INVARIANT ReturnsLast
INVARIANT HonestFlag
INVARIANT Feasible
INVARIANT LevelBounded
INVARIANT Emit
VIEW View
CHECK_DEADLOCK FALSE
