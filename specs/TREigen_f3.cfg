SPECIFICATION Spec
CONSTANTS
  HardVector = "row"
INVARIANT Post
INVARIANT CaseSplitTotal
CHECK_DEADLOCK FALSE
