---------------------------- MODULE RootContract ----------------------------
(* Contract layer of property C17 (optimism.ScalarRootFind.find_root).      *)
(* Only what the property statement says; no knowledge of how the root is   *)
(* found.  Abscissae are abstract: lattice positions (scripted runs) or     *)
(* dense ranks of the floats involved (genuine runs); both are >= 0 and     *)
(* ordered like the reals they stand for.  NaN is the code -1.              *)
(*                                                                          *)
(*   sl, sh : exact signs (-1,0,1) of f at bracket[0], bracket[1]           *)
(*   lo, hi : abstract abscissae of bracket[0] < bracket[1]                 *)
(*   o      : observation of the returned point                             *)
(*            x      abstract abscissa of the returned value (or NaN)       *)
(*            stepLt the last change of the independent variable was        *)
(*                   smaller than x_tol (up to the stated rounding          *)
(*                   allowance)                                             *)
(*            resLt  |f(x)| < r_tol                                         *)
(*            stag   the last step did not change the independent variable  *)
(*                   at all (floating-point resolution reached)             *)
(*            exact  f(x) = 0 exactly                                       *)
(* "meets the requested tolerance" is read exactly as the settings of the   *)
(* module define it: x_tol on the last change of x OR r_tol on |f|; a step  *)
(* of size zero satisfies any x tolerance and an exact zero of f any        *)
(* residual tolerance.  A NaN return under a sign change is reported once,  *)
(* by bracketed_in_bracket.                                                 *)
EXTENDS Integers

NaN == -1

SignChange(sl, sh)   == sl * sh < 0
EndpointRoot(sl, sh) == sl = 0 \/ sh = 0

InBracket(x, lo, hi) == x # NaN /\ lo <= x /\ x <= hi
MeetsTol(o)          == o.stepLt \/ o.resLt \/ o.stag \/ o.exact

ContractClauses(sl, sh, lo, hi, o) ==
  [ bracketed_in_bracket   |-> SignChange(sl, sh) => InBracket(o.x, lo, hi),
    bracketed_meets_tol    |-> (SignChange(sl, sh) /\ o.x # NaN) => MeetsTol(o),
    endpoint_root_returned |-> EndpointRoot(sl, sh) => ((sl = 0 /\ o.x = lo) \/ (sh = 0 /\ o.x = hi)),
    no_sign_change_nan     |-> (~SignChange(sl, sh) /\ ~EndpointRoot(sl, sh)) => o.x = NaN ]

ContractNames == {"bracketed_in_bracket", "bracketed_meets_tol", "endpoint_root_returned",
                  "no_sign_change_nan"}

\* the derivative clause: cmp is the comparison code of d(root)/dp as produced by the code against the
\* implicit-function value  -(df/dp)/(df/dx)  at the returned root ("EQ" within the stated allowance)
DerivativeClause(cmp) == cmp = "EQ"
=============================================================================
