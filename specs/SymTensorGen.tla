---------------------------- MODULE SymTensorGen ----------------------------
(* Oracle generator for SymTensor.tla (property C12): the exhaustive design   *)
(* run prints every lattice point with its exact oracle as JSON               *)
(*   {kind, d, rot, g, sp, split, Rn, den, An, i1, i2, i3, mult, def, mid0,   *)
(*    block}                                                                  *)
(* The harness builds the float64 tensor from these integers (times decades), *)
(* evaluates the REAL routines there and sends comparison codes back to       *)
(* SymTensorTrace.tla.                                                        *)
EXTENDS SymTensor, Json, TLC
NegTwo   == -2
NegThree == -3
Emit == pt.kind # "none" => PrintT(<<"OBS", ToJson(pt)>>)
=============================================================================
