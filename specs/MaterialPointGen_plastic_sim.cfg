SPECIFICATION GSpec
CONSTANTS
  Models <- GenPlastic
  ExecModes = {"jit"}
  DefClasses = {"inc", "reverse", "atYield", "tiny"}
  LoadClasses = {}
  DtClasses = {"mid"}
  MaxRank = 0
  MaxClass = 0
  Depth = 10
  AllowReset = FALSE
CONSTRAINT Bound
INVARIANT Emit
CHECK_DEADLOCK FALSE
