----------------------------- MODULE NewmarkGen -----------------------------
(* Behaviour generator for Newmark.tla (C15).  Carries the history of         *)
(* completed steps with the exact rational values of the predicted            *)
(* displacement / velocity and of (u, v, a) after the step, and prints one    *)
(* behaviour per explored Correct transition.  The harness replays the        *)
(* maximal behaviours as modal motions of real meshes; TLC is the oracle of   *)
(* the rational values, the harness only divides num/den.                     *)
EXTENDS Newmark, Json

VARIABLES hist, start

GInit ==
  /\ Init
  /\ hist = <<>>
  /\ start = [par |-> par, k |-> k[1], u0 |-> u, v0 |-> v, a0 |-> a]

GNext ==
  \/ DoPredict /\ UNCHANGED <<hist, start>>
  \/ Minimise  /\ UNCHANGED <<hist, start>>
  \/ Correct   /\ UNCHANGED start
               /\ hist' = Append(hist, [dt |-> dt, up |-> up, vp |-> v, u |-> u', v |-> v', a |-> a'])

GSpec == GInit /\ [][GNext]_<<vars, hist, start>>

Emit == (phase = "idle" /\ n >= 1) => PrintT(<<"BEH", ToJson([start |-> start, steps |-> hist])>>)
=============================================================================
