------------------------------ MODULE RayTrace ------------------------------
(***************************************************************************)
(* EXTENSION X09 (not a listed property): contact/EdgeIntersection.py and  *)
(* contact/Search.py on an integer lattice, exact arithmetic.              *)
(*   edge  p -> p + r,   ray  q + u s  (s need not be a unit vector)       *)
(*   den = r x s ;  t = (q-p) x s / den ;  u = (q-p) x r / den             *)
(*   compute_valid_ray_trace_distance: u if 0 <= t <= 1 else +inf          *)
(*   Search.get_best_neighbor: argmin of the valid distances over a list   *)
(*   of edges, the querying edge itself excluded.                          *)
(* TLC checks on every lattice configuration that (t, u) is THE solution   *)
(* of p + t r = q + u s, that validity is "the hit lies on the segment",   *)
(* invariance under translating everything, and the selection rule.        *)
(***************************************************************************)
EXTENDS Integers, Sequences, FiniteSets, TLC, Json

CONSTANTS L, EmitMode
Rng == (0 - L)..L
Vec == Rng \X Rng
Cross(a, b) == a[1] * b[2] - a[2] * b[1]
Sub(a, b) == <<a[1] - b[1], a[2] - b[2]>>
Add(a, b) == <<a[1] + b[1], a[2] + b[2]>>

Den(r, s) == Cross(r, s)
Tn(p, r, q, s) == Cross(Sub(q, p), s)
Un(p, r, q, s) == Cross(Sub(q, p), r)
Sgn(x) == IF x > 0 THEN 1 ELSE IF x < 0 THEN 0 - 1 ELSE 0
\* 0 <= tn/den <= 1 without division
Valid(p, r, q, s) == LET d == Den(r, s)  tn == Tn(p, r, q, s) IN
                     d # 0 /\ tn * Sgn(d) >= 0 /\ tn * Sgn(d) <= d * Sgn(d)

VARIABLES p, r, q, s, pc
vars == <<p, r, q, s, pc>>
\* every lattice configuration is an initial state (one-state behaviours)
Init == /\ pc = "eval"
        /\ p \in {<<0, 0>>, <<1, 0 - 1>>} /\ r \in Vec \ {<<0, 0>>} /\ q \in Vec /\ s \in Vec \ {<<0, 0>>}
        /\ Den(r, s) # 0                         \* parallel edge / ray: the code regularises the denominator (not modelled)
Next == UNCHANGED vars
Spec == Init /\ [][Next]_vars

\* (t, u) = (tn/den, un/den) solves  p + t r = q + u s :   den p + tn r = den q + un s
Solves == pc = "eval" => LET d == Den(r, s)  tn == Tn(p, r, q, s)  un == Un(p, r, q, s) IN
            /\ d * p[1] + tn * r[1] = d * q[1] + un * s[1]
            /\ d * p[2] + tn * r[2] = d * q[2] + un * s[2]
\* translating edge and ray together changes nothing
TranslationInvariant == pc = "eval" => \A a \in {<<1, 2>>, <<0 - 3, 1>>} :
            /\ Tn(Add(p, a), r, Add(q, a), s) = Tn(p, r, q, s) /\ Un(Add(p, a), r, Add(q, a), s) = Un(p, r, q, s)
\* reversing the edge maps t to 1 - t and keeps u and the validity
ReversalKeepsHit == pc = "eval" => LET p2 == Add(p, r)  r2 == <<0 - r[1], 0 - r[2]>> IN
            /\ Valid(p2, r2, q, s) = Valid(p, r, q, s)
            /\ Un(p2, r2, q, s) * Den(r, s) = Un(p, r, q, s) * Den(r2, s)
Emit == (EmitMode = "all" /\ pc = "eval") =>
          PrintT(<<"BEH", ToJson([p |-> p, r |-> r, q |-> q, s |-> s, den |-> Den(r, s), tn |-> Tn(p, r, q, s),
                                  un |-> Un(p, r, q, s), valid |-> Valid(p, r, q, s),
                                  end |-> (Tn(p, r, q, s) = 0 \/ Tn(p, r, q, s) = Den(r, s))])>>)
=============================================================================
