SPECIFICATION Spec
CONSTANTS
  NE = 4
  MaxBlocks = 3
  EmitMode = "all"
INVARIANT SameArrays
INVARIANT SameEnergy
INVARIANT WrittenOnce
INVARIANT NeverTwice
INVARIANT Emit
CHECK_DEADLOCK FALSE
