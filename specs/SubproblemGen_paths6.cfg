SPECIFICATION GSpec
CONSTANTS
  MaxCG = 6
  Root = "plus"
  Faithful = TRUE
INVARIANT TypeOK
INVARIANT InvInside
INVARIANT InvOnBoundary
INVARIANT InvNewtonResidual
INVARIANT InvBeatsCauchy
INVARIANT InvNeverIncreases
INVARIANT InvReturn
INVARIANT Emit
CHECK_DEADLOCK FALSE
