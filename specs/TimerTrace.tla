------------------------------ MODULE TimerTrace ------------------------------
(* One line per real call sequence on optimism.Timer.Timer objects under a virtual clock:
   {"id":n,"ev":[{"op":"start|stop|new|tick","i":k,"d":ticks,"ok":bool (no TimerError),"ret":elapsed or -1,
                  "tot":{"a":..,"b":..} (Timer.timers after the call, missing name = 0),"logs":count of report lines,
                  "running":[b1,b2,b3]}]}
   The trace is folded through the TimerRules transition functions; every observation is compared with the state
   the rules predict.  Verdicts are total: each failing clause is named with the step at which it failed. *)
EXTENDS TimerRules, TLC, Json, IOUtils
Traces == ndJsonDeserialize(IOEnv.TRACE_FILE)
NT == Len(Traces)
VARIABLES tid, l, s, viol
To(st, e) == CASE e.op = "start" -> StartTo(st, e.i)
               [] e.op = "stop"  -> StopTo(st, e.i)
               [] e.op = "new"   -> NewTo(st, e.i)
               [] OTHER          -> TickTo(st, e.d)
Clauses(st, e) ==
  LET nx == To(st, e) IN
  [ refusal_iff_misuse  |-> CASE e.op = "start" -> e.ok = StartOk(st, e.i)
                              [] e.op = "stop"  -> e.ok = StopOk(st, e.i)
                              [] OTHER -> e.ok,
    stop_returns_elapsed |-> (e.op = "stop" /\ StopOk(st, e.i)) => e.ret = Elapsed(st, e.i),
    table_accounting    |-> \A n \in Names : e.tot[n] = nx.tot[n],
    one_report_per_stop |-> e.logs = nx.logs,
    running_flag        |-> \A i \in Insts : e.running[i] = nx.run[i] ]
ClauseNames == {"refusal_iff_misuse", "stop_returns_elapsed", "table_accounting", "one_report_per_stop", "running_flag"}
TInit == tid = 1 /\ l = 0 /\ s = S0 /\ viol = {}
Step == /\ tid <= NT
        /\ IF l < Len(Traces[tid].ev)
           THEN LET e == Traces[tid].ev[l + 1]  cl == Clauses(s, e) IN
                /\ viol' = viol \cup { <<Traces[tid].id, l + 1, c>> : c \in {c \in ClauseNames : ~cl[c]} }
                /\ s' = To(s, e) /\ l' = l + 1 /\ tid' = tid
           ELSE tid' = tid + 1 /\ l' = 0 /\ s' = S0 /\ viol' = viol
TSpec == TInit /\ [][Step]_<<tid, l, s, viol>>
Done == tid > NT
Verdict == Done => PrintT(<<"VERDICT", ToJson([n |-> NT, viol |-> viol])>>)
=============================================================================
