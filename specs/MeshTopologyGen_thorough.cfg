SPECIFICATION GSpec
CONSTANTS
  MaxTri = 5
  MaxVerts = 6
  StructSizes <- SizesSmall
  UseRing = TRUE
  Elevations <- ElevMid
  SetMaxTri = 2
  NamesB = {"a", "b"}
  MaxDepth = 100
  EmitMode = "none"
VIEW View
INVARIANT MeshValid
INVARIANT EdgeTableCorrect
INVARIANT ElevationConforming
INVARIANT MergeUnionCorrect
INVARIANT MergeOverwriteLosesIffClash
INVARIANT ReadRoundTrip
INVARIANT Emit
CHECK_DEADLOCK FALSE
