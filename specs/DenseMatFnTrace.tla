--------------------------- MODULE DenseMatFnTrace ---------------------------
(* Trace validation for DenseMatFn.tla (property C12, dense part).  Each line *)
(* of IOEnv.TRACE_FILE: {"id", "mode", "n", "spec", "shear",                  *)
(*   "ev": [ {"j": binary scale exponent, "sq_id": code of X X = M,           *)
(*            "sq_fv": X against S sqrt(D) S^-1, "lg_id": expm(logm M) = M,   *)
(*            "lg_fv": logm M against S log(D) S^-1} ]}                       *)
(*            "lg_jx": jax.scipy.linalg.expm(logm M) = M (drift only)} ]}     *)
(* codes: 2 within the allowance (1e-9 cond(S) relative), 4 outside, 7 not    *)
(* finite.  Every lattice point has a positive spectrum, so all four clauses  *)
(* apply to every event; the spec checks that the point belongs to the        *)
(* lattice (its oracle algebra is checked by the design run).                 *)
EXTENDS DenseMatFn, Json, IOUtils, TLC

Traces == ndJsonDeserialize(IOEnv.TRACE_FILE)
NT == Len(Traces)
VARIABLES tid, l, viol
tvars == <<vars, tid, l, viol>>

InLattice(t) == t.n \in Sizes /\ t.spec \in Spectra /\ t.shear \in Shears
Clauses(t, e) ==
  [ sqrtm_identity |-> InLattice(t) /\ e.sq_id = 2
  , sqrtm_value    |-> InLattice(t) /\ e.sq_fv = 2
  , logm_identity  |-> InLattice(t) /\ e.lg_id = 2
  , logm_value     |-> InLattice(t) /\ e.lg_fv = 2
  , drift_jax_expm |-> e.lg_jx = 2 ]      \* jax.scipy.linalg.expm(logm M) = M: depends on jax's expm, never an alarm
ClauseNames == {"sqrtm_identity", "sqrtm_value", "logm_identity", "logm_value", "drift_jax_expm"}

TInit == tid = 1 /\ l = 0 /\ viol = {} /\ pt = None
Step ==
  /\ tid <= NT /\ l < Len(Traces[tid].ev)
  /\ LET t == Traces[tid]
         e == t.ev[l + 1]
         cl == Clauses(t, e)
     IN /\ pt' = pt
        /\ viol' = viol \cup { <<t.id, l + 1, c>> : c \in {c \in ClauseNames : ~cl[c]} }
  /\ l' = l + 1 /\ tid' = tid
NextTrace ==
  /\ tid <= NT /\ l = Len(Traces[tid].ev)
  /\ tid' = tid + 1 /\ l' = 0 /\ viol' = viol /\ pt' = None
TNext == Step \/ NextTrace
TSpec == TInit /\ [][TNext]_tvars
Done == tid > NT
Verdict == Done => PrintT(<<"VERDICT", ToJson([n |-> NT, viol |-> viol])>>)
=============================================================================
