SPECIFICATION Spec
CONSTANTS
  N = 12
  TT = {1, 4, 9}
  Root = "plus"
  EmitMode = "all"
INVARIANT Inside
INVARIANT OnPath
INVARIANT Emit
CHECK_DEADLOCK FALSE
