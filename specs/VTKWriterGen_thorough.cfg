SPECIFICATION GSpec
CONSTANTS
  Meshes <- MeshesSmall
  Names = {"a", "b"}
  Kinds = {"S", "V", "T"}
  DTypes = {"double", "int"}
  MaxSpheres = 2
  MaxEdgeRows = 3
  EdgeBatches = {1, 2}
  MaxDepth = 4
  EmitMode = "all"
  OkNodal = {TRUE}
  OkCell = {TRUE, FALSE}
CONSTRAINT Bound
VIEW View
INVARIANT TypeOK
INVARIANT EveryFileWellFormed
INVARIANT FileIsFunctionOfState
INVARIANT Emit
PROPERTY Idempotent
CHECK_DEADLOCK FALSE
