SPECIFICATION GSpec
CONSTANTS
  N = 32
  Brackets <- BracketsK5
  TolSettings <- TolsAll
  FVals <- F4
  DVals <- D2
  MaxIters = 14
  Degenerate = TRUE
  StopOnExactRoot = TRUE
INVARIANT Emit
CHECK_DEADLOCK FALSE
