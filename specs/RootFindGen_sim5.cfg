SPECIFICATION GSpec
CONSTANTS
  N = 32
  Brackets <- BracketsK5s
  TolSettings <- TolsQ
  FVals <- F124
  DVals <- D2
  MaxIters = 14
  Degenerate = TRUE
  StopOnExactRoot = TRUE
INVARIANT Emit
CHECK_DEADLOCK FALSE
