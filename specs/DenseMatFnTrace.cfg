SPECIFICATION TSpec
CONSTANTS
  Sizes = {2, 3, 4, 5, 6, 7, 8, 9, 10}
  Spectra = {"distinct", "equal", "pairs", "wide"}
  Shears = {"none", "chain", "fan", "mixed"}
INVARIANT Verdict
CHECK_DEADLOCK FALSE
