SPECIFICATION Spec
CONSTANTS
  DMin <- NegTwo
  DMax = 3
  Gaps = {10, 20, 30, 40, 50}
  K = 1
  KB = 2
INVARIANT Orthogonal
INVARIANT Symmetric
INVARIANT TraceOK
INVARIANT SecondOK
INVARIANT DetOK
INVARIANT SquareOK
INVARIANT EigenPairs
INVARIANT CayleyHamilton
INVARIANT DiscNonNeg
INVARIANT MultOK
INVARIANT MidZeroOK
INVARIANT DefOK
INVARIANT BlockOK
INVARIANT DetPlusI
INVARIANT TypeOK
INVARIANT Emit
CHECK_DEADLOCK FALSE
