------------------------------- MODULE ReturnMap -------------------------------
(* Design-level integer model of the J2 return mapping (support for C09).              *)
(*                                                                                     *)
(* eqps lives on the grid 0..EMax.  With the flow direction N normalised to N:N = 3/2   *)
(* the trial Mises stress drops by 3mu per unit of plastic increment, so the residual   *)
(* of the stationarity condition d(incremental potential)/d(eqps) = 0 is                *)
(*      r(x) = 3mu (x - e0) + Y(x) - m                                                  *)
(* with m the trial Mises stress w.r.t. the committed state e0 and Y an increasing      *)
(* piecewise-linear flow stress.  The yield function at the state x is exactly -r(x).   *)
(* The code yields iff  m - Y(e0) > TolY  and then asks the scalar root finder for a     *)
(* root on the bracket [e0, e0 + (m - Y(e0))/3mu].  The root finder is modelled by its   *)
(* contract only (C17): it returns ANY bracket point with |r| < TolS.                   *)
(*                                                                                     *)
(* TLC shows: irreversibility, yield consistency to the solver tolerance and            *)
(* idempotence of a repeated update follow from the bracket starting at e0 and from      *)
(* TolY >= TolS -- and that idempotence FAILS for TolY < TolS (ReturnMap_mismatch.cfg,   *)
(* expected counterexample: the documented design dependency "the tolerance on the       *)
(* yield check is the same as that in the nonlinear solve").                             *)
EXTENDS Integers

CONSTANTS EMax,     \* eqps grid 0..EMax
          Mu3,      \* 3 mu per grid step
          Y0, H1, H2, Knee,   \* Y(x) = Y0 + H1 min(x, Knee) + H2 max(x - Knee, 0)
          MMax,     \* trial stresses 0..MMax
          TolY,     \* tolerance of the yield check
          TolS      \* residual tolerance of the root finder

VARIABLES e0, e, m, ph
vars == <<e0, e, m, ph>>

Min(a, b) == IF a < b THEN a ELSE b
Max(a, b) == IF a > b THEN a ELSE b
Abs(x) == IF x < 0 THEN -x ELSE x
Y(x) == Y0 + H1 * Min(x, Knee) + H2 * Max(x - Knee, 0)
R(x) == Mu3 * (x - e0) + Y(x) - m          \* residual w.r.t. the committed state
Yield(x) == m - Mu3 * (x - e0) - Y(x)       \* yield function at state x  (= -R(x))
CeilDiv(a, b) == (a + b - 1) \div b
Ub(x) == x + CeilDiv(Yield(x), Mu3)         \* elastic-predictor bound seen from state x
Roots(x) == {z \in x..Min(Ub(x), EMax) : Abs(R(z)) < TolS}

Init == e0 = 0 /\ e = 0 /\ m = 0 /\ ph = "committed"

NewTrial ==                                  \* the caller changes the deformation
  /\ ph \in {"committed", "trial", "updated", "reupdated"}
  /\ m' \in {z \in 0..MMax : e0 + CeilDiv(Max(z - Y(e0), 0), Mu3) <= EMax}    \* stay on the finite grid
  /\ e' = e0 /\ e0' = e0 /\ ph' = "trial"

UpdateFrom(x, nph) ==
  /\ IF Yield(x) > TolY
     THEN /\ Roots(x) # {}                   \* otherwise the root finder returns NaN (C17); see BracketValid
          /\ e' \in Roots(x)
     ELSE e' = x
  /\ ph' = nph /\ UNCHANGED <<e0, m>>

Update   == ph \in {"trial", "updated", "reupdated"} /\ UpdateFrom(e0, "updated")
ReUpdate == ph \in {"updated", "reupdated"} /\ UpdateFrom(e, "reupdated")
Commit   == /\ ph \in {"updated", "reupdated"}
            /\ e0' = e /\ m' = m - Mu3 * (e - e0) /\ e' = e /\ ph' = "committed"

Next == NewTrial \/ Update \/ ReUpdate \/ Commit
Spec == Init /\ [][Next]_vars

TypeOK == e0 \in 0..EMax /\ e \in 0..EMax /\ m \in 0..MMax /\ ph \in {"committed", "trial", "updated", "reupdated"}
PendingAhead    == e >= e0
BracketValid    == Yield(e0) > TolY => (R(e0) < 0 /\ Ub(e0) <= EMax /\ R(Ub(e0)) >= 0 /\ Roots(e0) # {})
YieldConsistent == ph \in {"updated", "reupdated"} => Yield(e) <= Max(TolS, TolY)
Irreversible    == [][e0' >= e0 /\ e' >= e0']_vars
Idempotent      == [][ph' = "reupdated" => e' = e]_vars
CommitKeepsYield == [][ph' = "committed" => (m' - Y(e0')) = Yield(e)]_vars   \* stress state unchanged by commit
=============================================================================
