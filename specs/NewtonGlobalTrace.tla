-------------------------- MODULE NewtonGlobalTrace --------------------------
(* One line per real call of NewtonSolver.globalized_newton_step:
   {"id":n,"maxls":4,"ev":[{"e":"Newton","ok":b} | {"e":"Test","suff":b} | {"e":"Slope","neg":b}
        | {"e":"Theta","num":round(theta*1e6),"aPos":b,"e0lt1":b,"q":"below|in|above"}
        | {"e":"Return","zero":b,"scaled":b (returned step == product of the thetas times the Newton step),"decreased":b}]}
   The events are fed through the NewtonGlobal control flow; verdicts are total. *)
EXTENDS Integers, Sequences, TLC, Json, IOUtils
Traces == ndJsonDeserialize(IOEnv.TRACE_FILE)
NT == Len(Traces)
VARIABLES tid, l, pc, count, lastSuff, viol
MinP(aPos, e0lt1, q) == IF ~aPos THEN (IF e0lt1 THEN "lo" ELSE "hi")
                        ELSE CASE q = "below" -> "lo" [] q = "in" -> "mid" [] OTHER -> "hi"
ThetaClass(num) == IF num = 10000 THEN "lo" ELSE IF num = 500000 THEN "hi" ELSE "mid"
\* which event kinds the control flow allows next, and where each leads
Allowed(p, c, mx) == CASE p = "newton" -> {"Newton"}
                       [] p = "test" -> IF c < mx THEN {"Test"} ELSE {"Return"}
                       [] p = "slope" -> {"Slope"}
                       [] p = "theta" -> {"Theta"}
                       [] p = "ret_step" -> {"Return"} [] p = "ret_zero" -> {"Return"}
                       [] OTHER -> {}
NextPc(p, e) == CASE e.e = "Newton" -> IF e.ok THEN "test" ELSE "ret_zero"
                  [] e.e = "Test" -> IF e.suff THEN "ret_step" ELSE "slope"
                  [] e.e = "Slope" -> IF e.neg THEN "theta" ELSE "ret_zero"
                  [] e.e = "Theta" -> "test"
                  [] OTHER -> "done"
Clauses(t, e) ==
  LET mx == Traces[t].maxls IN
  [ control_flow      |-> e.e \in Allowed(pc, count, mx),
    step_is_sufficient |-> (e.e = "Return" /\ ~e.zero) => (pc = "ret_step" /\ lastSuff /\ e.decreased),
    zero_has_a_reason |-> (e.e = "Return" /\ e.zero) => (pc = "ret_zero" \/ (pc = "test" /\ count = mx)),
    step_is_scaled_newton |-> (e.e = "Return" /\ ~e.zero) => e.scaled,
    theta_in_bounds   |-> (e.e = "Theta") => (e.num >= 10000 /\ e.num <= 500000),
    drift_theta_rule  |-> (e.e = "Theta") => ThetaClass(e.num) = MinP(e.aPos, e.e0lt1, e.q) \/ (e.q = "in" /\ e.aPos) ]
ClauseNames == {"control_flow", "step_is_sufficient", "zero_has_a_reason", "step_is_scaled_newton", "theta_in_bounds", "drift_theta_rule"}
TInit == tid = 1 /\ l = 0 /\ pc = "newton" /\ count = 0 /\ lastSuff = FALSE /\ viol = {}
Step == /\ tid <= NT
        /\ IF l < Len(Traces[tid].ev)
           THEN LET e == Traces[tid].ev[l + 1]  cl == Clauses(tid, e) IN
                /\ viol' = viol \cup { <<Traces[tid].id, l + 1, c>> : c \in {c \in ClauseNames : ~cl[c]} }
                /\ pc' = NextPc(pc, e)
                /\ count' = IF e.e = "Theta" THEN count + 1 ELSE count
                /\ lastSuff' = IF e.e = "Test" THEN e.suff ELSE lastSuff
                /\ l' = l + 1 /\ tid' = tid
           ELSE /\ viol' = IF pc = "done" THEN viol ELSE viol \cup { <<Traces[tid].id, l, "ends_with_return">> }
                /\ tid' = tid + 1 /\ l' = 0 /\ pc' = "newton" /\ count' = 0 /\ lastSuff' = FALSE
TSpec == TInit /\ [][Step]_<<tid, l, pc, count, lastSuff, viol>>
Done == tid > NT
Verdict == Done => PrintT(<<"VERDICT", ToJson([n |-> NT, viol |-> viol])>>)
=============================================================================
