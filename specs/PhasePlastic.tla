---------------------------- MODULE PhasePlastic ----------------------------
(***************************************************************************)
(* EXTENSION X12 (not a listed property): the plastic threshold phase-field *)
(* model (phasefield/PhaseFieldThresholdPlastic.py) at a material point:    *)
(* small-strain J2 radial return in which the damage phi degrades the       *)
(* deviatoric stiffness, so the yield test is  g(phi) 2 mu |dev e_el| sqrt(3/2) *)
(* against the (undegraded) flow stress Y0 + H eqps.                         *)
(* Caller protocol: at a (strain, phase) the caller computes the new state;  *)
(* it may compute it again from the new state (re-update) and commits it.   *)
(* Environment: the phase level of the step, whether the trial stress lies   *)
(* above the current yield surface, and how far the update moves eqps.       *)
(* eqps is abstracted to ranks.                                              *)
(***************************************************************************)
EXTENDS Integers, Sequences, TLC, Json

CONSTANTS MaxLen, R, EmitMode
Phases == 0..2                      \* phi = 0, 0.4, 0.8

VARIABLES e, last, hist, moved
vars == <<e, last, hist, moved>>
Init == e = 0 /\ last = "none" /\ hist = <<>> /\ moved = FALSE

\* a step whose trial stress is inside the (degraded-stiffness) yield surface changes nothing
Below(ph) == /\ Len(hist) < MaxLen /\ e' = e /\ last' = "below" /\ moved' = FALSE
             /\ hist' = Append(hist, [a |-> "below", ph |-> ph])
\* a step outside it increases eqps and returns the stress to the surface
Above(ph, r) == /\ Len(hist) < MaxLen /\ r \in (e + 1)..R /\ e' = r /\ last' = "above" /\ moved' = TRUE
                /\ hist' = Append(hist, [a |-> "above", ph |-> ph])
\* computing the update again from the updated state, same strain and phase: the stress is on the surface, nothing moves
ReUpdate == /\ Len(hist) < MaxLen /\ last \in {"above", "reupdate"} /\ e' = e /\ last' = "reupdate" /\ moved' = FALSE
            /\ hist' = Append(hist, [a |-> "reupdate", ph |-> hist[Len(hist)].ph])
Next == (\E ph \in Phases : Below(ph) \/ \E r \in 0..R : Above(ph, r)) \/ ReUpdate
Spec == Init /\ [][Next]_vars

Irreversible == [][e' >= e]_vars
OnlyYieldingMoves == [][(e' # e) => last' = "above"]_vars
Emit == (EmitMode = "all" /\ Len(hist) = MaxLen) => PrintT(<<"BEH", ToJson([w |-> hist])>>)
=============================================================================
