SPECIFICATION Spec
CONSTANTS
  Depth = 5
  EmitMode = "none"
INVARIANT AlwaysInSync
CHECK_DEADLOCK FALSE
