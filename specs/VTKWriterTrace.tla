--------------------------- MODULE VTKWriterTrace ---------------------------
(* Trace validation for VTKWriter.tla.  Each line of IOEnv.TRACE_FILE is one  *)
(* execution of the REAL optimism.VTKWriter:                                  *)
(*   {"id": n, "mesh": {nOut,nEl,npe}, "ev": [ {op,name,kind,dtype,ok,k,      *)
(*       "file": <abstract record parsed from the file written>} ... ]}       *)
(* The spec state is advanced by the spec's own actions; the observed file is *)
(* judged clause by clause.  Verdicts are total: a failing clause is recorded *)
(* as <<id, event index, clause>> and validation continues.                   *)
EXTENDS VTKWriter, Json, IOUtils

Traces == ndJsonDeserialize(IOEnv.TRACE_FILE)
NT == Len(Traces)

VARIABLES tid, l, viol, prevWrite
tvars == <<vars, tid, l, viol, prevWrite>>

Apply(e) ==
  CASE e.op = "AddNodal"  -> AddNodal(e.name, e.kind, e.dtype, e.ok)
    [] e.op = "AddCell"   -> AddCell(e.name, e.kind, e.dtype, e.ok)
    [] e.op = "AddSphere" -> nS' = nS + 1 /\ UNCHANGED <<mesh, nodal, cell, nE>> /\ lastFile' = NoFile
    [] e.op = "AddEdges"  -> nE' = nE + e.k /\ UNCHANGED <<mesh, nodal, cell, nS>> /\ lastFile' = NoFile
    [] e.op = "Write"     -> Write

UserArrays(f) == SelectSeq(f.nodalArrays, LAMBDA a : a.name # "sphere_radius")

\* ---- clauses.  Contract clauses are literal readings of property C20; "drift:" clauses
\* ---- compare with the mechanism (exact expected record) and never raise a violation.
Clauses(e, expect, prev) ==
  LET f == e.file IN
  [ wellformed     |-> WellFormed(f),
    conn_in_range  |-> f.connInRange,
    cell_types     |-> f.typesOk,
    rt_coords      |-> f.coordsOk,
    rt_conn        |-> f.connOk,
    rt_values      |-> f.valuesOk,
    rt_fields      |-> /\ Len(UserArrays(f)) = Len(nodal')
                       /\ \A i \in 1..Len(nodal') :
                            /\ UserArrays(f)[i].name = nodal'[i].name
                            /\ UserArrays(f)[i].kind = nodal'[i].kind
                            /\ UserArrays(f)[i].dtype = nodal'[i].dtype
                       /\ Len(f.cellArrays) = Len(cell')
                       /\ \A i \in 1..Len(cell') :
                            /\ f.cellArrays[i].name = cell'[i].name
                            /\ f.cellArrays[i].kind = cell'[i].kind
                            /\ f.cellArrays[i].dtype = cell'[i].dtype,
    idempotent     |-> prev => f.sameAsPrev,
    drift_counts   |-> /\ f.pointsDecl = expect.pointsDecl /\ f.cellsDecl = expect.cellsDecl
                       /\ f.intsDecl = expect.intsDecl /\ f.pdPresent = expect.pdPresent
                       /\ f.cdPresent = expect.cdPresent,
    drift_arrays   |-> f.nodalArrays = expect.nodalArrays /\ f.cellArrays = expect.cellArrays ]

ClauseNames == {"wellformed", "conn_in_range", "cell_types", "rt_coords", "rt_conn", "rt_values",
                "rt_fields", "idempotent", "drift_counts", "drift_arrays"}

TInit ==
  /\ tid = 1 /\ l = 0 /\ viol = {} /\ prevWrite = FALSE
  /\ mesh = IF NT >= 1 THEN Traces[1].mesh ELSE [nOut |-> 0, nEl |-> 0, npe |-> 0]
  /\ nodal = <<>> /\ cell = <<>> /\ nS = 0 /\ nE = 0 /\ lastFile = NoFile

Step ==
  /\ tid <= NT /\ l < Len(Traces[tid].ev)
  /\ LET e == Traces[tid].ev[l + 1] IN
     /\ Apply(e)
     /\ l' = l + 1 /\ tid' = tid
     /\ prevWrite' = (e.op = "Write")
     /\ viol' = IF e.op = "Write"
                THEN LET cl == Clauses(e, FileOf', prevWrite)
                     IN viol \cup { <<Traces[tid].id, l + 1, c>> : c \in {c \in ClauseNames : ~cl[c]} }
                ELSE viol

NextTrace ==
  /\ tid <= NT /\ l = Len(Traces[tid].ev)
  /\ tid' = tid + 1 /\ l' = 0 /\ prevWrite' = FALSE /\ viol' = viol
  /\ mesh' = IF tid + 1 <= NT THEN Traces[tid + 1].mesh ELSE mesh
  /\ nodal' = <<>> /\ cell' = <<>> /\ nS' = 0 /\ nE' = 0 /\ lastFile' = NoFile

TNext == Step \/ NextTrace
TSpec == TInit /\ [][TNext]_tvars

Done == tid > NT
Verdict == Done => PrintT(<<"VERDICT", ToJson([n |-> NT, viol |-> viol])>>)
=============================================================================
