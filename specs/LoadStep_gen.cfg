SPECIFICATION GSpec
CONSTANTS
  Drivers = {"TR", "TRS", "SPG", "AL", "BAL"}
  Ks = {2}
  Ps <- PsSmall
  MaxSteps = 2
  EmitMode = "all"
INVARIANT AfterStep
INVARIANT PredictorLands
INVARIANT OpsAsExpected
INVARIANT Emit
CHECK_DEADLOCK FALSE
