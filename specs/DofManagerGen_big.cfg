SPECIFICATION SpecCanon
CONSTANTS
  Meshes <- MeshesBig
  EmitMode = "none"
VIEW View
INVARIANT TypeOK
INVARIANT InvMaskIsDecl
INVARIANT InvPartition
INVARIANT InvBcExact
INVARIANT InvSizes
INVARIANT InvSplit
INVARIANT InvRoundTrip
INVARIANT InvSlice
INVARIANT InvDofToUnknown
INVARIANT InvHess
CHECK_DEADLOCK FALSE
