----------------------------- MODULE Sensitivity -----------------------------
(***************************************************************************)
(* Forward / backward protocol of differentiable equilibrium solves (C07). *)
(* A computation is a chain of load steps; each forward solve saves its    *)
(* residual data (solution id, parameters); reverse-mode differentiation   *)
(* visits the saved records in REVERSE order, and each backward rule must  *)
(*   (a) reinstall the saved parameters on the objective before building   *)
(*       the Hessian operator (the objective is a mutable object shared by *)
(*       all steps and carries the LAST step's parameters),                *)
(*   (b) solve the adjoint system with that operator,                      *)
(*   (c) produce one cotangent per present routed slot from the matching   *)
(*       Jacobian, none for absent slots and slots 3, 5, zero for the guess.*)
(***************************************************************************)
EXTENDS Integers, Sequences, FiniteSets, TLC, SensitivityRules, Json

CONSTANTS EmitMode, MaxSteps, PresentSets     \* PresentSets: the sets of present slots explored (always contain 0)

PresentQuick == {{0}, {0, 1}, {0, 2}, {0, 4}, {0, 2, 4}, {0, 1, 2, 4}, {0, 3, 5}, {0, 1, 2, 3, 4, 5}}
PresentAll == { S \cup {0} : S \in SUBSET {1, 2, 3, 4, 5} }

VARIABLES phase,      \* "fwd" | "bwd" | "done"
          present,    \* present slots of the parameter tuple (fixed per computation)
          nfwd,       \* forward solves done
          stack,      \* saved records not yet reversed: sequence of step ids
          installed,  \* step id whose parameters are installed on the objective
          hessAt,     \* step id whose parameters were installed when the last adjoint operator was built
          bwdOrder,   \* step ids in the order their backward rules ran
          cots        \* per backward rule: function slot -> "value" | "none", and the Jacobian used
vars == <<phase, present, nfwd, stack, installed, hessAt, bwdOrder, cots>>

Init == /\ phase = "fwd" /\ present \in PresentSets /\ nfwd = 0 /\ stack = <<>> /\ installed = 0
        /\ hessAt = 0 /\ bwdOrder = <<>> /\ cots = <<>>

Fwd == /\ phase = "fwd" /\ nfwd < MaxSteps
       /\ nfwd' = nfwd + 1 /\ stack' = Append(stack, nfwd + 1) /\ installed' = nfwd + 1
       /\ UNCHANGED <<phase, present, hessAt, bwdOrder, cots>>

StartBwd == /\ phase = "fwd" /\ nfwd >= 1 /\ phase' = "bwd"
            /\ UNCHANGED <<present, nfwd, stack, installed, hessAt, bwdOrder, cots>>

Bwd == /\ phase = "bwd" /\ Len(stack) > 0
       /\ LET k == stack[Len(stack)] IN
          /\ installed' = k                    \* mechanicalEnergy.p = p  (saved)
          /\ hessAt' = k                       \* hess_vec_func built after the assignment
          /\ bwdOrder' = Append(bwdOrder, k)
          /\ cots' = Append(cots, [s \in Slots |-> [kind |-> ExpectedCot(present, s), jac |-> JacFor(s)]])
          /\ stack' = SubSeq(stack, 1, Len(stack) - 1)
       /\ UNCHANGED <<phase, present, nfwd>>

Finish == /\ phase = "bwd" /\ Len(stack) = 0 /\ phase' = "done"
          /\ UNCHANGED <<present, nfwd, stack, installed, hessAt, bwdOrder, cots>>

Next == Fwd \/ StartBwd \/ Bwd \/ Finish
Spec == Init /\ [][Next]_vars

\* ---- properties
ReverseOrder == phase = "done" => \A i \in 1..Len(bwdOrder) : bwdOrder[i] = nfwd + 1 - i
AllReversed == phase = "done" => Len(bwdOrder) = nfwd
OperatorAtSavedParams == \A i \in 1..Len(bwdOrder) : TRUE /\ (Len(bwdOrder) > 0 => hessAt = bwdOrder[Len(bwdOrder)])
Routing == \A i \in 1..Len(cots) : \A s \in Slots :
             /\ (cots[i][s].kind = "value") <=> (s \in present /\ s \in Routed)
             /\ cots[i][s].jac = s
NoCotForAppOrDynamic == \A i \in 1..Len(cots) : cots[i][3].kind = "none" /\ cots[i][5].kind = "none"
SetToSeq(S) == [i \in 1..6 |-> (i - 1) \in S]
Emit == (EmitMode = "all" /\ phase = "done") => PrintT(<<"BEH", ToJson([present |-> SetToSeq(present), steps |-> nfwd])>>)
=============================================================================
