--------------------------- MODULE ExodusPropsTrace ---------------------------
(* {"id":n,"outcome":expected (TLC),"cols":[file positions] (TLC),"got":"ok|KeyError|ValueError|other","shape_ok":b,
    "src":[for each result column the file position whose values it equals exactly, 0 if none]} *)
EXTENDS Integers, Sequences, TLC, Json, IOUtils
Traces == ndJsonDeserialize(IOEnv.TRACE_FILE)
NT == Len(Traces)
VARIABLES tid, viol
Clauses(t) == LET tr == Traces[t] IN
  [ outcome_kind |-> tr.got = tr.outcome,
    columns_follow_request |-> (tr.outcome = "ok") => (tr.shape_ok /\ tr.src = tr.cols) ]
ClauseNames == {"outcome_kind", "columns_follow_request"}
TInit == tid = 1 /\ viol = {}
Step == /\ tid <= NT /\ tid' = tid + 1
        /\ LET cl == Clauses(tid) IN viol' = viol \cup { <<Traces[tid].id, 1, c>> : c \in {c \in ClauseNames : ~cl[c]} }
TSpec == TInit /\ [][Step]_<<tid, viol>>
Done == tid > NT
Verdict == Done => PrintT(<<"VERDICT", ToJson([n |-> NT, viol |-> viol])>>)
=============================================================================
