------------------------- MODULE BoxProjectionTrace -------------------------
(* Validates observations of the REAL TrustRegionSPG.project / project_onto_tr on (scaled) lattice   *)
(* instances against BoxProjection.tla.  One line per instance:                                      *)
(*  {"id":n,"x":[..],"lb":[..],"ub":[..],"xk":[..],"dsq":d,                                          *)
(*   "proj":[i,j] (real result mapped back to lattice integers, -999 = off lattice),                  *)
(*   "trInBox":b,"trInBall":b,"trEqProj":b}                                                          *)
EXTENDS BoxProjection, IOUtils

Traces == ndJsonDeserialize(IOEnv.TRACE_FILE)
NT == Len(Traces)
VARIABLES tid, viol
tvars == <<vars, tid, viol>>

Load(t) == /\ x' = Traces[t].x /\ lb' = Traces[t].lb /\ ub' = Traces[t].ub
           /\ xk' = Traces[t].xk /\ dsq' = Traces[t].dsq

Clauses(t) ==
  [ project_closest         |-> Traces[t].proj = Project(x) /\ ProjClosest,
    tr_in_box               |-> Traces[t].trInBox,
    tr_in_ball              |-> Traces[t].trInBall,
    tr_is_proj_when_inside  |-> TrCaseInside => Traces[t].trEqProj ]
ClauseNames == {"project_closest", "tr_in_box", "tr_in_ball", "tr_is_proj_when_inside"}

TInit == /\ tid = 1 /\ viol = {}
         /\ IF NT >= 1 THEN /\ x = Traces[1].x /\ lb = Traces[1].lb /\ ub = Traces[1].ub
                            /\ xk = Traces[1].xk /\ dsq = Traces[1].dsq
                       ELSE /\ x = <<0, 0>> /\ lb = <<0, 0>> /\ ub = <<0, 0>> /\ xk = <<0, 0>> /\ dsq = 1
Step == /\ tid <= NT
        /\ LET cl == Clauses(tid) IN viol' = viol \cup { <<Traces[tid].id, 1, c>> : c \in {c \in ClauseNames : ~cl[c]} }
        /\ tid' = tid + 1
        /\ IF tid + 1 <= NT THEN Load(tid + 1) ELSE UNCHANGED vars
TSpec == TInit /\ [][Step]_tvars
Done == tid > NT
Verdict == Done => PrintT(<<"VERDICT", ToJson([n |-> NT, viol |-> viol])>>)
=============================================================================
