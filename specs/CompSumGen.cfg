SPECIFICATION Spec
CONSTANTS
  P = 5
  SplitFactor = 9
  SumBound = 40
  DotMags = {1, 3, 7, 13, 21, 31}
  Depth = 3
  EmitMode = "all"
INVARIANT EFTChain
INVARIANT ResultBound
INVARIANT FaithfulWhenPositive
INVARIANT Emit
VIEW View
CHECK_DEADLOCK FALSE
