SPECIFICATION Spec
CONSTANTS
  MaxAttempts = 10
  EmitMode = "all"
INVARIANT ResultIsFirstSpd
INVARIANT RequestsInOrder
INVARIANT RequestCount
INVARIANT Emit
CHECK_DEADLOCK FALSE
