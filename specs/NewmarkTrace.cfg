SPECIFICATION TSpec
CONSTANTS
  ParamSets = {}
  Stiff = {}
  Dts = {}
  Inits = {}
  MaxSteps = 0
  MaxMag = 0
INVARIANT Verdict
CHECK_DEADLOCK FALSE
