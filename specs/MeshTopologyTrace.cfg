SPECIFICATION TSpec
CONSTANTS
  MaxTri = 0
  MaxVerts = 0
  StructSizes = {}
  UseRing = FALSE
  Elevations = {}
  SetMaxTri = 0
  NamesB = {}
INVARIANT Verdict
CHECK_DEADLOCK FALSE
