SPECIFICATION GSpec
CONSTANTS
  N = 2
  NG = 1
  M = 4
  PhiMax = 3
  NSamp = 3
  Kinds = {"ls"}
  Depth = 2
CONSTRAINT Bound
INVARIANT Emit
CHECK_DEADLOCK FALSE
