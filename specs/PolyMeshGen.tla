---------------------------- MODULE PolyMeshGen ----------------------------
(* Oracle generator for PolyMesh.tla (property C03).  The run checks every    *)
(* invariant of the design spec and prints, as JSON,                          *)
(*  - for every (mesh, cyclic shift): the mesh the harness must build (node   *)
(*    coordinates, the element node triples AFTER the shift, 1-based), the    *)
(*    boundary sides <<element, local side, Nx, Ny>> with the integer outward *)
(*    normal (times length), the doubled area and whether r = x >= 0;         *)
(*  - for every (mesh, shift, monomial x^a y^b): the exact integers           *)
(*       vs = sum_T A2 STri(a,b)          int x^a y^b   = vs a! b!/(a+b+2)!   *)
(*       ax = sum_T A2 STri(a+1,b)        int r x^a y^b = ax (a+1)! b!/(a+b+3)!*)
(*            (only if hasax: r >= 0 on the mesh and a+b+1 <= MaxDeg)         *)
(*       ex, ey = sum_E N SEdge(a,b)      oint x^a y^b n ds = ex a! b!/(a+b+1)!*)
EXTENDS PolyMesh, Json, TLC

MeshRec(m, s) ==
  [k |-> "mesh", m |-> m, s |-> s, poly |-> MT[m].poly, nodes |-> MT[m].nodes,
   tris |-> [e \in 1..NE(m) |-> Elem(m, s, e)],
   bnd |-> {<<ek[1], ek[2], SideN(m, s, ek[1], ek[2])[1], SideN(m, s, ek[1], ek[2])[2]>> : ek \in Bnd(m, s)},
   a2 |-> MeshA2(m, s), rpos |-> RPos(m)]

Emit == /\ st.k = "mesh" => PrintT(<<"OBS", ToJson(MeshRec(st.m, st.s))>>)
        /\ st.k = "mono" => PrintT(<<"OBS", ToJson([st EXCEPT !.bnd = {}])>>)
=============================================================================
