--------------------------- MODULE LeastSquaresTrace ---------------------------
(* EXTENSION X06: EquationSolver.trust_region_least_squares_solve (minimises 1/2 |g|^2 with an LU-factored Jacobian).      *)
(* Accepted iterates are observed as the points at which the solver refreshes the Jacobian (objective.hessian).          *)
(* {"id":n,"ev":[{"e":"Accept","cmp":"LT|EQ|UP","fin":b}..,{"e":"Return","flag":b,"gSmall":b,"isLastOrTrial":b}]}          *)
EXTENDS Integers, Sequences, TLC, Json, IOUtils
Traces == ndJsonDeserialize(IOEnv.TRACE_FILE)
NT == Len(Traces)
VARIABLES tid, l, viol
Clauses(t, j) ==
  LET e == Traces[t].ev[j] IN
  [ merit_descends |-> (e.e = "Accept") => e.cmp \in {"LT", "EQ"},
    finite         |-> (e.e = "Accept") => e.fin,
    honest_flag    |-> (e.e = "Return" /\ e.flag) => e.gSmall,
    ends_with_return |-> (j = Len(Traces[t].ev)) => e.e = "Return" ]
ClauseNames == {"merit_descends", "finite", "honest_flag", "ends_with_return"}
TInit == tid = 1 /\ l = 0 /\ viol = {}
Step == /\ tid <= NT /\ l < Len(Traces[tid].ev) /\ l' = l + 1 /\ tid' = tid
        /\ LET cl == Clauses(tid, l + 1) IN viol' = viol \cup { <<Traces[tid].id, l + 1, c>> : c \in {c \in ClauseNames : ~cl[c]} }
NextTrace == /\ tid <= NT /\ l = Len(Traces[tid].ev) /\ tid' = tid + 1 /\ l' = 0 /\ viol' = viol
TSpec == TInit /\ [][Step \/ NextTrace]_<<tid, l, viol>>
Done == tid > NT
Verdict == Done => PrintT(<<"VERDICT", ToJson([n |-> NT, viol |-> viol])>>)
=============================================================================
