------------------------------ MODULE LoadStepGen ------------------------------
EXTENDS LoadStep, Json
CONSTANT EmitMode
VARIABLE hist
GInit == Init /\ hist = <<>>
GNext ==
  \/ \E d \in Drivers, w \in BOOLEAN, u \in BOOLEAN, p \in Ps :
        Begin(d, w, u, p) /\ hist' = Append(hist, [drv |-> d, warm |-> w, upd |-> u, p |-> p])
  \/ (WarmStart \/ Install \/ Refresh \/ Reinstall \/ Solve \/ End) /\ hist' = hist
GSpec == GInit /\ [][GNext]_<<vars, hist>>
View == <<pc, drv, warm, upd, steps, pInst = pReq>>
Emit == (EmitMode = "all" /\ pc = "begin") => PrintT(<<"BEH", ToJson([p0 |-> IF Len(hist) > 0 THEN 0 ELSE 0, steps |-> hist])>>)
=============================================================================
