SPECIFICATION Spec
CONSTANTS
  MaxCG = 6
  Root = "minus"
  Faithful = TRUE
INVARIANT TypeOK
INVARIANT InvInside
INVARIANT InvOnBoundary
INVARIANT InvNewtonResidual
INVARIANT InvBeatsCauchy
INVARIANT InvNeverIncreases
INVARIANT InvReturn
PROPERTY Monotone
CHECK_DEADLOCK FALSE
