--------------------------- MODULE TrustRegionTrace ---------------------------
(* Trace validation for the trust-region minimizers (C01: EquationSolver.trust_region_minimize,     *)
(* C05: TrustRegionSPG.bound_constrained_trust_region_minimize).                                   *)
(* One trace = one real solve observed through the public callback, the return value and a         *)
(* recording proxy objective:                                                                      *)
(*   {"id":n, "incr":bool, "convex":bool, "bounded":bool, "scripted":bool,                          *)
(*    "ev":[ {"e":"Start","fin":b,"feas":b},                                                       *)
(*           {"e":"Trial","rho":class,"resNW":b,"conv":b},          (mechanism, drift only)       *)
(*           {"e":"Refresh"},                                       (mechanism)                   *)
(*           {"e":"Report","cmp":"LE|UPTINY|UP|NAN","fin":b,"same":b,"feas":b},                    *)
(*           {"e":"Return","flag":b,"last":b,"gSmall":b,"agree":"EQ|NE|NA","feas":b} ]}           *)
(* cmp compares the objective at the reported iterate with the objective at the previously         *)
(* reported one (the start point counts as reported).                                              *)
EXTENDS Integers, Sequences, TLC, TRRules, Json, IOUtils

Traces == ndJsonDeserialize(IOEnv.TRACE_FILE)
NT == Len(Traces)

VARIABLES tid, l, viol
tvars == <<tid, l, viol>>

Ev(t, i) == Traces[t].ev[i]
HasNext(t, i) == i + 1 <= Len(Traces[t].ev)
\* the report made by the convergence exit is the one immediately followed by Return(flag = TRUE)
IsConvExitReport(t, i) == HasNext(t, i) /\ Ev(t, i + 1).e = "Return" /\ Ev(t, i + 1).flag
\* next non-mechanism event after a trial
NextIsFreshReport(t, i) ==
  \E j \in (i + 1)..Len(Traces[t].ev) :
     /\ Ev(t, j).e = "Report" /\ ~Ev(t, j).same
     /\ \A k \in (i + 1)..(j - 1) : Ev(t, k).e = "Refresh"

AsEnv(e) == [conv |-> e.conv, real |-> "better", rho |-> e.rho, resNW |-> e.resNW, feas |-> TRUE]

\* ---- clauses per event; TRUE = satisfied or not applicable
Clauses(t, i) ==
  LET e == Ev(t, i) tr == Traces[t] IN
  [ descent          |-> (e.e = "Report" /\ ~tr.incr /\ ~IsConvExitReport(t, i)) => e.cmp = "LE",
    \* (not evaluated under a scripted value oracle: it does not hold for arbitrary environments)
    descent_convexit |-> (e.e = "Report" /\ ~tr.incr /\ ~tr.scripted /\ IsConvExitReport(t, i)) => e.cmp \in {"LE", "UPTINY"},
    finite           |-> (e.e \in {"Report", "Start"}) => e.fin,
    feasible         |-> (tr.bounded /\ e.e \in {"Report", "Start", "Return"}) => e.feas,
    returns_last     |-> (e.e = "Return") => e.last,
    honest_flag      |-> (e.e = "Return" /\ e.flag) => e.gSmall,
    convex_succeeds  |-> (e.e = "Return" /\ tr.convex) => (e.flag /\ e.agree = "EQ"),
    \* leaving the solver: a return, or (SPG only) the documented RuntimeError of the generalized Cauchy point search,
    \* which is outside the contract -- but every iterate reported BEFORE it is still judged
    ends_with_return |-> (i = Len(tr.ev)) => (e.e = "Return" \/ (e.e = "Raised" /\ e.cauchy)),
    \* mechanism (never a violation): the acceptance rule and the convergence-first exit
    drift_accept     |-> (e.e = "Trial" /\ ~e.conv /\ ~tr.incr) => (NextIsFreshReport(t, i) <=> Accepts(AsEnv(e))),
    drift_conv       |-> (e.e = "Trial" /\ e.conv) => (HasNext(t, i) /\ Ev(t, i + 1).e = "Report"
                                                        /\ IsConvExitReport(t, i + 1)) ]

ClauseNames == {"descent", "descent_convexit", "finite", "feasible", "returns_last", "honest_flag",
                "convex_succeeds", "ends_with_return", "drift_accept", "drift_conv"}

TInit == tid = 1 /\ l = 0 /\ viol = {}

Step ==
  /\ tid <= NT /\ l < Len(Traces[tid].ev)
  /\ l' = l + 1 /\ tid' = tid
  /\ LET cl == Clauses(tid, l + 1)
     IN viol' = viol \cup { <<Traces[tid].id, l + 1, c>> : c \in {c \in ClauseNames : ~cl[c]} }

NextTrace ==
  /\ tid <= NT /\ l = Len(Traces[tid].ev)
  /\ tid' = tid + 1 /\ l' = 0 /\ viol' = viol

TNext == Step \/ NextTrace
TSpec == TInit /\ [][TNext]_tvars

Done == tid > NT
Verdict == Done => PrintT(<<"VERDICT", ToJson([n |-> NT, viol |-> viol])>>)
=============================================================================
