SPECIFICATION GSpec
CONSTANTS
  N = 3
  NG = 1
  M = 4
  PhiMax = 3
  NSamp = 3
  Kinds = {"cpp"}
  Depth = 0
CONSTRAINT Bound
INVARIANT Emit
CHECK_DEADLOCK FALSE
