---------------------------- MODULE ContactGeom ----------------------------
(***************************************************************************)
(* Exact integer model of the contact geometry of optimism (property C16). *)
(*                                                                         *)
(* Everything lives on the integer lattice; every rational is kept as a    *)
(* numerator over a stated (possibly irrational-unit) denominator, so all  *)
(* comparisons are integer comparisons (|values| < 2^20, TLC has 32 bit).  *)
(*                                                                         *)
(* One query "q" per public call family of the real code                   *)
(*   cpp   : EdgeCpp.cpp / cpp_distance            (segment a->b, point p) *)
(*   pair  : MortarContact.integrate_with_mortar   (segments A, B, normal) *)
(*   chain : MortarContact.assemble_nodal_areas / _area_weighted_gaps      *)
(*   pen   : PenaltyContact.compute_total_penalty_contact_energy           *)
(*   ls    : LevelsetConstraint.compute_levelset_constraints               *)
(* and one action per thing the property quantifies over: the rigid        *)
(* motions Rot / Trans (and the orientation-preserving Mirror), chain      *)
(* refinement and sliding, changing one sample value, displacing a node.   *)
(*                                                                         *)
(* Each quantity is written twice: "implementation-shaped" (the way the    *)
(* code computes it: clamped parameter, mutual end-point projection with   *)
(* min/max over the valid candidates, ...) and "specification-shaped"      *)
(* (what the property says: nearest point, Euclidean distance, measure of  *)
(* the common shadow, ...).  The invariants state that they agree.         *)
(***************************************************************************)
EXTENDS Integers, Sequences, FiniteSets, TLC

CONSTANTS N,        \* cpp triples and parallel pairs live on (-N..N)^2
          NG,       \* general (also non-parallel) pairs are started on (-NG..NG)^2
          M,        \* chain nodes are subsets of 0..M   (segment lengths 1..M, M <= 4)
          PhiMax,   \* penalty sample values in -PhiMax..PhiMax
          NSamp,    \* number of penalty sample points
          Kinds     \* subset of {"cpp","pair","chain","pen","ls"} explored by a run

VARIABLES q,        \* the current query (a record, field "kind")
          last      \* name of the action that produced q ("Init" at the start)
vars == <<q, last>>

\* ------------------------------------------------------------------ integers, vectors
Abs(x) == IF x < 0 THEN -x ELSE x
Sgn(x) == IF x < 0 THEN -1 ELSE IF x > 0 THEN 1 ELSE 0
Min(x, y) == IF x <= y THEN x ELSE y
Max(x, y) == IF x >= y THEN x ELSE y
SetMin(S) == CHOOSE x \in S : \A y \in S : x <= y
SetMax(S) == CHOOSE x \in S : \A y \in S : x >= y
RECURSIVE SumFn(_, _)
SumFn(f, S) == IF S = {} THEN 0 ELSE LET x == CHOOSE x \in S : TRUE IN f[x] + SumFn(f, S \ {x})

Pts(n) == (-n..n) \X (-n..n)
Sub(u, v) == <<u[1] - v[1], u[2] - v[2]>>
Add(u, v) == <<u[1] + v[1], u[2] + v[2]>>
Dot(u, v) == u[1] * v[1] + u[2] * v[2]
Cross(u, v) == u[1] * v[2] - u[2] * v[1]
N2(u) == Dot(u, u)
Perp(v) == <<v[2], -v[1]>>      \* |v| * Surface.compute_normal(edge): tangent turned clockwise

\* ================================================================== cpp
\* EdgeCpp.cpp: t = -v.(a-p)/|v|^2 clamped to [0,1]; point (1-t) a + t b.
\* With d = |v|^2 the parameter is CppT/d and the point is CppQ/d (componentwise).
CppN(a, b, p) == Dot(Sub(b, a), Sub(p, a))
CppD(a, b)    == N2(Sub(b, a))
CppT(a, b, p) == LET n == CppN(a, b, p) d == CppD(a, b) IN IF n < 0 THEN 0 ELSE IF n > d THEN d ELSE n
PointAt(a, b, s) == LET d == CppD(a, b) IN <<d * a[1] + s * (b[1] - a[1]), d * a[2] + s * (b[2] - a[2])>>  \* d * (a + (s/d) v)
CppQ(a, b, p) == PointAt(a, b, CppT(a, b, p))
\* d^2 * |p - x(s/d)|^2
D2At(a, b, p, s) == LET d == CppD(a, b) IN N2(Sub(<<d * p[1], d * p[2]>>, PointAt(a, b, s)))

\* specification: nearest point of the segment.  The distance is a convex quadratic in the
\* parameter, its minimiser over [0,1] has an integer numerator over d, hence comparing with every
\* s/d, s in 0..d, is exact; Optimal is the first-order (KKT) certificate over the reals.
IsClosest(a, b, p) == LET best == D2At(a, b, p, CppT(a, b, p)) IN \A s \in 0..CppD(a, b) : best <= D2At(a, b, p, s)
Optimal(a, b, p) ==
  LET d == CppD(a, b) t == CppT(a, b, p) v == Sub(b, a)
      r == Sub(<<d * p[1], d * p[2]>>, PointAt(a, b, t))     \* d (p - x*)
  IN /\ (t = 0 => Dot(v, r) <= 0)
     /\ (t = d => Dot(v, r) >= 0)
     /\ ((0 < t /\ t < d) => Dot(v, r) = 0)

\* EdgeCpp.cpp_distance: distance^2 = DistMag/d; implementation-shaped (normal-line distance inside,
\* end-point distance beyond the ends); sign = side of Surface.compute_normal.
DistMag(a, b, p) ==
  LET n == CppN(a, b, p) d == CppD(a, b) c == Cross(Sub(b, a), Sub(p, a))
  IN IF n < 0 THEN d * N2(Sub(p, a)) ELSE IF n > d THEN d * N2(Sub(p, b)) ELSE c * c
Side(a, b, p) == Sgn(Dot(Perp(Sub(b, a)), Sub(p, a)))       \* = -sign(cross(b-a, p-a)); 0 on the line
\* specification: the Euclidean distance to the segment is the distance to its nearest point
DistanceIsEuclidean(a, b, p) == DistMag(a, b, p) * CppD(a, b) = D2At(a, b, p, CppT(a, b, p))

CppClass(a, b, p) ==
  LET n == CppN(a, b, p) d == CppD(a, b)
  IN [region |-> IF n < 0 THEN "before_a" ELSE IF n = 0 THEN "at_a" ELSE IF n < d THEN "interior"
                 ELSE IF n = d THEN "at_b" ELSE "beyond_b",
      side |-> Side(a, b, p)]

\* ================================================================== pair (mortar)
\* q = [kind |-> "pair", A |-> <<a0,a1>>, B |-> <<b0,b1>>, nm |-> "fromA" | "avg"]
VA(P) == Sub(P.A[2], P.A[1])
VB(P) == Sub(P.B[2], P.B[1])
DA(P) == N2(VA(P))
DB(P) == N2(VB(P))
Parallel(P) == Cross(VA(P), VB(P)) = 0
SameDir(P)  == Parallel(P) /\ Dot(VA(P), VB(P)) > 0
OppDir(P)   == Parallel(P) /\ Dot(VA(P), VB(P)) < 0
\* degenerate inputs of the projection along the common normal (not queries of the model):
\*  - the average normal (nA - nB)/|nA - nB| is 0/0 for equally directed parallel segments;
\*  - with the normal of A as common normal a segment B perpendicular to A is parallel to the projection
\*    direction: the 2x2 system of compute_intersection is singular (with the average normal of two
\*    non-parallel segments this never happens: (nA - nB).nB = nA.nB - 1 # 0)
Admissible(P) == IF P.nm = "fromA" THEN Dot(VA(P), VB(P)) # 0 ELSE ~SameDir(P)
\* the common normal is the normal of A (exactly) for nm = fromA and for opposed parallel segments;
\* otherwise its direction is irrational in general and the model makes no exact prediction
HasExact(P) == P.nm = "fromA" \/ OppDir(P)

\* tangential coordinate along A, scaled by |vA|: A is [0, dA], B is [SB1, SB2]
TanCoord(P, x) == Dot(Sub(x, P.A[1]), VA(P))
SB1(P) == TanCoord(P, P.B[1])
SB2(P) == TanCoord(P, P.B[2])
EB(P)  == SB2(P) - SB1(P)
In01(n, d) == (d > 0 /\ 0 <= n /\ n <= d) \/ (d < 0 /\ d <= n /\ n <= 0)

\* implementation-shaped (compute_intersection): project the end points of A onto B and of B onto A
\* along the common normal; keep the candidates with both parameters in [0,1]; overlap = [min,max]
\* of the valid xiA.  xa = numerator of xiA over dA; xiB = xbn/xbd.
Cands(P) ==
  LET sb1 == SB1(P) sb2 == SB2(P) d == DA(P) e == sb2 - sb1
  IN << [xa |-> 0,   xbn |-> 0 - sb1, xbd |-> e],
        [xa |-> d,   xbn |-> d - sb1, xbd |-> e],
        [xa |-> sb1, xbn |-> 0,       xbd |-> 1],
        [xa |-> sb2, xbn |-> 1,       xbd |-> 1] >>
Good(d, c) == 0 <= c.xa /\ c.xa <= d /\ In01(c.xbn, c.xbd)
ImplOv(P) ==
  LET cs == Cands(P) d == DA(P)
      G == {cs[i].xa : i \in {i \in 1..4 : Good(d, cs[i])}}
  IN IF G = {} THEN <<0, 0>> ELSE <<SetMin(G), SetMax(G)>>
\* specification-shaped: measure of the common shadow of the two segments
SpecOv(P) ==
  LET sb1 == SB1(P) sb2 == SB2(P)
      lo == Max(0, Min(sb1, sb2)) hi == Min(DA(P), Max(sb1, sb2))
  IN IF sb1 # sb2 /\ lo <= hi THEN <<lo, hi>> ELSE <<0, 0>>
OvLen(P) == LET ov == ImplOv(P) IN ov[2] - ov[1]          \* overlap length = OvLen * sqrt(dA) / dA
SpecLen(P) == LET ov == SpecOv(P) IN ov[2] - ov[1]

\* signed gap of parallel segments along the normal of A: GapNum / sqrt(dA)
GapNum(P) == Dot(Sub(P.B[1], P.A[1]), Perp(VA(P)))

\* mortar integrals of parallel segments (units in the comments; dA = |vA|^2)
Integrals(P) ==
  LET ov == ImplOv(P) lo == ov[1] hi == ov[2]
  IN [ len  |-> hi - lo,                              \* int 1        = len  * sqrt(dA) / dA
       area |-> GapNum(P) * (hi - lo),                \* int g        = area / dA
       mxa  |-> hi * hi - lo * lo,                    \* int xiA      = mxa  * sqrt(dA) / (2 dA^2)
       mxb  |-> (hi - lo) * (lo + hi - 2 * SB1(P)),   \* int xiB      = mxb  * sqrt(dA) / (2 dA EB)
       eb   |-> EB(P), da |-> DA(P) ]

\* an end point of one segment projects exactly onto an end point of the other (the four
\* candidates of that end are all on the boundary of the validity test)
IsSquare(n) == \E r \in 0..64 : r * r = n
Root(n) == CHOOSE r \in 0..64 : r * r = n
Flush(P) ==
  \E i \in 1..2, j \in 1..2 :
    LET w == Sub(P.B[j], P.A[i])
    IN IF HasExact(P) THEN Dot(w, VA(P)) = 0
       ELSE \/ w = <<0, 0>>
            \/ /\ IsSquare(DA(P) * DB(P))
               /\ LET r == Root(DA(P) * DB(P))
                      n == Sub(<<r * Perp(VA(P))[1], r * Perp(VA(P))[2]>>,
                               <<DA(P) * Perp(VB(P))[1], DA(P) * Perp(VB(P))[2]>>)
                  IN Cross(w, n) = 0

OvKind(P) ==
  LET lo == Min(SB1(P), SB2(P)) hi == Max(SB1(P), SB2(P)) d == DA(P)
  IN IF EB(P) = 0 THEN "perp"
     ELSE IF hi < 0 \/ lo > d THEN "none"
     ELSE IF hi = 0 \/ lo = d THEN "touch"
     ELSE IF lo = 0 /\ hi = d THEN "equal"
     ELSE IF (lo <= 0 /\ hi >= d) \/ (lo >= 0 /\ hi <= d) THEN "nested"
     ELSE "partial"
PairClass(P) ==
  [ov |-> IF HasExact(P) THEN OvKind(P) ELSE "unknown",
   dir |-> IF SameDir(P) THEN "same" ELSE IF OppDir(P) THEN "opp" ELSE "nonpar",
   flush |-> Flush(P), gap |-> IF Parallel(P) THEN Sgn(GapNum(P)) ELSE 9]

\* ================================================================== chain (assembly)
\* q = [kind |-> "chain", xb |-> set of node positions of surface B (traversed increasing),
\*      ya |-> node positions of surface A (traversed decreasing, i.e. opposed), h |-> gap]
\* positions are multiples of a lattice vector e; surface A is shifted by h * Perp(e).
Segs(X) == {<<x, SetMin({y \in X : y > x})>> : x \in {x \in X : \E y \in X : y > x}}
\* 24 * (integral of the hat function of the left / right node of segment sb over sb /\ sa) / |e|
LeftShare24(sb, sa) ==
  LET lo == Max(sb[1], sa[1]) hi == Min(sb[2], sa[2]) len == sb[2] - sb[1]
  IN IF lo >= hi THEN 0 ELSE (12 \div len) * ((sb[2] - lo) * (sb[2] - lo) - (sb[2] - hi) * (sb[2] - hi))
RightShare24(sb, sa) ==
  LET lo == Max(sb[1], sa[1]) hi == Min(sb[2], sa[2]) len == sb[2] - sb[1]
  IN IF lo >= hi THEN 0 ELSE (12 \div len) * ((hi - sb[1]) * (hi - sb[1]) - (lo - sb[1]) * (lo - sb[1]))
NodalArea24(C, x) ==
  LET PP == Segs(C.xb) \X Segs(C.ya)
      f == [pr \in PP |-> IF pr[1][1] = x THEN LeftShare24(pr[1], pr[2])
                          ELSE IF pr[1][2] = x THEN RightShare24(pr[1], pr[2]) ELSE 0]
  IN SumFn(f, PP)
TotalArea24(C) == SumFn([x \in C.xb |-> NodalArea24(C, x)], C.xb)
\* specification: the two surfaces are intervals; their common part has this length
ChainOverlap(C) == Max(0, Min(SetMax(C.xb), SetMax(C.ya)) - Max(SetMin(C.xb), SetMin(C.ya)))

\* ================================================================== penalty
\* q = [kind |-> "pen", phi |-> <<phi_1..phi_NSamp>>]; energy / (k * weight * |edge|) = sum of min(0,phi)^2
NegPart(x) == IF x < 0 THEN x ELSE 0
Energy(phi) == SumFn([i \in 1..Len(phi) |-> NegPart(phi[i]) * NegPart(phi[i])], 1..Len(phi))
Penetrates(phi) == \E i \in 1..Len(phi) : phi[i] < 0

\* ================================================================== level set
\* q = [kind |-> "ls", obst |-> [type, x, y, r], edges |-> << [x0, x1, u0, u1], ... >>]
\* sample point = mid point of the DEFORMED edge (one-point Gauss rule); Mid2 = 2 * mid point
Mid2(e) == Add(Add(e.x0, e.u0), Add(e.x1, e.u1))
RefMid2(e) == Add(e.x0, e.x1)
\* Levelset.plane(x, yLoc) = yLoc - x_y;  corner = min(x_x - xLoc, x_y - yLoc);  sphere = |x - c| - R
\* Phi2 = 2 * phi for plane and corner; for the circle Phi2 = (2 (phi + R))^2
Phi2(o, m2) ==
  IF o.type = "plane" THEN 2 * o.y - m2[2]
  ELSE IF o.type = "corner" THEN Min(m2[1] - 2 * o.x, m2[2] - 2 * o.y)
  ELSE N2(Sub(m2, <<2 * o.x, 2 * o.y>>))
PhiSign(o, m2) == IF o.type = "circle" THEN Sgn(Phi2(o, m2) - 4 * o.r * o.r) ELSE Sgn(Phi2(o, m2))
\* specification: the obstacle as a point set (open interior), in doubled coordinates
Inside(o, m2) ==
  IF o.type = "plane" THEN m2[2] > 2 * o.y
  ELSE IF o.type = "corner" THEN m2[1] < 2 * o.x \/ m2[2] < 2 * o.y
  ELSE N2(Sub(m2, <<2 * o.x, 2 * o.y>>)) < 4 * o.r * o.r

Obstacles == {[type |-> "plane", x |-> 0, y |-> y, r |-> 0] : y \in 1..3}
        \cup {[type |-> "corner", x |-> x, y |-> y, r |-> 0] : x \in 0..1, y \in 0..1}
        \cup {[type |-> "circle", x |-> 1, y |-> y, r |-> r] : y \in 3..4, r \in 1..2}
\* the eight counter-clockwise boundary edges of the 3 x 3 node patch on (0..2)^2
LsEdges == { <<<<0,0>>,<<1,0>>>>, <<<<1,0>>,<<2,0>>>>, <<<<2,0>>,<<2,1>>>>, <<<<2,1>>,<<2,2>>>>,
             <<<<2,2>>,<<1,2>>>>, <<<<1,2>>,<<0,2>>>>, <<<<0,2>>,<<0,1>>>>, <<<<0,1>>,<<0,0>>>> }
LsDisp == Pts(1)

\* ================================================================== queries and motions
Segments(n)  == {s \in Pts(n) \X Pts(n) : s[1] # s[2]}
ChainSets    == {X \in SUBSET (0..M) : Cardinality(X) >= 2}
Pair(A, B, nm) == [kind |-> "pair", A |-> A, B |-> B, nm |-> nm]

\* (the query sets are enumerated by quantifiers, not built as constant sets: TLC would normalise them eagerly)
InitCpp == \E a \in Pts(N), b \in Pts(N), p \in Pts(N) : a # b /\ q = [kind |-> "cpp", a |-> a, b |-> b, p |-> p]
InitPair ==
  \/ \E A \in Segments(N), B \in Segments(N), nm \in {"fromA", "avg"} :
        Parallel(Pair(A, B, nm)) /\ Admissible(Pair(A, B, nm)) /\ q = Pair(A, B, nm)
  \/ \E A \in Segments(NG), B \in Segments(NG), nm \in {"fromA", "avg"} :
        ~Parallel(Pair(A, B, nm)) /\ Admissible(Pair(A, B, nm)) /\ q = Pair(A, B, nm)
InitChain == \E X \in ChainSets, Y \in ChainSets, h \in -1..2 : q = [kind |-> "chain", xb |-> X, ya |-> Y, h |-> h]
InitPen == \E f \in [1..NSamp -> -PhiMax..PhiMax] : q = [kind |-> "pen", phi |-> f]
InitLs == \E o \in Obstacles, e \in LsEdges :
            q = [kind |-> "ls", obst |-> o, edges |-> <<[x0 |-> e[1], x1 |-> e[2], u0 |-> <<0,0>>, u1 |-> <<0,0>>]>>]

Init ==
  /\ last = "Init"
  /\ \/ "cpp" \in Kinds /\ InitCpp
     \/ "pair" \in Kinds /\ InitPair
     \/ "chain" \in Kinds /\ InitChain
     \/ "pen" \in Kinds /\ InitPen
     \/ "ls" \in Kinds /\ InitLs

Rot90(x) == <<-x[2], x[1]>>
Mir(x)   == <<-x[1], x[2]>>
\* image of a geometric query under the point map f; swap = reverse the orientation of every segment
\* (a reflection turns a counter-clockwise boundary into a clockwise one; reversing restores the
\* meaning of "outward normal")
Image(Q, f(_), swap) ==
  IF Q.kind = "cpp"
  THEN [Q EXCEPT !.a = f(IF swap THEN Q.b ELSE Q.a), !.b = f(IF swap THEN Q.a ELSE Q.b), !.p = f(Q.p)]
  ELSE [Q EXCEPT !.A = IF swap THEN <<f(Q.A[2]), f(Q.A[1])>> ELSE <<f(Q.A[1]), f(Q.A[2])>>,
                 !.B = IF swap THEN <<f(Q.B[2]), f(Q.B[1])>> ELSE <<f(Q.B[1]), f(Q.B[2])>>]
PointsOf(Q) == IF Q.kind = "cpp" THEN {Q.a, Q.b, Q.p} ELSE {Q.A[1], Q.A[2], Q.B[1], Q.B[2]}
\* translations keep a query inside the lattice it was started on (parallel pairs and cpp triples: N,
\* non-parallel pairs: NG), so the reachable queries are exactly the initial ones
InLattice(Q) == PointsOf(Q) \subseteq Pts(IF Q.kind = "pair" /\ ~Parallel(Q) THEN NG ELSE N)
Geometric == q.kind \in {"cpp", "pair"}

Rot == /\ Geometric
       /\ q' = Image(q, Rot90, FALSE) /\ last' = "Rot"
Shifts == {<<1,0>>, <<-1,0>>, <<0,1>>, <<0,-1>>}
Trans(t) == /\ Geometric
            /\ LET Sh(x) == Add(x, t) IN q' = Image(q, Sh, FALSE)
            /\ InLattice(q') /\ last' = "Trans"
Mirror == /\ Geometric
          /\ q' = Image(q, Mir, TRUE) /\ last' = "Mirror"
\* chain: split a segment of one surface by a new node / slide surface A along the line
Refine(side, x) ==
  /\ q.kind = "chain"
  /\ LET X == IF side = "B" THEN q.xb ELSE q.ya
     IN /\ x \notin X /\ SetMin(X) < x /\ x < SetMax(X)
        /\ q' = IF side = "B" THEN [q EXCEPT !.xb = X \cup {x}] ELSE [q EXCEPT !.ya = X \cup {x}]
  /\ last' = "Refine"
Slide(dx) ==
  /\ q.kind = "chain"
  /\ {y + dx : y \in q.ya} \subseteq 0..M
  /\ q' = [q EXCEPT !.ya = {y + dx : y \in q.ya}] /\ last' = "Slide"
SetSample(i, v) ==
  /\ q.kind = "pen" /\ q.phi[i] # v
  /\ q' = [q EXCEPT !.phi[i] = v] /\ last' = "SetSample"
Displace(i, u) ==
  /\ q.kind = "ls"
  /\ q' = IF i = 0 THEN [q EXCEPT !.edges[1].u0 = u] ELSE [q EXCEPT !.edges[1].u1 = u]
  /\ q' # q /\ last' = "Displace"

Next ==
  \/ Rot
  \/ \E t \in Shifts : Trans(t)
  \/ Mirror
  \/ \E side \in {"A", "B"}, x \in 0..M : Refine(side, x)
  \/ \E dx \in {-1, 1} : Slide(dx)
  \/ \E i \in 1..NSamp, v \in -PhiMax..PhiMax : SetSample(i, v)
  \/ \E i \in 0..1, u \in LsDisp : Displace(i, u)

Spec == Init /\ [][Next]_vars

\* ================================================================== the clauses of C16 (design level)
\* "the closest-point projection returns the nearest point of the segment"
ClosestPointIsNearest == q.kind = "cpp" => IsClosest(q.a, q.b, q.p) /\ Optimal(q.a, q.b, q.p)
\* "the signed distance has magnitude equal to the Euclidean distance to the segment"
SignedDistanceMagnitude == q.kind = "cpp" => DistanceIsEuclidean(q.a, q.b, q.p)
\* "... with sign given by the side of the outward normal" (normal = tangent turned clockwise)
SignedDistanceSide == q.kind = "cpp" => Side(q.a, q.b, q.p) = -Sgn(Cross(Sub(q.b, q.a), Sub(q.p, q.a)))
\* mutual projection + min/max of the valid candidates = the common shadow of the two segments
OverlapIsCommonShadow ==
  (q.kind = "pair" /\ HasExact(q)) =>
     /\ OvLen(q) = SpecLen(q)
     /\ (SpecLen(q) > 0 => ImplOv(q) = SpecOv(q))
\* "vanish when the segments do not overlap"
DisjointVanish ==
  (q.kind = "pair" /\ HasExact(q) /\ OvKind(q) \in {"none", "touch", "perp"}) =>
     /\ OvLen(q) = 0
     /\ (Parallel(q) => LET I == Integrals(q) IN I.len = 0 /\ I.area = 0 /\ I.mxa = 0 /\ I.mxb = 0)
\* "non-negative for non-negative integrands": the measure and the weighted measures are >= 0
MeasureNonNegative ==
  (q.kind = "pair" /\ HasExact(q)) =>
     /\ OvLen(q) >= 0
     /\ (Parallel(q) => LET I == Integrals(q) IN I.mxa >= 0 /\ I.mxb * Sgn(I.eb) >= 0)
\* "for parallel segments reproduce the overlap length and gap area": a proper overlap has the
\* positive length of the common shadow and area = gap * length
ParallelExact ==
  (q.kind = "pair" /\ Parallel(q) /\ HasExact(q)) =>
     LET I == Integrals(q)
     IN /\ (OvKind(q) \in {"partial", "nested", "equal"} => I.len > 0)
        /\ I.len <= Min(I.da, Abs(I.eb))
        /\ I.area = GapNum(q) * SpecLen(q)
\* chains: nodal areas are non-negative and add up to the common length of the two surfaces
ChainPartition ==
  q.kind = "chain" => /\ \A x \in q.xb : NodalArea24(q, x) >= 0
                      /\ TotalArea24(q) = 24 * ChainOverlap(q)
\* "the penalty contact energy is non-negative and vanishes exactly when no sample point penetrates"
PenaltySign == q.kind = "pen" => Energy(q.phi) >= 0 /\ (Energy(q.phi) = 0 <=> ~Penetrates(q.phi))
\* "level-set constraint values equal the obstacle function at the deformed sample points":
\* the constraint is negative exactly when the deformed sample point is inside the obstacle
LevelsetSign ==
  q.kind = "ls" => \A i \in 1..Len(q.edges) :
                      (PhiSign(q.obst, Mid2(q.edges[i])) < 0) <=> Inside(q.obst, Mid2(q.edges[i]))

\* "invariant under a common rigid motion" (action properties)
SameCpp(Q1, Q2) == /\ CppT(Q1.a, Q1.b, Q1.p) = CppT(Q2.a, Q2.b, Q2.p)
                   /\ CppD(Q1.a, Q1.b) = CppD(Q2.a, Q2.b)
                   /\ DistMag(Q1.a, Q1.b, Q1.p) = DistMag(Q2.a, Q2.b, Q2.p)
                   /\ Side(Q1.a, Q1.b, Q1.p) = Side(Q2.a, Q2.b, Q2.p)
RigidStep == last' \in {"Rot", "Trans"}
RigidInvariance ==
  [][ RigidStep =>
        /\ (q.kind = "cpp" => SameCpp(q, q'))
        /\ (q.kind = "pair" => /\ HasExact(q') = HasExact(q)
                               /\ (HasExact(q) => OvLen(q') = OvLen(q) /\ DA(q') = DA(q) /\ Flush(q') = Flush(q))
                               /\ ((HasExact(q) /\ Parallel(q)) => Integrals(q') = Integrals(q))) ]_vars
MirrorInvariance ==
  [][ last' = "Mirror" =>
        /\ (q.kind = "cpp" => /\ CppT(q'.a, q'.b, q'.p) = CppD(q.a, q.b) - CppT(q.a, q.b, q.p)
                              /\ DistMag(q'.a, q'.b, q'.p) = DistMag(q.a, q.b, q.p)
                              /\ Side(q'.a, q'.b, q'.p) = Side(q.a, q.b, q.p))
        /\ ((q.kind = "pair" /\ HasExact(q)) => OvLen(q') = OvLen(q))
        /\ ((q.kind = "pair" /\ HasExact(q) /\ Parallel(q)) =>
               /\ Integrals(q').len = Integrals(q).len /\ Integrals(q').area = Integrals(q).area
               /\ Integrals(q').mxa = 2 * DA(q) * OvLen(q) - Integrals(q).mxa) ]_vars
ChainInvariance ==
  [][ last' = "Refine" => TotalArea24(q') = TotalArea24(q) ]_vars
\* moving one sample from penetrating to not penetrating never raises the energy
PenaltyMonotone ==
  [][ last' = "SetSample" =>
        \A i \in 1..NSamp : (q'.phi[i] >= q.phi[i]) => (Energy(q'.phi) <= Energy(q.phi) \/ q'.phi[i] = q.phi[i]) ]_vars

View == q      \* "last" only labels the transition for the action properties
TypeOK == /\ q.kind \in {"cpp", "pair", "chain", "pen", "ls"}
          /\ last \in {"Init", "Rot", "Trans", "Mirror", "Refine", "Slide", "SetSample", "Displace"}
=============================================================================
