SPECIFICATION Spec
CONSTANTS
  Drivers = {"TR", "TRS", "SPG", "AL", "BAL"}
  Ks = {1, 2, 3, 4}
  Ps <- PsDef
  MaxSteps = 3
INVARIANT AfterStep
INVARIANT PredictorLands
INVARIANT OpsAsExpected
CHECK_DEADLOCK FALSE
