-------------------------- MODULE PrecondLadderTrace --------------------------
(* {"id":n,"spd":[b0..b9],"requested":[..],"result":a (-1 identity, -2 unknown),"solves":b} one line per real factorize() *)
EXTENDS Integers, Sequences, FiniteSets, TLC, Json, IOUtils
Traces == ndJsonDeserialize(IOEnv.TRACE_FILE)
NT == Len(Traces)
VARIABLES tid, viol
Spd(t) == {a \in 0..(Len(Traces[t].spd) - 1) : Traces[t].spd[a + 1]}
First(S) == IF S = {} THEN 0 - 1 ELSE CHOOSE a \in S : \A b \in S : a <= b
Clauses(t) ==
  LET tr == Traces[t]  S == Spd(t)  M == Len(tr.spd) IN
  [ result_is_first_spd |-> tr.result = First(S),
    requests_in_order   |-> \A i \in 1..Len(tr.requested) : tr.requested[i] = i - 1,
    request_count       |-> Len(tr.requested) = (IF S = {} THEN M + 1 ELSE First(S) + 1),
    apply_solves        |-> tr.solves ]
ClauseNames == {"result_is_first_spd", "requests_in_order", "request_count", "apply_solves"}
TInit == tid = 1 /\ viol = {}
Step == /\ tid <= NT /\ tid' = tid + 1
        /\ LET cl == Clauses(tid) IN viol' = viol \cup { <<Traces[tid].id, 1, c>> : c \in {c \in ClauseNames : ~cl[c]} }
TSpec == TInit /\ [][Step]_<<tid, viol>>
Done == tid > NT
Verdict == Done => PrintT(<<"VERDICT", ToJson([n |-> NT, viol |-> viol])>>)
=============================================================================
