------------------------------- MODULE ToyFloat -------------------------------
(* Exact model of a toy binary floating-point format (P-bit significands, exponents >= 0, round to nearest even) and the   *)
(* three kernels of optimism/Math.py written operation by operation over it.  Constant module shared by CompSum.tla (the     *)
(* scans) and CompSumKernels.tla (the error-free-transformation claims for every pair of toy floats).  See CompSum.tla.      *)
EXTENDS Integers
CONSTANTS P, SplitFactor

Abs(n) == IF n < 0 THEN -n ELSE n
RECURSIVE Pow2(_)
Pow2(k) == IF k = 0 THEN 1 ELSE 2 * Pow2(k - 1)
TwoP == Pow2(P)
S == (P + 1) \div 2
RECURSIVE UnitR(_, _)
UnitR(a, u) == IF a < TwoP * u THEN u ELSE UnitR(a, 2 * u)
RoundAbs(a) == LET u == UnitR(a, 1)
                   q == a \div u
                   r == a % u
               IN IF 2 * r < u THEN q * u ELSE IF 2 * r > u THEN (q + 1) * u ELSE IF q % 2 = 0 THEN q * u ELSE (q + 1) * u
Fl(n) == IF n >= 0 THEN RoundAbs(n) ELSE -RoundAbs(-n)
IsFloat(n) == Fl(n) = n
Floats(bound) == { n \in -bound..bound : IsFloat(n) }
\* number of significant bits of an integer (0 for 0), trailing zeros removed
RECURSIVE Odd(_)
Odd(n) == IF n = 0 THEN 0 ELSE IF n % 2 = 0 THEN Odd(n \div 2) ELSE n
RECURSIVE Bits(_)
Bits(n) == IF n = 0 THEN 0 ELSE 1 + Bits(n \div 2)
SigBits(n) == Bits(Odd(Abs(n)))

\* ---- the three kernels, operation by operation as in optimism/Math.py
TwoSum(a, b) == LET x == Fl(a + b)
                    z == Fl(x - a)
                    y == Fl(Fl(a - Fl(x - z)) + Fl(b - z))
                IN <<x, y>>
Split(a) == LET c == Fl(SplitFactor * a)
                x == Fl(c - Fl(c - a))
                y == Fl(a - x)
            IN <<x, y>>
TwoProduct(a, b) == LET x == Fl(a * b)
                        sa == Split(a)
                        sb == Split(b)
                        y == Fl(Fl(sa[2] * sb[2]) - Fl(Fl(Fl(x - Fl(sa[1] * sb[1])) - Fl(sa[2] * sb[1])) - Fl(sa[1] * sb[2])))
                    IN <<x, y>>

=============================================================================
