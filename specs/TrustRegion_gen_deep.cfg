SPECIFICATION GSpec
CONSTANTS
  R = 5
  StartRank = 2
  MaxIters = 5
  L0 = 3
  LMax = 4
  Incremental = FALSE
  Bounded = FALSE
  EmitMode = "all"
  MaxHist = 100

INVARIANT TypeOK
INVARIANT Descent
INVARIANT ReturnsLast
INVARIANT HonestFlag
INVARIANT Feasible
INVARIANT LevelBounded
INVARIANT Emit
VIEW View
CHECK_DEADLOCK FALSE
