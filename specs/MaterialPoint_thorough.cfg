SPECIFICATION Spec
CONSTANTS
  Models <- DesignModels
  ExecModes = {"jit"}
  DefClasses = {"generic"}
  LoadClasses = {"inc"}
  DtClasses = {"mid"}
  MaxRank = 3
  MaxClass = 1
INVARIANT TypeOK
INVARIANT RestIsStressFree
INVARIANT Isochoric
INVARIANT YieldConsistent
INVARIANT PendingAhead
INVARIANT NonNegDissipation
INVARIANT OnlyPlasticPends
INVARIANT OnlyViscousHolds
PROPERTY Objective
PROPERTY Irreversible
PROPERTY Idempotent
PROPERTY CommitInvariant
PROPERTY MonotoneRelax
CHECK_DEADLOCK FALSE
