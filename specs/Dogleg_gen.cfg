SPECIFICATION Spec
CONSTANTS
  N = 6
  TT = {1, 4}
  Root = "plus"
  EmitMode = "all"
INVARIANT Inside
INVARIANT OnPath
INVARIANT Emit
CHECK_DEADLOCK FALSE
