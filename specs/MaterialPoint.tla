------------------------------ MODULE MaterialPoint ------------------------------
(* One material point of an optimism MaterialModel, driven by a caller that owns the  *)
(* deformation F and the internal state (properties C08, C09, C11).                    *)
(*                                                                                     *)
(* Control state: which model (tags only), execution mode, whether F is the identity,  *)
(* whether the committed state is the virgin one, whether an updated-but-uncommitted   *)
(* state exists (plastic models), whether the deformation is being held (viscous).     *)
(* Observation registers: what the properties talk about, abstracted to small ordered  *)
(* / equality domains (equal class id <=> equal within the rounding allowance; ranks   *)
(* are dense ranks of floats).                                                         *)
(*                                                                                     *)
(* Every action takes the observation o made by the caller when performing it.  The    *)
(* contract of an action is the set App(a) of named clauses, each a predicate          *)
(* Holds(c, o) over the registers and o.  Three users:                                 *)
(*   - this module's Next: the environment (the material) may answer any o that        *)
(*     satisfies the contract; TLC checks the history-level properties below;          *)
(*   - MaterialPointGen: control part only, emits action sequences = load histories;   *)
(*   - MaterialPointTrace: o comes from the REAL code, clauses are judged, never block.*)
EXTENDS Naturals, Sequences, FiniteSets, TLC

CONSTANTS Models,      \* set of [name, kind, finiteDef, rateIndep, nBranches]; kind in {"elastic","plastic","viscous"}
          ExecModes,   \* {"single", "jit", "vmapBatch"}
          DefClasses,  \* deformation classes offered to Deform (labels for the concretiser)
          LoadClasses, \* increment classes offered to Load
          DtClasses,   \* time-step classes (multiples of the relaxation time)
          MaxRank,     \* ordered registers range over 0..MaxRank in the design run
          MaxClass     \* equality registers range over 0..MaxClass in the design run (0 = the zero class)

VARIABLES model, mode, F, st, pend, holding, act,        \* control
          W, S, eqpsC, eqpsP, isoch, ye, Wneq, diss        \* observation registers

ctl  == <<model, mode, F, st, pend, holding, act>>
regs == <<W, S, eqpsC, eqpsP, isoch, ye, Wneq, diss>>
vars == <<model, mode, F, st, pend, holding, act, W, S, eqpsC, eqpsP, isoch, ye, Wneq, diss>>

Actions == {"Reset", "Deform", "SupRot", "RefRot", "Update", "ReUpdate", "Commit", "Hold", "Load",
            "LimitFast", "LimitSlow"}

ClauseNames == {"rest_energy", "rest_stress", "objective", "isotropic", "sym_stress",               \* C08
                "irreversible", "isochoric", "yield_consistent", "minimises", "idempotent",
                "commit_energy", "commit_stress",                                                   \* C09
                "dissipation_nonneg", "isochoric_v", "relax_monotone", "limit_fast", "limit_slow",  \* C11
                "stress_matches_energy", "tangent_matches_energy"}                                  \* C10

NullObs == [W |-> 0, S |-> 0, symS |-> TRUE, eIn |-> 0, eOut |-> 0, isoch |-> TRUE, ye |-> "inside",
            mini |-> TRUE, same |-> TRUE, Wneq |-> 0, diss |-> "zero", lim |-> "EQ",
            dS |-> "NA", dT |-> "NA"]

-----------------------------------------------------------------------------
(* Which calls a caller may make.  The point is initialised by Reset.  Rotations are   *)
(* offered for finite-deformation formulations only and not while an update is pending. *)
Enabled(a) ==
  IF act = "Init" THEN a = "Reset" ELSE
  CASE a = "Reset"                      -> TRUE
    [] a = "Deform"                     -> TRUE
    [] a \in {"SupRot", "RefRot"}       -> model.finiteDef /\ ~pend
    [] a = "Update"                     -> model.kind = "plastic"
    [] a \in {"ReUpdate", "Commit"}     -> model.kind = "plastic" /\ pend
    [] a \in {"Hold", "Load"}           -> model.kind = "viscous"
    [] a \in {"LimitFast", "LimitSlow"} -> model.kind = "viscous" /\ st = "virgin"

Ctl(a) ==
  /\ act' = a
  /\ UNCHANGED <<model, mode>>
  /\ F' = IF a = "Reset" THEN "I" ELSE IF a \in {"Deform", "Load"} THEN "D" ELSE F
  /\ st' = IF a = "Reset" THEN "virgin" ELSE IF a \in {"Commit", "Hold", "Load"} THEN "evolved" ELSE st
  /\ pend' = IF a \in {"Update", "ReUpdate"} THEN TRUE
             ELSE IF a \in {"Reset", "Deform", "Commit"} THEN FALSE ELSE pend
  /\ holding' = IF a = "Hold" THEN TRUE ELSE IF a \in {"Reset", "Deform", "Load"} THEN FALSE ELSE holding

(* W, S are always the energy / first Piola stress at (current F, committed state, current dt). *)
Adopt(a, o) ==
  /\ W' = IF a \in {"ReUpdate", "LimitFast", "LimitSlow"} THEN W ELSE o.W
  /\ S' = IF a \in {"ReUpdate", "LimitFast", "LimitSlow"} THEN S ELSE o.S
  /\ eqpsP' = IF a \in {"Reset", "Update", "ReUpdate"} THEN o.eOut ELSE IF a = "Deform" THEN eqpsC ELSE eqpsP
  /\ eqpsC' = IF a = "Reset" THEN o.eOut ELSE IF a = "Commit" THEN eqpsP ELSE eqpsC
  /\ isoch' = IF a \in {"Update", "ReUpdate", "Hold", "Load"} THEN o.isoch ELSE IF a = "Reset" THEN TRUE ELSE isoch
  /\ ye' = IF a \in {"Update", "ReUpdate"} THEN o.ye
           ELSE IF a = "Reset" THEN "inside" ELSE IF a = "Deform" THEN "unknown" ELSE ye
  /\ Wneq' = IF a \in {"Reset", "Deform", "Hold", "Load"} THEN o.Wneq ELSE Wneq
  /\ diss' = IF a \in {"Hold", "Load"} THEN o.diss ELSE IF a = "Reset" THEN "zero" ELSE diss

Step(a, o) == Enabled(a) /\ Ctl(a) /\ Adopt(a, o)

-----------------------------------------------------------------------------
(* The contract: clauses attached to each action.                                      *)
SymIf == IF model.finiteDef THEN {"sym_stress"} ELSE {}
RI(s) == IF model.rateIndep THEN s ELSE {}

\* C10: at the state every action leaves behind (current F, committed internal state, current dt) the stress and the
\* tangent delivered by the library's differentiation rules are the derivatives of the energy density itself
Deriv == {"stress_matches_energy", "tangent_matches_energy"}
App(a) ==
  CASE a = "Reset"     -> {"rest_energy", "rest_stress"} \cup Deriv
    [] a = "Deform"    -> SymIf \cup Deriv
    [] a = "SupRot"    -> {"objective"} \cup SymIf \cup Deriv
    [] a = "RefRot"    -> {"isotropic"} \cup SymIf \cup Deriv
    [] a = "Update"    -> {"irreversible", "isochoric", "yield_consistent", "minimises"} \cup SymIf \cup Deriv
    [] a = "ReUpdate"  -> {"irreversible", "isochoric", "yield_consistent"} \cup RI({"idempotent"})
    [] a = "Commit"    -> RI({"commit_energy", "commit_stress"}) \cup SymIf \cup Deriv
    [] a = "Hold"      -> {"dissipation_nonneg", "isochoric_v", "relax_monotone"} \cup SymIf \cup Deriv
    [] a = "Load"      -> {"dissipation_nonneg", "isochoric_v"} \cup SymIf \cup Deriv
    [] a = "LimitFast" -> {"limit_fast"}
    [] a = "LimitSlow" -> {"limit_slow"}

Holds(c, o) ==
  CASE c = "rest_energy"        -> o.W = 0                 \* undeformed virgin state: zero energy class
    [] c = "rest_stress"        -> o.S = 0                 \*                          zero stress class
    [] c = "objective"          -> o.W = W                 \* F <- Q F
    [] c = "isotropic"          -> o.W = W                 \* F <- F Q (state rotated with the reference)
    [] c = "sym_stress"         -> o.symS                  \* Kirchhoff stress P F^T symmetric
    [] c = "irreversible"       -> o.eOut >= o.eIn
    [] c = "isochoric"          -> o.isoch
    [] c = "yield_consistent"   -> o.ye # "outside"
    [] c = "minimises"          -> o.mini
    [] c = "idempotent"         -> o.same /\ o.eOut = o.eIn
    [] c = "commit_energy"      -> o.W = W                 \* same F, old vs new committed state
    [] c = "commit_stress"      -> o.S = S
    [] c = "dissipation_nonneg" -> o.diss # "neg"
    [] c = "isochoric_v"        -> o.isoch
    [] c = "relax_monotone"     -> o.Wneq <= Wneq
    [] c = "limit_fast"         -> o.lim = "EQ"
    [] c = "limit_slow"         -> o.lim = "EQ"
    \* "NA": not measured (other properties' runs), or the difference quotient of the energy was not trustworthy there
    \* (stencil straddles the yield switch, or its own two-step error estimate is too large)
    [] c = "stress_matches_energy"  -> o.dS # "NE"
    [] c = "tangent_matches_energy" -> o.dT # "NE"

Good(a, o) == \A c \in App(a) : Holds(c, o)

-----------------------------------------------------------------------------
(* Design run: the environment answers any observation that satisfies the contract.    *)
Cls == 0..MaxClass
Rk  == 0..MaxRank

ObsWS == {[NullObs EXCEPT !.W = w, !.S = s, !.symS = b] : w \in Cls, s \in Cls, b \in BOOLEAN}

ObsDom(a) ==
  CASE a = "Reset" -> ObsWS
    [] a = "Deform" -> {[o EXCEPT !.Wneq = n] : o \in ObsWS, n \in Rk}
    [] a \in {"SupRot", "RefRot", "Commit"} -> ObsWS
    [] a \in {"Update", "ReUpdate"} ->
         {[o EXCEPT !.eIn = (IF a = "Update" THEN eqpsC ELSE eqpsP), !.eOut = e, !.isoch = b, !.ye = y,
                    !.mini = mb, !.same = sb] :
            o \in ObsWS, e \in Rk, b \in BOOLEAN, y \in {"inside", "on", "outside"}, mb \in BOOLEAN, sb \in BOOLEAN}
    [] a \in {"Hold", "Load"} ->
         {[o EXCEPT !.Wneq = n, !.diss = d, !.isoch = b] :
            o \in ObsWS, n \in Rk, d \in {"neg", "zero", "pos"}, b \in BOOLEAN}
    [] a \in {"LimitFast", "LimitSlow"} -> {[NullObs EXCEPT !.lim = x] : x \in {"EQ", "NE"}}

Reset     == \E o \in ObsDom("Reset") : Good("Reset", o) /\ Step("Reset", o)
Deform    == \E o \in ObsDom("Deform") : Good("Deform", o) /\ Step("Deform", o)
SupRot    == \E o \in ObsDom("SupRot") : Good("SupRot", o) /\ Step("SupRot", o)
RefRot    == \E o \in ObsDom("RefRot") : Good("RefRot", o) /\ Step("RefRot", o)
Update    == \E o \in ObsDom("Update") : Good("Update", o) /\ Step("Update", o)
ReUpdate  == \E o \in ObsDom("ReUpdate") : Good("ReUpdate", o) /\ Step("ReUpdate", o)
Commit    == \E o \in ObsDom("Commit") : Good("Commit", o) /\ Step("Commit", o)
Hold      == \E o \in ObsDom("Hold") : Good("Hold", o) /\ Step("Hold", o)
Load      == \E o \in ObsDom("Load") : Good("Load", o) /\ Step("Load", o)
LimitFast == \E o \in ObsDom("LimitFast") : Good("LimitFast", o) /\ Step("LimitFast", o)
LimitSlow == \E o \in ObsDom("LimitSlow") : Good("LimitSlow", o) /\ Step("LimitSlow", o)

Init ==
  /\ model \in Models /\ mode \in ExecModes
  /\ F = "I" /\ st = "virgin" /\ pend = FALSE /\ holding = FALSE /\ act = "Init"
  /\ W = 0 /\ S = 0 /\ eqpsC = 0 /\ eqpsP = 0 /\ isoch = TRUE /\ ye = "inside" /\ Wneq = 0 /\ diss = "zero"

Next == Reset \/ Deform \/ SupRot \/ RefRot \/ Update \/ ReUpdate \/ Commit \/ Hold \/ Load
        \/ LimitFast \/ LimitSlow

Spec == Init /\ [][Next]_vars

-----------------------------------------------------------------------------
(* Properties of the histories (what C08 / C09 / C11 say about whole load paths).       *)
TypeOK ==
  /\ model \in Models /\ mode \in ExecModes /\ F \in {"I", "D"} /\ st \in {"virgin", "evolved"}
  /\ pend \in BOOLEAN /\ holding \in BOOLEAN /\ act \in Actions \cup {"Init"}
  /\ W \in Cls /\ S \in Cls /\ eqpsC \in Rk /\ eqpsP \in Rk /\ isoch \in BOOLEAN
  /\ ye \in {"inside", "on", "outside", "unknown"} /\ Wneq \in Rk /\ diss \in {"neg", "zero", "pos"}

RestIsStressFree  == act = "Reset" => (W = 0 /\ S = 0 /\ F = "I" /\ st = "virgin")                 \* C08
Isochoric         == isoch                                                                        \* C09, C11
YieldConsistent   == ye # "outside"                                                               \* C09
PendingAhead      == eqpsP >= eqpsC /\ (~pend => eqpsP = eqpsC)                                   \* C09
NonNegDissipation == diss # "neg"                                                                 \* C11
OnlyPlasticPends  == pend => model.kind = "plastic"
OnlyViscousHolds  == holding => model.kind = "viscous"

Objective         == [][act' \in {"SupRot", "RefRot"} => (model.finiteDef /\ W' = W)]_vars         \* C08
Irreversible      == [][act' # "Reset" => (eqpsC' >= eqpsC /\ eqpsP' >= eqpsC')]_vars             \* C09
Idempotent        == [][(act' = "ReUpdate" /\ model.rateIndep) => eqpsP' = eqpsP]_vars            \* C09
CommitInvariant   == [][(act' = "Commit" /\ model.rateIndep) => (W' = W /\ S' = S)]_vars          \* C09
MonotoneRelax     == [][(holding /\ holding') => Wneq' <= Wneq]_vars                              \* C11

(* representative tag combinations for the design run *)
DesignModels ==
  { [name |-> "elasticFinite", kind |-> "elastic", finiteDef |-> TRUE,  rateIndep |-> TRUE,  nBranches |-> 0],
    [name |-> "elasticSmall",  kind |-> "elastic", finiteDef |-> FALSE, rateIndep |-> TRUE,  nBranches |-> 0],
    [name |-> "plasticFinite", kind |-> "plastic", finiteDef |-> TRUE,  rateIndep |-> TRUE,  nBranches |-> 0],
    [name |-> "plasticSmall",  kind |-> "plastic", finiteDef |-> FALSE, rateIndep |-> TRUE,  nBranches |-> 0],
    [name |-> "plasticRate",   kind |-> "plastic", finiteDef |-> TRUE,  rateIndep |-> FALSE, nBranches |-> 0],
    [name |-> "viscous1",      kind |-> "viscous", finiteDef |-> TRUE,  rateIndep |-> FALSE, nBranches |-> 1],
    [name |-> "viscous3",      kind |-> "viscous", finiteDef |-> TRUE,  rateIndep |-> FALSE, nBranches |-> 3] }
=============================================================================
