SPECIFICATION TSpec
CONSTANTS
  N = 4
  NG = 4
  M = 4
  PhiMax = 3
  NSamp = 3
  Kinds = {}
INVARIANT Verdict
CHECK_DEADLOCK FALSE
