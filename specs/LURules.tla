------------------------------- MODULE LURules -------------------------------
(* Decision rules of optimism/LU.py (class LU: dense LU preconditioner with a diagonal fallback), shared by the design module     *)
(* LUPrecond.tla and the trace module LUPrecondTrace.tla.  Matrices are numbered in the order they are handed to the object;      *)
(* state = <<cur, fac>>: cur = number of the matrix stored in self.A, fac = number of the matrix whose factors are installed,       *)
(* 0 = the identity fallback of the constructor.  A matrix is "bad" when lu_factor raises for it (non-finite entries; a singular    *)
(* matrix only warns and counts as good here -- the harness never hands one over).                                                  *)
EXTENDS Integers, Sequences
Ops == {"Cg", "Cb", "Ug", "Ub", "S", "T", "D", "M"}   \* construct / update with a good / bad matrix, solve, solve_transpose, dot, multiply_by_transpose
IsInstall(op) == op \in {"Cg", "Cb", "Ug", "Ub"}
\* state after op, n = number of matrices handed over BEFORE op
After(st, op, n) ==
  CASE op = "Cg" -> <<n + 1, n + 1>>
    [] op = "Cb" -> <<n + 1, 0>>            \* constructor: factorization failed, fall back to the identity
    [] op = "Ug" -> <<n + 1, n + 1>>
    [] op = "Ub" -> <<n + 1, st[2]>>        \* update: self.A is replaced FIRST, the old factors stay (named deviation: A and its
                                            \* factors are out of sync until the next successful update)
    [] OTHER -> st
\* which matrix an observation must be explained by: solves use the installed factors, products use self.A
Uses(st, op) == IF op \in {"S", "T"} THEN st[2] ELSE IF op \in {"D", "M"} THEN st[1] ELSE -1
=============================================================================
