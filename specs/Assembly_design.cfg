SPECIFICATION Spec
CONSTANTS
  Meshes <- MeshesAsm
  EmitMode = "none"
VIEW View
INVARIANT AssembledEqualsReducedHessian
INVARIANT AssembledSymmetric
CHECK_DEADLOCK FALSE
