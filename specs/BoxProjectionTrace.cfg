SPECIFICATION TSpec
CONSTANTS
  N = 3
  EmitMode = "none"
  TRMode = "one"
INVARIANT Verdict
CHECK_DEADLOCK FALSE
