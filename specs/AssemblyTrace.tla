----------------------------- MODULE AssemblyTrace -----------------------------
(* Trace validation for C02.  Events (one trace = one real mesh / configuration):                     *)
(*  {"e":"Tok","mesh":<mesh record>,"bcs":[{nodeSet,component}..],"W":[[[int]]],"K":[[int]]}          *)
(*        the REAL assembler run on integer token element matrices W; K = dense assembled matrix      *)
(*  {"e":"Config","cfg":{kind,mode,proj,mat},"constructed":b,"kh":"EQ|NE|NA","sym":"EQ|NE|NA"}        *)
(*        K assembled from the real element stiffnesses vs jax.hessian of the real total energy       *)
(*  {"e":"Multi","parts":[[..]],"energy":c,"state":c,"stiff":c,"init":c}   multi-block vs single      *)
EXTENDS Assembly, IOUtils, Json

Traces == ndJsonDeserialize(IOEnv.TRACE_FILE)
NT == Len(Traces)
VARIABLES tid, l, viol, seen
tvars == <<vars, tid, l, viol, seen>>

TokOK(e) ==
  LET m == e.mesh  dm == New(m, e.bcs)
  IN e.K = RedHessMat(m, dm.dofToUnknown, e.W, Len(dm.unknownIndices))
TokSym(e) == \A r \in 1..Len(e.K), c \in 1..Len(e.K) : e.K[r][c] = e.K[c][r]
TokMech(e) ==
  LET m == e.mesh  dm == New(m, e.bcs)
  IN e.K = AsmMat(m, dm, e.W)

Clauses(e) ==
  [ assembled_equals_reduced_hessian |-> (e.e = "Tok") => TokOK(e),
    assembled_symmetric              |-> (e.e = "Tok") => TokSym(e),
    option_constructs                |-> (e.e = "Config") => e.constructed,
    stiffness_equals_energy_hessian  |-> (e.e = "Config" /\ e.constructed) => e.kh = "EQ",
    stiffness_symmetric              |-> (e.e = "Config" /\ e.constructed) => e.sym = "EQ",
    blocks_same_energy               |-> (e.e = "Multi") => e.energy = "EQ",
    blocks_same_state_update         |-> (e.e = "Multi") => e.state \in {"EQ", "NA"},
    blocks_same_stiffness            |-> (e.e = "Multi") => e.stiff = "EQ",
    \* (the multi-block initial state pads every material to >= 1 state variable: only a drift observation)
    drift_blocks_initial_state       |-> (e.e = "Multi") => e.init \in {"EQ", "NA"},
    drift_assembler_mechanism        |-> (e.e = "Tok") => TokMech(e) ]
ClauseNames == {"assembled_equals_reduced_hessian", "assembled_symmetric", "option_constructs",
                "stiffness_equals_energy_hessian", "stiffness_symmetric", "blocks_same_energy",
                "blocks_same_state_update", "blocks_same_stiffness", "drift_blocks_initial_state",
                "drift_assembler_mechanism"}

Dummy == [name |-> "none", N |-> 0, Dim |-> 1, conns |-> <<>>, nodeSets |-> [x \in {} |-> <<>>]]
TInit == tid = 1 /\ l = 0 /\ viol = {} /\ seen = {} /\ mesh = Dummy /\ bcs = <<>>
Step == /\ tid <= NT /\ l < Len(Traces[tid].ev)
        /\ l' = l + 1 /\ tid' = tid /\ UNCHANGED vars
        /\ LET e == Traces[tid].ev[l + 1]  cl == Clauses(e)
           IN /\ viol' = viol \cup { <<Traces[tid].id, l + 1, c>> : c \in {c \in ClauseNames : ~cl[c]} }
              /\ seen' = IF e.e = "Config" THEN seen \cup {e.cfg} ELSE seen
NextTrace == /\ tid <= NT /\ l = Len(Traces[tid].ev) /\ tid' = tid + 1 /\ l' = 0 /\ UNCHANGED <<vars, viol, seen>>
TSpec == TInit /\ [][Step \/ NextTrace]_tvars
Done == tid > NT
Verdict == Done => PrintT(<<"VERDICT", ToJson([n |-> NT, viol |-> viol, configs |-> seen])>>)
=============================================================================
