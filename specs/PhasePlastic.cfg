SPECIFICATION Spec
CONSTANTS
  MaxLen = 4
  R = 4
  EmitMode = "all"
INVARIANT Emit
PROPERTY Irreversible
PROPERTY OnlyYieldingMoves
CHECK_DEADLOCK FALSE
