--------------------------- MODULE SteihaugCGTrace ---------------------------
(* Trace validation for SteihaugCG.tla.  Each line of IOEnv.TRACE_FILE is one call of the REAL             *)
(* optimism.EquationSolver.solve_trust_region_minimization on a synthetic operator:                        *)
(*   {"id":n, "mode":"direct"|"recurrence", "cap":max_cg_iters,                                            *)
(*    "ev":[ {"k":"tiny"} | {"k":"begin"} |                                                                *)
(*           {"k":"it","curv":"pos"|"nonpos","step":b,"cross":b,"small":b,"dq":"LT"|"EQ"|"GT","tn":class}  *)
(*           ... , {"k":"ret","exit":s,"iters":n,"nrm":class,"nrmC":class,"res":b,"cmpC":code,"cmp0":code, *)
(*                  "cauchyOut":s} ]}                                                                      *)
(* "it" events are the environment answers observed through the recording hess_vec / precond callables;    *)
(* they drive the spec's own actions.  The "ret" event is the abstracted return value: the contract        *)
(* clauses are the spec's property predicates evaluated on it.  Verdicts are total.                        *)
EXTENDS SteihaugCG, Json, IOUtils

Traces == ndJsonDeserialize(IOEnv.TRACE_FILE)
NT == Len(Traces)

VARIABLES tid, l, viol, pathOK
tvars == <<cgvars, tid, l, viol, pathOK>>

DqOf(c) == IF c = "EQ" THEN 0 ELSE IF c = "GT" THEN 1 ELSE -1
EnvOf(e) == [curv |-> e.curv, cross |-> e.cross, small |-> e.small, dq |-> DqOf(e.dq), tn |-> e.tn]
KindOf(e) == IF e.curv = "nonpos" THEN "neg curve" ELSE "boundary"

Hold == UNCHANGED cgvars

\* advance the spec with the observed environment; an event the spec cannot take is recorded as path drift
Apply(e) ==
  CASE e.k = "tiny"  -> IF pc = "start" THEN TinyResidual /\ pathOK' = pathOK ELSE Hold /\ pathOK' = FALSE
    [] e.k = "begin" -> IF pc = "start" THEN Begin /\ pathOK' = pathOK ELSE Hold /\ pathOK' = FALSE
    [] e.k = "it"    -> IF e.step
                        THEN IF GuardStep(EnvOf(e)) THEN DoStep(EnvOf(e)) /\ pathOK' = pathOK
                                                    ELSE Hold /\ pathOK' = FALSE
                        ELSE IF GuardExit(EnvOf(e), KindOf(e)) THEN DoExit(EnvOf(e), KindOf(e)) /\ pathOK' = pathOK
                                                               ELSE Hold /\ pathOK' = FALSE
    [] e.k = "ret"   -> Hold /\ pathOK' = pathOK

\* corrupted copies of valid traces (ids >= 9000000) are injected by the harness to show that every contract
\* clause can fail (binding self-test); they are exempt from the mechanism comparison
SelfTest == Traces[tid].id >= 9000000

\* ---- clauses.  Contract clauses: literal readings of property C06 (first sentence) on the returned step.
\* ---- drift_* clauses compare with the mechanism the spec models and never raise a violation.
RetClauses(e) ==
  [ cg_inside          |-> InsideTR(e),
    cg_on_boundary     |-> OnBoundary(e),
    cg_gross_norm      |-> LET c == [e EXCEPT !.nrm = e.nrmC] IN InsideTR(c) /\ OnBoundary(c),   \* same predicates, coarse class
    cg_newton_residual |-> NewtonResidual(e),
    cg_beats_cauchy    |-> BeatsCauchy(e),
    cg_never_increases |-> NeverIncreases(e),
    cg_step_type       |-> e.exit \in {"interior", "neg curve", "boundary", "interior_"},
    drift_path         |-> SelfTest \/ (pathOK /\ exit = e.exit /\ iters = e.iters),
    drift_cauchy_out   |-> SelfTest \/ cauchyOut = e.cauchyOut,
    drift_monotone     |-> TRUE,
    drift_tracking     |-> TRUE ]
ItClauses(e) ==
  [ cg_inside |-> TRUE, cg_on_boundary |-> TRUE, cg_gross_norm |-> TRUE, cg_newton_residual |-> TRUE, cg_beats_cauchy |-> TRUE,
    cg_never_increases |-> TRUE, cg_step_type |-> TRUE, drift_path |-> TRUE, drift_cauchy_out |-> TRUE,
    drift_monotone     |-> e.dq # "GT",                                   \* the model never goes up along the iterates
    drift_tracking     |-> IF e.step THEN e.tn = "in" ELSE e.tn = "on" ]  \* tracked norm = norm in the configured inner product
ClauseNames == {"cg_inside", "cg_on_boundary", "cg_gross_norm", "cg_newton_residual", "cg_beats_cauchy", "cg_never_increases",
                "cg_step_type", "drift_path", "drift_cauchy_out", "drift_monotone", "drift_tracking"}

Reset(t) ==
  /\ pc' = "start" /\ i' = 0 /\ q' = 0 /\ qC' = 0 /\ nrm' = "zero" /\ res' = FALSE
  /\ exit' = "none" /\ iters' = 0 /\ cauchyOut' = "none"
  /\ mode' = IF t <= NT THEN Traces[t].mode ELSE mode
  /\ cap' = IF t <= NT THEN Traces[t].cap ELSE cap

TInit ==
  /\ tid = 1 /\ l = 0 /\ viol = {} /\ pathOK = TRUE
  /\ pc = "start" /\ i = 0 /\ q = 0 /\ qC = 0 /\ nrm = "zero" /\ res = FALSE
  /\ exit = "none" /\ iters = 0 /\ cauchyOut = "none"
  /\ mode = IF NT >= 1 THEN Traces[1].mode ELSE "direct"
  /\ cap = IF NT >= 1 THEN Traces[1].cap ELSE 1

Step ==
  /\ tid <= NT /\ l < Len(Traces[tid].ev)
  /\ LET e == Traces[tid].ev[l + 1] IN
     /\ Apply(e)
     /\ l' = l + 1 /\ tid' = tid
     /\ LET cl == IF e.k = "ret" THEN RetClauses(e)
                  ELSE IF e.k = "it" THEN ItClauses(e)
                  ELSE [c \in ClauseNames |-> TRUE]
        IN viol' = viol \cup { <<Traces[tid].id, l + 1, c>> : c \in {c \in ClauseNames : ~cl[c]} }

NextTrace ==
  /\ tid <= NT /\ l = Len(Traces[tid].ev)
  /\ tid' = tid + 1 /\ l' = 0 /\ viol' = viol /\ pathOK' = TRUE
  /\ Reset(tid + 1)

TNext == Step \/ NextTrace
TSpec == TInit /\ [][TNext]_tvars

Done == tid > NT
Verdict == Done => PrintT(<<"VERDICT", ToJson([n |-> NT, viol |-> viol])>>)
===============================================================================
