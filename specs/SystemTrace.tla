------------------------------ MODULE SystemTrace ------------------------------
(* {"id":n,"ev":[{"k":i,"strainOk":b,"stateChain":b,"energyConsistent":b,"stressConsistent":b,"uniaxial":b,"eqpsMonotone":b}..],"n":steps} *)
(* one event per recorded time point of the real MaterialUniaxialSimulator.run                                          *)
EXTENDS Integers, Sequences, TLC, Json, IOUtils
Traces == ndJsonDeserialize(IOEnv.TRACE_FILE)
NT == Len(Traces)
VARIABLES tid, l, viol
Clauses(t, j) ==
  LET e == Traces[t].ev[j] IN
  [ one_record_per_step   |-> e.k = j /\ Len(Traces[t].ev) = Traces[t].n,
    strain_is_prescribed  |-> e.strainOk,
    state_updated_once_from_previous |-> e.stateChain,
    energy_at_recorded_state |-> e.energyConsistent,
    stress_at_recorded_state |-> e.stressConsistent,
    lateral_stress_free   |-> e.uniaxial,
    eqps_monotone         |-> e.eqpsMonotone ]
ClauseNames == {"one_record_per_step", "strain_is_prescribed", "state_updated_once_from_previous",
                "energy_at_recorded_state", "stress_at_recorded_state", "lateral_stress_free", "eqps_monotone"}
TInit == tid = 1 /\ l = 0 /\ viol = {}
Step == /\ tid <= NT /\ l < Len(Traces[tid].ev) /\ l' = l + 1 /\ tid' = tid
        /\ LET cl == Clauses(tid, l + 1) IN viol' = viol \cup { <<Traces[tid].id, l + 1, c>> : c \in {c \in ClauseNames : ~cl[c]} }
NextTrace == /\ tid <= NT /\ l = Len(Traces[tid].ev) /\ tid' = tid + 1 /\ l' = 0 /\ viol' = viol
TSpec == TInit /\ [][Step \/ NextTrace]_<<tid, l, viol>>
Done == tid > NT
Verdict == Done => PrintT(<<"VERDICT", ToJson([n |-> NT, viol |-> viol])>>)
=============================================================================
