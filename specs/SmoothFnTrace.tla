--------------------------- MODULE SmoothFnTrace ---------------------------
(* Trace validation for SmoothFn.tla (property C18).  Each line of            *)
(* IOEnv.TRACE_FILE is one batch of observations of the REAL functions:       *)
(*   {"id": n, "fn": min|max|abs|ramp|fric|lin, "fam": lat|off, "mode": ...,  *)
(*    "ev": [ {"p": lattice point, "q": offset decade, "var": variant,        *)
(*             "ac": in|on|out  (class of the ACTUAL float arguments),        *)
(*             "ub","qt","eq","sy","nn","cv","vj","dj","dv","dd": code sets, *)
(*             "c0": class set of the unperturbed exactly scaled arguments}]} *)
(* One event = all evaluations of the real function and of jax.grad at one    *)
(* lattice point over all decades and all -1/0/+1 ulp perturbations whose     *)
(* actual arguments fall in class "ac".  A code set is a bit mask over the    *)
(* three-valued comparison codes LT = 1, EQ = 2, GT = 4 (EQ: within the       *)
(* rounding allowance stated in checks/c18.py) of                             *)
(*   ub : f against the sharp function (min / max / |x| / mu|s|)              *)
(*   qt : |f - sharp| against a quarter of the smoothing width                *)
(*   eq : f against the value claimed outside the band (sharp, mu(|s|-r/2))   *)
(*   sy : f(x,y) against f(y,x)  (abs: f(-x)), derivatives swapped alike      *)
(*   nn : f against 0            cv : 2 f(mid) against f(a) + f(b)            *)
(*   vj : spread of f across the ulp-neighbourhood against 0                  *)
(*   dj : spread of each jax.grad component across the neighbourhood against 0*)
(*   dv, dd : f, jax.grad against TLC's exact rational oracle (mechanism)     *)
(* The spec recomputes the exact evaluation of the lattice point (obs) and    *)
(* judges the clauses.  Verdicts are total.                                   *)
EXTENDS SmoothFn, Json, IOUtils, TLC

Traces == ndJsonDeserialize(IOEnv.TRACE_FILE)
NT == Len(Traces)

VARIABLES tid, l, viol
tvars == <<vars, tid, l, viol>>

SubLE == {0, 1, 2, 3}      \* only LT / EQ observed
SubGE == {0, 2, 4, 6}      \* only GT / EQ observed
SubEQ == {0, 2}            \* only EQ observed
ClsBit(c) == IF c = "in" THEN 1 ELSE IF c = "on" THEN 2 ELSE 4

ObsOf(fn, p) ==
  CASE fn = "min"  -> MinObs(p[1], p[2], p[3])
    [] fn = "max"  -> MaxObs(p[1], p[2], p[3])
    [] fn = "abs"  -> AbsObs(p[1], p[2])
    [] fn = "ramp" -> RampObs(p[1], p[2])
    [] fn = "fric" -> FricObs(p[1], p[2], p[3])
    [] fn = "lin"  -> LinObs(p[1], p[2])

Smoothed == {"min", "max", "abs"}
Outside(e) == e.ac \in {"on", "out"}

\* ---- contract clauses = literal readings of C18; drift_* = comparison with the exact mechanism
Clauses(fn, e, o) ==
  [ one_sided    |-> /\ fn = "min" => e.ub \in SubLE            \* never exceeds the true minimum
                     /\ fn \in {"max", "abs"} => e.ub \in SubGE  \* mirrored
  , quarter      |-> fn \in Smoothed => e.qt \in SubLE           \* differs by at most a quarter width
  , outside_eq   |-> fn \in Smoothed /\ Outside(e) => e.eq \in SubEQ
  , symmetric    |-> fn \in Smoothed => e.sy \in SubEQ
  , fric_nonneg  |-> fn = "fric" => e.nn \in SubGE
  , fric_coulomb |-> fn = "fric" => e.ub \in SubLE
  , fric_offset  |-> fn = "fric" /\ Outside(e) => e.eq \in SubEQ
  , fric_convex  |-> fn = "fric" => e.cv \in SubLE
  , c1_value     |-> e.vj \in SubEQ
  , c1_deriv     |-> e.dj \in SubEQ
  , drift_value  |-> e.dv \in SubEQ
  , drift_deriv  |-> e.dd \in SubEQ
  , drift_class  |-> e.c0 \in {0, ClsBit(o.cls)} ]

ClauseNames == {"one_sided", "quarter", "outside_eq", "symmetric", "fric_nonneg", "fric_coulomb",
                "fric_offset", "fric_convex", "c1_value", "c1_deriv", "drift_value", "drift_deriv",
                "drift_class"}

TInit == tid = 1 /\ l = 0 /\ viol = {} /\ obs = None

Step ==
  /\ tid <= NT /\ l < Len(Traces[tid].ev)
  /\ LET t == Traces[tid]
         e == t.ev[l + 1]
         o == ObsOf(t.fn, e.p)
         cl == Clauses(t.fn, e, o)
     IN /\ obs' = o
        /\ viol' = viol \cup { <<t.id, l + 1, c>> : c \in {c \in ClauseNames : ~cl[c]} }
  /\ l' = l + 1 /\ tid' = tid

NextTrace ==
  /\ tid <= NT /\ l = Len(Traces[tid].ev)
  /\ tid' = tid + 1 /\ l' = 0 /\ viol' = viol /\ obs' = None

TNext == Step \/ NextTrace
TSpec == TInit /\ [][TNext]_tvars

Done == tid > NT
Verdict == Done => PrintT(<<"VERDICT", ToJson([n |-> NT, viol |-> viol])>>)
=============================================================================
