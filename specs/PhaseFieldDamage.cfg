SPECIFICATION Spec
CONSTANTS
  N = 4
  EmitMode = "all"
INVARIANT DamageNeverStiffens
INVARIANT StrictUnlessProtected
INVARIANT CompressionNotDegraded
INVARIANT BrokenCarriesNoTension
INVARIANT IntactIsElastic
INVARIANT Emit
CHECK_DEADLOCK FALSE
