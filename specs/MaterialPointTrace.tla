--------------------------- MODULE MaterialPointTrace ---------------------------
(* Trace validation for MaterialPoint.tla.  Each line of IOEnv.TRACE_FILE is one load  *)
(* history executed on a REAL optimism material model:                                  *)
(*   {"id": n, "model": {name,kind,finiteDef,rateIndep,nBranches}, "mode": m,           *)
(*    "ev": [ {"a": action, "c": class, "dt": dtClass, "o": <abstract observation>} ]}  *)
(* The control state and the registers are advanced by the spec's own Ctl / Adopt; the  *)
(* observation o of every event is judged against the clauses App(a) of the action.     *)
(* Verdicts are total: a failing clause is recorded as <<id, event index, clause>> and   *)
(* validation continues; cnt counts how often each clause was applicable (vacuity).     *)
EXTENDS MaterialPoint, Json, IOUtils

Traces == ndJsonDeserialize(IOEnv.TRACE_FILE)
NT == Len(Traces)

VARIABLES tid, l, viol, cnt
tvars == <<vars, tid, l, viol, cnt>>

NoModel == [name |-> "none", kind |-> "elastic", finiteDef |-> FALSE, rateIndep |-> TRUE, nBranches |-> 0]

ModelOf(k) == IF k <= NT THEN Traces[k].model ELSE NoModel
ModeOf(k)  == IF k <= NT THEN Traces[k].mode ELSE "jit"

TInit ==
  /\ tid = 1 /\ l = 0 /\ viol = {} /\ cnt = [c \in ClauseNames |-> 0]
  /\ model = ModelOf(1) /\ mode = ModeOf(1)
  /\ F = "I" /\ st = "virgin" /\ pend = FALSE /\ holding = FALSE /\ act = "Init"
  /\ W = 0 /\ S = 0 /\ eqpsC = 0 /\ eqpsP = 0 /\ isoch = TRUE /\ ye = "inside" /\ Wneq = 0 /\ diss = "zero"

StepEv ==
  /\ tid <= NT /\ l < Len(Traces[tid].ev)
  /\ LET e == Traces[tid].ev[l + 1]
         a == e.a
         o == e.o
         bad == {c \in App(a) : ~Holds(c, o)}
     IN /\ Ctl(a) /\ Adopt(a, o)
        /\ viol' = viol \cup { <<Traces[tid].id, l + 1, c>> : c \in bad }
                        \cup (IF Enabled(a) THEN {} ELSE { <<Traces[tid].id, l + 1, "drift_enabled">> })
        /\ cnt' = [c \in ClauseNames |-> cnt[c] + (IF c \in App(a) THEN 1 ELSE 0)]
  /\ l' = l + 1 /\ tid' = tid

NextTrace ==
  /\ tid <= NT /\ l = Len(Traces[tid].ev)
  /\ tid' = tid + 1 /\ l' = 0 /\ UNCHANGED <<viol, cnt>>
  /\ model' = ModelOf(tid + 1) /\ mode' = ModeOf(tid + 1)
  /\ F' = "I" /\ st' = "virgin" /\ pend' = FALSE /\ holding' = FALSE /\ act' = "Init"
  /\ W' = 0 /\ S' = 0 /\ eqpsC' = 0 /\ eqpsP' = 0 /\ isoch' = TRUE /\ ye' = "inside" /\ Wneq' = 0 /\ diss' = "zero"

TNext == StepEv \/ NextTrace
TSpec == TInit /\ [][TNext]_tvars

Done == tid > NT
Verdict == Done => PrintT(<<"VERDICT", ToJson([n |-> NT, viol |-> viol, cnt |-> cnt])>>)
=============================================================================
