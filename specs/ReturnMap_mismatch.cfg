SPECIFICATION Spec
CONSTANTS
  EMax = 40
  Mu3 = 6
  Y0 = 20
  H1 = 3
  H2 = 1
  Knee = 10
  MMax = 120
  TolY = 2
  TolS = 6
INVARIANT TypeOK
INVARIANT PendingAhead
INVARIANT BracketValid
INVARIANT YieldConsistent
PROPERTY Irreversible
PROPERTY Idempotent
PROPERTY CommitKeepsYield
CHECK_DEADLOCK FALSE
