-------------------------- MODULE MeshTopologyTrace --------------------------
(* Trace validation for MeshTopology.tla (property C13).  Each line of                *)
(* IOEnv.TRACE_FILE is one scenario executed on the REAL optimism code:               *)
(*   {"id": n, "ev": [ event, ... ]}                                                  *)
(* Every event is the integer abstraction of one library call and is self-contained:  *)
(*   Structured {nx, ny, M}                construct_structured_mesh                  *)
(*   Edges      {vtx, ec, et}              Mesh.create_edges                          *)
(*   Elevate    {p, S, H, roles, lib, place, coincident}                              *)
(*                                         create_higher_order_mesh_from_simplex_mesh *)
(*   Merge      {A, B, R, coordsKept}      Mesh.combine_mesh                          *)
(*   Read       {F, R, roles, place, coordsExact, names}   read_exodus_mesh / read_json_mesh *)
(* A mesh M is {nN, conns, vtx, area, blocks, nodeSets, sideSets, simplex}: 0-based   *)
(* integer tables; area[e] in {"GT","EQ","LT"} is the exact sign of the signed area   *)
(* of the vertex triangle; place[e] says that every node of element e lies within     *)
(* 1e-12*h of the affine image of its reference node; roles are the local node        *)
(* numbers of vertices / side nodes / interior nodes derived from the reference       *)
(* coordinates alone.  The declarative predicates of MeshTopology.tla are evaluated   *)
(* on this data; the operational model only feeds drift_ clauses.                     *)
(* Verdicts are total: a failing clause is recorded as <<id, event index, clause>>.   *)
EXTENDS MeshTopology, Json, IOUtils

Traces == ndJsonDeserialize(IOEnv.TRACE_FILE)
NT == Len(Traces)

VARIABLES tid, l, viol
tvars == <<vars, tid, l, viol>>

FailsOf(r) == {c \in DOMAIN r : ~r[c]}

\* ---- clauses every produced mesh must satisfy
ValidC(M) ==
  [conn_in_range     |-> ConnInRange(M.nN, M.conns),
   all_nodes_used    |-> AllNodesUsed(M.nN, M.conns),
   ccw_positive_area |-> Len(M.area) = Len(M.conns) /\ \A e \in DOMAIN M.area : M.area[e] = "GT",
   blocks_exist      |-> BlocksExist(Len(M.conns), M.blocks),
   nodesets_exist    |-> NodeSetsExist(M.nN, M.nodeSets),
   sidesets_exist    |-> SideSetsExist(Len(M.conns), M.sideSets)]

SameSets(s1, s2) == Names(s1) = Names(s2) /\ \A n \in Names(s1) : Mem(s1, n) = Mem(s2, n)

StructuredC(e) ==
  ValidC(e.M) @@
  [edges_manifold          |-> OrientedManifold(e.M.vtx),
   drift_structured_conns  |-> e.M.conns = StructConns(e.nx, e.ny) /\ e.M.nN = e.nx * e.ny,
   drift_structured_coords |-> e.gridOk,
   drift_simplex_ordinals  |-> Rng(e.M.simplex) = UNION {Rng(e.M.vtx[k]) : k \in DOMAIN e.M.vtx}]

EdgesC(e) ==
  [edge_once        |-> EdgeOnce(e.vtx, e.ec),
   left_adjacent    |-> LeftAdjacent(e.vtx, e.ec, e.et),
   right_adjacent   |-> RightAdjacent(e.vtx, e.ec, e.et),
   boundary_ccw     |-> BoundaryCCW(e.vtx, e.ec),
   drift_edge_table |-> LET T == OpEdges(e.vtx) IN T.ec = e.ec /\ T.et = e.et]

ElevateC(e) ==
  LET E == Struct(e.H.conns, e.roles)
      K == CarrierPairs(E, e.S.vtx, e.p)
      nI == Len(e.roles.in)
      mech == OpElevate(e.S.nN, e.S.vtx, e.p, nI)
  IN
  ValidC(e.H) @@
  [affine_placement      |-> Len(e.place) = Len(e.H.conns) /\ \A i \in DOMAIN e.place : e.place[i],
   edge_nodes_shared     |-> Len(E) = Len(e.S.vtx) /\ EdgeNodesShared(E, e.p),
   no_duplicate_nodes    |-> NoDuplicateNodesK(K) /\ e.coincident = <<>>,
   node_positions_unique |-> NoConfusedNodesK(K),
   no_unused_nodes       |-> NoUnusedNodesK(e.H.nN, K),
   node_count            |-> NodeCount(e.H.nN, e.S.nN, e.S.vtx, e.p, nI),
   drift_ref_tables      |-> e.lib = e.roles,
   drift_vertex_numbers  |-> VtxOf(E) = e.S.vtx /\ e.H.vtx = e.S.vtx,
   drift_sets_kept       |-> SameSets(e.H.blocks, e.S.blocks) /\ SameSets(e.H.sideSets, e.S.sideSets),
   drift_simplex_ordinals |-> Rng(e.H.simplex) = UNION {Rng(e.H.vtx[k]) : k \in DOMAIN e.H.vtx},
   drift_elevate_numbering |-> e.H.nN = mech.nN /\ E = mech.E]

MergeC(e) ==
  LET U == OpMerge(e.A, e.B, "union") O == OpMerge(e.A, e.B, "overwrite")
      same(X) == SameSets(e.R.blocks, X.blocks) /\ SameSets(e.R.nodeSets, X.nodeSets)
                 /\ SameSets(e.R.sideSets, X.sideSets)
  IN
  ValidC(e.R) @@
  [merge_conn      |-> MergeConn(e.R, e.A, e.B) /\ e.coordsKept,
   merge_no_loss   |-> MergeNoLoss(e.R, e.A, e.B),
   merge_no_extra  |-> MergeNoExtra(e.R, e.A, e.B),
   drift_merge_mechanism |-> same(U) \/ same(O)]

ReadC(e) ==
  LET mech == OpRead(e.F) IN
  ValidC(e.R) @@
  [read_elements    |-> ReadElements(e.F, e.R, e.roles),
   read_blocks      |-> e.hasBlocks => ReadBlocks(e.F, e.R),
   read_nodesets    |-> ReadNodeSets(e.F, e.R),
   read_sidesets    |-> ReadSideSets(e.F, e.R),
   affine_placement |-> Len(e.place) = Len(e.R.conns) /\ \A i \in DOMAIN e.place : e.place[i],
   no_duplicate_nodes |-> e.coincident = <<>>,
   drift_read_coords  |-> e.coordsExact,
   drift_read_names   |-> /\ e.hasBlocks => [i \in DOMAIN e.R.blocks |-> e.R.blocks[i].name] = [i \in DOMAIN mech.blocks |-> mech.blocks[i].name]
                          /\ [i \in DOMAIN e.R.nodeSets |-> e.R.nodeSets[i].name] = [i \in DOMAIN mech.nodeSets |-> mech.nodeSets[i].name]
                          /\ [i \in DOMAIN e.R.sideSets |-> e.R.sideSets[i].name] = [i \in DOMAIN mech.sideSets |-> mech.sideSets[i].name],
   drift_read_conns   |-> e.R.conns = mech.conns,
   drift_simplex_ordinals |-> Rng(e.R.simplex) = UNION {Rng(e.R.vtx[k]) : k \in DOMAIN e.R.vtx}]

Fails(e) ==
  CASE e.op = "Structured" -> FailsOf(StructuredC(e))
    [] e.op = "Edges"      -> FailsOf(EdgesC(e))
    [] e.op = "Elevate"    -> FailsOf(ElevateC(e))
    [] e.op = "Merge"      -> FailsOf(MergeC(e))
    [] e.op = "Read"       -> FailsOf(ReadC(e))
    [] OTHER               -> {"unknown_event"}

TInit == tid = 1 /\ l = 0 /\ viol = {} /\ m = Empty /\ out = None

Step ==
  /\ tid <= NT /\ l < Len(Traces[tid].ev)
  /\ LET e == Traces[tid].ev[l + 1] IN
       viol' = viol \cup { <<Traces[tid].id, l + 1, c>> : c \in Fails(e) }
  /\ l' = l + 1 /\ tid' = tid /\ UNCHANGED vars

NextTrace ==
  /\ tid <= NT /\ l = Len(Traces[tid].ev)
  /\ tid' = tid + 1 /\ l' = 0 /\ viol' = viol /\ UNCHANGED vars

TNext == Step \/ NextTrace
TSpec == TInit /\ [][TNext]_tvars

Done == tid > NT
Verdict == Done => PrintT(<<"VERDICT", ToJson([n |-> NT, viol |-> viol])>>)
=============================================================================
