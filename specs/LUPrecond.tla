------------------------------ MODULE LUPrecond ------------------------------
(* EXTENSION X15 (not a listed property): optimism.LU.LU, the dense LU preconditioner used by EquationSolver's least-squares       *)
(* driver.  One action per public method; every word over the methods up to Depth (a construction first) is a behaviour.            *)
(* Invariants: the installed factors always belong to a matrix that factorized (or to the identity fallback, reachable only         *)
(* through a failed CONSTRUCTION), are never newer than self.A, and are those of self.A right after a successful install.           *)
(* OutOfSyncReachable is the named deviation: after a failed update, dot / multiply_by_transpose use the new matrix while solve    *)
(* uses the old factors; the cfg lists its negation as an invariant that TLC must REFUTE in a separate run (LUPrecondSync.cfg).     *)
EXTENDS LURules, TLC, Json
CONSTANTS Depth, EmitMode
VARIABLES st, n, kinds, hist
vars == <<st, n, kinds, hist>>
Init == st = <<0, 0>> /\ n = 0 /\ kinds = <<>> /\ hist = <<>>
Do(op) == /\ st' = After(st, op, n)
          /\ n' = IF IsInstall(op) THEN n + 1 ELSE n
          /\ kinds' = IF IsInstall(op) THEN Append(kinds, IF op \in {"Cg", "Ug"} THEN "good" ELSE "bad") ELSE kinds
          /\ hist' = Append(hist, [op |-> op, cur |-> After(st, op, n)[1], fac |-> After(st, op, n)[2], use |-> Uses(After(st, op, n), op)])
Next == /\ Len(hist) < Depth
        /\ \E op \in Ops : /\ (Len(hist) = 0) <=> (op \in {"Cg", "Cb"})      \* exactly one construction, first
                           /\ Do(op)
Spec == Init /\ [][Next]_vars
FactorsOfAGoodMatrix == st[2] # 0 => kinds[st[2]] = "good"
FactorsNotNewer == st[2] <= st[1]
IdentityOnlyFromConstructor == (st[2] = 0 /\ n > 0) => kinds[1] = "bad"
InSyncAfterGoodInstall == (Len(hist) > 0 /\ hist[Len(hist)].op \in {"Cg", "Ug"}) => st[1] = st[2]
AlwaysInSync == n > 0 => (st[1] = st[2] \/ st[2] = 0)        \* NOT an invariant of the code: refuted in LUPrecondSync.cfg
Emit == (EmitMode = "all" /\ Len(hist) = Depth) => PrintT(<<"BEH", ToJson([ops |-> [i \in 1..Len(hist) |-> hist[i].op], exp |-> [i \in 1..Len(hist) |-> hist[i].use]])>>)
=============================================================================
