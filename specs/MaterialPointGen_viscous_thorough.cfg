SPECIFICATION GSpec
CONSTANTS
  Models <- GenViscous
  ExecModes = {"jit"}
  DefClasses = {"inc"}
  LoadClasses = {"inc", "reverse", "tiny", "large"}
  DtClasses = {"fast", "mid", "slow"}
  MaxRank = 0
  MaxClass = 0
  Depth = 5
  AllowReset = TRUE
CONSTRAINT Bound
INVARIANT Emit
CHECK_DEADLOCK FALSE
