-------------------------- MODULE PhasePlasticTrace --------------------------
(* One line per history executed on the real PhaseFieldThresholdPlastic model:
   {"id":n,"ev":[{"a":"below|above|reupdate","ph":k,"de":"EQ|GT|LT" (eqps new against old),"iso":b (plastic strain traceless),
                  "ye":"inside|on|outside" (degraded Mises stress of the NEW state against the flow stress of the new eqps),
                  "same":b (tensor part of the state unchanged), "dir":b (plastic increment parallel to the trial deviator),
                  "en":"LE|GT" (energy with the update <= energy without it)}]} *)
EXTENDS Integers, Sequences, TLC, Json, IOUtils
Traces == ndJsonDeserialize(IOEnv.TRACE_FILE)
NT == Len(Traces)
VARIABLES tid, l, viol
Clauses(e) ==
  [ irreversible        |-> e.de # "LT",
    isochoric           |-> e.iso,
    yield_consistent    |-> e.ye # "outside",
    elastic_step_is_noop |-> (e.a = "below") => (e.de = "EQ" /\ e.same),
    yielding_moves_to_surface |-> (e.a = "above") => (e.de = "GT" /\ e.ye = "on" /\ e.dir),
    reupdate_is_noop    |-> (e.a = "reupdate") => (e.de = "EQ" /\ e.same),
    update_lowers_energy |-> e.en = "LE" ]
ClauseNames == {"irreversible", "isochoric", "yield_consistent", "elastic_step_is_noop", "yielding_moves_to_surface",
                "reupdate_is_noop", "update_lowers_energy"}
TInit == tid = 1 /\ l = 0 /\ viol = {}
Step == /\ tid <= NT
        /\ IF l < Len(Traces[tid].ev)
           THEN LET cl == Clauses(Traces[tid].ev[l + 1]) IN
                /\ viol' = viol \cup { <<Traces[tid].id, l + 1, c>> : c \in {c \in ClauseNames : ~cl[c]} }
                /\ l' = l + 1 /\ tid' = tid
           ELSE tid' = tid + 1 /\ l' = 0 /\ viol' = viol
TSpec == TInit /\ [][Step]_<<tid, l, viol>>
Done == tid > NT
Verdict == Done => PrintT(<<"VERDICT", ToJson([n |-> NT, viol |-> viol])>>)
=============================================================================
