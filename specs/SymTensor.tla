------------------------------ MODULE SymTensor ------------------------------
(* C12 - symmetric 3x3 tensors with EXACTLY known spectra.                    *)
(*                                                                            *)
(*   optimism/TensorMath.py  eigen_sym33_unit, sqrt_symm, exp_symm, log_symm, *)
(*                           pow_symm (+ custom JVPs), detpIm1, inv,          *)
(*                           right_polar_decomposition                        *)
(*                                                                            *)
(* State = one lattice point.  Two kinds:                                     *)
(*  "rot" : eigenvalues d1 <= d2 <= d3 from DMin..DMax (negative, zero,       *)
(*          repeated, rank deficient included), an exact rational orthogonal  *)
(*          matrix Rn/den from a fixed table (identity, axis permutations,    *)
(*          3-4-5 and 5-12-13 rotations about z = the in-plane block form of  *)
(*          plane-strain kinematics, 3-4-5 about x, generic ones with den 3   *)
(*          and 7, products), a gap exponent g (0 = exactly repeated;         *)
(*          otherwise the repeated eigenvalue is split by 2^-g) and the split *)
(*          pattern sp.  An = Rn diag(d) Rn^T has denominator den^2.          *)
(*  "int" : a small integer symmetric matrix given directly (all matrices     *)
(*          with entries in -K..K, and the in-plane block form with entries   *)
(*          in -KB..KB); its oracle is the integer characteristic polynomial  *)
(*          (i1, i2, i3), the sign of its discriminant (repeated eigenvalue)  *)
(*          and det(3A - tr(A) I) (middle deviatoric eigenvalue exactly 0:    *)
(*          e.g. [[0,g,0],[g,0,0],[0,0,0]] = eigenvalues (-g,0,g) rotated by  *)
(*          45 degrees about z, which no rational rotation reaches).          *)
(* The invariants are the algebra the harness relies on, checked in exact     *)
(* integer arithmetic at EVERY lattice point (all numbers < 2^31).            *)
EXTENDS Integers, Sequences

CONSTANTS DMin, DMax,   \* eigenvalue range of the rotated points
          Gaps,         \* gap exponents g > 0 (split 2^-g) applied to repeated eigenvalues
          K,            \* full integer matrices: entries in -K..K
          KB            \* in-plane block matrices [[a,b,0],[b,c,0],[0,0,e]]: entries in -KB..KB

VARIABLE pt
vars == <<pt>>

-----------------------------------------------------------------------------
\* 3x3 integer matrix algebra
Idx == 1..3
Mat(f(_, _)) == [i \in Idx |-> [j \in Idx |-> f(i, j)]]
Mul3(A, B) == [i \in Idx |-> [j \in Idx |-> A[i][1] * B[1][j] + A[i][2] * B[2][j] + A[i][3] * B[3][j]]]
T3(A)      == [i \in Idx |-> [j \in Idx |-> A[j][i]]]
Sc3(c, A)  == [i \in Idx |-> [j \in Idx |-> c * A[i][j]]]
Add3(A, B) == [i \in Idx |-> [j \in Idx |-> A[i][j] + B[i][j]]]
Diag3(d)   == [i \in Idx |-> [j \in Idx |-> IF i = j THEN d[i] ELSE 0]]
Id3        == Diag3(<<1, 1, 1>>)
Tr3(A)     == A[1][1] + A[2][2] + A[3][3]
Det3(A)    == A[1][1] * (A[2][2] * A[3][3] - A[2][3] * A[3][2])
            - A[1][2] * (A[2][1] * A[3][3] - A[2][3] * A[3][1])
            + A[1][3] * (A[2][1] * A[3][2] - A[2][2] * A[3][1])
\* second invariant = sum of the principal 2x2 minors
Sec3(A)    == (A[1][1] * A[2][2] - A[1][2] * A[2][1]) + (A[2][2] * A[3][3] - A[2][3] * A[3][2])
            + (A[1][1] * A[3][3] - A[1][3] * A[3][1])
IsSym(A)   == A = T3(A)
Block(A)   == A[1][3] = 0 /\ A[2][3] = 0 /\ A[3][1] = 0 /\ A[3][2] = 0    \* plane-strain block form
Abs(z)     == IF z < 0 THEN -z ELSE z

\* elementary symmetric functions of an eigenvalue triple
E1(d) == d[1] + d[2] + d[3]
E2(d) == d[1] * d[2] + d[2] * d[3] + d[1] * d[3]
E3(d) == d[1] * d[2] * d[3]
Sq(d) == <<d[1] * d[1], d[2] * d[2], d[3] * d[3]>>

-----------------------------------------------------------------------------
\* the table of exact rational orthogonal matrices  Rn / den
Z5  == <<<<3, -4, 0>>, <<4, 3, 0>>, <<0, 0, 5>>>>            \* 3-4-5 about z
Z13 == <<<<5, -12, 0>>, <<12, 5, 0>>, <<0, 0, 13>>>>          \* 5-12-13 about z
X5  == <<<<5, 0, 0>>, <<0, 3, -4>>, <<0, 4, 3>>>>             \* 3-4-5 about x
Pc  == <<<<0, 0, 1>>, <<1, 0, 0>>, <<0, 1, 0>>>>              \* cyclic axis permutation
Pz  == <<<<0, -1, 0>>, <<1, 0, 0>>, <<0, 0, 1>>>>             \* quarter turn about z
G3  == <<<<2, -1, 2>>, <<2, 2, -1>>, <<-1, 2, 2>>>>           \* generic, den 3
G7  == <<<<2, 3, 6>>, <<3, -6, 2>>, <<6, 2, -3>>>>            \* generic, den 7

RotNames == {"I", "Pc", "Pz", "Z5", "Z13", "X5", "G3", "G7", "Z5G3", "Z5X5", "G3Z5", "Z13Pc"}
Rot(r) ==
  CASE r = "I"     -> [n |-> Id3, den |-> 1]
    [] r = "Pc"    -> [n |-> Pc,  den |-> 1]
    [] r = "Pz"    -> [n |-> Pz,  den |-> 1]
    [] r = "Z5"    -> [n |-> Z5,  den |-> 5]
    [] r = "Z13"   -> [n |-> Z13, den |-> 13]
    [] r = "X5"    -> [n |-> X5,  den |-> 5]
    [] r = "G3"    -> [n |-> G3,  den |-> 3]
    [] r = "G7"    -> [n |-> G7,  den |-> 7]
    [] r = "Z5G3"  -> [n |-> Mul3(Z5, G3), den |-> 15]
    [] r = "Z5X5"  -> [n |-> Mul3(Z5, X5), den |-> 25]
    [] r = "G3Z5"  -> [n |-> Mul3(G3, Z5), den |-> 15]
    [] r = "Z13Pc" -> [n |-> Mul3(Z13, Pc), den |-> 13]

-----------------------------------------------------------------------------
\* classification (what the harness puts into a failing case, and what the trace spec's
\* applicability rules read)
MultOf(d, g) == IF d[1] = d[3] THEN (IF g = 0 THEN "triple" ELSE "near_triple")
                ELSE IF d[1] = d[2] \/ d[2] = d[3] THEN (IF g = 0 THEN "double" ELSE "near_double")
                ELSE "distinct"
\* the eigenvalues moved by the split, in units of 2^-g:  d_i + split_i * 2^-g
SplitOf(d, g, sp) == IF g = 0 THEN <<0, 0, 0>>
                     ELSE IF d[1] = d[3] THEN (IF sp = 2 THEN <<0, 1, 2>> ELSE <<0, 0, 1>>)
                     ELSE IF d[2] = d[3] THEN <<0, 0, 1>>
                     ELSE IF d[1] = d[2] THEN <<0, 1, 0>>
                     ELSE <<0, 0, 0>>
DefOf(lo, hi) == IF lo > 0 THEN "pd" ELSE IF lo = 0 /\ hi > 0 THEN "psd" ELSE IF lo = 0 /\ hi = 0 THEN "zero"
                 ELSE IF hi < 0 THEN "nd" ELSE IF hi = 0 THEN "nsd" ELSE "indef"

\* discriminant of  x^3 - i1 x^2 + i2 x - i3  (>= 0 for a symmetric matrix; = 0 iff an eigenvalue repeats)
Disc(i1, i2, i3) == 18 * i1 * i2 * i3 - 4 * i1 * i1 * i1 * i3 + i1 * i1 * i2 * i2 - 4 * i2 * i2 * i2 - 27 * i3 * i3
\* det(3A - tr(A) I) = 27 * product of the deviatoric eigenvalues: 0 iff the MIDDLE deviatoric eigenvalue is 0
\* (the deviatoric eigenvalues sum to 0), i.e. the spectrum is symmetric about its mean
DevDet(A) == Det3(Add3(Sc3(3, A), Sc3(-Tr3(A), Id3)))

RotPoint(d, r, g, sp) ==
  LET R  == Rot(r)
      An == Mul3(Mul3(R.n, Diag3(d)), T3(R.n))
  IN [kind |-> "rot", d |-> d, rot |-> r, g |-> g, sp |-> sp, split |-> SplitOf(d, g, sp),
      Rn |-> R.n, den |-> R.den, An |-> An,
      i1 |-> Tr3(An), i2 |-> Sec3(An), i3 |-> IF R.den <= 15 THEN Det3(An) ELSE 0,
      mult |-> MultOf(d, g), def |-> DefOf(d[1], d[3]),
      mid0 |-> (g = 0 /\ 2 * d[2] = d[1] + d[3] /\ d[1] # d[3]),
      block |-> Block(An)]

IntPoint(A) ==
  LET i1 == Tr3(A)  i2 == Sec3(A)  i3 == Det3(A)  dd == DevDet(A)
      triple == A[1][2] = 0 /\ A[1][3] = 0 /\ A[2][3] = 0 /\ A[1][1] = A[2][2] /\ A[2][2] = A[3][3]
  IN [kind |-> "int", d |-> <<0, 0, 0>>, rot |-> "none", g |-> 0, sp |-> 1, split |-> <<0, 0, 0>>,
      Rn |-> Id3, den |-> 1, An |-> A, i1 |-> i1, i2 |-> i2, i3 |-> i3,
      mult |-> IF triple THEN "triple" ELSE IF Disc(i1, i2, i3) = 0 THEN "double" ELSE "distinct",
      \* all roots real => (all > 0 iff i1,i2,i3 > 0), (all >= 0 iff i1,i2,i3 >= 0)  (Descartes)
      def  |-> IF i1 > 0 /\ i2 > 0 /\ i3 > 0 THEN "pd"
               ELSE IF i1 = 0 /\ i2 = 0 /\ i3 = 0 THEN "zero"
               ELSE IF i1 >= 0 /\ i2 >= 0 /\ i3 >= 0 THEN "psd"
               ELSE IF i1 < 0 /\ i2 > 0 /\ i3 < 0 THEN "nd"
               ELSE IF i1 <= 0 /\ i2 >= 0 /\ i3 <= 0 THEN "nsd" ELSE "indef",
      mid0 |-> (dd = 0 /\ ~triple),
      block |-> Block(A)]

SymOf(a, b, c, e, f, h) == <<<<a, b, c>>, <<b, e, f>>, <<c, f, h>>>>

None == [kind |-> "none"]
Init == pt = None

Eigs == DMin..DMax
\* one action per family of lattice points; the environment picks the point
PickRot ==
  /\ pt = None
  /\ \E d1 \in Eigs, d2 \in Eigs, d3 \in Eigs, r \in RotNames :
       /\ d1 <= d2 /\ d2 <= d3
       /\ \E g \in (IF d1 = d2 \/ d2 = d3 THEN Gaps \cup {0} ELSE {0}),
             sp \in (IF d1 = d3 THEN {1, 2} ELSE {1}) :
            /\ (g = 0 => sp = 1)
            /\ pt' = RotPoint(<<d1, d2, d3>>, r, g, sp)
PickInt ==
  /\ pt = None
  /\ \E a \in -K..K, b \in -K..K, c \in -K..K, e \in -K..K, f \in -K..K, h \in -K..K :
       pt' = IntPoint(SymOf(a, b, c, e, f, h))
PickBlock ==
  /\ pt = None
  /\ \E a \in -KB..KB, b \in -KB..KB, e \in -KB..KB, h \in -KB..KB :
       pt' = IntPoint(SymOf(a, b, 0, e, 0, h))

Next == PickRot \/ PickInt \/ PickBlock
Spec == Init /\ [][Next]_vars

-----------------------------------------------------------------------------
\* ---- the algebra of the lattice, exact at every point ---------------------
IsRot == pt.kind = "rot"
IsInt == pt.kind = "int"
D2    == pt.den * pt.den

\* Rn Rn^T = den^2 I : the table really consists of orthogonal matrices
Orthogonal   == IsRot => Mul3(pt.Rn, T3(pt.Rn)) = Sc3(D2, Id3) /\ Mul3(T3(pt.Rn), pt.Rn) = Sc3(D2, Id3)
Symmetric    == pt.kind # "none" => IsSym(pt.An)
\* tr An = den^2 sum d ;  second invariant = den^4 e2(d) ; det An = den^6 prod d
TraceOK      == IsRot => pt.i1 = D2 * E1(pt.d)
SecondOK     == IsRot => pt.i2 = D2 * D2 * E2(pt.d)
DetOK        == IsRot /\ pt.den <= 15 => pt.i3 = D2 * D2 * D2 * E3(pt.d)
\* An An / den^2 = Rn diag(d^2) Rn^T : R diag(s) R^T IS the square root of the point with eigenvalues s^2
SquareOK     == IsRot => Mul3(pt.An, pt.An) = Sc3(D2, Mul3(Mul3(pt.Rn, Diag3(Sq(pt.d))), T3(pt.Rn)))
\* An Rn = Rn diag(den^2 d) : the columns of Rn are eigenvectors with eigenvalues den^2 d
EigenPairs   == IsRot => Mul3(pt.An, pt.Rn) = Mul3(pt.Rn, Diag3(<<D2 * pt.d[1], D2 * pt.d[2], D2 * pt.d[3]>>))
\* Cayley-Hamilton: (i1, i2, i3) are the coefficients of the characteristic polynomial
CayleyHamilton ==
  (IsInt \/ (IsRot /\ pt.den <= 7)) =>
    LET A == pt.An  A2 == Mul3(A, A)  A3 == Mul3(A2, A)
    IN Add3(Add3(A3, Sc3(-pt.i1, A2)), Add3(Sc3(pt.i2, A), Sc3(-pt.i3, Id3))) = Sc3(0, Id3)
\* real spectrum: the discriminant is never negative; multiplicity class agrees with it
DiscNonNeg   == IsInt => Disc(pt.i1, pt.i2, pt.i3) >= 0
MultOK       == (IsRot /\ pt.den <= 1 /\ pt.g = 0) =>
                   ((Disc(pt.i1, pt.i2, pt.i3) = 0) <=> (pt.mult # "distinct"))
\* spectrum symmetric about its mean <=> det(3A - tr A I) = 0  (checked where 32 bits suffice)
MidZeroOK    == (IsRot /\ pt.den <= 5 /\ pt.g = 0) =>
                   ((DevDet(pt.An) = 0) <=> (pt.mid0 \/ pt.mult = "triple"))
\* definiteness class from the invariants agrees with the class from the eigenvalues
DefOK        == (IsRot /\ pt.den <= 1) => IntPoint(pt.An).def = pt.def
\* rotations about z (and the identity / quarter turn) keep the plane-strain block form
BlockOK      == (IsRot /\ pt.rot \in {"I", "Pz", "Z5", "Z13"}) => pt.block
\* detpIm1: det(A + I) - 1 = i1 + i2 + i3
DetPlusI     == IsInt => Det3(Add3(pt.An, Id3)) - 1 = pt.i1 + pt.i2 + pt.i3

TypeOK == pt.kind \in {"none", "rot", "int"}
=============================================================================
