SPECIFICATION Spec
CONSTANTS
  Meshes <- MeshesTiny
  EmitMode = "all"
VIEW View
INVARIANT TypeOK
INVARIANT InvMaskIsDecl
INVARIANT InvPartition
INVARIANT InvBcExact
INVARIANT InvSizes
INVARIANT InvSplit
INVARIANT InvRoundTrip
INVARIANT InvSlice
INVARIANT InvDofToUnknown
INVARIANT InvHess
INVARIANT InvHessBagTrue
PROPERTY StepMaskIsDecl
INVARIANT Emit
ACTION_CONSTRAINT EmitT
CHECK_DEADLOCK FALSE
