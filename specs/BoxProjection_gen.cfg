SPECIFICATION Spec
CONSTANTS
  N = 1
  TRMode = "full"
  EmitMode = "all"
INVARIANT ProjInBox
INVARIANT ProjClosest
INVARIANT ProjIdempotent
INVARIANT ProjFixesFeasible
INVARIANT TrSatisfiable
INVARIANT Emit
CHECK_DEADLOCK FALSE
