SPECIFICATION Spec
CONSTANTS
  EmitMode = "all"
INVARIANT ColumnsFollowRequest
INVARIANT Emit
CHECK_DEADLOCK FALSE
