SPECIFICATION Spec
CONSTANTS
  Depth = 5
  EmitMode = "all"
INVARIANT FactorsOfAGoodMatrix
INVARIANT FactorsNotNewer
INVARIANT IdentityOnlyFromConstructor
INVARIANT InSyncAfterGoodInstall
INVARIANT Emit
CHECK_DEADLOCK FALSE
