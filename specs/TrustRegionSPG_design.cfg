SPECIFICATION GSpec
CONSTANTS
  R = 4
  StartRank = 2
  MaxIters = 3
  L0 = 2
  LMax = 3
  Incremental = FALSE
  Bounded = TRUE
  EmitMode = "none"
  MaxHist = 100
VIEW View
INVARIANT TypeOK
INVARIANT Descent
INVARIANT ReturnsLast
INVARIANT HonestFlag
INVARIANT Feasible
INVARIANT LevelBounded
CHECK_DEADLOCK FALSE
