------------------------------ MODULE RootFind ------------------------------
(***************************************************************************)
(* Mechanism model of optimism.ScalarRootFind.rtsafe_ (property C17),      *)
(* written like the implementation, in exact arithmetic on a lattice.      *)
(*                                                                         *)
(* Abscissae are lattice positions 0..N (real x = X0 + h*position, h a     *)
(* power of two); function values and slopes are small integers (real      *)
(* f = c*F, f' = (c/h)*DF, c a power of two), so every quantity the code   *)
(* computes (clip, products in the range test, 0.5*(xh-xl), -F/DF) is      *)
(* exact in binary floating point and equal to the integer computed here.  *)
(*                                                                         *)
(* The ENVIRONMENT is the function f: its value and slope are revealed     *)
(* on demand, by nondeterministic choice, at each abscissa the algorithm   *)
(* evaluates (bracket[0], bracket[1], the clipped guess, the iterates).    *)
(* Slopes may be zero or of the wrong sign: the safeguard must not rely    *)
(* on them.  A step whose result is not on the lattice (odd bracket width  *)
(* to bisect, inexact Newton quotient) is not offered by the environment   *)
(* (the corresponding action is disabled; the behaviour ends there).       *)
(*                                                                         *)
(* Code being modelled (one action per phase of rtsafe_):                  *)
(*   Init      fl,fh = f(bracket); x0 = clip(guess); x0 = NaN unless       *)
(*             sign(fl)*sign(fh) < 0; end point with f = 0 overrides and   *)
(*             sets converged; orient so that f(xl) < 0; dx = dxOld =      *)
(*             width; F,DF = f,f'(x0); F = 0 counts as converged           *)
(*             (StopOnExactRoot, the code since /repo 537ef08)             *)
(*   Bisect    if the Newton step leaves (xl,xh) or |2F| > |dxOld*DF|      *)
(*   Newton    otherwise                                                   *)
(*   ZeroSlope Newton branch taken with F = 0 and DF = 0: -0/0 = NaN       *)
(*             (reachable only in the variant StopOnExactRoot = FALSE,     *)
(*             the code before 537ef08; kept as the regression model)      *)
(*   NaNStep   NaN iterate: all comparisons false, Newton branch, NaN      *)
(*   Stop      loop exit: converged or i = max_iters; result NaN unless    *)
(*             converged                                                   *)
(* Named deviation (fix 604fb4f, finding F36): the code also sets          *)
(* converged when the maintained bracket's ends are NEIGHBOURING FLOATS    *)
(* (nextafter(xl, xh) = xh).  The lattice's spacing h is many ulps, so     *)
(* that exit cannot fire on any behaviour replayed from this module and    *)
(* is not an action here; it is exercised and judged by the contract       *)
(* clauses on the directed genuine families large_root / zero_tol of       *)
(* checks/c17.py (x_tol below the float spacing at the root), where the    *)
(* unrepaired code returned NaN.                                           *)
(***************************************************************************)
EXTENDS RootContract

CONSTANTS N,            \* lattice 0..N
          Brackets,     \* set of <<b0, b1>>, 0 <= b0 < b1 <= N
          TolSettings,  \* set of <<T, R>>: x_tol = T*h, r_tol = R*c  (lattice units)
          FVals,        \* values f may take (integers, contains 0)
          DVals,        \* slopes f' may take (integers, contains 0)
          MaxIters,
          Degenerate,   \* TRUE: the environment may present f = 0 and f' = 0 at the same abscissa
          StopOnExactRoot \* TRUE models the code as it is (F = 0 counts as converged); FALSE the code before 537ef08

VARIABLES b0, b1, fl, fh, guess, T, R,                 \* the call (constant after Init)
          root, dx, dxOld, F, DF, xl, xh, conv, i,     \* the loop carry of rtsafe_
          stag,                                        \* last step left x unchanged (x == xl / x == temp)
          sxl, sxh,                                    \* ghost: signs of f at xl and xh
          pc

call == <<b0, b1, fl, fh, guess, T, R>>
vars == <<b0, b1, fl, fh, guess, T, R, root, dx, dxOld, F, DF, xl, xh, conv, i, stag, sxl, sxh, pc>>

Abs(x) == IF x < 0 THEN -x ELSE x
Sgn(x) == IF x < 0 THEN -1 ELSE IF x = 0 THEN 0 ELSE 1
Min(a, b) == IF a < b THEN a ELSE b
Max(a, b) == IF a < b THEN b ELSE a
Clip(g, lo, hi) == IF g < lo THEN lo ELSE IF g > hi THEN hi ELSE g

EnvOK(f, d) == Degenerate \/ ~(f = 0 /\ d = 0)

\* ---- the decision of loop_body, exactly as coded
OutOfRange(rt, l, h, f, d) == ((rt - h) * d - f) * ((rt - l) * d - f) > 0
Slow(f, d, dxo)            == Abs(2 * f) > Abs(dxo * d)
UseBisect(rt, l, h, f, d, dxo) == OutOfRange(rt, l, h, f, d) \/ Slow(f, d, dxo)

\* ---- the two steps (bisection_step / newton_step); results on the lattice only
BisectOK(l, h)  == (h - l) % 2 = 0
StepB(l, h)     == LET q == IF h >= l THEN (h - l) \div 2 ELSE -((l - h) \div 2)
                   IN [x |-> l + q, dx |-> q, stag |-> (q = 0)]
NewtonOK(f, d)  == d # 0 /\ f % Abs(d) = 0
StepN(rt, f, d) == LET q == IF d > 0 THEN (IF f >= 0 THEN -(f \div d) ELSE (-f) \div d)
                            ELSE (IF f >= 0 THEN f \div (-d) ELSE -((-f) \div (-d)))
                   IN [x |-> rt + q, dx |-> q, stag |-> (q = 0)]

\* what rtsafe_ starts from
X0(a, b, g, lo, hi) == IF b = 0 THEN hi ELSE IF a = 0 THEN lo
                       ELSE IF a * b < 0 THEN Clip(g, lo, hi) ELSE NaN

Init ==
  \E br \in Brackets, ts \in TolSettings, a \in FVals, b \in FVals, g \in (0 - 1)..(N + 1),
     f0 \in FVals, d0 \in DVals :
     LET x0 == X0(a, b, g, br[1], br[2])
         c0 == (a = 0 \/ b = 0)
     IN /\ br[1] - 1 <= g /\ g <= br[2] + 1            \* one below, every inside position, one above
        /\ b0 = br[1] /\ b1 = br[2] /\ T = ts[1] /\ R = ts[2] /\ fl = a /\ fh = b /\ guess = g
        /\ root = x0
        /\ (x0 = NaN \/ x0 = br[1] \/ x0 = br[2]) => f0 = 0     \* value there is not a free choice
        /\ (x0 = NaN \/ c0) => d0 = 0                            \* slope there is never used
        /\ F  = IF x0 = NaN THEN 0 ELSE IF x0 = br[1] THEN a ELSE IF x0 = br[2] THEN b ELSE f0
        /\ DF = d0
        /\ (x0 # NaN /\ ~c0) => EnvOK(F, DF)
        /\ conv = (c0 \/ (StopOnExactRoot /\ x0 # NaN /\ F = 0))
        /\ xl = IF a < 0 THEN br[1] ELSE br[2]
        /\ xh = IF a < 0 THEN br[2] ELSE br[1]
        /\ sxl = IF a < 0 THEN Sgn(a) ELSE Sgn(b)
        /\ sxh = IF a < 0 THEN Sgn(b) ELSE Sgn(a)
        /\ dx = br[2] - br[1] /\ dxOld = br[2] - br[1]
        /\ i = 0 /\ stag = FALSE /\ pc = "loop"

Running == pc = "loop" /\ ~conv /\ i < MaxIters

\* evaluate f, f' at the new iterate, maintain the bracket, update the convergence flag
Land(s) ==
  \E f \in FVals, d \in DVals :
     /\ EnvOK(f, d)
     /\ (s.x = root) => (f = F /\ d = DF)              \* f is a function
     /\ root' = s.x /\ dxOld' = dx /\ dx' = s.dx /\ F' = f /\ DF' = d
     /\ xl' = IF f < 0 THEN s.x ELSE xl
     /\ xh' = IF f < 0 THEN xh ELSE s.x
     /\ sxl' = IF f < 0 THEN -1 ELSE sxl
     /\ sxh' = IF f < 0 THEN sxh ELSE Sgn(f)
     /\ stag' = s.stag
     /\ conv' = (s.stag \/ Abs(s.dx) < T \/ Abs(f) < R \/ (StopOnExactRoot /\ f = 0))
     /\ i' = i + 1 /\ pc' = "loop" /\ UNCHANGED call

Bisect ==
  /\ Running /\ root # NaN
  /\ UseBisect(root, xl, xh, F, DF, dxOld)
  /\ BisectOK(xl, xh)
  /\ Land(StepB(xl, xh))

Newton ==
  /\ Running /\ root # NaN
  /\ ~UseBisect(root, xl, xh, F, DF, dxOld)
  /\ NewtonOK(F, DF)
  /\ Land(StepN(root, F, DF))

ZeroSlope ==                      \* dx = -0/0: NaN iterate, f(NaN) = NaN, F < 0 is false so xh = NaN
  /\ Running /\ root # NaN
  /\ ~UseBisect(root, xl, xh, F, DF, dxOld)
  /\ F = 0 /\ DF = 0
  /\ root' = NaN /\ xh' = NaN /\ F' = 0 /\ DF' = 0 /\ dxOld' = dx /\ dx' = 0
  /\ stag' = FALSE /\ conv' = FALSE /\ i' = i + 1 /\ pc' = "loop"
  /\ UNCHANGED <<call, xl, sxl, sxh>>

NaNStep ==
  /\ Running /\ root = NaN
  /\ i' = i + 1
  /\ UNCHANGED <<call, root, dx, dxOld, F, DF, xl, xh, conv, stag, sxl, sxh, pc>>

Stop ==
  /\ pc = "loop" /\ (conv \/ i >= MaxIters)
  /\ pc' = "done"
  /\ UNCHANGED <<call, root, dx, dxOld, F, DF, xl, xh, conv, i, stag, sxl, sxh>>

Next == Bisect \/ Newton \/ ZeroSlope \/ NaNStep \/ Stop
Spec == Init /\ [][Next]_vars

\* ---------------------------------------------------------------- result and observation
Result == IF conv THEN root ELSE NaN
Obs == [x |-> Result,
        stepLt |-> (i > 0 /\ root # NaN /\ Abs(dx) < T),
        resLt  |-> (root # NaN /\ Abs(F) < R),
        stag   |-> stag,
        exact  |-> (root # NaN /\ F = 0)]

\* ---------------------------------------------------------------- invariants
TypeOK ==
  /\ b0 \in 0..N /\ b1 \in 0..N /\ b0 < b1
  /\ root \in {NaN} \cup 0..N /\ xl \in 0..N /\ xh \in {NaN} \cup 0..N
  /\ conv \in BOOLEAN /\ stag \in BOOLEAN /\ i \in 0..MaxIters /\ pc \in {"loop", "done"}
  /\ F \in FVals /\ DF \in DVals /\ dx \in (0 - N)..N /\ dxOld \in (0 - N)..N

\* the property's clauses (RootContract) hold for what the mechanism returns
Contract ==
  pc = "done" =>
    LET cl == ContractClauses(Sgn(fl), Sgn(fh), b0, b1, Obs)
    IN \A c \in ContractNames : cl[c]

\* mechanism invariants
RootInBracket ==
  root # NaN => /\ Min(xl, xh) <= root /\ root <= Max(xl, xh)
                /\ b0 <= Min(xl, xh) /\ Max(xl, xh) <= b1
Oriented == (SignChange(Sgn(fl), Sgn(fh)) /\ root # NaN) => (sxl < 0 /\ sxh >= 0)
ConvergedMeansTolerance == (conv /\ i > 0) => MeetsTol(Obs)
NaNOnlyWhenUnbracketed ==         \* holds for the code as it is, and for the old code unless the environment is Degenerate
  (pc = "done" /\ (StopOnExactRoot \/ ~Degenerate) /\ Result = NaN) => ~SignChange(Sgn(fl), Sgn(fh))
ItersBounded == i <= MaxIters

\* after Init the guess and the magnitudes of fl, fh are never read again
DesignView == <<b0, b1, Sgn(fl), Sgn(fh), T, R, root, dx, dxOld, F, DF, xl, xh, conv, i, stag, sxl, sxh, pc>>

WidthShrinks == [][(root # NaN /\ root' # NaN) => Abs(xh' - xl') <= Abs(xh - xl)]_vars
CallFixed    == [][call' = call]_vars

\* ---------------------------------------------------------------- constant sets for the cfg files
BracketsK4 == {<<0, 16>>, <<4, 12>>, <<2, 14>>, <<0, 8>>, <<5, 16>>}
BracketsK5 == {<<0, 32>>, <<8, 24>>, <<2, 30>>, <<0, 16>>, <<5, 32>>, <<3, 19>>}
BracketsK5s == {<<0, 32>>, <<8, 24>>, <<5, 32>>}
TolsAll    == {<<2, 0>>, <<0, 2>>, <<2, 2>>, <<4, 1>>}
TolsQ      == {<<2, 0>>, <<0, 2>>, <<2, 2>>}
BracketsQ  == {<<0, 16>>, <<5, 16>>}
BracketsOne == {<<0, 16>>}
F2 == (0 - 2)..2
F1 == (0 - 1)..1
D01 == {0, 1}
DQ == {0 - 1, 0, 1, 2}
TolsOne == {<<2, 0>>}
F3 == (0 - 3)..3
F124 == {0 - 4, 0 - 2, 0 - 1, 0, 1, 2, 4}
F4 == (0 - 4)..4
F6 == (0 - 6)..6
D2 == (0 - 2)..2
D3 == (0 - 3)..3
=============================================================================
