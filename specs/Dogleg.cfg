SPECIFICATION Spec
CONSTANTS
  N = 6
  TT = {1, 2, 3, 4, 5, 6}
  Root = "plus"
  EmitMode = "none"
INVARIANT Inside
INVARIANT OnPath
INVARIANT Farthest
CHECK_DEADLOCK FALSE
