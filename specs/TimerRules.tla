----------------------------- MODULE TimerRules -----------------------------
(***************************************************************************)
(* EXTENSION X07 (beyond the listed properties): optimism/Timer.py.        *)
(* A Timer object is a two-state machine (idle / running) over a clock;    *)
(* all objects share ONE class-level table  timers[name]  of accumulated   *)
(* seconds.  Pure transition rules, shared by Timer.tla (design, TLC       *)
(* explores every interleaving of a few objects) and TimerTrace.tla        *)
(* (validates what the real class did).  Time is a virtual integer clock.  *)
(***************************************************************************)
EXTENDS Integers, Sequences, FiniteSets

Insts == 1..3
Names == {"a", "b"}
\* objects 1 and 2 share the name "a" (two Timer("a") objects, or one used as decorator and one as context
\* manager); object 3 is unnamed: it reports but accumulates nothing
NameOf(i) == IF i = 3 THEN "" ELSE "a"
Named(i) == NameOf(i) # ""

S0 == [run |-> [i \in Insts |-> FALSE], t0 |-> [i \in Insts |-> 0], tot |-> [n \in Names |-> 0],
       clock |-> 0, logs |-> 0]

\* Timer.start(): raises TimerError when already running and changes nothing
StartOk(s, i) == ~s.run[i]
StartTo(s, i) == IF StartOk(s, i) THEN [s EXCEPT !.run[i] = TRUE, !.t0[i] = s.clock] ELSE s
\* Timer.stop(): raises when idle and changes nothing; otherwise reports once, adds the elapsed time to the shared
\* table under its name, returns the elapsed time
StopOk(s, i) == s.run[i]
Elapsed(s, i) == s.clock - s.t0[i]
StopTo(s, i) == IF StopOk(s, i)
                THEN [s EXCEPT !.run[i] = FALSE, !.logs = @ + 1,
                               !.tot = IF Named(i) THEN [@ EXCEPT ![NameOf(i)] = @ + Elapsed(s, i)] ELSE @]
                ELSE s
\* constructing another Timer object with a name already in the table must not reset the accumulated time
\* (__post_init__ uses setdefault); the new object is idle
NewTo(s, i) == [s EXCEPT !.run[i] = FALSE, !.t0[i] = 0]
TickTo(s, d) == [s EXCEPT !.clock = @ + d]
=============================================================================
