---------------------------- MODULE MaterialPointGen ----------------------------
(* Behaviour generator for MaterialPoint.tla: the control part of the spec only       *)
(* (which calls a caller may make in which order), with the call history.  The        *)
(* history is part of the state, so TLC enumerates EVERY action sequence of length     *)
(* Depth (exhaustive cfgs) or random walks of length Depth (-simulate); each sequence  *)
(* is one load history, printed when it reaches length Depth.  Observations are left   *)
(* to the real code: registers adopt the null observation here.                        *)
EXTENDS MaterialPoint, Json

CONSTANTS Depth,       \* length of the emitted histories (including the initial Reset)
          AllowReset   \* FALSE: Reset only initialises the point (random walks keep their history)
VARIABLE hist

GStep(a, c, d) == Step(a, NullObs) /\ hist' = Append(hist, [a |-> a, c |-> c, dt |-> d])

GInit == Init /\ hist = <<>>

GNext ==
  \/ (AllowReset \/ act = "Init") /\ GStep("Reset", "", "")
  \/ \E c \in DefClasses : GStep("Deform", c, "")
  \/ GStep("SupRot", "", "")
  \/ GStep("RefRot", "", "")
  \/ \E d \in DtClasses : GStep("Update", "", d)
  \/ GStep("ReUpdate", "", "")
  \/ GStep("Commit", "", "")
  \/ \E d \in DtClasses : GStep("Hold", "", d)
  \/ \E d \in DtClasses, c \in LoadClasses : GStep("Load", c, d)
  \/ GStep("LimitFast", "", "")
  \/ GStep("LimitSlow", "", "")

GSpec == GInit /\ [][GNext]_<<vars, hist>>

Bound == Len(hist) < Depth
Emit == (Len(hist) = Depth) => PrintT(<<"BEH", ToJson([ops |-> hist])>>)

(* one representative per model kind: enabledness depends on the kind only (rotations are *)
(* dropped by the concretiser for small-strain formulations)                              *)
GenElastic == { [name |-> "elastic", kind |-> "elastic", finiteDef |-> TRUE, rateIndep |-> TRUE,  nBranches |-> 0] }
GenPlastic == { [name |-> "plastic", kind |-> "plastic", finiteDef |-> TRUE, rateIndep |-> TRUE,  nBranches |-> 0] }
GenViscous == { [name |-> "viscous", kind |-> "viscous", finiteDef |-> TRUE, rateIndep |-> FALSE, nBranches |-> 1] }
=============================================================================
