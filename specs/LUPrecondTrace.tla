--------------------------- MODULE LUPrecondTrace ---------------------------
(* X15 trace judgement.  {"id":n,"ops":[op,...],"got":[k,...]}: for every observation op (S, T, D, M) got[i] is the number of the   *)
(* matrix that explains what the REAL method returned (solve with that matrix' LU factors / product with that matrix; 0 = the       *)
(* identity fallback; -2 = nothing explains it; -1 for install ops).  The trace spec folds the ops with the rules of LURules.tla    *)
(* and compares.                                                                                                                    *)
EXTENDS LURules, TLC, Json, IOUtils
Traces == ndJsonDeserialize(IOEnv.TRACE_FILE)
NT == Len(Traces)
VARIABLES tid, viol
RECURSIVE Fold(_, _, _, _, _)
\* returns the set of failing clause names
Fold(ops, got, i, st, n) ==
  IF i > Len(ops) THEN {}
  ELSE LET s2 == After(st, ops[i], n)
           n2 == IF IsInstall(ops[i]) THEN n + 1 ELSE n
           bad == IF IsInstall(ops[i]) THEN {}
                  ELSE IF got[i] = Uses(s2, ops[i]) THEN {}
                  ELSE IF ops[i] \in {"S", "T"} THEN {"solve_uses_installed_factors"} ELSE {"product_uses_current_matrix"}
       IN bad \cup Fold(ops, got, i + 1, s2, n2)
TInit == tid = 1 /\ viol = {}
Step == /\ tid <= NT /\ tid' = tid + 1
        /\ LET tr == Traces[tid] IN viol' = viol \cup { <<tr.id, 1, c>> : c \in Fold(tr.ops, tr.got, 1, <<0, 0>>, 0) }
TSpec == TInit /\ [][Step]_<<tid, viol>>
Done == tid > NT
Verdict == Done => PrintT(<<"VERDICT", ToJson([n |-> NT, viol |-> viol])>>)
=============================================================================
