------------------------------ MODULE ExodusProps ------------------------------
(* EXTENSION X13 (not a listed property): ReadExodusMesh.read_exodus_mesh_element_properties(file, varNames, blockNum).          *)
(* The file stores element variables in its own order (name table name_elem_var, values vals_elem_var<i>eb<b>); the caller asks  *)
(* for a sequence of names (any order, repeats allowed).  Contract: column j of the result holds the values of varNames[j] for   *)
(* every element of the block, a name that is not in the file raises KeyError, a file with several blocks raises ValueError.      *)
(* TLC enumerates file orders x request sequences x number of blocks.                                                             *)
EXTENDS Integers, Sequences, FiniteSets, TLC, Json
CONSTANTS EmitMode
Names == {"E", "nu", "rho"}
Missing == "zz"
Perms == { p \in [1..3 -> Names] : \A a, b \in 1..3 : a # b => p[a] # p[b] }
Requests == { <<a>> : a \in Names \cup {Missing} } \cup { <<a, b>> : a \in Names \cup {Missing}, b \in Names }
            \cup { <<a, b, c>> : a \in Names, b \in Names, c \in Names }
VARIABLES order, req, nblocks
vars == <<order, req, nblocks>>
Init == order \in Perms /\ req \in Requests /\ nblocks \in 1..2
Next == UNCHANGED vars
Spec == Init /\ [][Next]_vars
Pos(n) == CHOOSE i \in 1..3 : order[i] = n
Outcome == IF nblocks > 1 THEN "ValueError"
           ELSE IF \E j \in 1..Len(req) : req[j] = Missing THEN "KeyError" ELSE "ok"
\* which stored variable (1-based position in the file) each result column must come from
Columns == IF Outcome = "ok" THEN [j \in 1..Len(req) |-> Pos(req[j])] ELSE <<>>
ColumnsFollowRequest == Outcome = "ok" => \A j \in 1..Len(req) : order[Columns[j]] = req[j]
Emit == EmitMode = "all" => PrintT(<<"BEH", ToJson([order |-> order, req |-> req, nblocks |-> nblocks, outcome |-> Outcome, cols |-> Columns])>>)
=============================================================================
