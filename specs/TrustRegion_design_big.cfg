SPECIFICATION GSpec
CONSTANTS
  R = 6
  StartRank = 3
  MaxIters = 5
  L0 = 3
  LMax = 5
  Incremental = FALSE
  Bounded = FALSE
  EmitMode = "none"
  MaxHist = 100
VIEW View
INVARIANT TypeOK
INVARIANT Descent
INVARIANT ReturnsLast
INVARIANT HonestFlag
INVARIANT Feasible
INVARIANT LevelBounded
CHECK_DEADLOCK FALSE
