----------------------------- MODULE MeshTopology -----------------------------
(***************************************************************************)
(* Property C13 -- mesh construction, edge extraction, order elevation,    *)
(* merging and reading keep triangle meshes valid (optimism.Mesh,          *)
(* Interpolants, ReadMesh, ReadExodusMesh).                                *)
(*                                                                         *)
(* PART 1  declarative predicates = the oracle.  They take plain integer   *)
(*         data (entity numbers are 0-based and stored in 1-based TLA+     *)
(*         sequences) and are written without reference to how the library *)
(*         computes anything.  The trace spec evaluates exactly these      *)
(*         operators on data logged from the real code.                    *)
(* PART 2  operational model of the library's algorithms (create_edges,    *)
(*         create_higher_order_mesh_from_simplex_mesh, combine_mesh,       *)
(*         the Exodus / JSON readers, the structured generator).           *)
(* PART 3  a state machine that builds every small triangle mesh           *)
(*         (Attach / RotateElement / Structured / Ring) and applies the    *)
(*         operations; the invariants say that the operational model       *)
(*         satisfies the declarative predicates on all of them.            *)
(***************************************************************************)
EXTENDS Integers, Sequences, FiniteSets, TLC, SequencesExt, FiniteSetsExt

\* ===========================================================================
\* PART 1 : declarative predicates
\* ===========================================================================
Rng(s)       == {s[i] : i \in DOMAIN s}
Shift(s, k)  == [i \in DOMAIN s |-> s[i] + k]
PairLess(a, b) == a[1] < b[1] \/ (a[1] = b[1] /\ a[2] < b[2])

\* ---- connectivity: in range and uses every node
ConnInRange(nN, conns) ==
  \A e \in DOMAIN conns : \A j \in DOMAIN conns[e] : conns[e][j] \in 0..(nN - 1)
AllNodesUsed(nN, conns) ==
  (0..(nN - 1)) \subseteq UNION {Rng(conns[e]) : e \in DOMAIN conns}

\* ---- named sets: sequences of [name, mem]; side-set members are <<element, side>>
Names(sets)  == {sets[i].name : i \in DOMAIN sets}
Mem(sets, n) == UNION {Rng(sets[i].mem) : i \in {k \in DOMAIN sets : sets[k].name = n}}
BlocksExist(nT, blocks)     == \A i \in DOMAIN blocks : Rng(blocks[i].mem) \subseteq 0..(nT - 1)
NodeSetsExist(nN, nodeSets) == \A i \in DOMAIN nodeSets : Rng(nodeSets[i].mem) \subseteq 0..(nN - 1)
SideSetsExist(nT, sideSets) ==
  \A i \in DOMAIN sideSets : \A k \in DOMAIN sideSets[i].mem :
     /\ Len(sideSets[i].mem[k]) = 2
     /\ sideSets[i].mem[k][1] \in 0..(nT - 1)
     /\ sideSets[i].mem[k][2] \in 0..2

\* ---- sides.  vtx = sequence of vertex triples <<v0,v1,v2>>; local side s joins vertex s to s+1.
SideV(tri, s) == <<tri[s + 1], tri[((s + 1) % 3) + 1]>>
\* incidence <<element, local side, first vertex, second vertex>>
Inc(vtx) == { <<e, s, SideV(vtx[e + 1], s)[1], SideV(vtx[e + 1], s)[2]>> :
                e \in 0..(Len(vtx) - 1), s \in 0..2 }
UEdges(vtx) == { {x[3], x[4]} : x \in Inc(vtx) }
\* every directed side occurs once: consistently oriented, at most two elements per edge
OrientedManifold(vtx) ==
  Cardinality({ <<x[3], x[4]>> : x \in Inc(vtx) }) = 3 * Len(vtx)

\* ---- edge table.  ec[i] = <<a,b>>, et[i] = <<leftT, leftSide, rightT, rightSide>>
EdgeOnce(vtx, ec) ==
  /\ { {ec[i][1], ec[i][2]} : i \in DOMAIN ec } = UEdges(vtx)
  /\ Len(ec) = Cardinality(UEdges(vtx))
LeftAdjacent(vtx, ec, et) ==
  LET I == Inc(vtx) IN
  /\ Len(et) = Len(ec)
  /\ \A i \in DOMAIN ec : <<et[i][1], et[i][2], ec[i][1], ec[i][2]>> \in I
RightAdjacent(vtx, ec, et) ==
  LET I == Inc(vtx) IN
  /\ Len(et) = Len(ec)
  /\ \A i \in DOMAIN ec :
       LET opp == {x \in I : x[3] = ec[i][2] /\ x[4] = ec[i][1]} IN
       IF opp = {} THEN et[i][3] = -1 /\ et[i][4] = -1
                   ELSE <<et[i][3], et[i][4], ec[i][2], ec[i][1]>> \in opp
BoundaryCCW(vtx, ec) ==
  LET I == Inc(vtx) IN
  \A i \in DOMAIN ec :
     LET touch == {x \in I : {x[3], x[4]} = {ec[i][1], ec[i][2]}} IN
     Cardinality(touch) = 1 => \E x \in touch : x[3] = ec[i][1] /\ x[4] = ec[i][2]
IsEdgeTable(vtx, ec, et) ==
  EdgeOnce(vtx, ec) /\ LeftAdjacent(vtx, ec, et) /\ RightAdjacent(vtx, ec, et) /\ BoundaryCCW(vtx, ec)

\* ---- higher-order elements in structural form.
\* roles = [v |-> <<j0,j1,j2>>, f |-> <<seq,seq,seq>>, in |-> seq]: local node numbers (0-based) of the
\* three vertices, of the side-interior nodes of side s listed from vertex s towards vertex s+1, and
\* of the element-interior nodes.  Struct turns a flat connectivity into [v, f, in] with global numbers.
Struct(conns, roles) ==
  [e \in DOMAIN conns |->
     [v  |-> [i \in 1..3 |-> conns[e][roles.v[i] + 1]],
      f  |-> [s \in 1..3 |-> [k \in 1..Len(roles.f[s]) |-> conns[e][roles.f[s][k] + 1]]],
      in |-> [k \in 1..Len(roles.in) |-> conns[e][roles.in[k] + 1]]]]
VtxOf(E) == [e \in DOMAIN E |-> E[e].v]

\* neighbours list the nodes of their common side in opposite order
EdgeNodesShared(E, p) ==
  LET I == Inc(VtxOf(E)) IN
  /\ \A e \in DOMAIN E : \A s \in 1..3 : Len(E[e].f[s]) = p - 1
  /\ \A x, y \in I : (x[3] = y[4] /\ x[4] = y[3]) =>
        E[x[1] + 1].f[x[2] + 1] = Reverse(E[y[1] + 1].f[y[2] + 1])

\* carrier of a node: <<0,vertex,0,0>> | <<1,a,b,k>> (k-th point of the undirected edge a<b counted
\* from a) | <<2,element,k,0>>.  S3 = vertex triples of the simplex mesh (identity of the carriers).
EdgeKey(a, b, k, p) == IF a < b THEN <<1, a, b, k>> ELSE <<1, b, a, p - k>>
CarrierPairs(E, S3, p) ==
  UNION { {<< <<0, S3[e][i], 0, 0>>, E[e].v[i] >> : i \in 1..3}
          \cup UNION { { << EdgeKey(S3[e][s], S3[e][(s % 3) + 1], k, p), E[e].f[s][k] >> :
                           k \in 1..Len(E[e].f[s]) } : s \in 1..3 }
          \cup {<< <<2, e, k, 0>>, E[e].in[k] >> : k \in 1..Len(E[e].in)}
        : e \in DOMAIN E }
\* one node per carrier position (no duplicates), one carrier position per node, every node carried
NoDuplicateNodesK(K) == Cardinality({x[1] : x \in K}) = Cardinality(K)
NoConfusedNodesK(K)  == Cardinality({x[2] : x \in K}) = Cardinality(K)
NoUnusedNodesK(nN, K) == {x[2] : x \in K} = 0..(nN - 1)
NoDuplicateNodes(E, S3, p) == NoDuplicateNodesK(CarrierPairs(E, S3, p))
NoConfusedNodes(E, S3, p)  == NoConfusedNodesK(CarrierPairs(E, S3, p))
NoUnusedNodes(nN, E, S3, p) == NoUnusedNodesK(nN, CarrierPairs(E, S3, p))
NodeCount(nN, nV, S3, p, nI) ==
  nN = nV + Cardinality(UEdges(S3)) * (p - 1) + Len(S3) * nI
Conforming(nN, E, nV, S3, p, nI) ==
  /\ Len(E) = Len(S3)
  /\ EdgeNodesShared(E, p)
  /\ LET K == CarrierPairs(E, S3, p) IN
       NoDuplicateNodesK(K) /\ NoConfusedNodesK(K) /\ NoUnusedNodesK(nN, K)
  /\ NodeCount(nN, nV, S3, p, nI)

\* ---- merging.  Meshes are [nN, conns, blocks, nodeSets, sideSets].
OffSides(S, k) == {<<x[1] + k, x[2]>> : x \in S}
OffNodes(S, k) == {x + k : x \in S}
MergeConn(R, A, B) ==
  /\ R.nN = A.nN + B.nN
  /\ Len(R.conns) = Len(A.conns) + Len(B.conns)
  /\ \A e \in DOMAIN A.conns : R.conns[e] = A.conns[e]
  /\ \A e \in DOMAIN B.conns : R.conns[Len(A.conns) + e] = Shift(B.conns[e], A.nN)
\* expected members of name n in the merged mesh
WantBlock(A, B, n) == Mem(A.blocks, n) \cup OffNodes(Mem(B.blocks, n), Len(A.conns))
WantNodes(A, B, n) == Mem(A.nodeSets, n) \cup OffNodes(Mem(B.nodeSets, n), A.nN)
WantSides(A, B, n) == Mem(A.sideSets, n) \cup OffSides(Mem(B.sideSets, n), Len(A.conns))
MergeNoLoss(R, A, B) ==
  /\ \A n \in Names(A.blocks) \cup Names(B.blocks) : WantBlock(A, B, n) \subseteq Mem(R.blocks, n)
  /\ \A n \in Names(A.nodeSets) \cup Names(B.nodeSets) : WantNodes(A, B, n) \subseteq Mem(R.nodeSets, n)
  /\ \A n \in Names(A.sideSets) \cup Names(B.sideSets) : WantSides(A, B, n) \subseteq Mem(R.sideSets, n)
MergeNoExtra(R, A, B) ==
  /\ \A n \in Names(R.blocks) : Mem(R.blocks, n) \subseteq WantBlock(A, B, n)
  /\ \A n \in Names(R.nodeSets) : Mem(R.nodeSets, n) \subseteq WantNodes(A, B, n)
  /\ \A n \in Names(R.sideSets) : Mem(R.sideSets, n) \subseteq WantSides(A, B, n)
Merged(R, A, B) == MergeConn(R, A, B) /\ MergeNoLoss(R, A, B) /\ MergeNoExtra(R, A, B)
\* a name used by both meshes whose mesh-1 entry is not empty
LossyClash(A, B) ==
  \/ \E n \in Names(A.blocks) \cap Names(B.blocks) : Mem(A.blocks, n) # {}
  \/ \E n \in Names(A.nodeSets) \cap Names(B.nodeSets) : Mem(A.nodeSets, n) # {}
  \/ \E n \in Names(A.sideSets) \cap Names(B.sideSets) : Mem(A.sideSets, n) # {}
NameClash(A, B) ==
  \/ Names(A.blocks) \cap Names(B.blocks) # {}
  \/ Names(A.nodeSets) \cap Names(B.nodeSets) # {}
  \/ Names(A.sideSets) \cap Names(B.sideSets) # {}

\* ---- files.  F = [base, blocks: Seq([name, conn]), nodeSets: Seq([name, mem]),
\*                   sideSets: Seq([name, el, sd])]; entity numbers in the file start at F.base.
FileConns(F) == FlattenSeq([i \in DOMAIN F.blocks |-> F.blocks[i].conn])
FileFirst(F, i) == IF i = 1 THEN 0 ELSE Len(FlattenSeq([k \in 1..(i - 1) |-> F.blocks[k].conn]))
\* role of the nodes of a file element: 3 vertices, then (6-node elements) the mid-side nodes of sides 1,2,3
FileRoles(npe) == IF npe = 6 THEN [v |-> <<0, 1, 2>>, f |-> << <<3>>, <<4>>, <<5>> >>, in |-> <<>>]
                             ELSE [v |-> <<0, 1, 2>>, f |-> << <<>>, <<>>, <<>> >>, in |-> <<>>]
ReadElements(F, R, roles) ==
  LET FC == FileConns(F) IN
  /\ Len(R.conns) = Len(FC)
  /\ \A e \in DOMAIN FC : Len(R.conns[e]) = Len(FC[e])
  /\ Len(FC) > 0 =>
       Struct(R.conns, roles) = Struct([e \in DOMAIN FC |-> Shift(FC[e], -F.base)], FileRoles(Len(FC[1])))
\* a named entry keeps its members under its name; an unnamed one keeps them under some name
KeepsMembers(sets, name, want) ==
  IF name # "" THEN Mem(sets, name) = want
               ELSE \E i \in DOMAIN sets : Rng(sets[i].mem) = want
ReadBlocks(F, R) ==
  \A i \in DOMAIN F.blocks :
     KeepsMembers(R.blocks, F.blocks[i].name,
                  FileFirst(F, i)..(FileFirst(F, i) + Len(F.blocks[i].conn) - 1))
ReadNodeSets(F, R) ==
  \A i \in DOMAIN F.nodeSets :
     KeepsMembers(R.nodeSets, F.nodeSets[i].name, OffNodes(Rng(F.nodeSets[i].mem), -F.base))
ReadSideSets(F, R) ==
  \A i \in DOMAIN F.sideSets :
     /\ Len(F.sideSets[i].el) = Len(F.sideSets[i].sd)
     /\ KeepsMembers(R.sideSets, F.sideSets[i].name,
                     {<<F.sideSets[i].el[k] - F.base, F.sideSets[i].sd[k] - F.base>> : k \in DOMAIN F.sideSets[i].el})
ReadBack(F, R, roles) ==
  ReadElements(F, R, roles) /\ ReadBlocks(F, R) /\ ReadNodeSets(F, R) /\ ReadSideSets(F, R)

\* ===========================================================================
\* PART 2 : operational model of the library
\* ===========================================================================
\* ---- Mesh.create_structured_mesh_data: ex outer, ey inner, two triangles per cell
StructConns(Nx, Ny) ==
  LET Ey == Ny - 1 IN
  [i \in 1..(2 * (Nx - 1) * Ey) |->
     LET q == (i - 1) \div 2  ex == q \div Ey  ey == q % Ey IN
     IF (i - 1) % 2 = 0 THEN <<ex + Nx * ey, ex + 1 + Nx * ey, ex + 1 + Nx * (ey + 1)>>
                        ELSE <<ex + Nx * ey, ex + 1 + Nx * (ey + 1), ex + Nx * (ey + 1)>>]

\* ---- Mesh.create_edges: faces listed side-major (all sides 0, then all sides 1, ...); unique by
\* sorted pair in lexicographic order, first occurrence is the left element; right = first face equal
\* to the flipped pair.
OpEdges(vtx) ==
  LET nT == Len(vtx)
      Face(idx) == SideV(vtx[(idx % nT) + 1], idx \div nT)
      Sorted(f) == IF f[1] <= f[2] THEN f ELSE <<f[2], f[1]>>
      Idx == 0..(3 * nT - 1)
      uniq == SetToSortSeq({Sorted(Face(j)) : j \in Idx}, PairLess)
      first == [i \in DOMAIN uniq |-> Min({j \in Idx : Sorted(Face(j)) = uniq[i]})]
      ec == [i \in DOMAIN uniq |-> Face(first[i])]
      right(i) == {j \in Idx : Face(j) = <<ec[i][2], ec[i][1]>>}
  IN [ec |-> ec,
      et |-> [i \in DOMAIN uniq |->
                IF right(i) = {} THEN <<first[i] % nT, first[i] \div nT, -1, -1>>
                ELSE <<first[i] % nT, first[i] \div nT, Min(right(i)) % nT, Min(right(i)) \div nT>>]]

\* ---- Mesh.create_higher_order_mesh_from_simplex_mesh: vertices keep their numbers, then p-1 nodes per
\* edge of the edge table (left element in edge order, right element flipped), then nI nodes per element.
OpElevate(nV, vtx, p, nI) ==
  LET T == OpEdges(vtx)
      nE == Len(T.ec)
      EdgeNodes(i) == [k \in 1..(p - 1) |-> nV + (i - 1) * (p - 1) + (k - 1)]
      SideNodes(e, s) ==       \* e, s 0-based
        LET L == {i \in DOMAIN T.et : T.et[i][1] = e /\ T.et[i][2] = s}
            Rr == {i \in DOMAIN T.et : T.et[i][3] = e /\ T.et[i][4] = s}
        IN IF L # {} THEN EdgeNodes(CHOOSE i \in L : TRUE)
           ELSE IF Rr # {} THEN Reverse(EdgeNodes(CHOOSE i \in Rr : TRUE))
           ELSE [k \in 1..(p - 1) |-> -1]          \* untouched zero-initialised slot would be 0; flagged
  IN [nN |-> nV + nE * (p - 1) + Len(vtx) * nI,
      E  |-> [e \in DOMAIN vtx |->
                [v  |-> vtx[e],
                 f  |-> [s \in 1..3 |-> SideNodes(e - 1, s - 1)],
                 in |-> [k \in 1..nI |-> nV + nE * (p - 1) + (e - 1) * nI + (k - 1)]]]]

\* ---- Mesh.combine_mesh.  mode "overwrite" = dictionaries merged by plain key assignment (the code);
\* mode "union" = entries of equal name concatenated (what the property demands).
SetNames(s1, s2) == [i \in 1..(Len(s1) + Len(s2)) |-> IF i <= Len(s1) THEN s1[i].name ELSE s2[i - Len(s1)].name]
OpMergeSets(s1, s2o, mode) ==
  \* s2o: mesh-2 entries already offset.  python dict: key order = first insertion
  LET all == s1 \o s2o
      firstIdx(n) == Min({i \in DOMAIN all : all[i].name = n})
      keys == SetToSortSeq({firstIdx(n) : n \in Names(all)}, <)
      entry(n) == IF mode = "union"
                  THEN FlattenSeq([i \in 1..Cardinality({k \in DOMAIN all : all[k].name = n}) |->
                         all[SetToSortSeq({k \in DOMAIN all : all[k].name = n}, <)[i]].mem])
                  ELSE all[Max({i \in DOMAIN all : all[i].name = n})].mem
  IN [i \in DOMAIN keys |-> [name |-> all[keys[i]].name, mem |-> entry(all[keys[i]].name)]]
OpMerge(A, B, mode) ==
  LET nT1 == Len(A.conns) IN
  [nN |-> A.nN + B.nN,
   conns |-> A.conns \o [e \in DOMAIN B.conns |-> Shift(B.conns[e], A.nN)],
   blocks |-> OpMergeSets(A.blocks, [i \in DOMAIN B.blocks |->
                 [name |-> B.blocks[i].name, mem |-> Shift(B.blocks[i].mem, nT1)]], mode),
   nodeSets |-> OpMergeSets(A.nodeSets, [i \in DOMAIN B.nodeSets |->
                 [name |-> B.nodeSets[i].name, mem |-> Shift(B.nodeSets[i].mem, A.nN)]], mode),
   sideSets |-> OpMergeSets(A.sideSets, [i \in DOMAIN B.sideSets |->
                 [name |-> B.sideSets[i].name,
                  mem |-> [k \in DOMAIN B.sideSets[i].mem |->
                             <<B.sideSets[i].mem[k][1] + nT1, B.sideSets[i].mem[k][2]>>]]], mode)]

\* ---- writers (harness side) and readers (library side)
NativeRoles(npe) == IF npe = 6 THEN [v |-> <<0, 2, 5>>, f |-> << <<1>>, <<4>>, <<3>> >>, in |-> <<>>]
                               ELSE [v |-> <<0, 1, 2>>, f |-> << <<>>, <<>>, <<>> >>, in |-> <<>>]
ExoToNative == <<0, 3, 1, 5, 4, 2>>      \* native local node j is file local node ExoToNative[j+1]
AutoName(prefix, name, i) == IF name = "" THEN prefix \o ToString(i) ELSE name
OpRead(F) ==
  LET FC == FileConns(F)
      npe == IF Len(FC) = 0 THEN 3 ELSE Len(FC[1]) IN
  [conns |-> [e \in DOMAIN FC |->
                IF npe = 6 THEN [j \in 1..6 |-> FC[e][ExoToNative[j] + 1] - F.base]
                           ELSE Shift(FC[e], -F.base)],
   blocks |-> [i \in DOMAIN F.blocks |->
                 [name |-> AutoName("block_", F.blocks[i].name, i),
                  mem |-> [k \in 1..Len(F.blocks[i].conn) |-> FileFirst(F, i) + k - 1]]],
   nodeSets |-> [i \in DOMAIN F.nodeSets |->
                   [name |-> AutoName("nodeset_", F.nodeSets[i].name, i), mem |-> Shift(F.nodeSets[i].mem, -F.base)]],
   sideSets |-> [i \in DOMAIN F.sideSets |->
                   [name |-> AutoName("sideset_", F.sideSets[i].name, i),
                    mem |-> [k \in DOMAIN F.sideSets[i].el |->
                               <<F.sideSets[i].el[k] - F.base, F.sideSets[i].sd[k] - F.base>>]]]]

\* ===========================================================================
\* PART 3 : all small meshes, all operations
\* ===========================================================================
CONSTANTS MaxTri,        \* Attach stops at this many triangles
          MaxVerts,      \* and this many vertices
          StructSizes,   \* set of <<Nx,Ny>> for Structured
          UseRing,       \* BOOLEAN: also start from the 6-triangle ring around a hole
          Elevations,    \* set of <<p, nI>> (order, element-interior nodes) for Elevate
          SetMaxTri,     \* Merge / WriteRead only on meshes up to this size (state-space control)
          NamesB         \* names available to mesh 2 of a merge (mesh 1 uses "a")

VARIABLES m,    \* [nN, conns] linear mesh under construction
          out   \* result of the last operation on m, or None

vars == <<m, out>>
None == [kind |-> "none"]
Empty == [nN |-> 0, conns |-> <<>>]

RingMesh == [nN |-> 6, conns |-> << <<0, 1, 3>>, <<1, 4, 3>>, <<1, 2, 4>>, <<2, 5, 4>>, <<2, 0, 5>>, <<0, 3, 5>> >>]

Init == m = Empty /\ out = None

Structured(nx, ny) ==
  /\ m = Empty
  /\ m' = [nN |-> nx * ny, conns |-> StructConns(nx, ny)]
  /\ out' = None

Ring == UseRing /\ m = Empty /\ m' = RingMesh /\ out' = None

\* add a triangle across a boundary side (or the first triangle); at most one new vertex, numbered next
Attach(t) ==
  /\ Len(m.conns) < MaxTri
  /\ Cardinality({t[1], t[2], t[3]}) = 3
  /\ t[1] < t[2] /\ t[1] < t[3]                       \* canonical rotation; RotateElement gives the others
  /\ IF m = Empty THEN t = <<0, 1, 2>>
     ELSE LET I == Inc(m.conns) D == {<<x[3], x[4]>> : x \in I} IN
          /\ \A i \in 1..3 : t[i] <= m.nN /\ t[i] < MaxVerts
          /\ Cardinality({i \in 1..3 : t[i] = m.nN}) <= 1
          /\ \E s \in 0..2 : <<SideV(t, s)[2], SideV(t, s)[1]>> \in D
          /\ \A s \in 0..2 : SideV(t, s) \notin D
  /\ m' = [nN |-> Max({m.nN, t[1] + 1, t[2] + 1, t[3] + 1}), conns |-> Append(m.conns, t)]
  /\ out' = None

RotateElement(e) ==
  /\ e \in DOMAIN m.conns
  /\ m' = [m EXCEPT !.conns[e] = <<m.conns[e][2], m.conns[e][3], m.conns[e][1]>>]
  /\ out' = None

Edges ==
  /\ m # Empty /\ out = None
  /\ out' = [kind |-> "edges", T |-> OpEdges(m.conns)]
  /\ UNCHANGED m

Elevate(p, nI) ==
  /\ m # Empty /\ out = None
  /\ out' = [kind |-> "ho", p |-> p, nI |-> nI, H |-> OpElevate(m.nN, m.conns, p, nI)]
  /\ UNCHANGED m

\* boundary sides of a mesh, declaratively: directed sides whose opposite does not occur
BoundarySides(vtx) ==
  LET I == Inc(vtx) D == {<<x[3], x[4]>> : x \in I} IN
  SetToSortSeq({<<x[1], x[2]>> : x \in {y \in I : <<y[4], y[3]>> \notin D}}, PairLess)
Decorate(mm, bn, nn, sn, emptySides) ==
  [nN |-> mm.nN, conns |-> mm.conns,
   blocks |-> << [name |-> bn, mem |-> [k \in 1..Len(mm.conns) |-> k - 1]] >>,
   nodeSets |-> << [name |-> nn, mem |-> mm.conns[1]] >>,
   sideSets |-> << [name |-> sn, mem |-> IF emptySides THEN <<>> ELSE BoundarySides(mm.conns)] >>]
OneTriangle == [nN |-> 3, conns |-> << <<0, 1, 2>> >>]

Merge(bn, nn, sn, emptySides, self) ==
  /\ m # Empty /\ out = None /\ Len(m.conns) <= SetMaxTri
  /\ LET A == Decorate(m, "a", "a", "a", emptySides)
         B == Decorate(IF self THEN m ELSE OneTriangle, bn, nn, sn, FALSE)
     IN out' = [kind |-> "merged", A |-> A, B |-> B,
                U |-> OpMerge(A, B, "union"), O |-> OpMerge(A, B, "overwrite")]
  /\ UNCHANGED m

\* write m (as 3-node elements, or elevated to order 2 in Exodus node order) into nb blocks and read it back
WriteRead(npe, nb, named, base) ==
  /\ m # Empty /\ out = None /\ Len(m.conns) <= SetMaxTri /\ nb <= Len(m.conns)
  /\ LET D == Decorate(m, "blk", "ns", "ss", FALSE)
         H == OpElevate(m.nN, m.conns, 2, 0)
         fileConn(e) == IF npe = 6
                        THEN Shift(H.E[e].v \o <<H.E[e].f[1][1], H.E[e].f[2][1], H.E[e].f[3][1]>>, base)
                        ELSE Shift(m.conns[e], base)
         nT == Len(m.conns)
         cut == IF nb = 1 THEN nT ELSE 1           \* block 1 = first element, block 2 = the rest
         F == [base |-> base,
               blocks |-> IF nb = 1 THEN << [name |-> IF named THEN "blk" ELSE "", conn |-> [e \in 1..nT |-> fileConn(e)]] >>
                          ELSE << [name |-> IF named THEN "blk" ELSE "", conn |-> [e \in 1..cut |-> fileConn(e)]],
                                  [name |-> "", conn |-> [e \in 1..(nT - cut) |-> fileConn(cut + e)]] >>,
               nodeSets |-> << [name |-> IF named THEN "ns" ELSE "", mem |-> Shift(D.nodeSets[1].mem, base)] >>,
               sideSets |-> << [name |-> IF named THEN "ss" ELSE "",
                                el |-> [k \in DOMAIN D.sideSets[1].mem |-> D.sideSets[1].mem[k][1] + base],
                                sd |-> [k \in DOMAIN D.sideSets[1].mem |-> D.sideSets[1].mem[k][2] + base]] >>]
     IN out' = [kind |-> "read", F |-> F, R |-> OpRead(F), npe |-> npe,
                nN |-> IF npe = 6 THEN H.nN ELSE m.nN]
  /\ UNCHANGED m

Next ==
  \/ \E sz \in StructSizes : Structured(sz[1], sz[2])
  \/ Ring
  \/ \E a, b, c \in 0..(MaxVerts - 1) : Attach(<<a, b, c>>)
  \/ \E e \in 1..MaxTri : RotateElement(e)
  \/ Edges
  \/ \E pe \in Elevations : Elevate(pe[1], pe[2])
  \/ \E bn, nn, sn \in NamesB, es, self \in BOOLEAN : Merge(bn, nn, sn, es, self)
  \/ \E npe \in {3, 6}, nb \in {1, 2}, named \in BOOLEAN, base \in {0, 1} : WriteRead(npe, nb, named, base)

Spec == Init /\ [][Next]_vars

\* ---- invariants = the clauses of the property, on the abstract meshes
MeshValid ==
  m # Empty => /\ ConnInRange(m.nN, m.conns) /\ AllNodesUsed(m.nN, m.conns)
               /\ OrientedManifold(m.conns)

EdgeTableCorrect ==
  out.kind = "edges" => IsEdgeTable(m.conns, out.T.ec, out.T.et)

FlatConns(E) == [e \in DOMAIN E |-> E[e].v \o E[e].f[1] \o E[e].f[2] \o E[e].f[3] \o E[e].in]
ElevationConforming ==
  out.kind = "ho" =>
     /\ Conforming(out.H.nN, out.H.E, m.nN, m.conns, out.p, out.nI)
     /\ ConnInRange(out.H.nN, FlatConns(out.H.E)) /\ AllNodesUsed(out.H.nN, FlatConns(out.H.E))

MergeUnionCorrect ==
  out.kind = "merged" =>
     /\ Merged(out.U, out.A, out.B)
     /\ ConnInRange(out.U.nN, out.U.conns) /\ AllNodesUsed(out.U.nN, out.U.conns)
     /\ BlocksExist(Len(out.U.conns), out.U.blocks) /\ NodeSetsExist(out.U.nN, out.U.nodeSets)
     /\ SideSetsExist(Len(out.U.conns), out.U.sideSets)
\* the code's key assignment loses members exactly when a used name clashes (finding F10)
MergeOverwriteLosesIffClash ==
  out.kind = "merged" =>
     /\ MergeConn(out.O, out.A, out.B) /\ MergeNoExtra(out.O, out.A, out.B)
     /\ MergeNoLoss(out.O, out.A, out.B) <=> ~LossyClash(out.A, out.B)

ReadRoundTrip ==
  out.kind = "read" =>
     /\ ReadBack(out.F, out.R, NativeRoles(out.npe))
     /\ ConnInRange(out.nN, out.R.conns) /\ AllNodesUsed(out.nN, out.R.conns)
     /\ BlocksExist(Len(out.R.conns), out.R.blocks) /\ NodeSetsExist(out.nN, out.R.nodeSets)
     /\ SideSetsExist(Len(out.R.conns), out.R.sideSets)

\* ---- catalogue of topological situations of a mesh (for coverage accounting of the replay)
Situation(vtx) ==
  LET T == OpEdges(vtx)
      I == Inc(vtx)
      D == {<<x[3], x[4]>> : x \in I}
      bcount(e) == Cardinality({s \in 0..2 : <<SideV(vtx[e + 1], s)[2], SideV(vtx[e + 1], s)[1]>> \notin D})
      V == UNION {Rng(vtx[e]) : e \in DOMAIN vtx}
      interiorV == {v \in V : \A x \in I : (x[3] = v \/ x[4] = v) => <<x[4], x[3]>> \in D}
  IN [sidePairs |-> {<<T.et[i][2], T.et[i][4], IF T.et[i][1] < T.et[i][3] THEN 1 ELSE 0>> :
                       i \in {k \in DOMAIN T.et : T.et[k][3] # -1}},
      bcounts |-> {bcount(e) : e \in 0..(Len(vtx) - 1)},
      euler |-> Cardinality(V) - Len(T.ec) + Len(vtx),
      interiorVertex |-> interiorV # {}]
=============================================================================
