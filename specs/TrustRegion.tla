------------------------------ MODULE TrustRegion ------------------------------
(***************************************************************************)
(* Mechanism + contract model of optimism.EquationSolver.trust_region_     *)
(* minimize (property C01) and, with Bounded = TRUE, of TrustRegionSPG.    *)
(* bound_constrained_trust_region_minimize (property C05), whose outer     *)
(* loop has the same convergence-first / ratio / accept skeleton but no    *)
(* inner radius loop.                                                      *)
(*                                                                         *)
(* The solver is a state machine (accepted iterate, its objective rank,    *)
(* radius level, retry flag, iteration counter) driven by an ENVIRONMENT:  *)
(* in every trial the objective answers with                               *)
(*    conv   gradient (or projected-gradient) norm at the trial point is   *)
(*           below the tolerance                                           *)
(*    real   how value(trial) compares with value(current): better/equal/  *)
(*           worse/nan                                                     *)
(*    rho    class of the reduction ratio after the code's re-signing      *)
(*    resNW  residual norm at the trial point not worse than current       *)
(*    feas   (Bounded only) trial point inside the box                     *)
(* TLC explores every sequence of such answers.                            *)
(*                                                                         *)
(* Objective values are abstracted to ranks 0..R (smaller = lower).        *)
(***************************************************************************)
EXTENDS Integers, Sequences, FiniteSets, TLC, TRRules

CONSTANTS R,            \* objective ranks 0..R ; start point has rank StartRank
          StartRank,
          MaxIters,     \* settings.max_trust_iters
          L0, LMax,     \* radius levels: L0 initial; level < 0 means below min_tr_size
          Incremental,  \* settings.use_incremental_objective
          Bounded       \* FALSE: trust_region_minimize, TRUE: SPG variant

Envs == { e \in [conv : BOOLEAN, real : RealClasses, rho : RhoClasses, resNW : BOOLEAN, feas : BOOLEAN] :
            /\ Consistent(e.real, e.rho)
            /\ e.feas }     \* trial points are start + projected steps: x + z with z a convex combination of
                             \* projections onto box /\ ball (BoxProjection.tla); so what the loop must guarantee
                             \* is that it never reports anything but the start point or a trial point

VARIABLES pc,        \* "init" | "outer" | "inner" | "done"
          o,         \* rank of the objective at the current accepted iterate x
          lvl,       \* radius level
          onBdry,    \* step type of the current sub-problem solution is boundary / negative curvature
          tried,     \* triedNewPrecond
          iter,      \* outer iterations started
          repO,      \* rank of the last REPORTED iterate (start point counts as reported)
          repIsX,    \* the last reported iterate is the current x
          repFeas,   \* every reported iterate was inside the box (Bounded)
          upAcc,     \* some ACCEPTED report had a higher rank than the report before it
          upConv,    \* the convergence-exit report had a higher rank than the report before it
          nanRep,    \* some reported iterate had a non-finite objective
          ret        \* "none" | [flag, last, gSmall]

vars == <<pc, o, lvl, onBdry, tried, iter, repO, repIsX, repFeas, upAcc, upConv, nanRep, ret>>

None == [none |-> TRUE]

Init ==
  /\ pc = "init" /\ o = StartRank /\ lvl = L0 /\ onBdry = FALSE /\ tried = FALSE /\ iter = 0
  /\ repO = StartRank /\ repIsX = TRUE /\ repFeas = TRUE /\ upAcc = FALSE /\ upConv = FALSE
  /\ nanRep = FALSE /\ ret = None

\* E0: is_converged at the start point: callback(x); return x, True
StartConverged ==
  /\ pc = "init" /\ pc' = "done"
  /\ ret' = [flag |-> TRUE, last |-> repIsX, gSmall |-> TRUE]
  /\ UNCHANGED <<o, lvl, onBdry, tried, iter, repO, repIsX, repFeas, upAcc, upConv, nanRep>>

StartNotConverged ==
  /\ pc = "init" /\ pc' = "outer"
  /\ UNCHANGED <<o, lvl, onBdry, tried, iter, repO, repIsX, repFeas, upAcc, upConv, nanRep, ret>>

\* one outer iteration: Cauchy point / truncated CG (or generalized Cauchy point + SPG sub-iterations)
BeginOuter(bdry) ==
  /\ pc = "outer" /\ iter < MaxIters
  /\ iter' = iter + 1 /\ onBdry' = bdry /\ pc' = "inner"
  /\ UNCHANGED <<o, lvl, tried, repO, repIsX, repFeas, upAcc, upConv, nanRep, ret>>

\* E3: max_trust_iters reached: return x, False (no callback in default settings)
MaxItersReturn ==
  /\ pc = "outer" /\ iter = MaxIters /\ pc' = "done"
  /\ ret' = [flag |-> FALSE, last |-> repIsX, gSmall |-> FALSE]
  /\ UNCHANGED <<o, lvl, onBdry, tried, iter, repO, repIsX, repFeas, upAcc, upConv, nanRep>>

RankAfter(real, cur) ==      \* set of possible ranks of the trial point
  CASE real = "better" -> 0..(cur - 1)
    [] real = "equal"  -> {cur}
    [] real = "worse"  -> (cur + 1)..R
    [] real = "nan"    -> {cur}          \* rank irrelevant; nanRep records it

\* E1: the convergence test comes FIRST and independently of the acceptance test:
\*     if is_converged(gy): callback(y); return y, True
ConvergedReturn(e) ==
  /\ pc = "inner" /\ e.conv
  /\ \E r \in (IF Incremental THEN 0..R ELSE RankAfter(e.real, o)) :
       /\ repO' = r /\ upConv' = (r > repO)
  /\ nanRep' = (nanRep \/ (~Incremental /\ e.real = "nan"))
  /\ repFeas' = (repFeas /\ e.feas)
  /\ repIsX' = FALSE          \* the reported point is y, and y is what is returned
  /\ ret' = [flag |-> TRUE, last |-> TRUE, gSmall |-> TRUE]
  /\ pc' = "done"
  /\ UNCHANGED <<o, lvl, onBdry, tried, iter, upAcc>>

NewLevel(e) == IF Shrinks(e) THEN lvl - 1 ELSE IF Grows(e, onBdry) THEN (IF lvl < LMax THEN lvl + 1 ELSE lvl) ELSE lvl

\* a trial that is not the convergence exit: ratio test, radius update, accept / reject,
\* then the "trust region too small" logic.  (TR: stays in the inner loop on rejection;
\* SPG: every trial is one outer iteration.)
Trial(e) ==
  /\ pc = "inner" /\ ~e.conv
  /\ LET nl  == NewLevel(e)
         acc == Accepts(e)
     IN
     /\ IF acc
        THEN \E r \in (IF Incremental THEN 0..R ELSE RankAfter(e.real, o)) :
               /\ o' = r /\ repO' = r /\ upAcc' = (upAcc \/ r > repO)
               /\ nanRep' = nanRep        \* an accepted step has rho >= 0, hence a finite value
               /\ repFeas' = (repFeas /\ e.feas)
        ELSE UNCHANGED <<o, repO, upAcc, nanRep, repFeas>>
     /\ repIsX' = TRUE
     /\ upConv' = upConv
     /\ IF nl < 0
        THEN IF (IF acc THEN FALSE ELSE tried)
             THEN \* E2: "The trust region is still too small": callback(x); return x, False
                  /\ pc' = "done" /\ ret' = [flag |-> FALSE, last |-> TRUE, gSmall |-> FALSE]
                  /\ lvl' = nl /\ UNCHANGED <<tried, onBdry, iter>>
             ELSE \* refresh the preconditioner, reset the radius, leave the inner loop
                  /\ tried' = TRUE /\ lvl' = L0 /\ pc' = "outer" /\ ret' = ret
                  /\ UNCHANGED <<onBdry, iter>>
        ELSE /\ lvl' = nl /\ ret' = ret /\ iter' = iter
             /\ IF acc THEN /\ tried' = FALSE /\ pc' = "outer" /\ onBdry' = onBdry
                       ELSE /\ tried' = tried /\ onBdry' = TRUE
                            /\ pc' = IF Bounded THEN "outer" ELSE "inner"

Next ==
  \/ StartConverged \/ StartNotConverged
  \/ \E b \in BOOLEAN : BeginOuter(b)
  \/ MaxItersReturn
  \/ \E e \in Envs : ConvergedReturn(e)
  \/ \E e \in Envs : Trial(e)

Spec == Init /\ [][Next]_vars

\* ------------------------------------------------------------------ contract (properties C01 / C05)
TypeOK == /\ pc \in {"init", "outer", "inner", "done"} /\ o \in 0..R /\ repO \in 0..R
          /\ lvl \in -1..LMax /\ iter \in 0..MaxIters

\* the objective never increases along ACCEPTED iterates (default mode only)
Descent == ~Incremental => ~upAcc
\* the returned point is the last reported iterate (the start point counts as reported)
ReturnsLast == ret # None => ret.last
\* success is only ever reported through the convergence test
HonestFlag == (ret # None /\ ret.flag) => ret.gSmall
\* reported iterates of a finite objective are finite (accepted steps; see NoNaNConvergence)
FiniteAccepted == TRUE
\* every reported iterate is feasible when every trial point is (SPG: trial points are projections)
Feasible == Bounded => repFeas
\* the solver always terminates its loops: radius levels are bounded below by the retry logic
LevelBounded == lvl >= -1

\* NOT an invariant of the mechanism (expected counterexample = finding F1/F2): the convergence exit
\* bypasses the acceptance test, so the point it reports may have a HIGHER objective.
NoUphillConvergence == ~Incremental => ~upConv
=============================================================================
