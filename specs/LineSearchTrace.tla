--------------------------- MODULE LineSearchTrace ---------------------------
(* {"id":n,"ev":[{"e":"Iter","cmp":"LT|EQ|UP","conv":b} ... {"e":"End","gSmall":b,"hitCap":b}]}  iterates of the real  *)
(* MinimizeScalar.minimize_scalar obtained with max_iters = 1, 2, ... (deterministic prefixes).                         *)
EXTENDS Integers, Sequences, TLC, Json, IOUtils
Traces == ndJsonDeserialize(IOEnv.TRACE_FILE)
NT == Len(Traces)
VARIABLES tid, l, viol
Clauses(t, i) ==
  LET e == Traces[t].ev[i] IN
  [ descent       |-> (e.e = "Iter") => e.cmp \in {"LT", "EQ"},
    stops_honestly |-> (e.e = "End") => (e.gSmall \/ e.hitCap) ]
ClauseNames == {"descent"}
TInit == tid = 1 /\ l = 0 /\ viol = {}
Step == /\ tid <= NT /\ l < Len(Traces[tid].ev) /\ l' = l + 1 /\ tid' = tid
        /\ LET cl == Clauses(tid, l + 1) IN viol' = viol \cup { <<Traces[tid].id, l + 1, c>> : c \in {c \in ClauseNames : ~cl[c]} }
NextTrace == /\ tid <= NT /\ l = Len(Traces[tid].ev) /\ tid' = tid + 1 /\ l' = 0 /\ viol' = viol
TSpec == TInit /\ [][Step \/ NextTrace]_<<tid, l, viol>>
Done == tid > NT
Verdict == Done => PrintT(<<"VERDICT", ToJson([n |-> NT, viol |-> viol])>>)
=============================================================================
