---------------------------- MODULE DenseMatFnGen ----------------------------
(* Oracle generator for DenseMatFn.tla: prints every lattice point            *)
(* {n, spec, shear, S, Sinv, D, M} as JSON.                                   *)
EXTENDS DenseMatFn, Json, TLC
Emit == pt.n > 0 => PrintT(<<"OBS", ToJson(pt)>>)
=============================================================================
