SPECIFICATION Spec
CONSTANT N = 8
INVARIANT ZeroIffComplementary
INVARIANT NonPosIffBothNonneg
CHECK_DEADLOCK FALSE
