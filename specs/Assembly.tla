------------------------------- MODULE Assembly -------------------------------
(***************************************************************************)
(* Sparse stiffness assembly (property C02, discrete part).                *)
(* Element matrices are integer "token" matrices w[e] (nd x nd, symmetric).*)
(* Mechanism (SparseMatrixAssembler.assemble_sparse_stiffness_matrix as    *)
(* coded): values = w[e] flattened in C order and filtered by the element  *)
(* BC mask; the k-th kept value is added at (HessRowCoords[k],             *)
(* HessColCoords[k]) of the DofManager (duplicates are summed by the COO   *)
(* matrix).                                                                *)
(* Contract: the assembled matrix equals the reduced Hessian               *)
(*    K[r][c] = sum over e, over local (i,j) with u(dof_i) = r, u(dof_j)=c  *)
(*              of w[e][i][j]                                               *)
(* and is symmetric.                                                        *)
(***************************************************************************)
EXTENDS DofManager

RECURSIVE SumTo(_, _)
\* sum_{k=1..n} F[k] for a function fn on 1..n
SumTo(fn, n) == IF n = 0 THEN 0 ELSE fn[n] + SumTo(fn, n - 1)

\* symmetric, pairwise distinct per unordered local pair: the design run's token matrices
TokW(e, i, j) == 1000 * e + 30 * (IF i <= j THEN i ELSE j) + (IF i <= j THEN j ELSE i) + 1

ElemsOf(m) == 1..Len(m.conns)

\* ---- mechanism: what the assembler computes
\* contributions of element e: sequence of <<row, col, value>>
AsmTriples(m, dm, W, e) ==
  LET pos == HessMaskPos(m, dm, e)  nd == NDE(m, e)
      r == HessRowSeg(m, dm, e)  c == HessColSeg(m, dm, e)
  IN [k \in 1..Len(pos) |-> <<r[k], c[k], W[e][(pos[k] \div nd) + 1][(pos[k] % nd) + 1]>>]

AllTriples(m, dm, W) == [e \in ElemsOf(m) |-> AsmTriples(m, dm, W, e)]
EntryFrom(tr, ne, r, c) ==
  SumTo([e \in 1..ne |->
           SumTo([k \in 1..Len(tr[e]) |-> IF tr[e][k][1] = r /\ tr[e][k][2] = c THEN tr[e][k][3] ELSE 0], Len(tr[e]))], ne)
AsmEntry(m, dm, W, r, c) == EntryFrom(AllTriples(m, dm, W), Len(m.conns), r, c)

\* ---- contract: the reduced Hessian of sum_e 1/2 u_e^T w[e] u_e  w.r.t. the unknowns
\* upos[i] = unknown number of dof i (or -1)
\* a dof occurs at most once per element: the local indices of element e whose unknown number is r
LocalOf(m, upos, e, r) == {i \in 0..(NDE(m, e) - 1) : upos[ElDof(m, e, i)] = r}
RedHess(m, upos, W, r, c) ==
  SumTo([e \in ElemsOf(m) |->
           LET li == LocalOf(m, upos, e, r)  lj == LocalOf(m, upos, e, c)
           IN IF li = {} \/ lj = {} THEN 0
              ELSE SumTo([q \in 1..(Cardinality(li) * Cardinality(lj)) |->
                            LET i == CHOOSE x \in li : Cardinality({y \in li : y < x}) = (q - 1) \div Cardinality(lj)
                                j == CHOOSE x \in lj : Cardinality({y \in lj : y < x}) = (q - 1) % Cardinality(lj)
                            IN W[e][i + 1][j + 1]], Cardinality(li) * Cardinality(lj))],
        Len(m.conns))

\* ---- whole-matrix forms (linear in the number of element entries; used by the trace spec)
Zero(n) == [r \in 1..n |-> [c \in 1..n |-> 0]]
RECURSIVE AccQ(_, _, _, _, _, _), AccE(_, _, _, _, _), AccT(_, _, _), AccTE(_, _, _, _)
AccQ(m, upos, W, e, q, Mx) ==
  LET nd == NDE(m, e) IN
  IF q > nd * nd THEN Mx
  ELSE LET p == q - 1
           r == upos[ElDof(m, e, p \div nd)]
           c == upos[ElDof(m, e, p % nd)]
       IN AccQ(m, upos, W, e, q + 1,
               IF r >= 0 /\ c >= 0 THEN [Mx EXCEPT ![r + 1][c + 1] = @ + W[e][(p \div nd) + 1][(p % nd) + 1]] ELSE Mx)
AccE(m, upos, W, e, Mx) == IF e > Len(m.conns) THEN Mx ELSE AccE(m, upos, W, e + 1, AccQ(m, upos, W, e, 1, Mx))
RedHessMat(m, upos, W, nU) == AccE(m, upos, W, 1, Zero(nU))
\* mechanism: scatter-add of the masked values at the stored coordinates
AccT(tr, k, Mx) == IF k > Len(tr) THEN Mx ELSE AccT(tr, k + 1, [Mx EXCEPT ![tr[k][1] + 1][tr[k][2] + 1] = @ + tr[k][3]])
AccTE(m, dm, W, e) == IF e = 0 THEN Zero(Len(dm.unknownIndices)) ELSE AccT(AsmTriples(m, dm, W, e), 1, AccTE(m, dm, W, e - 1))
AsmMat(m, dm, W) == AccTE(m, dm, W, Len(m.conns))

DesignW(m) == [e \in ElemsOf(m) |-> [i \in 1..NDE(m, e) |-> [j \in 1..NDE(m, e) |-> TokW(e, i, j)]]]

\* design-level invariants over every BC mask TLC explores (state = <<mesh, bcs>> of DofManager.tla)
AssembledEqualsReducedHessian ==
  LET dm == New(mesh, bcs)  W == DesignW(mesh)  nU == Len(dm.unknownIndices)
  IN \A r \in 0..(nU - 1), c \in 0..(nU - 1) :
        AsmEntry(mesh, dm, W, r, c) = RedHess(mesh, dm.dofToUnknown, W, r, c)
AssembledSymmetric ==
  LET dm == New(mesh, bcs)  W == DesignW(mesh)  nU == Len(dm.unknownIndices)
  IN \A r \in 0..(nU - 1), c \in 0..(nU - 1) : AsmEntry(mesh, dm, W, r, c) = AsmEntry(mesh, dm, W, c, r)
=============================================================================
