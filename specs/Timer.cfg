SPECIFICATION Spec
CONSTANTS
  Depth = 5
  EmitMode = "all"
INVARIANT Accounting
INVARIANT Causal
INVARIANT Bounded
INVARIANT Emit
PROPERTY Monotone
PROPERTY RefusalsAreNoOps
CHECK_DEADLOCK FALSE
