SPECIFICATION TSpec
CONSTANTS
  Meshes = {}
  Names = {}
  Kinds = {}
  DTypes = {}
  OkNodal = {}
  OkCell = {}
  MaxSpheres = 0
  MaxEdgeRows = 0
  EdgeBatches = {}
INVARIANT Verdict
CHECK_DEADLOCK FALSE
