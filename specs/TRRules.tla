------------------------------- MODULE TRRules -------------------------------
(* Decision rules shared by the trust-region mechanism spec and its trace spec: the classes of  *)
(* the reduction ratio rho relative to eta1 < eta2 < eta3 and what the code does in each class. *)
RhoClasses == {"nan", "neg", "zero", "pos_lt_eta1", "eta1_eta2", "eta2_eta3", "gt_eta3"}
RealClasses == {"better", "equal", "worse", "nan"}

\* arithmetic consistency between the comparison of objective values and the ratio.
\* After the code's re-signing (rho = real/-model when model > 0) the sign of rho is the sign of the
\* actual reduction; the model change is assumed non-zero unless the step is zero (then real = equal,
\* rho = nan).
Consistent(real, rho) ==
  \/ real = "better" /\ rho \in {"pos_lt_eta1", "eta1_eta2", "eta2_eta3", "gt_eta3"}
  \/ real = "equal"  /\ rho \in {"zero", "nan"}
  \/ real = "worse"  /\ rho = "neg"
  \/ real = "nan"    /\ rho = "nan"

\* ---- the code's decision rules
\* willAccept = rho >= eta1 or (rho >= -0 and realResNorm <= gNorm)
Accepts(e) == \/ e.rho \in {"eta1_eta2", "eta2_eta3", "gt_eta3"}
              \/ e.rho \in {"zero", "pos_lt_eta1"} /\ e.resNW
\* if not rho >= eta2: shrink   elif rho > eta3 and on boundary: grow
Shrinks(e) == e.rho \in {"nan", "neg", "zero", "pos_lt_eta1", "eta1_eta2"}
Grows(e, onBdry) == e.rho = "gt_eta3" /\ onBdry

=============================================================================
