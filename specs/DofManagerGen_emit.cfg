SPECIFICATION Spec
CONSTANTS
  Meshes <- MeshesQuick
  EmitMode = "sparse"
VIEW View
INVARIANT Emit
ACTION_CONSTRAINT EmitT
CHECK_DEADLOCK FALSE
