SPECIFICATION Spec
CONSTANTS
  DMin <- NegThree
  DMax = 4
  Gaps = {10, 15, 20, 25, 30, 35, 40, 45, 50, 52}
  K = 2
  KB = 3
INVARIANT Orthogonal
INVARIANT Symmetric
INVARIANT TraceOK
INVARIANT SecondOK
INVARIANT DetOK
INVARIANT SquareOK
INVARIANT EigenPairs
INVARIANT CayleyHamilton
INVARIANT DiscNonNeg
INVARIANT MultOK
INVARIANT MidZeroOK
INVARIANT DefOK
INVARIANT BlockOK
INVARIANT DetPlusI
INVARIANT TypeOK
INVARIANT Emit
CHECK_DEADLOCK FALSE
