------------------------- MODULE ContactGeomTrace -------------------------
(* Trace validation for ContactGeom.tla (property C16).  Each line of              *)
(* IOEnv.TRACE_FILE is one lattice query followed by what the REAL optimism code   *)
(* returned for concretisations of it:                                            *)
(*   {"id": n, "q": <query>, "ev": [ {"op":"Eval","obs":{...}}                      *)
(*                                 | {"op":"Move","mv":<action>,"to":<query>} ]}    *)
(* A Move event must be a step of the design spec (q' = to /\ Next); an Eval event *)
(* carries the observation abstracted by the harness to integers (values snapped   *)
(* to the rational grid the lattice query lives on, plus an "on grid within the    *)
(* rounding allowance" flag), signs and comparison codes.  Every expectation is    *)
(* recomputed here from the integers of the query; the harness sends no expected   *)
(* value.  Verdicts are total: a failing clause is recorded as                     *)
(* <<id, event index, clause>> and validation continues.                           *)
(* Clauses named drift_* compare with the mechanism and never raise a violation.   *)
EXTENDS ContactGeom, Json, IOUtils

Traces == ndJsonDeserialize(IOEnv.TRACE_FILE)
NT == Len(Traces)

VARIABLES tid, l, viol
tvars == <<vars, tid, l, viol>>

SeqRange(s) == {s[i] : i \in 1..Len(s)}
\* JSON arrays are sequences; the chain model uses sets of node positions
NormQ(j) == IF j.kind = "chain" THEN [kind |-> "chain", xb |-> SeqRange(j.xb), ya |-> SeqRange(j.ya), h |-> j.h] ELSE j

AllIn(s, S) == \A i \in 1..Len(s) : s[i] \in S

CppClauses(Q, o) ==
  [ cpp_nearest         |-> o.qon /\ o.qn = CppQ(Q.a, Q.b, Q.p),
    dist_magnitude      |-> o.mon /\ o.m = DistMag(Q.a, Q.b, Q.p),
    dist_sign           |-> Side(Q.a, Q.b, Q.p) # 0 => o.sg = Side(Q.a, Q.b, Q.p),
    drift_cpp_param     |-> o.ton /\ o.tn = CppT(Q.a, Q.b, Q.p),
    drift_online_nonneg |-> (o.exact /\ Side(Q.a, Q.b, Q.p) = 0) => o.sg >= 0 ]

PairClauses(Q, o) ==
  LET ex == HasExact(Q) par == ex /\ Parallel(Q) I == Integrals(Q)
  IN [ mortar_invariant     |-> o.inv \in {"EQ", "REF"},
       mortar_nonneg        |-> AllIn(o.nn, {"Z", "P"}),
       mortar_disjoint_zero |-> (ex /\ SpecLen(Q) = 0) => AllIn(o.z, {"Z"}),
       mortar_length        |-> par => (o.on1 /\ o.n1 = SpecLen(Q)),
       mortar_gap_area      |-> par => (o.ong /\ o.ng = GapNum(Q) * SpecLen(Q)),
       drift_moment_a       |-> par => (o.onxa /\ o.nxa = I.mxa),
       drift_moment_b       |-> par => (o.onxb /\ o.nxb = I.mxb) ]

ChainClauses(Q, o) ==
  [ nodal_area_sum   |-> o.atoton /\ o.atot = 24 * ChainOverlap(Q),
    nodal_gap_sum    |-> o.gtoton /\ o.gtot = 24 * Q.h * ChainOverlap(Q),
    nodal_nonneg     |-> AllIn(o.asign, {"Z", "P"}),
    drift_nodal_area |-> o.aon /\ \A i \in 1..Len(o.areas) : o.areas[i][2] = NodalArea24(Q, o.areas[i][1]),
    drift_nodal_gap  |-> o.gon /\ \A i \in 1..Len(o.gaps) : o.gaps[i][2] = Q.h * NodalArea24(Q, o.gaps[i][1]) ]

PenClauses(Q, o) ==
  [ levelset_value      |-> o.on /\ o.phin = Q.phi,
    penalty_nonneg      |-> o.esign # "N",
    penalty_zero_iff    |-> (o.esign = "Z") <=> ~Penetrates(Q.phi),
    drift_penalty_value |-> o.eon /\ o.en = Energy(Q.phi) ]

LsClauses(Q, o) ==
  IF o.rule = "mid"
  THEN [ levelset_value   |-> o.on /\ Len(o.phin) = Len(Q.edges)
                              /\ \A i \in 1..Len(Q.edges) : o.phin[i] = Phi2(Q.obst, Mid2(Q.edges[i])),
         penalty_nonneg   |-> o.esign # "N",
         penalty_zero_iff |-> (o.esign = "Z") <=> \A i \in 1..Len(Q.edges) : PhiSign(Q.obst, Mid2(Q.edges[i])) >= 0 ]
  ELSE [ levelset_value   |-> o.cmp = "EQ",
         penalty_nonneg   |-> o.esign # "N",
         penalty_zero_iff |-> (o.esign = "Z") <=> \A i \in 1..Len(o.psign) : o.psign[i] >= 0 ]

Clauses(Q, o) ==
  CASE Q.kind = "cpp"   -> CppClauses(Q, o)
    [] Q.kind = "pair"  -> PairClauses(Q, o)
    [] Q.kind = "chain" -> ChainClauses(Q, o)
    [] Q.kind = "pen"   -> PenClauses(Q, o)
    [] Q.kind = "ls"    -> LsClauses(Q, o)

TInit ==
  /\ tid = 1 /\ l = 0 /\ viol = {}
  /\ q = IF NT >= 1 THEN NormQ(Traces[1].q) ELSE [kind |-> "pen", phi |-> <<0>>]
  /\ last = "Init"

Step ==
  /\ tid <= NT /\ l < Len(Traces[tid].ev)
  /\ LET e == Traces[tid].ev[l + 1] IN
     /\ l' = l + 1 /\ tid' = tid
     /\ IF e.op = "Move"
        THEN /\ q' = NormQ(e.to) /\ last' = e.mv
             /\ Next                               \* the move must be a step of the design spec
             /\ viol' = viol
        ELSE /\ UNCHANGED vars
             /\ LET cl == Clauses(q, e.obs)
                IN viol' = viol \cup { <<Traces[tid].id, l + 1, c>> : c \in {c \in DOMAIN cl : ~cl[c]} }

NextTrace ==
  /\ tid <= NT /\ l = Len(Traces[tid].ev)
  /\ tid' = tid + 1 /\ l' = 0 /\ viol' = viol /\ last' = "Init"
  /\ q' = IF tid + 1 <= NT THEN NormQ(Traces[tid + 1].q) ELSE q

TNext == Step \/ NextTrace
TSpec == TInit /\ [][TNext]_tvars

Done == tid > NT
Verdict == Done => PrintT(<<"VERDICT", ToJson([n |-> NT, viol |-> viol])>>)
=============================================================================
