SPECIFICATION TSpec
CONSTANTS
  MaxCG = 1000
  Root = "plus"
  Faithful = TRUE
INVARIANT Verdict
CHECK_DEADLOCK FALSE
