SPECIFICATION Spec
CONSTANTS
  HardVector = "column"
INVARIANT Post
INVARIANT CaseSplitTotal
CHECK_DEADLOCK FALSE
