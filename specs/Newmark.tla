------------------------------- MODULE Newmark -------------------------------
(* C15 -- Newmark stepping satisfies the equations of motion and conserves    *)
(* energy.  Anchor: optimism/Mechanics.py create_dynamics_functions.          *)
(*                                                                            *)
(* (i) Exact scheme.  One degree of freedom  m a + k u = 0  (m = 1) in exact   *)
(* rational arithmetic.  The three actions are the three things the caller of  *)
(* the library does in one time step, composed exactly as the code composes    *)
(* them:                                                                      *)
(*   Predict(h)  : predict(U,V,A,dt):  U += dt*V + 0.5*dt*dt*(1 - 2*beta)*A    *)
(*                                     V += dt*(1 - gamma)*A                   *)
(*   Minimise    : U := argmin  SE(U) + KE(U - UPredicted)/(beta*dt^2)         *)
(*                 (compute_algorithmic_energy; here SE = k u^2/2,             *)
(*                  KE(w) = m w^2/2, so the minimiser is the unique root of    *)
(*                  k u + m (u - up)/(beta dt^2) = 0)                          *)
(*   Correct     : correct(U - UPredicted, V, A, dt):                          *)
(*                                     A = UCorrection/(beta*dt*dt)            *)
(*                                     V += dt*gamma*A                         *)
(* The step size is chosen anew in every step.                                 *)
(*                                                                            *)
(* (ii) Protocol.  predict -> minimise -> correct is the only enabled order    *)
(* (variable phase); the consistent-mass observation is made between steps.    *)
(*                                                                            *)
(* Rationals are pairs <<num, den>>, den > 0, in lowest terms (recursive gcd). *)
(* TLC integers are 32 bit and TLC raises an error on overflow, so a finished  *)
(* run is a run without overflow; sums use the lcm of the denominators and     *)
(* products cross-cancel first.                                                *)
EXTENDS Integers, Sequences, TLC

CONSTANTS ParamSets,   \* set of <<beta, gamma>> (rationals)
          Stiff,       \* subset of {0, 1}: stiffness k
          Dts,         \* set of rational step sizes
          Inits,       \* set of <<u0, v0>> (integers)
          MaxSteps,
          MaxMag       \* state constraint: numerators and denominators of u, v, a, up stay below this

-----------------------------------------------------------------------------
\* exact rational arithmetic
Abs(x) == IF x < 0 THEN -x ELSE x
RECURSIVE Gcd(_, _)
Gcd(x, y) == IF y = 0 THEN x ELSE Gcd(y, x % y)          \* x, y >= 0
Norm(n, d) == LET g == Gcd(Abs(n), Abs(d))
                  s == IF d < 0 THEN -1 ELSE 1
              IN <<(s * n) \div g, (s * d) \div g>>
R(i) == <<i, 1>>
Zero == R(0)
One  == R(1)
Two  == R(2)
Half == <<1, 2>>
Neg(p) == <<-p[1], p[2]>>
Add(p, q) == LET g == Gcd(p[2], q[2])
             IN Norm(p[1] * (q[2] \div g) + q[1] * (p[2] \div g), (p[2] \div g) * q[2])
Sub(p, q) == Add(p, Neg(q))
Mul(p, q) == LET g1 == Gcd(Abs(p[1]), q[2])
                 g2 == Gcd(Abs(q[1]), p[2])
             IN Norm((p[1] \div g1) * (q[1] \div g2), (p[2] \div g2) * (q[2] \div g1))
Inv(p) == IF p[1] < 0 THEN <<-p[2], -p[1]>> ELSE <<p[2], p[1]>>       \* p # 0
Div(p, q) == Mul(p, Inv(q))
Sq(p) == Mul(p, p)
IsRat(p) == /\ p \in Int \X Int /\ p[2] > 0 /\ Gcd(Abs(p[1]), p[2]) = 1

-----------------------------------------------------------------------------
VARIABLES par,     \* <<beta, gamma>>
          k,       \* stiffness (rational 0 or 1);  mass m = 1
          u, v, a, \* the caller-carried state (displacement, velocity, acceleration)
          up,      \* predicted displacement (UPredicted), kept by the caller for Correct
          dt,      \* step size of the step in progress / last step
          old,     \* <<u, v, a>> at the beginning of the step in progress / last step
          phase,   \* "idle" | "predicted" | "minimised"
          n,       \* completed steps
          massSeen \* protocol register: the mass observation has been made

vars == <<par, k, u, v, a, up, dt, old, phase, n, massSeen>>

Beta  == par[1]
Gamma == par[2]
Mass  == One
BDt2  == Mul(Beta, Sq(dt))            \* beta dt^2

Trapezoidal == <<<<1, 4>>, <<1, 2>>>>

InitWith(p, kk, u0, v0) ==
  /\ par = p /\ k = R(kk)
  /\ u = R(u0) /\ v = R(v0)
  /\ a = Neg(Mul(R(kk), R(u0)))            \* consistent initial acceleration: m a0 + k u0 = 0
  /\ up = R(u0) /\ dt = One
  /\ old = <<R(u0), R(v0), Neg(Mul(R(kk), R(u0)))>>
  /\ phase = "idle" /\ n = 0 /\ massSeen = FALSE

Init == \E p \in ParamSets, kk \in Stiff, iv \in Inits : InitWith(p, kk, iv[1], iv[2])

\* predict(U, V, A, dt)
Predict(h) ==
  /\ phase = "idle"
  /\ up' = Add(u, Add(Mul(h, v), Mul(Mul(Half, Sq(h)), Mul(Sub(One, Mul(Two, Beta)), a))))
  /\ v'  = Add(v, Mul(h, Mul(Sub(One, Gamma), a)))
  /\ old' = <<u, v, a>>
  /\ dt' = h
  /\ phase' = "predicted"
  /\ UNCHANGED <<par, k, u, a, n, massSeen>>

\* minimiser of  k u^2/2 + m (u - up)^2 / (2 beta dt^2)
Minimise ==
  /\ phase = "predicted"
  /\ u' = Div(Mul(Mass, up), Add(Mass, Mul(k, BDt2)))
  /\ phase' = "minimised"
  /\ UNCHANGED <<par, k, v, a, up, dt, old, n, massSeen>>

\* correct(U - UPredicted, V, A, dt)
Correct ==
  /\ phase = "minimised"
  /\ LET an == Div(Sub(u, up), BDt2)
     IN /\ a' = an
        /\ v' = Add(v, Mul(dt, Mul(Gamma, an)))
  /\ phase' = "idle"
  /\ n' = n + 1
  /\ UNCHANGED <<par, k, u, up, dt, old, massSeen>>

\* compute_element_masses / Hessian of the kinetic energy: observed between steps only
ObserveMass ==
  /\ phase = "idle" /\ ~massSeen
  /\ massSeen' = TRUE
  /\ UNCHANGED <<par, k, u, v, a, up, dt, old, phase, n>>

DoPredict == \E h \in Dts : n < MaxSteps /\ Predict(h)      \* the step size is chosen anew in every step

Next ==
  \/ DoPredict
  \/ Minimise
  \/ Correct
  \/ ObserveMass

Spec == Init /\ [][Next]_vars

-----------------------------------------------------------------------------
\* clauses of property C15 on the exact model
Energy(uu, vv) == Mul(Half, Add(Mul(Mass, Sq(vv)), Mul(k, Sq(uu))))

StepDone == phase = "idle" /\ n >= 1

TypeOK ==
  /\ IsRat(u) /\ IsRat(v) /\ IsRat(a) /\ IsRat(up) /\ IsRat(dt)
  /\ phase \in {"idle", "predicted", "minimised"}
  /\ n \in 0..MaxSteps

\* the minimiser is a stationary point of the algorithmic energy
Stationary ==
  phase = "minimised" => Add(Mul(k, u), Div(Mul(Mass, Sub(u, up)), BDt2)) = Zero

\* discrete balance of momentum at the new time
Balance == StepDone => Add(Mul(Mass, a), Mul(k, u)) = Zero

\* Newmark update formulas for the chosen parameters
FormulaU ==
  StepDone => u = Add(old[1], Add(Mul(dt, old[2]),
                   Mul(Sq(dt), Add(Mul(Sub(Half, Beta), old[3]), Mul(Beta, a)))))
FormulaV ==
  StepDone => v = Add(old[2], Mul(dt, Add(Mul(Sub(One, Gamma), old[3]), Mul(Gamma, a))))

\* trapezoidal parameters: kinetic + strain energy is the same after every step for every step size
EnergyConserved ==
  (StepDone /\ par = Trapezoidal) => Energy(u, v) = Energy(old[1], old[2])

\* no stiffness (rigid translation at constant velocity): integrated exactly, for every parameter set
FreeFlight ==
  (StepDone /\ k = Zero) => /\ a = Zero
                            /\ v = old[2]
                            /\ u = Add(old[1], Mul(dt, old[2]))

\* link to the unbounded companion apalache/NewmarkAll.tla: after a trapezoidal step from a balanced state the new state
\* has the closed form (in integers over common denominators) whose identities Apalache proves for ALL integers
Lcm(x, y) == (x * y) \div Gcd(x, y)
ClosedFormTrap ==
  (StepDone /\ par = Trapezoidal /\ old[3] = Neg(Mul(k, old[1]))) =>
    LET P == dt[1]  Q == dt[2]  kk == k[1]
        Dd == Lcm(old[1][2], old[2][2])
        Uu == old[1][1] * (Dd \div old[1][2])
        Vv == old[2][1] * (Dd \div old[2][2])
        Mm == 4 * Q * Q + kk * P * P
        UPn == 4 * Q * Q * Uu + 4 * P * Q * Vv - kk * P * P * Uu
        VPn == (2 * Q * Vv - kk * P * Uu) * Mm - kk * P * UPn
    IN /\ u = Norm(UPn, Dd * Mm)
       /\ v = Norm(VPn, 2 * Q * Dd * Mm)

\* state constraint (32-bit integers): states with larger numbers are neither checked nor extended
Small == \A q \in {u, v, a, up} : Abs(q[1]) <= MaxMag /\ q[2] <= MaxMag

\* protocol: the three calls of one step occur in this order only
OrderOK == [][ \/ (phase = "idle" /\ phase' \in {"idle", "predicted"})
               \/ (phase = "predicted" /\ phase' = "minimised")
               \/ (phase = "minimised" /\ phase' = "idle" /\ n' = n + 1) ]_vars

-----------------------------------------------------------------------------
\* constants for the cfg files (cfgs cannot contain tuples or negative numbers)
ParamsAll  == { <<<<1, 4>>, <<1, 2>>>>, <<<<3, 10>>, <<11, 20>>>>, <<<<1, 2>>, <<1, 2>>>> }
ParamsTrap == { <<<<1, 4>>, <<1, 2>>>> }
DtsAll     == { <<1, 2>>, <<1, 1>>, <<2, 1>> }
ParamsBig  == ParamsAll \cup { <<<<1, 3>>, <<1, 2>>>>, <<<<9, 25>>, <<7, 10>>>> }
DtsBig     == DtsAll \cup { <<1, 4>>, <<3, 2>>, <<3, 1>> }
InitsAll   == { <<x, y>> : x \in {-1, 0, 1}, y \in {-1, 0, 1} }
=============================================================================
