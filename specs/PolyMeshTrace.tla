--------------------------- MODULE PolyMeshTrace ---------------------------
(* Trace validation for PolyMesh.tla (property C03).  Each line of            *)
(* IOEnv.TRACE_FILE is one batch of observations of the REAL optimism code:   *)
(*  kind "fs"    one FunctionSpace = (element order p, bubble, quadrature     *)
(*               degree d as REQUESTED from create_quadrature_rule_on_triangle,*)
(*               mode cart|axi) on the union of the sub-meshes; one event per *)
(*               (sub-mesh, observation class c):                             *)
(*      pou  sum_a N_a against 1 at every quadrature point          mk = <<mask>>            *)
(*      gsz  sum_a grad N_a against 0 at every quadrature point     mk = <<mask>>            *)
(*      rv   interpolate_to_points of the nodal values of x^a y^b against the monomial at the *)
(*           quadrature point (position from the vertices alone)    mk[n+1] : a+b = n        *)
(*      rg   compute_field_gradient of the same against the exact gradient   mk[n+1]         *)
(*      vol  sum of FunctionSpace.vols against the exact area        mk = <<mask>>            *)
(*      int  integrate_over_block (and sum vols * monomial at the code's own quadrature      *)
(*           points) of x^a y^b against the exact integral; in mode axi against               *)
(*           2 pi int r x^a y^b                                      mk[n+1] : a+b = n        *)
(*  kind "edge"  one (p, bubble, 1-D Gauss degree g); per sub-mesh the closed boundary        *)
(*      divx integrate_function_on_edge(s) of X^a Y^b n_c (c = x, y) against the exact        *)
(*           int d_c(x^a y^b) dA (equal to the exact boundary integral by DivX / DivY)        *)
(*      divu the same with the field given as nodal values (1-D shape functions of order p)   *)
(*      divs Surface.integrate_function_on_surface (linear elements)                          *)
(*  kind "gauss" c = g1d : create_quadrature_rule_1D(d) (m = "std") and                      *)
(*      create_padded_quadrature_rule_1D(d) (m = "padded"), d = 0..25, on x^n against 1/(n+1) *)
(*      mk[n+1]                                                                               *)
(*  an event with m = "(all)" is the same observation on the block / side set of ALL elements *)
(*  kind "oracle" c = orc : the integers the harness used as oracle for a lattice mesh,       *)
(*      rows <<a, b, vs, hasax, ax, ex, ey>>, recomputed here in exact arithmetic (degree <= 3,*)
(*      shifts 0 and 3; every emitted integer is also compared with the mirror in Python)     *)
(* A mask is the OR of the three-valued comparison codes LT = 1, EQ = 2, GT = 4 (7 = not      *)
(* finite) of all evaluations in the group; EQ = within the rounding allowance stated in      *)
(* checks/c03.py (1e-11 of the sum of the absolute contributions).                            *)
(* The spec holds the applicability rules (which degrees each clause quantifies over) and     *)
(* judges; verdicts are total.                                                                *)
EXTENDS PolyMesh, Json, IOUtils, TLC

Traces == ndJsonDeserialize(IOEnv.TRACE_FILE)
NT == Len(Traces)

VARIABLES tid, l, viol
tvars == <<vars, tid, l, viol>>

EQ == 2
Min2(x, y) == IF x < y THEN x ELSE y
\* every degree 0..lim was evaluated and every evaluation compared equal
AllEq(mk, lim) == \A n \in 0..lim : n + 1 <= Len(mk) /\ mk[n + 1] = EQ

OrcRowOk(m, s, B, r) ==
  LET a == r[1]  b == r[2]
  IN /\ a + b <= MaxDeg
     /\ r[3] = VolS(m, s, a, b)
     /\ r[4] = 1 => RPos(m) /\ a + b + 1 <= MaxDeg /\ r[5] = VolS(m, s, a + 1, b)
     /\ r[6] = EdgeS(m, s, B, a, b, 1)
     /\ r[7] = EdgeS(m, s, B, a, b, 2)
OrcOk(e) == LET B == Bnd(e.m, e.s) IN \A i \in 1..Len(e.orc) : OrcRowOk(e.m, e.s, B, e.orc[i])

\* ---- contract clauses = literal readings of C03 (applicability in the antecedent)
Clauses(t, e) ==
  [ partition_of_unity   |-> e.c = "pou" => AllEq(e.mk, 0)
  , grad_sum_zero        |-> e.c = "gsz" => AllEq(e.mk, 0)
    \* any polynomial of degree up to the element order is interpolated with exact values and gradients
  , reproduces_values    |-> e.c = "rv" => AllEq(e.mk, t.p)
  , reproduces_gradients |-> e.c = "rg" => AllEq(e.mk, t.p)
  , vols_sum_area        |-> e.c = "vol" /\ t.mode = "cart" => AllEq(e.mk, 0)
    \* any polynomial of degree up to the rule's stated degree is integrated exactly (Cartesian)
  , integrates_exactly   |-> e.c = "int" /\ t.mode = "cart" => AllEq(e.mk, t.d)
    \* axisymmetric: the integrand the rule sees is 2 pi r x^a y^b, of degree a + b + 1 <= stated degree; r >= 0
  , axisymmetric_exact   |-> e.c = "int" /\ t.mode = "axi" /\ e.rpos => AllEq(e.mk, t.d - 1)
    \* closed boundary, outward normals, polynomial vector fields; the 1-D rule of degree g integrates the
    \* boundary integrand of degree n exactly iff n <= g; nodal fields are polynomial on the edge iff n <= p
  , divergence_theorem   |-> /\ e.c \in {"divx", "divs"} => AllEq(e.mk, t.g)
                             /\ e.c = "divu" => AllEq(e.mk, Min2(t.p, t.g))
  , gauss_1d_exact       |-> e.c = "g1d" => AllEq(e.mk, e.d)
    \* machinery: the harness' oracle for a lattice mesh is the spec's
  , oracle_matches_spec  |-> /\ e.lat => e.m \in MeshNames /\ e.s \in Shifts /\ e.rpos = RPos(e.m)
                             /\ e.c = "orc" => e.lat /\ OrcOk(e) ]

ClauseNames == {"partition_of_unity", "grad_sum_zero", "reproduces_values", "reproduces_gradients",
                "vols_sum_area", "integrates_exactly", "axisymmetric_exact", "divergence_theorem",
                "gauss_1d_exact", "oracle_matches_spec"}

TInit == tid = 1 /\ l = 0 /\ viol = {} /\ st = None

Step ==
  /\ tid <= NT /\ l < Len(Traces[tid].ev)
  /\ LET t == Traces[tid]
         e == t.ev[l + 1]
         cl == Clauses(t, e)
     IN viol' = viol \cup { <<t.id, l + 1, c>> : c \in {c \in ClauseNames : ~cl[c]} }
  /\ l' = l + 1 /\ tid' = tid /\ st' = st

NextTrace ==
  /\ tid <= NT /\ l = Len(Traces[tid].ev)
  /\ tid' = tid + 1 /\ l' = 0 /\ viol' = viol /\ st' = st

TNext == Step \/ NextTrace
TSpec == TInit /\ [][TNext]_tvars

Done == tid > NT
Verdict == Done => PrintT(<<"VERDICT", ToJson([n |-> NT, viol |-> viol])>>)
=============================================================================
