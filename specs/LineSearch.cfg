SPECIFICATION Spec
CONSTANTS
  MaxLS = 4
  MaxIters = 3
  R = 4
INVARIANT DescentUnlessCapped
INVARIANT LineSearchBounded
CHECK_DEADLOCK FALSE
