SPECIFICATION GSpec
CONSTANTS
  M = 2
  MaxAl = 4
  K = 3
  NumLow = 1
  SecondOrder = TRUE
  NewtonOnly = FALSE
  MaxLS = 3
  EmitMode = "none"
VIEW View
INVARIANT TypeOK
INVARIANT LamNonnegAtSnapshots
INVARIANT ReturnIsHonest
INVARIANT NewtonOnlyNeverReturns
PROPERTY KappaMonotone
CHECK_DEADLOCK FALSE
