--------------------------- MODULE ContactGeomGen ---------------------------
(* Behaviour generator for ContactGeom.tla: remembers the initial query and the      *)
(* sequence of actions (with the query each one produced) and prints the behaviour    *)
(* when it has Depth steps.  With Depth = 0 this prints every initial query once      *)
(* (the oracle table of the design); with -simulate it prints random walks of         *)
(* Rot / Trans / Mirror / Refine / Slide / SetSample / Displace steps.                *)
(* The class labels and expectations printed with an instance are documentation and   *)
(* sampling strata for the harness; the judgement of the real code is made by         *)
(* ContactGeomTrace.tla, which recomputes every expectation from the integers.        *)
EXTENDS ContactGeom, Json

CONSTANTS Depth
VARIABLES q0, hist
gvars == <<vars, q0, hist>>

GInit == Init /\ q0 = q /\ hist = <<>>
GNext == Next /\ q0' = q0 /\ hist' = Append(hist, [mv |-> last', q |-> q'])
GSpec == GInit /\ [][GNext]_gvars
Bound == Len(hist) < Depth

Info(Q) ==
  IF Q.kind = "cpp" THEN [cls |-> CppClass(Q.a, Q.b, Q.p),
                          exp |-> [d |-> CppD(Q.a, Q.b), t |-> CppT(Q.a, Q.b, Q.p), q |-> CppQ(Q.a, Q.b, Q.p),
                                   m |-> DistMag(Q.a, Q.b, Q.p)]]
  ELSE IF Q.kind = "pair" THEN [cls |-> PairClass(Q),
                                exp |-> IF HasExact(Q) /\ Parallel(Q) THEN Integrals(Q)
                                        ELSE [len |-> IF HasExact(Q) THEN OvLen(Q) ELSE -1]]
  ELSE IF Q.kind = "chain" THEN [cls |-> [ov |-> Sgn(ChainOverlap(Q)), h |-> Sgn(Q.h)],
                                 exp |-> [total24 |-> TotalArea24(Q)]]
  ELSE IF Q.kind = "pen" THEN [cls |-> [pen |-> Penetrates(Q.phi)], exp |-> [e |-> Energy(Q.phi)]]
  ELSE [cls |-> [type |-> Q.obst.type, sign |-> PhiSign(Q.obst, Mid2(Q.edges[1]))],
        exp |-> [phi2 |-> Phi2(Q.obst, Mid2(Q.edges[1]))]]

Emit == (Len(hist) = Depth) => PrintT(<<"BEH", ToJson([q0 |-> q0, info |-> Info(q0), moves |-> hist])>>)

\* the full design cfg uses no emission
NoEmit == TRUE
=============================================================================
