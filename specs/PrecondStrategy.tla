--------------------------- MODULE PrecondStrategy ---------------------------
(***************************************************************************)
(* EXTENSION X10 (not a listed property): which matrix ends up factorized  *)
(* by Objective.update_precond, for the three ways an Objective gets its   *)
(* preconditioner (composition of Objective.py's strategies with the       *)
(* SparseCholesky retry ladder of PrecondLadder.tla):                      *)
(*   "dense"  : no strategy: K = hessian(x); attempt a >= 1: K + 10^(a-5)|diag K| *)
(*   "single" : PrecondStrategy(objective_precond): same ladder on its K    *)
(*   "twoTry" : TwoTryPrecondStrategy(f1, f2): attempt 0: f1; attempt 1: K = f2; *)
(*              attempt a >= 2: K + 10^(a-5)|diag K|                          *)
(* Environment: is f1 positive definite; kStar = smallest attempt index a   *)
(* whose shift 10^(a-5) makes K + shift|diag K| positive definite (0: K      *)
(* itself is; MaxAttempts+1: none below the cap).                            *)
(***************************************************************************)
EXTENDS Integers, Sequences, TLC, Json

CONSTANTS MaxAttempts, EmitMode
Strategies == {"dense", "single", "twoTry"}

VARIABLES strat, f1Spd, kStar, attempt, requested, final, pc
vars == <<strat, f1Spd, kStar, attempt, requested, final, pc>>

\* what attempt a asks for: <<kind, shift exponent>> ; kind "f1" | "K" | "shifted"
Asked(s, a) == IF s = "twoTry" THEN (IF a = 0 THEN <<"f1", 0>> ELSE IF a = 1 THEN <<"K", 0>> ELSE <<"shifted", a - 5>>)
               ELSE (IF a = 0 THEN <<"K", 0>> ELSE <<"shifted", a - 5>>)
\* does the factorization of that matrix succeed
Succeeds(s, a) == LET q == Asked(s, a) IN
                  CASE q[1] = "f1" -> f1Spd
                    [] q[1] = "K" -> kStar = 0
                    [] OTHER -> kStar <= a            \* a larger shift keeps a matrix positive definite

Init == /\ strat \in Strategies /\ f1Spd \in BOOLEAN /\ kStar \in 0..(MaxAttempts + 1)
        /\ (strat # "twoTry" => f1Spd)               \* irrelevant without f1
        /\ attempt = 0 /\ requested = <<Asked(strat, 0)>> /\ final = <<"none", 0>> /\ pc = "try"
Try == /\ pc = "try" /\ attempt < MaxAttempts
       /\ IF Succeeds(strat, attempt)
          THEN final' = Asked(strat, attempt) /\ pc' = "done" /\ UNCHANGED <<attempt, requested>>
          ELSE /\ attempt' = attempt + 1 /\ requested' = Append(requested, Asked(strat, attempt + 1))
               /\ pc' = "try" /\ UNCHANGED final
       /\ UNCHANGED <<strat, f1Spd, kStar>>
Fallback == /\ pc = "try" /\ attempt = MaxAttempts
            /\ final' = <<"identity", 0>> /\ pc' = "done" /\ UNCHANGED <<strat, f1Spd, kStar, attempt, requested>>
Next == Try \/ Fallback
Spec == Init /\ [][Next]_vars

\* the factorized matrix is positive definite (or the identity): it is the first request that succeeds
FinalIsFirstSuccess == pc = "done" =>
      \/ final[1] = "identity" /\ \A a \in 0..(MaxAttempts - 1) : ~Succeeds(strat, a)
      \/ \E a \in 0..(MaxAttempts - 1) : final = Asked(strat, a) /\ Succeeds(strat, a) /\ \A b \in 0..(a - 1) : ~Succeeds(strat, b)
\* a positive definite K is never shifted; twoTry never shifts f1
NoNeedlessShift == (pc = "done" /\ kStar = 0) => final[1] \in {"K", "f1"}
Emit == (EmitMode = "all" /\ pc = "done") =>
          PrintT(<<"BEH", ToJson([strat |-> strat, f1Spd |-> f1Spd, kStar |-> kStar, requested |-> requested, final |-> final])>>)
=============================================================================
