-------------------------------- MODULE TREigen --------------------------------
(***************************************************************************)
(* Model of optimism.treigen.treigen.solve(A, b, Delta) (property C06,     *)
(* last sentence): minimise  1/2 s.A s + b.s  over  |s| <= Delta  through  *)
(* the eigen-decomposition of A.                                           *)
(*                                                                         *)
(* Abstract input (lam0 = max(0, -lambda_min), p(lam) = -(A + lam I)^+ b): *)
(*   lmin   "pos" | "zero" | "neg"     sign of the lowest eigenvalue       *)
(*   perp   b is orthogonal to the lowest eigenspace E(lambda_min)         *)
(*   pn     |p(lam0)| versus Delta: "LT" | "EQ" | "GT" | "INF"             *)
(*          (INF exactly when A + lam0 I is singular and b is not perp)    *)
(*   symB   the eigenvector matrix returned by eigh is symmetric           *)
(*          (its first row equals its first column)                        *)
(* Three-way case split as coded:                                          *)
(*   interior  sig[0] > 0 and |p(0)| < Delta            -> p(0)            *)
(*   hard      minSig < eps and |p(lam0 + eps)| < Delta -> p + tau z,      *)
(*             z taken from the eigenvector matrix, tau s.t. |s| = Delta   *)
(*   secular   otherwise: Newton iteration on lam until |p(lam)| = Delta   *)
(* HardVector = "column" takes z = v[:,0] (an eigenvector of lambda_min);  *)
(* "row" takes z = v[0] (what the code read when this spec was written):   *)
(* only an eigenvector when symB.                                          *)
(*                                                                         *)
(* Postcondition = More-Sorensen characterisation of a GLOBAL minimiser:   *)
(*   exists lam >= lam0 with (A + lam I) s = -b, |s| <= Delta,             *)
(*   lam (Delta - |s|) = 0.                                                *)
(***************************************************************************)
EXTENDS Integers, TLC

CONSTANTS HardVector      \* "column" | "row"

VARIABLES lmin, perp, pn, symB,    \* input class
          pc,                      \* "call" | "done"
          case,                    \* "none" | "interior" | "hard" | "secular"
          lam,                     \* multiplier of the returned step: "zero" | "lam0" | "above"
          stat,                    \* (A + lam I) s = -b holds for the returned s
          nrm                      \* |s| versus Delta: "in" | "on" | "out"
tvars == <<lmin, perp, pn, symB, pc, case, lam, stat, nrm>>

InputOK(l, p, n) ==
  /\ l = "pos" => n # "INF"
  /\ (l # "pos" /\ ~p) => n = "INF"
  /\ (l # "pos" /\ p) => n # "INF"

\* the case(s) the code can select.  For a singular positive semidefinite A (lmin = "zero") the computed
\* sig[0] is a rounding-level number of either sign, so both the interior and the hard branch are possible
\* (and both return a global minimiser: p(0) solves A s = -b because b is perp to the null space).
Cases(l, n) ==
  IF n = "LT" THEN (IF l = "pos" THEN {"interior"} ELSE IF l = "zero" THEN {"interior", "hard"} ELSE {"hard"})
  ELSE {"secular"}

Init ==
  /\ lmin \in {"pos", "zero", "neg"} /\ perp \in BOOLEAN /\ pn \in {"LT", "EQ", "GT", "INF"} /\ symB \in BOOLEAN
  /\ InputOK(lmin, perp, pn)
  /\ pc = "call" /\ case = "none" /\ lam = "zero" /\ stat = FALSE /\ nrm = "in"

Interior ==
  /\ pc = "call" /\ "interior" \in Cases(lmin, pn)
  /\ case' = "interior" /\ lam' = "zero" /\ stat' = TRUE /\ nrm' = "in" /\ pc' = "done"
  /\ UNCHANGED <<lmin, perp, pn, symB>>

\* s = p(lam0) + tau z : stationary for lam0 iff (A + lam0 I) z = 0 iff z in E(lambda_min)
Hard ==
  /\ pc = "call" /\ "hard" \in Cases(lmin, pn)
  /\ case' = "hard" /\ lam' = "lam0" /\ nrm' = "on" /\ pc' = "done"
  /\ stat' = (HardVector = "column" \/ symB)
  /\ UNCHANGED <<lmin, perp, pn, symB>>

\* |p(lam)| decreases strictly from |p(lam0)| >= Delta to 0 on (lam0, inf): exactly one solution
Secular ==
  /\ pc = "call" /\ "secular" \in Cases(lmin, pn)
  /\ case' = "secular" /\ lam' = (IF pn = "EQ" THEN "lam0" ELSE "above") /\ stat' = TRUE /\ nrm' = "on"
  /\ pc' = "done"
  /\ UNCHANGED <<lmin, perp, pn, symB>>

Next == Interior \/ Hard \/ Secular
Spec == Init /\ [][Next]_tvars

\* ---- the certificate, on a record (shared with TREigenTrace)
LamAdmissible(l, m) == m \in {"lam0", "above"} \/ (m = "zero" /\ l \in {"pos", "zero"})     \* lam >= max(0, -lambda_min)
Complementary(m, n) == n = "on" \/ (n = "in" /\ (m = "zero"))
GlobalMinimiser(c) ==
  /\ c.stat /\ LamAdmissible(c.lmin, c.lam) /\ c.nrm # "out" /\ Complementary(c.lam, c.nrm)

Cert == [stat |-> stat, lmin |-> lmin, lam |-> IF lam = "lam0" /\ lmin \in {"pos", "zero"} THEN "zero" ELSE lam, nrm |-> nrm]
Post == pc = "done" => GlobalMinimiser(Cert)
CaseSplitTotal == /\ Cases(lmin, pn) # {}
                  /\ pc = "done" => case \in Cases(lmin, pn)
===============================================================================
