---------------------------- MODULE VTKWriterGen ----------------------------
(* Behaviour generator for VTKWriter.tla: carries the operation history and  *)
(* prints one behaviour per explored transition (or per new state).  The     *)
(* history is hidden from the fingerprint by VIEW so TLC walks the abstract   *)
(* state graph, not the tree of histories.                                   *)
EXTENDS VTKWriter, Json

CONSTANTS MaxDepth, EmitMode   \* "transitions" | "states" | "none"
VARIABLE hist

Op(o, n, k, d, ok, c) == [op |-> o, name |-> n, kind |-> k, dtype |-> d, ok |-> ok, k |-> c]

GInit == Init /\ hist = <<>>

GNext ==
  \/ \E n \in Names, k \in Kinds, d \in DTypes, ok \in OkNodal :
        AddNodal(n, k, d, ok) /\ hist' = Append(hist, Op("AddNodal", n, k, d, ok, 0))
  \/ \E n \in Names, k \in Kinds, d \in DTypes, ok \in OkCell :
        AddCell(n, k, d, ok) /\ hist' = Append(hist, Op("AddCell", n, k, d, ok, 0))
  \/ AddSphere /\ hist' = Append(hist, Op("AddSphere", "", "", "", TRUE, 0))
  \/ \E c \in EdgeBatches : AddEdges(c) /\ hist' = Append(hist, Op("AddEdges", "", "", "", TRUE, c))
  \/ Write /\ hist' = Append(hist, Op("Write", "", "", "", TRUE, 0))

GSpec == GInit /\ [][GNext]_<<vars, hist>>

\* mesh families for the design runs (linear 2-element patch, quadratic patch, cubic-as-linear)
MeshesSmall == { [nOut |-> 4, nEl |-> 2, npe |-> 3] }
MeshesAll   == { [nOut |-> 4, nEl |-> 2, npe |-> 3], [nOut |-> 9, nEl |-> 2, npe |-> 6],
                 [nOut |-> 1, nEl |-> 1, npe |-> 3] }

Bound == Len(hist) < MaxDepth
View == vars

\* TLC evaluates invariants on every generated successor, so this prints one behaviour per explored
\* transition; the abstract state is included so the harness can select one behaviour per state.
St == [mesh |-> mesh, nodal |-> nodal, cell |-> cell, nS |-> nS, nE |-> nE, written |-> lastFile # NoFile]
Emit == EmitMode # "none" => PrintT(<<"BEH", ToJson([state |-> St, ops |-> hist])>>)
=============================================================================
