----------------------------- MODULE DoglegTrace -----------------------------
(* Validates observations of the REAL optimism.EquationSolver.dogleg_step against Dogleg.tla.               *)
(* One line per call:                                                                                      *)
(*  {"id":n, "cVt":code, "cVn":code, "nVt":code   comparisons of cc, nn, tt exactly as the code makes them, *)
(*   "inside":b   sqrt(d.M d) <= trSize (1 + allowance),                                                   *)
(*   "onPath":b   distance of d to the polyline origin -> cp -> newtonP within the allowance,              *)
(*   "kinds":[..] result classes geometrically consistent with d, "finite":b,                              *)
(*   "cc":i,"nn":i,"tt":i  lattice values for lattice instances (else -1)}                                 *)
EXTENDS Dogleg, Sequences, IOUtils

Traces == ndJsonDeserialize(IOEnv.TRACE_FILE)
NT == Len(Traces)
VARIABLES tid, viol
tvars == <<dvars, tid, viol>>

InSeq(x, s) == \E j \in 1..Len(s) : s[j] = x

Clauses(t) ==
  LET o == Traces[t]
      b == Branch(o.cVt, o.cVn, o.nVt)
      lattice == o.tt > 0
  IN
  [ dog_finite   |-> o.finite,
    dog_inside   |-> o.inside,
    dog_on_path  |-> o.onPath,
    drift_branch |-> o.id >= 9000000 \/ InSeq(b, o.kinds),          \* ids >= 9000000: corrupted copies (binding self-test)
    \* lattice instances: the codes observed in floating point are those of the integers TLC enumerated,
    \* and the spec's own verdicts for that instance hold
    drift_lattice |-> (lattice /\ o.id < 9000000) => (/\ o.cVt = Cmp(cc, tt) /\ o.cVn = Cmp(cc, nn) /\ o.nVt = Cmp(nn, tt)
                                  /\ Inside /\ OnPath /\ InSeq(Kind, o.kinds)) ]
ClauseNames == {"dog_finite", "dog_inside", "dog_on_path", "drift_branch", "drift_lattice"}

Load(t) == IF t <= NT /\ Traces[t].tt > 0
           THEN cc' = Traces[t].cc /\ nn' = Traces[t].nn /\ tt' = Traces[t].tt
           ELSE cc' = 0 /\ nn' = 0 /\ tt' = 1

TInit == /\ tid = 1 /\ viol = {}
         /\ IF NT >= 1 /\ Traces[1].tt > 0 THEN cc = Traces[1].cc /\ nn = Traces[1].nn /\ tt = Traces[1].tt
                                           ELSE cc = 0 /\ nn = 0 /\ tt = 1
Step == /\ tid <= NT
        /\ LET cl == Clauses(tid) IN viol' = viol \cup { <<Traces[tid].id, 1, c>> : c \in {c \in ClauseNames : ~cl[c]} }
        /\ tid' = tid + 1
        /\ Load(tid + 1)
TSpec == TInit /\ [][Step]_tvars
Done == tid > NT
Verdict == Done => PrintT(<<"VERDICT", ToJson([n |-> NT, viol |-> viol])>>)
===============================================================================
