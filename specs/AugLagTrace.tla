------------------------------ MODULE AugLagTrace ------------------------------
(* Trace validation for AlSolver.augmented_lagrange_solve / BoundConstrainedSolver (C04).             *)
(*  {"id":n,"newtonOnly":b,"ev":[ {"e":"Snap","lamNonneg":b,"kapGE":b,"kapEQ":b}   one per callback  *)
(*                                 {"e":"Sub","success":b}            scripted sub-solver answer      *)
(*                                 {"e":"Return","stat":b,"feas":b,"lamNonneg":b,"compl":b,           *)
(*                                             "agree":"EQ|NE|NA","kapGE":b}                          *)
(*                                 {"e":"Raised","kind":"NameError|..."} ]}                           *)
EXTENDS Integers, Sequences, TLC, Json, IOUtils

Traces == ndJsonDeserialize(IOEnv.TRACE_FILE)
NT == Len(Traces)
VARIABLES tid, l, viol
tvars == <<tid, l, viol>>
Ev(t, i) == Traces[t].ev[i]

\* a failed sub-solve directly before this snapshot (mechanism: kappa grows only after a successful sub-solve)
PrevSubFailed(t, i) == i > 1 /\ Ev(t, i - 1).e = "Sub" /\ ~Ev(t, i - 1).success

Clauses(t, i) ==
  LET e == Ev(t, i) tr == Traces[t] IN
  [ lam_nonneg        |-> (e.e = "Snap" /\ ~tr.newtonOnly) => e.lamNonneg,
    kappa_monotone    |-> (e.e \in {"Snap", "Return"}) => e.kapGE,
    kkt_stationary    |-> (e.e = "Return") => e.stat,
    kkt_feasible      |-> (e.e = "Return") => e.feas,
    kkt_lam_nonneg    |-> (e.e = "Return") => e.lamNonneg,
    kkt_complementary |-> (e.e = "Return") => e.compl,
    convex_agree      |-> (e.e = "Return") => e.agree \in {"EQ", "NA"},
    \* leaving the solver: a normal return, or the documented raise after max_al_iters
    ends_properly     |-> (i = Len(tr.ev)) => (e.e = "Return" \/ (e.e = "Raised" /\ e.kind = "NameError")),
    newton_only_raises|-> (i = Len(tr.ev) /\ tr.newtonOnly) => e.e = "Raised",
    drift_kappa_on_success_only |-> (e.e = "Snap" /\ PrevSubFailed(t, i)) => e.kapEQ ]
ClauseNames == {"lam_nonneg", "kappa_monotone", "kkt_stationary", "kkt_feasible", "kkt_lam_nonneg",
                "kkt_complementary", "convex_agree", "ends_properly", "newton_only_raises",
                "drift_kappa_on_success_only"}

TInit == tid = 1 /\ l = 0 /\ viol = {}
Step == /\ tid <= NT /\ l < Len(Traces[tid].ev)
        /\ l' = l + 1 /\ tid' = tid
        /\ LET cl == Clauses(tid, l + 1)
           IN viol' = viol \cup { <<Traces[tid].id, l + 1, c>> : c \in {c \in ClauseNames : ~cl[c]} }
NextTrace == /\ tid <= NT /\ l = Len(Traces[tid].ev) /\ tid' = tid + 1 /\ l' = 0 /\ viol' = viol
TSpec == TInit /\ [][Step \/ NextTrace]_tvars
Done == tid > NT
Verdict == Done => PrintT(<<"VERDICT", ToJson([n |-> NT, viol |-> viol])>>)
=============================================================================
