------------------------- MODULE InteractionListTrace -------------------------
(* {"id":n,"k":k,"nM":n,"ev":[{"ranks":[r_1..r_nM] (dense ranks of exact node distances of the main edges to this        *)
(*   integration edge),"sel":[main-edge positions 1..nM listed],"fromM":b (every listed row is a row of surfaceM)}..]}      *)
EXTENDS Integers, FiniteSets, Sequences, TLC, Json, IOUtils
Traces == ndJsonDeserialize(IOEnv.TRACE_FILE)
NT == Len(Traces)
VARIABLES tid, l, viol
ToSet(s) == {s[i] : i \in 1..Len(s)}
Clauses(t, j) ==
  LET e == Traces[t].ev[j]  n == Traces[t].nM  k == Traces[t].k  S == ToSet(e.sel) IN
  [ lists_main_edges |-> e.fromM /\ S \subseteq 1..n,
    list_length      |-> Len(e.sel) = (IF k <= n THEN k ELSE n) /\ Cardinality(S) = Len(e.sel),
    k_nearest        |-> \A s \in S, u \in (1..n) \ S : e.ranks[s] <= e.ranks[u] ]
ClauseNames == {"lists_main_edges", "list_length", "k_nearest"}
TInit == tid = 1 /\ l = 0 /\ viol = {}
Step == /\ tid <= NT /\ l < Len(Traces[tid].ev) /\ l' = l + 1 /\ tid' = tid
        /\ LET cl == Clauses(tid, l + 1) IN viol' = viol \cup { <<Traces[tid].id, l + 1, c>> : c \in {c \in ClauseNames : ~cl[c]} }
NextTrace == /\ tid <= NT /\ l = Len(Traces[tid].ev) /\ tid' = tid + 1 /\ l' = 0 /\ viol' = viol
TSpec == TInit /\ [][Step \/ NextTrace]_<<tid, l, viol>>
Done == tid > NT
Verdict == Done => PrintT(<<"VERDICT", ToJson([n |-> NT, viol |-> viol])>>)
=============================================================================
