SPECIFICATION GSpec
CONSTANTS
  N = 16
  Brackets <- BracketsK4
  TolSettings <- TolsAll
  FVals <- F4
  DVals <- D2
  MaxIters = 12
  Degenerate = TRUE
  StopOnExactRoot = TRUE
INVARIANT Emit
CHECK_DEADLOCK FALSE
