------------------------------ MODULE AugLagGen ------------------------------
(* Design-run wrapper and behaviour generator for AugLag.tla: hist = the environment's answers. *)
EXTENDS AugLag, Json
CONSTANTS EmitMode
VARIABLE hist

GInit == Init /\ hist = <<>>
GNext ==
  \/ (Top \/ Raise) /\ hist' = hist
  \/ \E nl \in [Cons -> LamClasses], b \in BOOLEAN :
        LineSearchTrial(nl, b) /\ hist' = Append(hist, [a |-> "ls", lam |-> nl, better |-> b, success |-> FALSE, poor |-> [j \in Cons |-> FALSE], errSmall |-> FALSE])
  \/ \E s \in BOOLEAN, nl \in [Cons -> {"zero", "pos"}], p \in [Cons -> BOOLEAN], e \in BOOLEAN :
        SubStep(s, nl, p, e) /\ hist' = Append(hist, [a |-> "sub", lam |-> nl, better |-> FALSE, success |-> s, poor |-> p, errSmall |-> e])
GSpec == GInit /\ [][GNext]_<<vars, hist>>
View == vars
Emit == (EmitMode = "all" /\ Len(hist) > 0) => PrintT(<<"BEH", ToJson([steps |-> hist, pc |-> pc])>>)
=============================================================================
