SPECIFICATION Spec
CONSTANTS
  Meshes <- MeshesSim
  EmitMode = "all"
VIEW View
INVARIANT Emit
ACTION_CONSTRAINT EmitT
CHECK_DEADLOCK FALSE
