SPECIFICATION Spec
CONSTANTS
  Meshes <- MeshesBig
  EmitMode = "all"
VIEW View
INVARIANT Emit
ACTION_CONSTRAINT EmitT
CHECK_DEADLOCK FALSE
