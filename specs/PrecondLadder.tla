---------------------------- MODULE PrecondLadder ----------------------------
(***************************************************************************)
(* EXTENSION (beyond the listed properties; supports the "exact / stale /  *)
(* identity preconditioner" quantifier of C01/C05/C19):                    *)
(* SparseCholesky.factorize's retry ladder as coded.                       *)
(*   A = new_stiffness_func(0); analyze; attempt = 0                        *)
(*   while attempt < 10: try cholesky_inplace(A)                            *)
(*        fails -> attempt += 1; A = new_stiffness_func(attempt)  (shifted) *)
(*        else  -> break                                                    *)
(*   if attempt == 10: A = identity; factor it                              *)
(* Environment: which attempts' matrices are positive definite.            *)
(***************************************************************************)
EXTENDS Integers, Sequences, FiniteSets, TLC, Json

CONSTANTS MaxAttempts, EmitMode
Attempts == 0..MaxAttempts

VARIABLES spd,        \* environment: set of attempts whose matrix is SPD (fixed per run)
          attempt, requested, A, pc
vars == <<spd, attempt, requested, A, pc>>

Init == /\ spd \in SUBSET (0..(MaxAttempts - 1))     \* attempt MaxAttempts' matrix is assembled but never factorized
        /\ attempt = 0 /\ requested = <<0>> /\ A = 0 /\ pc = "try"      \* A = index of the assembled matrix; -1 = identity

Try == /\ pc = "try" /\ attempt < MaxAttempts
       /\ IF attempt \in spd
          THEN pc' = "done" /\ UNCHANGED <<attempt, requested, A>>
          ELSE /\ attempt' = attempt + 1
               /\ requested' = Append(requested, attempt + 1)
               /\ A' = attempt + 1
               /\ pc' = "try"
       /\ spd' = spd
Fallback == /\ pc = "try" /\ attempt = MaxAttempts
            /\ A' = 0 - 1 /\ pc' = "done" /\ UNCHANGED <<spd, attempt, requested>>
Next == Try \/ Fallback
Spec == Init /\ [][Next]_vars

FirstSpd == IF spd = {} THEN 0 - 1 ELSE CHOOSE a \in spd : \A b \in spd : a <= b
\* the factorized matrix is the first positive-definite one of the ladder, else the identity
ResultIsFirstSpd == pc = "done" => A = FirstSpd
\* the ladder asks for attempts 0, 1, 2, ... in order, stopping at the first success (or after MaxAttempts)
RequestsInOrder == \A i \in 1..Len(requested) : requested[i] = i - 1
RequestCount == pc = "done" => Len(requested) = (IF spd = {} THEN MaxAttempts + 1 ELSE FirstSpd + 1)
Emit == (EmitMode = "all" /\ pc = "done") => PrintT(<<"BEH", ToJson([spd |-> [a \in 0..(MaxAttempts - 1) |-> a \in spd], result |-> A])>>)
=============================================================================
