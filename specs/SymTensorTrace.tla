-------------------------- MODULE SymTensorTrace --------------------------
(* Trace validation for SymTensor.tla (property C12).  Each line of           *)
(* IOEnv.TRACE_FILE is one batch of observations of the REAL routines:        *)
(*   {"id": n, "mode": "vmapBatch" | "single",                                *)
(*    "ev": [ {"kind","d","rot","g","sp","a": the lattice point,              *)
(*             "exact": the float64 tensor equals the exact rational tensor,  *)
(*             "small": max|eigenvalue| <= 50, "mild": max|eigenvalue| <= 4,  *)
(*             "n": number of samples, <field>: code set ...} ]}              *)
(* One event = all evaluations at one lattice point (over the scale factors   *)
(* and the +-1 ulp neighbours) that share the flags.  A code set is the OR of *)
(* the per-sample codes 2 = within the allowance stated in checks/c12.py,     *)
(* 4 = outside, 7 = not finite; 0 = not evaluated.  Fields:                   *)
(*  fi finite, asc ascending, orth V^T V = I, rc V L V^T = A, ev eigenvalues  *)
(*  against the oracle, dp detpIm1, iv inverse, po polar decomposition,       *)
(*  <f>_fv value against R f(d) R^T, <f>_id defining identity, <f>_eq         *)
(*  f(P A P^T) = P f(A) P^T, <f>_fr jax.jvp against Daleckii-Krein, for       *)
(*  f = s (sqrt), e (exp), l (log), pi / pn / pf (pow with positive integer,  *)
(*  negative integer, fractional exponent).                                   *)
(* The spec recomputes the lattice point and holds the applicability rules.   *)
(* Verdicts are total.                                                        *)
EXTENDS SymTensor, Json, IOUtils, TLC

Traces == ndJsonDeserialize(IOEnv.TRACE_FILE)
NT == Len(Traces)

VARIABLES tid, l, viol
tvars == <<vars, tid, l, viol>>

Ok(m) == m \in {0, 2}

PointOf(e) == IF e.kind = "rot" THEN RotPoint(e.d, e.rot, e.g, e.sp)
              ELSE IntPoint(SymOf(e.a[1], e.a[2], e.a[3], e.a[4], e.a[5], e.a[6]))

\* ---- applicability rules ------------------------------------------------------------------
PD(o)      == IF o.kind = "rot" THEN o.d[1] >= 1 ELSE o.def = "pd"
PSD(o)     == IF o.kind = "rot" THEN o.d[1] >= 0 ELSE o.def \in {"pd", "psd", "zero"}
NonSing(o) == IF o.kind = "rot" THEN \A i \in 1..3 : o.d[i] # 0 ELSE o.i3 # 0
\* square root: positive definite, or exactly representable positive semi-definite
SqrtApp(o, e) == PD(o) \/ (PSD(o) /\ e.exact)
\* pow_symm docstring: "The derivative of this function is inaccurate on matrices with nearly degenerate
\* eigenvalues. (The derivative of matrices with exactly equal eigenvalues is computed correctly)"
PowFrApp(o, e) == o.g = 0 /\ (o.mult = "distinct" \/ e.exact)

\* ---- contract clauses = literal readings of C12 ----------------------------------------------
\* (one CASE arm per clause: TLC re-evaluates LET definitions inside set comprehensions, so the clauses are
\*  evaluated one by one against the already computed lattice point pt')
Holds(c, e, o) ==
  CASE c = "eig_finite"       -> Ok(e.fi)
    [] c = "eig_ascending"    -> Ok(e.asc)
    [] c = "eig_orthonormal"  -> Ok(e.orth)
    [] c = "eig_reconstructs" -> Ok(e.rc)
    [] c = "eig_values"       -> Ok(e.ev)
    [] c = "detpIm1"          -> Ok(e.dp)
    [] c = "inverse"          -> NonSing(o) => Ok(e.iv)
    [] c = "polar"            -> PD(o) => Ok(e.po)
    [] c = "sqrt_value"       -> PD(o) => Ok(e.s_fv)
    [] c = "sqrt_identity"    -> SqrtApp(o, e) => Ok(e.s_id)
    [] c = "sqrt_equivariant" -> SqrtApp(o, e) => Ok(e.s_eq)
    [] c = "sqrt_frechet"     -> PD(o) => Ok(e.s_fr)
    [] c = "exp_value"        -> e.small => Ok(e.e_fv)
    [] c = "exp_identity"     -> e.mild => Ok(e.e_id)
    [] c = "exp_equivariant"  -> e.small => Ok(e.e_eq)
    [] c = "exp_frechet"      -> e.small => Ok(e.e_fr)
    [] c = "log_value"        -> PD(o) => Ok(e.l_fv)
    [] c = "log_identity"     -> PD(o) => Ok(e.l_id)
    [] c = "log_equivariant"  -> PD(o) => Ok(e.l_eq)
    [] c = "log_frechet"      -> PD(o) => Ok(e.l_fr)
    [] c = "pow_value"        -> /\ Ok(e.pi_fv)
                                 /\ NonSing(o) => Ok(e.pn_fv)
                                 /\ PD(o) => Ok(e.pf_fv)
    [] c = "pow_identity"     -> /\ NonSing(o) => Ok(e.pn_id)
                                 /\ PD(o) => Ok(e.pf_id)
    [] c = "pow_equivariant"  -> /\ Ok(e.pi_eq)
                                 /\ NonSing(o) => Ok(e.pn_eq)
                                 /\ PD(o) => Ok(e.pf_eq)
    [] c = "pow_frechet"      -> PowFrApp(o, e) =>
                                   /\ Ok(e.pi_fr)
                                   /\ NonSing(o) => Ok(e.pn_fr)
                                   /\ PD(o) => Ok(e.pf_fr)

ClauseNames == {"eig_finite", "eig_ascending", "eig_orthonormal", "eig_reconstructs", "eig_values",
                "detpIm1", "inverse", "polar",
                "sqrt_value", "sqrt_identity", "sqrt_equivariant", "sqrt_frechet",
                "exp_value", "exp_identity", "exp_equivariant", "exp_frechet",
                "log_value", "log_identity", "log_equivariant", "log_frechet",
                "pow_value", "pow_identity", "pow_equivariant", "pow_frechet"}

TInit == tid = 1 /\ l = 0 /\ viol = {} /\ pt = None

Step ==
  /\ tid <= NT /\ l < Len(Traces[tid].ev)
  /\ LET t == Traces[tid]
         e == t.ev[l + 1]
     IN /\ pt' = PointOf(e)
        /\ viol' = viol \cup { <<t.id, l + 1, c>> : c \in {c \in ClauseNames : ~Holds(c, e, pt')} }
  /\ l' = l + 1 /\ tid' = tid

NextTrace ==
  /\ tid <= NT /\ l = Len(Traces[tid].ev)
  /\ tid' = tid + 1 /\ l' = 0 /\ viol' = viol /\ pt' = None

TNext == Step \/ NextTrace
TSpec == TInit /\ [][TNext]_tvars

Done == tid > NT
Verdict == Done => PrintT(<<"VERDICT", ToJson([n |-> NT, viol |-> viol])>>)
NegOne == -1
=============================================================================
