------------------------ MODULE PrecondStrategyTrace ------------------------
(* {"id":n,"strat":s,"f1Spd":b,"kStar":k,"exp_requested":[[kind,e]..],"exp_final":[kind,e]  (from TLC's behaviour),
    "requested":[[kind,e]..],"final":[kind,e]  (observed on the real Objective.update_precond: attempts asked of the strategy
    and the matrix objective.precond.A classified against f1, K, K + 10^e |diag K|, identity), "applies":b (precond.apply solves A z = b)} *)
EXTENDS Integers, Sequences, TLC, Json, IOUtils
Traces == ndJsonDeserialize(IOEnv.TRACE_FILE)
NT == Len(Traces)
VARIABLES tid, viol
Clauses(t) ==
  LET tr == Traces[t] IN
  [ final_is_first_positive_definite |-> tr.final = tr.exp_final,
    apply_solves_with_final          |-> tr.applies,
    drift_request_sequence           |-> tr.requested = tr.exp_requested ]
ClauseNames == {"final_is_first_positive_definite", "apply_solves_with_final", "drift_request_sequence"}
TInit == tid = 1 /\ viol = {}
Step == /\ tid <= NT /\ tid' = tid + 1
        /\ LET cl == Clauses(tid) IN viol' = viol \cup { <<Traces[tid].id, 1, c>> : c \in {c \in ClauseNames : ~cl[c]} }
TSpec == TInit /\ [][Step]_<<tid, viol>>
Done == tid > NT
Verdict == Done => PrintT(<<"VERDICT", ToJson([n |-> NT, viol |-> viol])>>)
=============================================================================
