SPECIFICATION GSpec
CONSTANTS
  Models <- GenElastic
  ExecModes = {"jit"}
  DefClasses = {"generic", "planeStrain", "uniaxialInPlane", "equibiaxial", "dilation"}
  LoadClasses = {}
  DtClasses = {}
  MaxRank = 0
  MaxClass = 0
  Depth = 5
  AllowReset = TRUE
CONSTRAINT Bound
INVARIANT Emit
CHECK_DEADLOCK FALSE
