------------------------------ MODULE AssemblyGen ------------------------------
(* Design run of Assembly.tla over the mesh families and BC-mask enumeration of DofManagerGen.tla. *)
EXTENDS Assembly, Json
CONSTANTS EmitMode
INSTANCE_NOTE == "reuses DofManagerGen's mesh records"
SetName(n) == "n" \o ToString(n)
NodeSetsFor(N) ==
  LET names == {SetName(n) : n \in 0..(N - 1)} \cup {"empty", "all", "lo", "hi", "rep"}
  IN [s \in names |->
        CASE s = "empty" -> <<>>
          [] s = "all"   -> Iota(N)
          [] s = "lo"    -> <<0, 1>>
          [] s = "hi"    -> [k \in 1..(N - 1) |-> k]
          [] s = "rep"   -> <<N - 1, 0, N - 1>>
          [] OTHER       -> <<CHOOSE n \in 0..(N - 1) : SetName(n) = s>>]
Mk(name, N, conns, d) == [name |-> name, N |-> N, Dim |-> d, conns |-> conns, nodeSets |-> NodeSetsFor(N)]
T1(d) == Mk("T1", 3, << <<0, 1, 2>> >>, d)
T2(d) == Mk("T2", 4, << <<0, 1, 3>>, <<0, 3, 2>> >>, d)
T4(d) == Mk("T4", 6, << <<0, 1, 4>>, <<0, 4, 3>>, <<1, 2, 5>>, <<1, 5, 4>> >>, d)
Q1(d) == Mk("Q1", 6, << <<0, 3, 1, 4, 5, 2>> >>, d)
MeshesAsm == {T1(2), T2(2), T2(1)}
MeshesAsmBig == {T1(2), T2(2), T2(1), T4(2), Q1(2)}
View == <<mesh.name, mesh.Dim, Decl(mesh, bcs)>>
=============================================================================
