-------------------------------- MODULE Blocks --------------------------------
(***************************************************************************)
(* Multi-block mechanics functions (property C02, second sentence).        *)
(* The mesh's elements are split into named blocks that carry the same     *)
(* material; energies are accumulated block by block, element-wise arrays  *)
(* (updated internal variables, element stiffnesses, initial state) are    *)
(* filled block by block with   global = global.at[elemIds].set(block)     *)
(* where block[k] is computed from the data of element elemIds[k].         *)
(* Symbolic model: element e contributes the token Val(e); TLC explores    *)
(* every ORDERED partition of NE elements into at most MaxBlocks blocks    *)
(* (every set partition x block order x element order inside a block).     *)
(***************************************************************************)
EXTENDS Integers, Sequences, FiniteSets, TLC, Json

CONSTANTS NE, MaxBlocks, EmitMode
Elems == 1..NE
Val(e) == 100 + e              \* what a single-block evaluation stores for element e
Unset == 0

RECURSIVE SumSeq(_)
SumSeq(s) == IF s = <<>> THEN 0 ELSE Head(s) + SumSeq(Tail(s))

\* all sequences without repetition over a set
RECURSIVE Perms(_)
Perms(S) == IF S = {} THEN {<<>>} ELSE UNION { {<<x>> \o p : p \in Perms(S \ {x})} : x \in S }

\* ordered partitions: sequences of non-empty duplicate-free sequences, pairwise disjoint, covering Elems
RECURSIVE Parts(_, _)
Parts(S, k) ==
  IF S = {} THEN {<<>>}
  ELSE IF k = 0 THEN {}
  ELSE UNION { UNION { {<<b>> \o rest : rest \in Parts(S \ B, k - 1)} : b \in Perms(B) } : B \in (SUBSET S) \ {{}} }

VARIABLES parts, done, glob, writes, energy
vars == <<parts, done, glob, writes, energy>>

Init == /\ parts \in Parts(Elems, MaxBlocks) /\ done = 0
        /\ glob = [e \in Elems |-> Unset] /\ writes = [e \in Elems |-> 0] /\ energy = 0

\* one iteration of `for blockKey in blockModels:`
ProcessBlock ==
  /\ done < Len(parts)
  /\ LET ids == parts[done + 1]
         block == [k \in 1..Len(ids) |-> Val(ids[k])]        \* computed from stateVariables[elemIds], conns[elemIds], ...
     IN /\ glob' = [e \in Elems |-> IF \E k \in 1..Len(ids) : ids[k] = e
                                    THEN block[CHOOSE k \in 1..Len(ids) : ids[k] = e] ELSE glob[e]]
        /\ writes' = [e \in Elems |-> writes[e] + Cardinality({k \in 1..Len(ids) : ids[k] = e})]
        /\ energy' = energy + SumSeq(block)
  /\ done' = done + 1 /\ parts' = parts

Spec == Init /\ [][ProcessBlock]_vars

Finished == done = Len(parts)
\* splitting changes neither the energy, nor the element-wise arrays
SameArrays == Finished => glob = [e \in Elems |-> Val(e)]
SameEnergy == Finished => energy = SumSeq([e \in Elems |-> Val(e)])
WrittenOnce == Finished => \A e \in Elems : writes[e] = 1
NeverTwice == \A e \in Elems : writes[e] <= 1

Emit == (EmitMode = "all" /\ done = 0) => PrintT(<<"BEH", ToJson([parts |-> parts])>>)
=============================================================================
