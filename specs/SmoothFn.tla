------------------------------ MODULE SmoothFn ------------------------------
(* C18 - smoothed min / max / abs, smoothed ramp (zmax), regularised friction *)
(* potential and the smoothed segment parameter (smooth_linear), written like *)
(* the implementation (same branch tests, same branch formulas, same order of *)
(* the nested selects) on an integer lattice with EXACT integer arithmetic.   *)
(*                                                                            *)
(*   optimism/SmoothFunctions.py  min_base, min, max, abs, zmax               *)
(*   optimism/contact/Friction.py compute_friction_energy_from_perp_slip      *)
(*   optimism/contact/MortarContact.py smooth_linear                          *)
(*                                                                            *)
(* Every value is a numerator over a stated common denominator:               *)
(*   min/max  (x, y, e integers)            value over 4e,  derivative over 2e *)
(*   abs      (x = X/2 half-integers, e)    value over 16e, derivative over 4e *)
(*   zmax     (x, e)                        value over 4e,  derivative over 2e *)
(*   friction (s, r, mu = m/4)              value over 8r,  derivative over 4r *)
(*   linear   (xi = i/N, l = j/N)           value over 2jN, derivative over j  *)
(* One action per public function; the environment picks the lattice point.   *)
(* The invariants are the clauses of property C18 at EVERY lattice point (in  *)
(* particular all points on and adjacent to each branch switch) plus the C1   *)
(* matching of the two branch formulas and of their exact derivatives on each *)
(* switch surface.  All numbers stay far below 2^31.                          *)
EXTENDS Integers, Sequences

CONSTANTS E,      \* widths e \in 1..E, arguments in -2E..2E (abs: half-integers)
          R,      \* friction: r \in 1..R, s \in -3R..3R
          MuMax,  \* friction coefficient mu = m/4, m \in 1..MuMax
          N       \* smooth_linear: xi = i/N (i \in -2..N+2), l = j/N (j \in 1..N/2)

VARIABLE obs      \* the last evaluation: function, lattice point, exact value and derivatives
vars == <<obs>>

Abs(z) == IF z < 0 THEN -z ELSE z
Sgn(z) == IF z < 0 THEN -1 ELSE IF z > 0 THEN 1 ELSE 0
Min2(a, b) == IF a < b THEN a ELSE b          \* np.where(x < y, x, y)
Max2(a, b) == IF a > b THEN a ELSE b

-----------------------------------------------------------------------------
\* min_base(x, y, eps) : numerator over 4e, derivatives over 2e
MinInside(x, y, e)  == Abs(x - y) < e                          \* isInsideEps
MinBlend4(x, y, e)  == -((x + y - e) * (x + y - e)) + 4 * x * y  \* (-0.25(x+y-e)^2 + xy)/e
MinPlain4(x, y, e)  == 4 * e * Min2(x, y)                       \* justMin
SMin4(x, y, e)      == IF MinInside(x, y, e) THEN MinBlend4(x, y, e) ELSE MinPlain4(x, y, e)
MinBlendDx(x, y, e) == y - x + e
MinBlendDy(x, y, e) == x - y + e
MinPlainDx(x, y, e) == IF x < y THEN 2 * e ELSE 0
MinPlainDy(x, y, e) == IF x < y THEN 0 ELSE 2 * e
SMinDx(x, y, e)     == IF MinInside(x, y, e) THEN MinBlendDx(x, y, e) ELSE MinPlainDx(x, y, e)
SMinDy(x, y, e)     == IF MinInside(x, y, e) THEN MinBlendDy(x, y, e) ELSE MinPlainDy(x, y, e)

\* max(x, y, eps) = -min_base(-x, -y, eps)
SMax4(x, y, e)  == -SMin4(-x, -y, e)
SMaxDx(x, y, e) == SMinDx(-x, -y, e)
SMaxDy(x, y, e) == SMinDy(-x, -y, e)

\* the same min_base on the half-integer lattice (a = A/2, b = B/2): numerator over 16e, derivs over 4e
SMin16(A, B, e)  == IF Abs(A - B) < 2 * e
                    THEN -((A + B - 2 * e) * (A + B - 2 * e)) + 4 * A * B
                    ELSE 8 * e * Min2(A, B)
SMin16Da(A, B, e) == IF Abs(A - B) < 2 * e THEN B - A + 2 * e ELSE IF A < B THEN 4 * e ELSE 0
SMin16Db(A, B, e) == IF Abs(A - B) < 2 * e THEN A - B + 2 * e ELSE IF A < B THEN 0 ELSE 4 * e
\* abs(x, eps) = -min_base(-x, x, eps), x = X/2 : value over 16e ; d/dx = Da(-x,x) - Db(-x,x) over 4e
SAbs16(X, e)  == -SMin16(-X, X, e)
SAbsD4(X, e)  == SMin16Da(-X, X, e) - SMin16Db(-X, X, e)
AbsInside(X, e) == Abs(X) < e                                  \* |(-x) - x| < e  <=>  |X| < e

\* zmax(x, eps): tmp = (x >= eps) ? x : (x+eps)^2/(4 eps) ;  (x <= -eps) ? 0 : tmp
Ramp4(x, e)  == IF x <= -e THEN 0 ELSE IF x >= e THEN 4 * e * x ELSE (x + e) * (x + e)
RampD2(x, e) == IF x <= -e THEN 0 ELSE IF x >= e THEN 2 * e ELSE x + e

\* friction: mu * ( s^2 <= r^2 ? s^2/(2r) : |s| - r/2 ), mu = m/4 : value over 8r, d/ds over 4r
FricInside(s, r) == s * s <= r * r
FricIn8(s, r, m)  == m * s * s
FricOut8(s, r, m) == m * (2 * r * Abs(s) - r * r)
Fric8(s, r, m)    == IF FricInside(s, r) THEN FricIn8(s, r, m) ELSE FricOut8(s, r, m)
FricInD4(s, r, m)  == m * s
FricOutD4(s, r, m) == m * r * Sgn(s)
FricD4(s, r, m)    == IF FricInside(s, r) THEN FricInD4(s, r, m) ELSE FricOutD4(s, r, m)

\* smooth_linear(xi, l): xi < l ? xi^2/(2l) : (xi > 1-l ? 1-l-(1-xi)^2/(2l) : xi - l/2)
\* xi = i/N, l = j/N : value over 2jN, derivative over j
LinLo(i, j)  == i * i
LinMid(i, j) == 2 * j * i - j * j
LinHi(i, j)  == 2 * j * (N - j) - (N - i) * (N - i)
Lin2(i, j)   == IF i < j THEN LinLo(i, j) ELSE IF i > N - j THEN LinHi(i, j) ELSE LinMid(i, j)
LinLoD(i, j)  == i
LinMidD(i, j) == j
LinHiD(i, j)  == N - i
LinD(i, j)   == IF i < j THEN LinLoD(i, j) ELSE IF i > N - j THEN LinHiD(i, j) ELSE LinMidD(i, j)

-----------------------------------------------------------------------------
\* classification of a lattice point relative to the switch surfaces (used by the harness
\* to know which points are exactly on / adjacent to a switch)
Cls3(d, w) == IF d < w THEN "in" ELSE IF d = w THEN "on" ELSE "out"
MinCls(x, y, e)  == Cls3(Abs(x - y), e)
AbsCls(X, e)     == Cls3(Abs(X), e)
RampCls(x, e)    == Cls3(Abs(x), e)
FricCls(s, r)    == Cls3(Abs(s), r)
LinCls(i, j)     == IF i = j \/ i = N - j THEN "on" ELSE IF i < j \/ i > N - j THEN "in" ELSE "out"
Near(d, w)       == Abs(d - w) <= 1

Arg  == (-2 * E)..(2 * E)
HArg == (-4 * E)..(4 * E)
Wid  == 1..E
None == [fn |-> "none", p |-> <<>>, cls |-> "", near |-> FALSE, val |-> <<0, 1>>, d1 |-> <<0, 1>>, d2 |-> <<0, 1>>]

Init == obs = None

\* the exact evaluation record of each function at a lattice point
MinObs(x, y, e) ==
  [fn |-> "min", p |-> <<x, y, e>>, cls |-> MinCls(x, y, e), near |-> Near(Abs(x - y), e),
   val |-> <<SMin4(x, y, e), 4 * e>>, d1 |-> <<SMinDx(x, y, e), 2 * e>>, d2 |-> <<SMinDy(x, y, e), 2 * e>>]
MaxObs(x, y, e) ==
  [fn |-> "max", p |-> <<x, y, e>>, cls |-> MinCls(x, y, e), near |-> Near(Abs(x - y), e),
   val |-> <<SMax4(x, y, e), 4 * e>>, d1 |-> <<SMaxDx(x, y, e), 2 * e>>, d2 |-> <<SMaxDy(x, y, e), 2 * e>>]
AbsObs(X, e) ==
  [fn |-> "abs", p |-> <<X, e>>, cls |-> AbsCls(X, e), near |-> Near(Abs(X), e),
   val |-> <<SAbs16(X, e), 16 * e>>, d1 |-> <<SAbsD4(X, e), 4 * e>>, d2 |-> <<0, 1>>]
RampObs(x, e) ==
  [fn |-> "ramp", p |-> <<x, e>>, cls |-> RampCls(x, e), near |-> Near(Abs(x), e),
   val |-> <<Ramp4(x, e), 4 * e>>, d1 |-> <<RampD2(x, e), 2 * e>>, d2 |-> <<0, 1>>]
FricObs(s, r, m) ==
  [fn |-> "fric", p |-> <<s, r, m>>, cls |-> FricCls(s, r), near |-> Near(Abs(s), r),
   val |-> <<Fric8(s, r, m), 8 * r>>, d1 |-> <<FricD4(s, r, m), 4 * r>>, d2 |-> <<0, 1>>]
LinObs(i, j) ==
  [fn |-> "lin", p |-> <<i, j>>, cls |-> LinCls(i, j),
   near |-> (Abs(i - j) <= 1 \/ Abs(i - (N - j)) <= 1),
   val |-> <<Lin2(i, j), 2 * j * N>>, d1 |-> <<LinD(i, j), j>>, d2 |-> <<0, 1>>]

\* one action per public function; the environment chooses the arguments
EvalMin  == obs = None /\ \E x \in Arg, y \in Arg, e \in Wid : obs' = MinObs(x, y, e)
EvalMax  == obs = None /\ \E x \in Arg, y \in Arg, e \in Wid : obs' = MaxObs(x, y, e)
EvalAbs  == obs = None /\ \E X \in HArg, e \in Wid : obs' = AbsObs(X, e)
EvalRamp == obs = None /\ \E x \in Arg, e \in Wid : obs' = RampObs(x, e)
EvalFric == obs = None /\ \E s \in (-3 * R)..(3 * R), r \in 1..R, m \in 1..MuMax : obs' = FricObs(s, r, m)
EvalLin  == obs = None /\ \E i \in (-2)..(N + 2), j \in 1..(N \div 2) : obs' = LinObs(i, j)

Next == EvalMin \/ EvalMax \/ EvalAbs \/ EvalRamp \/ EvalFric \/ EvalLin
Spec == Init /\ [][Next]_vars

-----------------------------------------------------------------------------
\* ---- the clauses of C18 as invariants of every evaluation -----------------------------
Is(f) == obs.fn = f
P(k)  == obs.p[k]
V     == obs.val[1]

\* smoothed minimum: never exceeds the true minimum, within a quarter width, equal outside, symmetric
MinOneSided == Is("min") => V <= 4 * P(3) * Min2(P(1), P(2))
MinQuarter  == Is("min") => 4 * P(3) * Min2(P(1), P(2)) - V <= P(3) * P(3)       \* 4e(min - smin) <= e^2
MinOutside  == Is("min") /\ Abs(P(1) - P(2)) >= P(3) => V = 4 * P(3) * Min2(P(1), P(2))
MinSym      == Is("min") => /\ V = SMin4(P(2), P(1), P(3))
                            /\ SMinDx(P(1), P(2), P(3)) = SMinDy(P(2), P(1), P(3))
MinTight    == Is("min") /\ P(1) = P(2) => 4 * P(3) * P(1) - V = P(3) * P(3)    \* the quarter is attained
\* mirrored bounds for the maximum
MaxOneSided == Is("max") => V >= 4 * P(3) * Max2(P(1), P(2))
MaxQuarter  == Is("max") => V - 4 * P(3) * Max2(P(1), P(2)) <= P(3) * P(3)
MaxOutside  == Is("max") /\ Abs(P(1) - P(2)) >= P(3) => V = 4 * P(3) * Max2(P(1), P(2))
MaxSym      == Is("max") => V = SMax4(P(2), P(1), P(3))
\* ... and for the absolute value (x = X/2: |x| over 16e is 8e|X|; quarter width: e/4 over 16e is 4e^2)
AbsOneSided == Is("abs") => V >= 8 * P(2) * Abs(P(1))
AbsQuarter  == Is("abs") => V - 8 * P(2) * Abs(P(1)) <= 4 * P(2) * P(2)
AbsOutside  == Is("abs") /\ Abs(P(1)) >= P(2) => V = 8 * P(2) * Abs(P(1))        \* |x-(-x)| = |X| >= e
AbsSym      == Is("abs") => V = SAbs16(-P(1), P(2)) /\ SAbsD4(-P(1), P(2)) = -SAbsD4(P(1), P(2))
\* the half-lattice min_base is the same function as the integer-lattice one
HalfLattice == Is("min") => SMin16(2 * P(1), 2 * P(2), P(3)) = 4 * V
\* translation equivariance (oracle for arguments much larger than the width): smin(x+t,y+t) = smin(x,y)+t
Translate   == Is("min") => \A t \in {-1000, -7, 1, 1000} :
                   SMin4(P(1) + t, P(2) + t, P(3)) = V + 4 * P(3) * t

\* friction potential: non-negative, convex, below Coulomb, Coulomb minus r/2 outside the switch radius
FricNonNeg  == Is("fric") => V >= 0
FricCoulomb == Is("fric") => V <= 2 * P(2) * P(3) * Abs(P(1))                    \* phi <= mu|s|  (over 8r)
FricOffset  == Is("fric") /\ Abs(P(1)) >= P(2) => V = P(3) * (2 * P(2) * Abs(P(1)) - P(2) * P(2))
FricConvex  == Is("fric") => 2 * V <= Fric8(P(1) - 1, P(2), P(3)) + Fric8(P(1) + 1, P(2), P(3))
FricMonoD   == Is("fric") => FricD4(P(1), P(2), P(3)) <= FricD4(P(1) + 1, P(2), P(3)) \* derivative non-decreasing
FricEven    == Is("fric") => V = Fric8(-P(1), P(2), P(3))

\* ---- C1 across the branch switches: on every switch surface both branch formulas and their
\* ---- exact derivatives coincide
MinC1  == Is("min") /\ Abs(P(1) - P(2)) = P(3) =>
             /\ MinBlend4(P(1), P(2), P(3))  = MinPlain4(P(1), P(2), P(3))
             /\ MinBlendDx(P(1), P(2), P(3)) = MinPlainDx(P(1), P(2), P(3))
             /\ MinBlendDy(P(1), P(2), P(3)) = MinPlainDy(P(1), P(2), P(3))
MaxC1  == Is("max") /\ Abs(P(1) - P(2)) = P(3) =>
             /\ -MinBlend4(-P(1), -P(2), P(3))  = -MinPlain4(-P(1), -P(2), P(3))
             /\ MinBlendDx(-P(1), -P(2), P(3)) = MinPlainDx(-P(1), -P(2), P(3))
             /\ MinBlendDy(-P(1), -P(2), P(3)) = MinPlainDy(-P(1), -P(2), P(3))
AbsC1  == Is("abs") /\ Abs(P(1)) = P(2) =>
             /\ 4 * P(2) * P(2) + 4 * P(1) * P(1) = 8 * P(2) * Abs(P(1))         \* e/4 + x^2/e = |x|
             /\ 4 * P(1) = 4 * P(2) * Sgn(P(1))                                  \* 2x/e = sign(x)
             /\ SAbs16(P(1), P(2)) = 8 * P(2) * Abs(P(1))
RampC1 == Is("ramp") =>
             /\ P(1) = P(2)  => (P(1) + P(2)) * (P(1) + P(2)) = 4 * P(2) * P(1) /\ P(1) + P(2) = 2 * P(2)
             /\ P(1) = -P(2) => (P(1) + P(2)) * (P(1) + P(2)) = 0 /\ P(1) + P(2) = 0
FricC1 == Is("fric") /\ Abs(P(1)) = P(2) =>
             /\ FricIn8(P(1), P(2), P(3))  = FricOut8(P(1), P(2), P(3))
             /\ FricInD4(P(1), P(2), P(3)) = FricOutD4(P(1), P(2), P(3))
LinC1  == Is("lin") =>
             /\ P(1) = P(2)     => LinLo(P(1), P(2)) = LinMid(P(1), P(2)) /\ LinLoD(P(1), P(2)) = LinMidD(P(1), P(2))
             /\ P(1) = N - P(2) => LinHi(P(1), P(2)) = LinMid(P(1), P(2)) /\ LinHiD(P(1), P(2)) = LinMidD(P(1), P(2))
\* ---- ... and no jump between neighbouring lattice points anywhere (value 1-Lipschitz, derivative
\* ---- Lipschitz with the curvature of the blend): |f(x+1)-f(x)| <= 1, |f'(x+1)-f'(x)| <= 1/(2e) etc.
MinLip  == Is("min") => /\ Abs(SMin4(P(1) + 1, P(2), P(3)) - V) <= 4 * P(3)
                        /\ Abs(SMin4(P(1), P(2) + 1, P(3)) - V) <= 4 * P(3)
                        /\ Abs(SMinDx(P(1) + 1, P(2), P(3)) - SMinDx(P(1), P(2), P(3))) <= 1
                        /\ Abs(SMinDx(P(1), P(2) + 1, P(3)) - SMinDx(P(1), P(2), P(3))) <= 1
                        /\ Abs(SMinDy(P(1) + 1, P(2), P(3)) - SMinDy(P(1), P(2), P(3))) <= 1
                        /\ SMinDx(P(1), P(2), P(3)) + SMinDy(P(1), P(2), P(3)) = 2 * P(3)  \* partition of unity
                        /\ SMinDx(P(1), P(2), P(3)) >= 0 /\ SMinDy(P(1), P(2), P(3)) >= 0
RampLip == Is("ramp") => /\ Abs(Ramp4(P(1) + 1, P(2)) - V) <= 4 * P(2)
                         /\ Abs(RampD2(P(1) + 1, P(2)) - RampD2(P(1), P(2))) <= 1
AbsLip  == Is("abs") => /\ Abs(SAbs16(P(1) + 1, P(2)) - V) <= 8 * P(2)             \* step 1/2, |f'| <= 1
                        /\ Abs(SAbsD4(P(1) + 1, P(2)) - SAbsD4(P(1), P(2))) <= 4   \* f'' = 2/e, step 1/2
FricLip == Is("fric") => /\ Abs(Fric8(P(1) + 1, P(2), P(3)) - V) <= 2 * P(2) * P(3)
                         /\ Abs(FricD4(P(1) + 1, P(2), P(3)) - FricD4(P(1), P(2), P(3))) <= P(3)
LinLip  == Is("lin") /\ P(1) < N + 2 =>
                         /\ (0 <= P(1) /\ P(1) < N) => Abs(Lin2(P(1) + 1, P(2)) - V) <= 2 * P(2)  \* |f'| <= 1 on [0,1]
                         /\ Abs(LinD(P(1) + 1, P(2)) - LinD(P(1), P(2))) <= 1

TypeOK == obs.fn \in {"none", "min", "max", "abs", "ramp", "fric", "lin"}
=============================================================================
