SPECIFICATION GSpec
CONSTANTS
  MaxTri = 4
  MaxVerts = 6
  StructSizes <- SizesSmall
  UseRing = TRUE
  Elevations <- ElevSmall
  SetMaxTri = 2
  NamesB = {"a", "b"}
  MaxDepth = 100
  EmitMode = "meshes"
VIEW View
INVARIANT MeshValid
INVARIANT EdgeTableCorrect
INVARIANT ElevationConforming
INVARIANT MergeUnionCorrect
INVARIANT MergeOverwriteLosesIffClash
INVARIANT ReadRoundTrip
INVARIANT Emit
CHECK_DEADLOCK FALSE
