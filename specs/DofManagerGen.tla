---------------------------- MODULE DofManagerGen ----------------------------
(* Design-run / behaviour-generator wrapper of DofManager.tla.                *)
(*  - mesh families (connectivities are those the real optimism mesh          *)
(*    constructors produce; the harness checks the equality before replay);   *)
(*  - node-set family per mesh: every singleton (so that EVERY (node, comp)    *)
(*    mask is reachable), the empty set, the full set, two overlapping         *)
(*    partial sets, and a set listing a member twice in non-sorted order;      *)
(*  - VIEW = declared mask, so TLC walks the 2^(N*Dim) masks, not the tree of  *)
(*    BC lists; the BC list of a state is one list that produces its mask;     *)
(*  - EmitT (an ACTION_CONSTRAINT that is always TRUE) prints the BC list of   *)
(*    every generated successor, i.e. one line per explored transition, for    *)
(*    replay into the real DofManager; Emit prints the mesh records.           *)
EXTENDS DofManager, Json

CONSTANTS EmitMode          \* "all" | "sparse" | "none"

SetName(n) == "n" \o ToString(n)
NodeSetsFor(N) ==
  LET names == {SetName(n) : n \in 0..(N - 1)} \cup {"empty", "all", "lo", "hi", "rep"}
  IN [s \in names |->
        CASE s = "empty" -> <<>>
          [] s = "all"   -> Iota(N)
          [] s = "lo"    -> <<0, 1>>                                   \* overlaps "hi" in node 1
          [] s = "hi"    -> [k \in 1..(N - 1) |-> k]                   \* 1..N-1
          [] s = "rep"   -> <<N - 1, 0, N - 1>>                        \* repeated member, unsorted
          [] OTHER       -> <<CHOOSE n \in 0..(N - 1) : SetName(n) = s>>]

Mk(name, N, conns, d) == [name |-> name, N |-> N, Dim |-> d, conns |-> conns, nodeSets |-> NodeSetsFor(N)]

T1(d) == Mk("T1", 3, << <<0, 1, 2>> >>, d)                                        \* one linear triangle
T2(d) == Mk("T2", 4, << <<0, 1, 3>>, <<0, 3, 2>> >>, d)                           \* structured 2x2
T4(d) == Mk("T4", 6, << <<0, 1, 4>>, <<0, 4, 3>>, <<1, 2, 5>>, <<1, 5, 4>> >>, d) \* structured 3x2
Q1(d) == Mk("Q1", 6, << <<0, 3, 1, 4, 5, 2>> >>, d)                               \* one quadratic triangle
Q2(d) == Mk("Q2", 9, << <<0, 4, 1, 6, 7, 3>>, <<0, 6, 3, 5, 8, 2>> >>, d)         \* two quadratic triangles

\* every mesh with at most 2^12 masks: exhaustively replayed into the real code in the quick tier
MeshesQuick == {T1(1), T1(2), T1(3), T2(1), T2(2), T2(3), T4(1), T4(2), Q1(1), Q1(2), Q2(1)}
\* 2^18 masks each: T4(3) design invariants exhaustively (thorough tier, canonical enumeration SpecCanon);
\* all three: BC lists by simulation, replayed into the real code
MeshesBig   == {T4(3)}
MeshesSim   == {T4(3), Q1(3), Q2(2)}
MeshesTiny  == {T1(1), T1(2), T2(1)}

View == <<mesh.name, mesh.Dim, Decl(mesh, bcs)>>

\* Canonical enumeration of the masks (for the 2^18-mask meshes): only singleton sets, dofs in increasing
\* order, so every mask is reached by exactly one list and TLC generates one transition per mask.
MaxDecl == LET d == DeclDofs(mesh, BcFlat(mesh, bcs)) IN IF d = {} THEN 0 - 1 ELSE CHOOSE i \in d : \A j \in d : j <= i
AddCanonicalBC ==
  \E ns \in DOMAIN mesh.nodeSets, c \in CompsOf(mesh) :
     /\ IsSingle(ns) /\ mesh.nodeSets[ns][1] * mesh.Dim + c > MaxDecl
     /\ Add(ns, c)
SpecCanon == Init /\ [][AddCanonicalBC]_vars

\* initial states: print the mesh record once and the empty BC list
Emit ==
  (bcs = <<>>) => /\ PrintT(<<"MESH", ToJson(mesh)>>)
                  /\ (EmitMode # "none") => PrintT(<<"BEH", ToJson([mesh |-> mesh.name, dim |-> mesh.Dim, bcs |-> bcs])>>)
\* explored transitions (ACTION_CONSTRAINT, evaluated on each generated successor, always TRUE).
\* "all": every transition.  "sparse": (i) the canonical transition into every non-empty mask (a singleton
\* whose dof exceeds every dof declared so far: exactly one per mask) and (ii) every transition out of
\* states whose list has at most one entry (all pairs of node sets, in particular overlapping /
\* repeated / empty ones on top of each other).
Canonical ==
  LET new == bcs'[Len(bcs')]
      ns  == mesh.nodeSets[new.nodeSet]
      d   == DeclDofs(mesh, BcFlat(mesh, bcs))
  IN Len(ns) = 1 /\ \A i \in d : i < ns[1] * mesh.Dim + new.component
EmitT ==
  (EmitMode = "all" \/ (EmitMode = "sparse" /\ (Len(bcs) <= 1 \/ Canonical))) =>
     PrintT(<<"BEH", ToJson([mesh |-> mesh.name, dim |-> mesh.Dim, bcs |-> bcs'])>>)
=============================================================================
