---------------------------- MODULE BoxProjection ----------------------------
(***************************************************************************)
(* Exact lattice model of TrustRegionSPG.project (componentwise clamp onto *)
(* a box with possibly infinite or degenerate bounds) and the contract of  *)
(* project_onto_tr (property C05, last sentence).                          *)
(* Points live in (-N..N)^2; NegInf / PosInf are sentinels outside the     *)
(* lattice.  TLC enumerates every (point, box) instance: the invariants    *)
(* are the property clauses; the emitted instances with their exact        *)
(* projections are replayed (scaled) into the real functions.              *)
(***************************************************************************)
EXTENDS Integers, Sequences, TLC, Json

CONSTANTS N, EmitMode, TRMode   \* TRMode = "full": every feasible centre and radius; "one": a single centre (projection invariants only)
NegInf == -1000
PosInf == 1000
Coord == -N..N
Lower == Coord \cup {NegInf}
Upper == Coord \cup {PosInf}

VARIABLES x, lb, ub, xk, dsq    \* point, bounds (2 components each), trust-region centre, radius squared
vars == <<x, lb, ub, xk, dsq>>

Max(a, b) == IF a >= b THEN a ELSE b
Min(a, b) == IF a <= b THEN a ELSE b
Clamp(v, l, u) == Max(l, Min(v, u))             \* the code: np.maximum(lb, np.minimum(x, ub))
Project(p) == <<Clamp(p[1], lb[1], ub[1]), Clamp(p[2], lb[2], ub[2])>>
InBox(p) == \A i \in 1..2 : lb[i] <= p[i] /\ p[i] <= ub[i]
Dist2(p, q) == (p[1] - q[1]) * (p[1] - q[1]) + (p[2] - q[2]) * (p[2] - q[2])
BoxPoints == { p \in Coord \X Coord : InBox(p) }

Init ==
  /\ x \in Coord \X Coord
  /\ lb \in Lower \X Lower /\ ub \in Upper \X Upper
  /\ \A i \in 1..2 : lb[i] <= ub[i]
  /\ xk \in (IF TRMode = "full" THEN {p \in Coord \X Coord : InBox(p)}     \* the centre is a feasible iterate
             ELSE {Project(<<0, 0>>)})
  /\ dsq \in (IF TRMode = "full" THEN {1, 2, 4, 9} ELSE {1})
Next == UNCHANGED vars
Spec == Init /\ [][Next]_vars

\* ---- property clauses
ProjInBox == InBox(Project(x))
ProjClosest == \A z \in BoxPoints : Dist2(x, Project(x)) <= Dist2(x, z)
ProjIdempotent == Project(Project(x)) = Project(x)
ProjFixesFeasible == InBox(x) => Project(x) = x
\* contract of project_onto_tr: when the plain projection is inside the ball it IS the result
TrCaseInside == Dist2(Project(x), xk) <= dsq
\* along the segment xk -> x the projected point moves monotonically away from xk, so a point of
\* box /\ ball on that path exists (t = 0 gives xk itself, which is feasible): the contract is satisfiable
TrSatisfiable == InBox(xk) /\ Dist2(xk, xk) <= dsq

Emit == EmitMode = "all" =>
   PrintT(<<"BEH", ToJson([x |-> x, lb |-> lb, ub |-> ub, xk |-> xk, dsq |-> dsq, proj |-> Project(x),
                            inside |-> TrCaseInside])>>)
=============================================================================
