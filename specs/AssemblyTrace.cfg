SPECIFICATION TSpec
CONSTANTS
  Meshes = {}
INVARIANT Verdict
CHECK_DEADLOCK FALSE
