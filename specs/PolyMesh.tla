------------------------------ MODULE PolyMesh ------------------------------
(* C03 - function space reproduces polynomials and integrates them exactly on *)
(* any mesh.  Lattice with exact oracle: a table of small triangulations with *)
(* INTEGER node coordinates (single triangles, two triangulations of a square,*)
(* a fan around an off-centre interior node, a 2x2 structured patch, a graded *)
(* anisotropic strip, a square rotated by the exact 3-4-5 rotation (times 5), *)
(* a non-convex L, a hexagon around the origin with negative coordinates),    *)
(* each with every cyclic rotation of the node order inside the elements      *)
(* (shift 0, 1, 2 for all elements, shift 3 = element e rotated by e mod 3),  *)
(* and the monomials x^a y^b, a + b <= MaxDeg.                                *)
(*                                                                            *)
(* Everything is computed in exact integer arithmetic:                        *)
(*   doubled signed area of a triangle  A2 = (P2-P1) x (P3-P1)                *)
(*   barycentric formula  int_T l1^i l2^j l3^k = 2|T| i! j! k! / (i+j+k+2)!   *)
(*   => int_T x^a y^b dA = A2 * a! b! / (a+b+2)! * STri(T, a, b),             *)
(*      STri = sum over i1+i2+i3 = a, j1+j2+j3 = b of                          *)
(*             prod_k C(i_k+j_k, i_k) x_k^i_k y_k^j_k                          *)
(*      (the coefficient of s^a t^b in prod_k 1/(1 - x_k s - y_k t))          *)
(*   => int_0^1 x(t)^a y(t)^b dt = a! b! / (a+b+1)! * SEdge(P, Q, a, b)       *)
(*      along the edge P -> Q, same sum over the two end points.              *)
(* CONVENTION for every emitted number: the integers                          *)
(*      vs(a,b) = sum_T A2_T STri(T,a,b)      ex / ey(a,b) = sum_E N_E SEdge  *)
(* are printed; the rational values are                                       *)
(*      int_Omega x^a y^b dA        = vs(a,b) * a! b! / (a+b+2)!              *)
(*      int_Omega r x^a y^b dA      = vs(a+1,b) * (a+1)! b! / (a+b+3)!  (r=x) *)
(*      oint x^a y^b n_x ds         = ex(a,b) * a! b! / (a+b+1)!              *)
(* (N_E = (Qy-Py, -(Qx-Px)) is the outward normal times the edge length of a  *)
(* boundary edge of a counter-clockwise element).  The factorials are applied *)
(* by the harness in unbounded integers; with the table below every           *)
(* intermediate stays below 2^31 for MaxDeg <= 7 (TLC raises an error on      *)
(* overflow; MaxDeg = 8 does overflow).  Quick tier: MaxDeg = 6, thorough: 7. *)
(*                                                                            *)
(* One action per step of the binding: PickMesh (mesh + cyclic shift, the     *)
(* state in which the mesh facts are emitted) and EvalMono (one monomial on   *)
(* the picked mesh).  The invariants are the clauses of C03 that are pure     *)
(* geometry, on EVERY lattice state.                                          *)
EXTENDS Integers, Sequences, FiniteSets

CONSTANT MaxDeg        \* monomials x^a y^b with a + b <= MaxDeg (<= 7 is 32-bit safe for this table)

VARIABLE st            \* [k: none|mesh|mono, m: mesh name, s: shift 0..3, bnd, a, b, vs, hasax, ax, ex, ey]
vars == <<st>>

-----------------------------------------------------------------------------
\* exact integer helpers
RECURSIVE SumF(_, _, _)
SumF(f, lo, hi) == IF lo > hi THEN 0 ELSE f[lo] + SumF(f, lo + 1, hi)
RECURSIVE Pow(_, _)
Pow(x, n) == IF n = 0 THEN 1 ELSE x * Pow(x, n - 1)
RECURSIVE Fact(_)
Fact(n) == IF n <= 1 THEN 1 ELSE n * Fact(n - 1)
BinomT == [n \in 0..12 |-> [k \in 0..n |-> Fact(n) \div (Fact(k) * Fact(n - k))]]   \* constant table (12! < 2^31 < 13!)
Binom(n, k) == BinomT[n][k]

\* coefficient of s^i t^j in 1/(1 - x s - y t) at the point P = <<x, y>>
Mono(P, i, j) == Binom(i + j, i) * Pow(P[1], i) * Pow(P[2], j)

STri(P1, P2, P3, a, b) ==
  SumF([i1 \in 0..a |->
    SumF([i2 \in 0..(a - i1) |->
      SumF([j1 \in 0..b |->
        SumF([j2 \in 0..(b - j1) |->
          Mono(P1, i1, j1) * Mono(P2, i2, j2) * Mono(P3, a - i1 - i2, b - j1 - j2)],
          0, b - j1)], 0, b)], 0, a - i1)], 0, a)

SEdge(P, Q, a, b) ==
  SumF([i \in 0..a |-> SumF([j \in 0..b |-> Mono(P, i, j) * Mono(Q, a - i, b - j)], 0, b)], 0, a)

Area2(P1, P2, P3) == (P2[1] - P1[1]) * (P3[2] - P1[2]) - (P2[2] - P1[2]) * (P3[1] - P1[1])

-----------------------------------------------------------------------------
\* the table of triangulations (1-based node numbers, every element counter-clockwise)
Sq   == << <<0, 0>>, <<4, 0>>, <<4, 4>>, <<0, 4>> >>
RSq  == << <<4, 0>>, <<7, 4>>, <<3, 7>>, <<0, 3>> >>           \* 5 x (unit square rotated by the 3-4-5 rotation) + (4, 0)
LSh  == << <<0, 0>>, <<4, 0>>, <<4, 2>>, <<2, 2>>, <<2, 4>>, <<0, 4>> >>
Hex  == << <<4, 0>>, <<2, 3>>, <<-2, 3>>, <<-4, 0>>, <<-2, -3>>, <<2, -3>> >>
Str  == << <<0, 0>>, <<6, 0>>, <<6, 1>>, <<0, 1>> >>

Poly == [ t1 |-> << <<0, 0>>, <<1, 0>>, <<0, 1>> >>,
          t2 |-> << <<0, 1>>, <<6, 0>>, <<2, 5>> >>,
          sq |-> Sq, rs |-> RSq, ls |-> LSh, hx |-> Hex, sr |-> Str ]

MT == [
  unit  |-> [poly |-> "t1", nodes |-> Poly.t1, tris |-> << <<1, 2, 3>> >>],
  skew  |-> [poly |-> "t2", nodes |-> Poly.t2, tris |-> << <<1, 2, 3>> >>],
  sqa   |-> [poly |-> "sq", nodes |-> Sq, tris |-> << <<1, 2, 3>>, <<1, 3, 4>> >>],
  sqb   |-> [poly |-> "sq", nodes |-> Sq, tris |-> << <<1, 2, 4>>, <<2, 3, 4>> >>],
  sqfan |-> [poly |-> "sq", nodes |-> Sq \o << <<1, 2>> >>,
             tris |-> << <<1, 2, 5>>, <<2, 3, 5>>, <<3, 4, 5>>, <<4, 1, 5>> >>],
  \* the numbering of Mesh.create_structured_mesh_data(3, 3, [0,4], [0,4])
  sq2x2 |-> [poly |-> "sq", nodes |-> [i \in 1..9 |-> <<2 * ((i - 1) % 3), 2 * ((i - 1) \div 3)>>],
             tris |-> << <<1, 2, 5>>, <<1, 5, 4>>, <<4, 5, 8>>, <<4, 8, 7>>,
                         <<2, 3, 6>>, <<2, 6, 5>>, <<5, 6, 9>>, <<5, 9, 8>> >>],
  \* graded anisotropic strip: columns of width 1, 1, 4 and height 1
  strip |-> [poly |-> "sr", nodes |-> << <<0, 0>>, <<1, 0>>, <<2, 0>>, <<6, 0>>, <<0, 1>>, <<1, 1>>, <<2, 1>>, <<6, 1>> >>,
             tris |-> << <<1, 2, 6>>, <<1, 6, 5>>, <<2, 3, 7>>, <<2, 7, 6>>, <<3, 4, 8>>, <<3, 8, 7>> >>],
  stripb |-> [poly |-> "sr", nodes |-> Str, tris |-> << <<1, 2, 4>>, <<2, 3, 4>> >>],
  rota  |-> [poly |-> "rs", nodes |-> RSq, tris |-> << <<1, 2, 3>>, <<1, 3, 4>> >>],
  rotb  |-> [poly |-> "rs", nodes |-> RSq, tris |-> << <<1, 2, 4>>, <<2, 3, 4>> >>],
  lsha  |-> [poly |-> "ls", nodes |-> LSh, tris |-> << <<1, 2, 3>>, <<1, 3, 4>>, <<1, 4, 6>>, <<4, 5, 6>> >>],
  lshb  |-> [poly |-> "ls", nodes |-> LSh, tris |-> << <<1, 2, 4>>, <<2, 3, 4>>, <<1, 4, 5>>, <<1, 5, 6>> >>],
  hexa  |-> [poly |-> "hx", nodes |-> Hex \o << <<0, 0>> >>,
             tris |-> << <<7, 1, 2>>, <<7, 2, 3>>, <<7, 3, 4>>, <<7, 4, 5>>, <<7, 5, 6>>, <<7, 6, 1>> >>],
  hexb  |-> [poly |-> "hx", nodes |-> Hex, tris |-> << <<1, 2, 3>>, <<1, 3, 4>>, <<1, 4, 5>>, <<1, 5, 6>> >>] ]

MeshNames == DOMAIN MT
Shifts == 0..3
NE(m) == Len(MT[m].tris)
NN(m) == Len(MT[m].nodes)

Rot(t, k) == IF k = 0 THEN t ELSE IF k = 1 THEN <<t[2], t[3], t[1]>> ELSE <<t[3], t[1], t[2]>>
ShiftOf(s, e) == IF s < 3 THEN s ELSE e % 3
Elem(m, s, e) == Rot(MT[m].tris[e], ShiftOf(s, e))           \* node numbers of element e under shift s
Vtx(m, s, e, i) == MT[m].nodes[Elem(m, s, e)[i]]             \* coordinates of its i-th vertex

ElemA2(m, s, e) == Area2(Vtx(m, s, e, 1), Vtx(m, s, e, 2), Vtx(m, s, e, 3))
MeshA2(m, s) == SumF([e \in 1..NE(m) |-> ElemA2(m, s, e)], 1, NE(m))

\* vs(a, b): sum over the triangulation of A2 * STri
VolS(m, s, a, b) ==
  SumF([e \in 1..NE(m) |-> ElemA2(m, s, e) * STri(Vtx(m, s, e, 1), Vtx(m, s, e, 2), Vtx(m, s, e, 3), a, b)], 1, NE(m))

\* local side k (0, 1, 2) of an element joins its vertices k+1 and ((k+1) mod 3)+1 (the edge convention of
\* Mesh.sideSets / ParentElement.faceNodes); a side is on the boundary iff no element has the reversed side
SideNodes(m, s, e, k) == <<Elem(m, s, e)[k + 1], Elem(m, s, e)[((k + 1) % 3) + 1]>>
Sides(m) == {<<e, k>> : e \in 1..NE(m), k \in 0..2}
IsBnd(m, s, e, k) ==
  LET pq == SideNodes(m, s, e, k)
  IN ~\E ek \in Sides(m) : SideNodes(m, s, ek[1], ek[2]) = <<pq[2], pq[1]>>
Bnd(m, s) == {ek \in Sides(m) : IsBnd(m, s, ek[1], ek[2])}
SideP(m, s, e, k) == MT[m].nodes[SideNodes(m, s, e, k)[1]]
SideQ(m, s, e, k) == MT[m].nodes[SideNodes(m, s, e, k)[2]]
\* outward normal times length of side k of a counter-clockwise element: (Qy - Py, -(Qx - Px))
SideN(m, s, e, k) == <<SideQ(m, s, e, k)[2] - SideP(m, s, e, k)[2], -(SideQ(m, s, e, k)[1] - SideP(m, s, e, k)[1])>>

\* ex / ey(a, b): sum over the boundary sides B of N[c] * SEdge
EdgeS(m, s, B, a, b, c) ==
  SumF([e \in 1..NE(m) |->
    SumF([k \in 0..2 |-> IF <<e, k>> \in B
                         THEN SideN(m, s, e, k)[c] * SEdge(SideP(m, s, e, k), SideQ(m, s, e, k), a, b)
                         ELSE 0], 0, 2)], 1, NE(m))

\* doubled area of the polygon from its boundary cycle alone (shoelace), independent of any triangulation
Shoe2(c) == SumF([i \in 1..Len(c) |-> c[i][1] * c[(i % Len(c)) + 1][2] - c[(i % Len(c)) + 1][1] * c[i][2]], 1, Len(c))
PolyA2(m) == Shoe2(Poly[MT[m].poly])

RECURSIVE MinSeq(_, _)
MinSeq(q, i) == IF i = Len(q) THEN q[i][1] ELSE LET r == MinSeq(q, i + 1) IN IF q[i][1] < r THEN q[i][1] ELSE r
RPos(m) == MinSeq(MT[m].nodes, 1) >= 0                       \* the axisymmetric reading needs r = x >= 0

Monos == {<<a, b>> \in (0..MaxDeg) \X (0..MaxDeg) : a + b <= MaxDeg}
HasAx(m, a, b) == RPos(m) /\ a + b + 1 <= MaxDeg

-----------------------------------------------------------------------------
\* the state IS the oracle record: PickMesh computes the boundary sides of the picked mesh, EvalMono the
\* exact integers of one monomial on it
None == [k |-> "none", m |-> "unit", s |-> 0, bnd |-> {}, a |-> 0, b |-> 0, vs |-> 0, hasax |-> FALSE, ax |-> 0,
         ex |-> 0, ey |-> 0]
Init == st = None

PickMesh == st.k = "none" /\ \E m \in MeshNames, s \in Shifts :
              st' = [None EXCEPT !.k = "mesh", !.m = m, !.s = s, !.bnd = Bnd(m, s)]
EvalMono == st.k = "mesh" /\ \E ab \in Monos :
              st' = [st EXCEPT !.k = "mono", !.a = ab[1], !.b = ab[2],
                               !.vs = VolS(st.m, st.s, ab[1], ab[2]),
                               !.hasax = HasAx(st.m, ab[1], ab[2]),
                               !.ax = IF HasAx(st.m, ab[1], ab[2]) THEN VolS(st.m, st.s, ab[1] + 1, ab[2]) ELSE 0,
                               !.ex = EdgeS(st.m, st.s, st.bnd, ab[1], ab[2], 1),
                               !.ey = EdgeS(st.m, st.s, st.bnd, ab[1], ab[2], 2)]

Next == PickMesh \/ EvalMono
Spec == Init /\ [][Next]_vars

-----------------------------------------------------------------------------
\* ---- invariants: the geometric clauses of C03 on every lattice state
OnMesh == st.k \in {"mesh", "mono"}
OnMono == st.k = "mono"
CurM == st.m
CurS == st.s

TypeOK == /\ st.k \in {"none", "mesh", "mono"} /\ st.m \in MeshNames /\ st.s \in Shifts
          /\ st.a \in 0..MaxDeg /\ st.b \in 0..MaxDeg /\ st.a + st.b <= MaxDeg

\* valid mesh: connectivity in range, every node used, every element counter-clockwise for EVERY cyclic shift
WellFormed == OnMesh => /\ \A e \in 1..NE(CurM) : \A i \in 1..3 : Elem(CurM, CurS, e)[i] \in 1..NN(CurM)
                        /\ \A n \in 1..NN(CurM) : \E e \in 1..NE(CurM) : \E i \in 1..3 : Elem(CurM, CurS, e)[i] = n
OrientPositive == OnMesh => \A e \in 1..NE(CurM) : ElemA2(CurM, CurS, e) > 0
\* a cyclic shift renumbers the vertices of an element, it does not change the element
ShiftKeepsElement == OnMesh => \A e \in 1..NE(CurM) :
                        /\ ElemA2(CurM, CurS, e) = ElemA2(CurM, 0, e)
                        /\ {Elem(CurM, CurS, e)[i] : i \in 1..3} = {Elem(CurM, 0, e)[i] : i \in 1..3}
\* quadrature-point volumes sum to the domain area: sum of doubled element areas = doubled polygon area
AreaSum == OnMesh => MeshA2(CurM, CurS) = PolyA2(CurM)
\* the boundary sides form closed cycles (every node is left as often as it is entered), the outward
\* normals sum to zero
BoundaryClosed == OnMesh =>
  /\ st.bnd = Bnd(CurM, CurS) /\ st.bnd # {}
  /\ \A n \in 1..NN(CurM) : Cardinality({ek \in st.bnd : SideNodes(CurM, CurS, ek[1], ek[2])[1] = n})
                          = Cardinality({ek \in st.bnd : SideNodes(CurM, CurS, ek[1], ek[2])[2] = n})
  /\ EdgeS(CurM, CurS, st.bnd, 0, 0, 1) = 0 /\ EdgeS(CurM, CurS, st.bnd, 0, 0, 2) = 0
\* the set of boundary sides (as node pairs) does not depend on the cyclic shift
BoundaryShift == OnMesh =>
  {SideNodes(CurM, CurS, ek[1], ek[2]) : ek \in st.bnd} = {SideNodes(CurM, 0, ek[1], ek[2]) : ek \in Bnd(CurM, 0)}
\* exact integrals do not depend on the node order inside the elements ...
ShiftInvariant == OnMono => st.vs = VolS(CurM, 0, st.a, st.b)
\* ... nor on the triangulation: additivity over two different triangulations of the same polygon
Additive == OnMono => \A m2 \in MeshNames \ {CurM} : MT[m2].poly = MT[CurM].poly => VolS(m2, 0, st.a, st.b) = st.vs
\* divergence theorem on the lattice: oint x^a y^b n_x ds = int a x^(a-1) y^b dA (both over (a+b+1)!/(a! b!))
DivX == OnMono => st.ex = IF st.a = 0 THEN 0 ELSE VolS(CurM, CurS, st.a - 1, st.b)
DivY == OnMono => st.ey = IF st.b = 0 THEN 0 ELSE VolS(CurM, CurS, st.a, st.b - 1)
\* even monomials have positive integrals; with r >= 0 the axisymmetric integrals of even monomials are positive
EvenPositive == OnMono /\ st.a % 2 = 0 /\ st.b % 2 = 0 => st.vs > 0
AxiPositive  == OnMono /\ st.hasax /\ st.a % 2 = 0 /\ st.b % 2 = 0 => st.ax > 0
\* the axisymmetric integrand is the monomial one degree higher in r = x
AxiShift == OnMono /\ st.hasax => st.ax = VolS(CurM, 0, st.a + 1, st.b)
\* the monomial 1 gives the doubled area of the polygon
MonoOne == OnMono /\ st.a = 0 /\ st.b = 0 => st.vs = PolyA2(CurM)
=============================================================================
