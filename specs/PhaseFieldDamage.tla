-------------------------- MODULE PhaseFieldDamage --------------------------
(***************************************************************************)
(* EXTENSION X11 (not a listed property): the threshold phase-field        *)
(* material model (phasefield/PhaseFieldThreshold.py) as a case lattice.   *)
(*   strain energy  W(e, phi) = g(phi) mu |dev e|^2 + gv(e, phi) kappa/2 tr(e)^2 *)
(*   g(phi) = (1 - phi)^2 ;  gv = g(phi) if tr e > 0 else 1  (no damage in compression) *)
(*   phase potential  G(phi, grad phi) = 3 Gc / 8 (phi / l + l |grad phi|^2)  *)
(* Integer abstraction: phi = p / N, deviatoric and volumetric parts D, V   *)
(* in small naturals, sign of the trace; energies carried times N^2.        *)
(* TLC checks on the whole lattice: damage never increases the strain       *)
(* energy, volumetric compression is never degraded, a fully broken point   *)
(* carries no tension or shear, the potential is linear and increasing.     *)
(***************************************************************************)
EXTENDS Integers, TLC, Json

CONSTANTS N, EmitMode
Levels == 0..N
Parts == 0..2
Signs == {0 - 1, 0, 1}

G(p) == (N - p) * (N - p)                                   \* N^2 g(phi)
W(p, D, V, sg) == G(p) * D + (IF sg > 0 THEN G(p) ELSE N * N) * V     \* N^2 W (units: mu|dev|^2 = D, kappa/2 tr^2 = V)

VARIABLES p, q, D, V, sg
vars == <<p, q, D, V, sg>>
Init == /\ p \in Levels /\ q \in Levels /\ p <= q /\ D \in Parts /\ V \in Parts /\ sg \in Signs
        /\ (sg = 0 <=> V = 0)
Next == UNCHANGED vars
Spec == Init /\ [][Next]_vars

DamageNeverStiffens == W(q, D, V, sg) <= W(p, D, V, sg)
StrictUnlessProtected == (p < q /\ (D > 0 \/ (sg > 0 /\ V > 0))) => W(q, D, V, sg) < W(p, D, V, sg)
CompressionNotDegraded == (D = 0 /\ sg < 0) => W(q, D, V, sg) = W(p, D, V, sg)
BrokenCarriesNoTension == (sg >= 0) => W(N, D, V, sg) = 0
IntactIsElastic == W(0, D, V, sg) = N * N * (D + V)
\* expected comparison of the REAL energies at levels p <= q : "LT" | "EQ"
Expect == IF W(q, D, V, sg) < W(p, D, V, sg) THEN "LT" ELSE "EQ"
Emit == EmitMode = "all" => PrintT(<<"BEH", ToJson([p |-> p, q |-> q, D |-> D, V |-> V, sg |-> sg, n |-> N,
                                                     wp |-> W(p, D, V, sg), wq |-> W(q, D, V, sg), expect |-> Expect])>>)
=============================================================================
