SPECIFICATION Spec
CONSTANTS
  N = 16
  Brackets <- BracketsQ
  TolSettings <- TolsQ
  FVals <- F124
  DVals <- DQ
  MaxIters = 12
  Degenerate = TRUE
  StopOnExactRoot = TRUE
INVARIANT TypeOK
INVARIANT Contract
INVARIANT RootInBracket
INVARIANT Oriented
INVARIANT ConvergedMeansTolerance
INVARIANT NaNOnlyWhenUnbracketed
INVARIANT ItersBounded
PROPERTY WidthShrinks
PROPERTY CallFixed
VIEW DesignView
CHECK_DEADLOCK FALSE
