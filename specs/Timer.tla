-------------------------------- MODULE Timer --------------------------------
(* Design spec of optimism/Timer.py (extension X07).  TLC explores every interleaving of start/stop/new on three
   objects and clock ticks up to Depth steps, checks the accounting invariants, and prints each maximal behaviour's
   action word for replay into the real class. *)
EXTENDS TimerRules, TLC, Json

CONSTANTS Depth, EmitMode
VARIABLES s, hist, done    \* done[n] = ghost: sum of completed intervals per name
vars == <<s, hist, done>>

Init == s = S0 /\ hist = <<>> /\ done = [n \in Names |-> 0]
Start(i) == /\ s' = StartTo(s, i) /\ hist' = Append(hist, [op |-> "start", i |-> i, d |-> 0]) /\ UNCHANGED done
Stop(i) == /\ s' = StopTo(s, i) /\ hist' = Append(hist, [op |-> "stop", i |-> i, d |-> 0])
           /\ done' = IF StopOk(s, i) /\ Named(i) THEN [done EXCEPT ![NameOf(i)] = @ + Elapsed(s, i)] ELSE done
New(i) == /\ s' = NewTo(s, i) /\ hist' = Append(hist, [op |-> "new", i |-> i, d |-> 0]) /\ UNCHANGED done
Tick(d) == /\ s' = TickTo(s, d) /\ hist' = Append(hist, [op |-> "tick", i |-> 0, d |-> d]) /\ UNCHANGED done
Next == /\ Len(hist) < Depth
        /\ \/ \E i \in Insts : Start(i) \/ Stop(i) \/ New(i)
           \/ \E d \in {1, 3} : Tick(d)
Spec == Init /\ [][Next]_vars

\* the shared table holds exactly the completed intervals: nothing lost, nothing counted twice, nothing counted early
Accounting == \A n \in Names : s.tot[n] = done[n]
\* accumulated time never decreases, whatever is constructed, started or mis-used
Monotone == [][\A n \in Names : s'.tot[n] >= s.tot[n]]_vars
\* a refused call changes nothing
RefusalsAreNoOps == [][\A i \in Insts : /\ (hist' # hist /\ hist'[Len(hist')].op = "start" /\ hist'[Len(hist')].i = i /\ ~StartOk(s, i)) => s' = s
                                        /\ (hist' # hist /\ hist'[Len(hist')].op = "stop" /\ hist'[Len(hist')].i = i /\ ~StopOk(s, i)) => s' = s]_vars
\* running objects never start in the future
Causal == \A i \in Insts : s.run[i] => s.t0[i] <= s.clock
\* a running interval bounds what the table can owe: total <= clock * (number of objects with that name)
Bounded == s.tot["a"] <= 2 * s.clock /\ s.tot["b"] = 0
Emit == (EmitMode = "all" /\ Len(hist) = Depth) => PrintT(<<"BEH", ToJson([w |-> hist])>>)
=============================================================================
