---------------------------- MODULE NewtonGlobal ----------------------------
(***************************************************************************)
(* EXTENSION X08 (not a listed property):                                  *)
(* optimism.NewtonSolver.globalized_newton_step as coded:                  *)
(*   r0 = residual(x); s, exit = newton_step(...)   (GMRES)                *)
(*   exit != 0 -> return 0.0                                               *)
(*   for count in range(MaxLS):                                            *)
(*       if E(x+s) < (1 - t(1 - eta)) E(x): return s                       *)
(*       if dE/dtau(0) >= 0: return 0.0                                    *)
(*       theta = compute_min_p(..., [0.01, 0.5]); s *= theta               *)
(*       eta = 1 - theta (1 - eta)                                         *)
(*   return 0.0      (the last cut-back is computed but never tested)      *)
(* Environment: GMRES exit code, outcome of each sufficient-decrease test, *)
(* sign of the slope, and the three inputs of compute_min_p's case         *)
(* analysis.  E = 1/2 |residual|^2.                                        *)
(***************************************************************************)
EXTENDS Integers, Sequences, TLC

CONSTANTS MaxLS
VARIABLES pc,        \* "newton" | "test" | "slope" | "theta" | "done"
          count,     \* cut-backs taken so far
          result,    \* "none" | "step" | "zero"
          why,       \* reason for a zero return
          lastSuff,  \* outcome of the last sufficient-decrease test
          thetas     \* classes of the cut-back factors taken: "lo" (0.01) | "mid" | "hi" (0.5)
vars == <<pc, count, result, why, lastSuff, thetas>>

Init == pc = "newton" /\ count = 0 /\ result = "none" /\ why = "none" /\ lastSuff = FALSE /\ thetas = <<>>

Newton(ok) == /\ pc = "newton"
              /\ IF ok THEN pc' = "test" /\ UNCHANGED <<result, why>>
                       ELSE pc' = "done" /\ result' = "zero" /\ why' = "gmres"
              /\ UNCHANGED <<count, lastSuff, thetas>>
Test(suff) == /\ pc = "test" /\ count < MaxLS
              /\ lastSuff' = suff
              /\ IF suff THEN pc' = "done" /\ result' = "step" /\ UNCHANGED why
                         ELSE pc' = "slope" /\ UNCHANGED <<result, why>>
              /\ UNCHANGED <<count, thetas>>
Exhausted == /\ pc = "test" /\ count = MaxLS
             /\ pc' = "done" /\ result' = "zero" /\ why' = "exhausted"
             /\ UNCHANGED <<count, lastSuff, thetas>>
Slope(neg) == /\ pc = "slope"
              /\ IF neg THEN pc' = "theta" /\ UNCHANGED <<result, why>>
                        ELSE pc' = "done" /\ result' = "zero" /\ why' = "not_descent"
              /\ UNCHANGED <<count, lastSuff, thetas>>
\* compute_min_p(ps, [lo, hi]):  a = E1 - E0 - dE0;  a <= 0 -> lo if E0 < E1 else hi;  else clip(-dE0/(2a), lo, hi)
MinP(aPos, e0lt1, q) == IF ~aPos THEN (IF e0lt1 THEN "lo" ELSE "hi")
                        ELSE CASE q = "below" -> "lo" [] q = "in" -> "mid" [] OTHER -> "hi"
Theta(aPos, e0lt1, q) == /\ pc = "theta"
                         /\ thetas' = Append(thetas, MinP(aPos, e0lt1, q))
                         /\ count' = count + 1 /\ pc' = "test"
                         /\ UNCHANGED <<result, why, lastSuff>>
Next == (\E b \in BOOLEAN : Newton(b) \/ Test(b) \/ Slope(b)) \/ Exhausted
        \/ (\E a, c \in BOOLEAN, q \in {"below", "in", "above"} : Theta(a, c, q))
Spec == Init /\ [][Next]_vars

\* what a caller relies on
StepIsSufficient == result = "step" => lastSuff            \* a returned step passed the decrease test it was last put to
ZeroHasAReason   == result = "zero" => why \in {"gmres", "not_descent", "exhausted"}
CutbacksBounded  == count <= MaxLS /\ Len(thetas) = count
ExhaustedMeansAllFailed == why = "exhausted" => (count = MaxLS /\ ~lastSuff)
Terminates == <>(pc = "done")
=============================================================================
