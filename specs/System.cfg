SPECIFICATION Spec
CONSTANT Steps = 4
INVARIANT SolvedWithPreviousState
INVARIANT OneUpdatePerStep
INVARIANT CommittedBeforeNextSolve
CHECK_DEADLOCK FALSE
