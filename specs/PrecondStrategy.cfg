SPECIFICATION Spec
CONSTANTS
  MaxAttempts = 10
  EmitMode = "all"
INVARIANT FinalIsFirstSuccess
INVARIANT NoNeedlessShift
INVARIANT Emit
CHECK_DEADLOCK FALSE
