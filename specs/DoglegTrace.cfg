SPECIFICATION TSpec
CONSTANTS
  N = 0
  TT = {}
  Root = "plus"
  EmitMode = "none"
INVARIANT Verdict
CHECK_DEADLOCK FALSE
