-------------------------- MODULE FischerBurmeister --------------------------
(* Exact lattice check of the logical core of the augmented-Lagrangian termination test (C04):   *)
(* FB(c,l,k) = sqrt((ck)^2 + l^2) - ck - l vanishes exactly at complementary pairs.               *)
(* In integers: FB = 0  <=>  ck + l >= 0 /\ (ck)^2 + l^2 = (ck + l)^2.                            *)
(* Also the sign structure used by alpha:  FB <= 0  <=>  (ck >= 0 /\ l >= 0).                    *)
EXTENDS Integers
CONSTANT N
VARIABLES c, l, k
vars == <<c, l, k>>
Init == c \in -N..N /\ l \in -N..N /\ k \in 1..3
Next == UNCHANGED vars
Spec == Init /\ [][Next]_vars

Sq(a) == a * a
FBZero == (c * k + l >= 0) /\ (Sq(c * k) + Sq(l) = Sq(c * k + l))
\* sqrt(a) <= b  <=>  b >= 0 /\ a <= b^2
FBNonPos == (c * k + l >= 0) /\ (Sq(c * k) + Sq(l) <= Sq(c * k + l))

ZeroIffComplementary == FBZero <=> (c >= 0 /\ l >= 0 /\ c * l = 0)
NonPosIffBothNonneg  == FBNonPos <=> (c >= 0 /\ l >= 0)
=============================================================================
