#!/bin/sh
# usage: specs/apalache/run_generic.sh <Module.tla> <Invariant that must hold> <negative control that must be refuted>
cd "$(dirname "$0")" || exit 2
# supplementary step: if the tool is not installed, say so and do not fail the (TLC-decided) check
command -v apalache-mc >/dev/null 2>&1 || { echo "APALACHE-SKIP apalache-mc not on PATH"; exit 0; }
OUT=/var/tmp/verif-apalache-g-$$
ok=0
mkdir -p $OUT; export TMPDIR=$OUT
run() { timeout -s KILL 900 apalache-mc check --init=Init --inv=$2 --length=0 --out-dir=$OUT $1 2>&1 | grep -q "EXITCODE: OK"; }
run $1 $2 && echo "APALACHE-OK $1 $2 for all integers" || { echo "APALACHE-FAIL $1 $2"; ok=1; }
run $1 $3 && { echo "APALACHE-FAIL negative control $3 was not refuted"; ok=1; } || echo "APALACHE-OK negative control $3 refuted"
rm -rf $OUT; rmdir tmp 2>/dev/null
exit $ok
