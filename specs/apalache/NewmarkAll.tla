------------------------------ MODULE NewmarkAll ------------------------------
(***************************************************************************)
(* Unbounded companion of Newmark.tla (property C15) for Apalache / Z3:    *)
(* ONE trapezoidal step (beta = 1/4, gamma = 1/2) of  a + k u = 0  from a  *)
(* balanced state, for ALL integer data: displacement U/D, velocity V/D,   *)
(* stiffness k >= 0, step size P/Q.  With denominators cleared:            *)
(*   a  = -k U / D                                 (balanced start)        *)
(*   up = UPn / (4 Q^2 D),  UPn = 4 Q^2 U + 4 P Q V - k P^2 U              *)
(*   u' = UPn / (D M),      M = 4 Q^2 + k P^2      (minimiser)             *)
(*   a' = 4 Q^2 (u' - up) / P^2                    (corrector)             *)
(*   v' = VPn / (2 Q D M),  VPn = (2 Q V - k P U) M - k P UPn              *)
(* TLC checks the same identities on a handful of rationals (Newmark.tla). *)
(***************************************************************************)
EXTENDS Integers
VARIABLES
  \* @type: Int;
  U,
  \* @type: Int;
  V,
  \* @type: Int;
  P,
  \* @type: Int;
  Q,
  \* @type: Int;
  k
M == 4 * Q * Q + k * P * P
UPn == 4 * Q * Q * U + 4 * P * Q * V - k * P * P * U
VPn == (2 * Q * V - k * P * U) * M - k * P * UPn
Init == U \in Int /\ V \in Int /\ P \in Int /\ Q \in Int /\ k \in Int /\ P >= 1 /\ Q >= 1 /\ k >= 0
Next == UNCHANGED <<U, V, P, Q, k>>
\* balance of momentum at the new time:  a' + k u' = 0  with  a' = 4 Q^2 (u' - up)/P^2 ; cleared by D M P^2
Balance == 4 * Q * Q * UPn - UPn * M + k * UPn * P * P = 0
\* energy:  v'^2 + k u'^2 = v^2 + k u^2 ; cleared by (2 Q D M)^2
EnergyConserved == VPn * VPn + 4 * k * Q * Q * UPn * UPn = (V * V + k * U * U) * 4 * Q * Q * M * M
\* free flight (k = 0): u' = u + h v, v' = v
FreeFlight == k = 0 => (UPn = 4 * Q * Q * U + 4 * P * Q * V /\ VPn = 2 * Q * V * M)
All == Balance /\ EnergyConserved /\ FreeFlight
\* negative control: the step does not conserve the kinetic energy alone
NegControl == VPn * VPn = V * V * 4 * Q * Q * M * M
=============================================================================
