---------------------------- MODULE BoxProjectionAll ----------------------------
(* Unbounded companion of BoxProjection.tla (property C05) for Apalache / Z3: the component-wise clamp np.maximum(lb, np.minimum(x, ub)) *)
(* in two dimensions, for ALL integer points and ALL boxes with lb <= ub: the image lies in the box, is idempotent, fixes feasible      *)
(* points and is the Euclidean-nearest point of the box to x among ALL integer box points z (TLC checks |coordinates| <= N).            *)
EXTENDS Integers
VARIABLES
  \* @type: Int;
  x1,
  \* @type: Int;
  x2,
  \* @type: Int;
  l1,
  \* @type: Int;
  l2,
  \* @type: Int;
  u1,
  \* @type: Int;
  u2,
  \* @type: Int;
  z1,
  \* @type: Int;
  z2
Max(a, b) == IF a >= b THEN a ELSE b
Min(a, b) == IF a <= b THEN a ELSE b
Clamp(v, l, u) == Max(l, Min(v, u))
P1 == Clamp(x1, l1, u1)
P2 == Clamp(x2, l2, u2)
Init == /\ x1 \in Int /\ x2 \in Int /\ l1 \in Int /\ l2 \in Int /\ u1 \in Int /\ u2 \in Int /\ z1 \in Int /\ z2 \in Int
        /\ l1 <= u1 /\ l2 <= u2 /\ l1 <= z1 /\ z1 <= u1 /\ l2 <= z2 /\ z2 <= u2
Next == UNCHANGED <<x1, x2, l1, l2, u1, u2, z1, z2>>
InBox == l1 <= P1 /\ P1 <= u1 /\ l2 <= P2 /\ P2 <= u2
Idempotent == Clamp(P1, l1, u1) = P1 /\ Clamp(P2, l2, u2) = P2
FixesFeasible == (l1 <= x1 /\ x1 <= u1 /\ l2 <= x2 /\ x2 <= u2) => (P1 = x1 /\ P2 = x2)
Closest == (x1 - P1) * (x1 - P1) + (x2 - P2) * (x2 - P2) <= (x1 - z1) * (x1 - z1) + (x2 - z2) * (x2 - z2)
All == InBox /\ Idempotent /\ FixesFeasible /\ Closest
\* negative control: the projection never moves a point
NegControl == P1 = x1 /\ P2 = x2
=============================================================================
