-------------------------- MODULE FischerBurmeisterAll --------------------------
(* Unbounded companion of FischerBurmeister.tla (property C04) for Apalache / Z3: for ALL integers c, l and ALL penalties k >= 1  *)
(* FB(c,l,k) = sqrt((ck)^2 + l^2) - ck - l  vanishes exactly at complementary pairs and is non-positive exactly when both are       *)
(* non-negative (TLC checks |c|,|l| <= N, k <= 3).                                                                                  *)
EXTENDS Integers
VARIABLES
  \* @type: Int;
  c,
  \* @type: Int;
  l,
  \* @type: Int;
  k
Init == c \in Int /\ l \in Int /\ k \in Int /\ k >= 1
Next == UNCHANGED <<c, l, k>>
Sq(a) == a * a
FBZero == (c * k + l >= 0) /\ (Sq(c * k) + Sq(l) = Sq(c * k + l))
FBNonPos == (c * k + l >= 0) /\ (Sq(c * k) + Sq(l) <= Sq(c * k + l))
All == /\ (FBZero <=> (c >= 0 /\ l >= 0 /\ c * l = 0))
       /\ (FBNonPos <=> (c >= 0 /\ l >= 0))
\* negative control: FB = 0 already when the product vanishes
NegControl == FBZero <=> (c * l = 0)
=============================================================================
