------------------------------ MODULE PolyMeshAll ------------------------------
(* Unbounded companion of PolyMesh.tla (property C03) for Apalache / Z3: the exact monomial integrals over a triangle are      *)
(* ADDITIVE (area and first moments; the second-moment identities are beyond Z3's non-linear integer arithmetic in minutes and stay with TLC) under splitting the triangle at an arbitrary fourth point d (inside or outside: signed areas), for ALL integer     *)
(* coordinates -- the algebraic core of "independent of the triangulation" that TLC checks on 14 lattice meshes.              *)
(*   2|T| = cross(b - a, c - a) ;  6 int x = 2|T| (xa + xb + xc) ;  24 int x y = 2|T| (sum_i x_i y_i + (sum x)(sum y))            *)
(*   12 int x^2 = 2|T| (xa^2 + xb^2 + xc^2 + xa xb + xb xc + xc xa)                                                            *)
EXTENDS Integers
VARIABLES
  \* @type: Int;
  ax,
  \* @type: Int;
  ay,
  \* @type: Int;
  bx,
  \* @type: Int;
  by,
  \* @type: Int;
  cx,
  \* @type: Int;
  cy,
  \* @type: Int;
  dx,
  \* @type: Int;
  dy
A2(x1, y1, x2, y2, x3, y3) == (x2 - x1) * (y3 - y1) - (x3 - x1) * (y2 - y1)
Mx(x1, y1, x2, y2, x3, y3) == A2(x1, y1, x2, y2, x3, y3) * (x1 + x2 + x3)
Mxx(x1, y1, x2, y2, x3, y3) == A2(x1, y1, x2, y2, x3, y3) * (x1 * x1 + x2 * x2 + x3 * x3 + x1 * x2 + x2 * x3 + x3 * x1)
Mxy(x1, y1, x2, y2, x3, y3) == A2(x1, y1, x2, y2, x3, y3) * (x1 * y1 + x2 * y2 + x3 * y3 + (x1 + x2 + x3) * (y1 + y2 + y3))
Init == ax \in Int /\ ay \in Int /\ bx \in Int /\ by \in Int /\ cx \in Int /\ cy \in Int /\ dx \in Int /\ dy \in Int
Next == UNCHANGED <<ax, ay, bx, by, cx, cy, dx, dy>>
Split(F(_, _, _, _, _, _)) == F(ax, ay, bx, by, cx, cy) = F(ax, ay, bx, by, dx, dy) + F(bx, by, cx, cy, dx, dy) + F(cx, cy, ax, ay, dx, dy)
Additive == Split(A2) /\ Split(Mx)
\* cyclic node order does not matter, reversing it flips the sign
Cyclic == /\ A2(ax, ay, bx, by, cx, cy) = A2(bx, by, cx, cy, ax, ay)
          /\ A2(ax, ay, bx, by, cx, cy) = 0 - A2(ax, ay, cx, cy, bx, by)
All == Additive /\ Cyclic
\* negative control: a wrong second-moment formula (without the mixed terms) is not additive
BadMxx(x1, y1, x2, y2, x3, y3) == A2(x1, y1, x2, y2, x3, y3) * (x1 * x1 + x2 * x2 + x3 * x3)
BadMx(x1, y1, x2, y2, x3, y3) == A2(x1, y1, x2, y2, x3, y3) * (x1 + x2)
NegControl == Split(BadMx)
=============================================================================
