#!/bin/sh
# usage: specs/apalache/run_lu.sh -- inductive proof for the LU preconditioner object (X15) after any number of installs
cd "$(dirname "$0")" || exit 2
command -v apalache-mc >/dev/null 2>&1 || { echo "APALACHE-SKIP apalache-mc not on PATH"; exit 0; }
OUT=/var/tmp/verif-apalache-lu-$$
ok=0
mkdir -p $OUT; export TMPDIR=$OUT
run() { timeout -s KILL 600 apalache-mc check --init=$1 --inv=$2 --length=$3 --out-dir=$OUT LUPrecondInd.tla 2>&1 | grep -q "EXITCODE: OK"; }
run Init IndInv 0 && echo "APALACHE-OK Init => IndInv" || { echo "APALACHE-FAIL Init => IndInv"; ok=1; }
run IndInit IndInv 1 && echo "APALACHE-OK IndInv /\\ Next => IndInv'" || { echo "APALACHE-FAIL induction step"; ok=1; }
run IndInit FactorsUsable 0 && echo "APALACHE-OK IndInv => FactorsUsable" || { echo "APALACHE-FAIL IndInv => FactorsUsable"; ok=1; }
run IndInit AlwaysInSync 0 && { echo "APALACHE-FAIL negative control AlwaysInSync was not refuted"; ok=1; } || echo "APALACHE-OK negative control refuted"
rm -rf $OUT; rmdir tmp 2>/dev/null
exit $ok
