#!/bin/sh
# usage: specs/apalache/run.sh   -- inductive proof of the retry ladder for every cap <= 64 and every success pattern (Apalache)
# prints APALACHE-OK / APALACHE-FAIL lines; exit 0 iff the three obligations hold and the negative control is refuted
cd "$(dirname "$0")" || exit 2
# supplementary step: if the tool is not installed, say so and do not fail the (TLC-decided) check
command -v apalache-mc >/dev/null 2>&1 || { echo "APALACHE-SKIP apalache-mc not on PATH"; exit 0; }
OUT=/var/tmp/verif-apalache-$$
ok=0
mkdir -p $OUT; export TMPDIR=$OUT
run() { timeout -s KILL 900 apalache-mc check --cinit=ConstInit --init=$1 --inv=$2 --length=$3 --out-dir=$OUT LadderInd.tla 2>&1 | grep -q "EXITCODE: OK"; }
run Init IndInv 0 && echo "APALACHE-OK Init => IndInv" || { echo "APALACHE-FAIL Init => IndInv"; ok=1; }
run IndInit IndInv 1 && echo "APALACHE-OK IndInv /\\ Next => IndInv'" || { echo "APALACHE-FAIL induction step"; ok=1; }
run IndInit FinalIsFirstSuccess 0 && echo "APALACHE-OK IndInv => FinalIsFirstSuccess" || { echo "APALACHE-FAIL IndInv => FinalIsFirstSuccess"; ok=1; }
run IndInit NeverIdentity 0 && { echo "APALACHE-FAIL negative control NeverIdentity was not refuted"; ok=1; } || echo "APALACHE-OK negative control refuted"
rm -rf $OUT; rmdir tmp 2>/dev/null
exit $ok
