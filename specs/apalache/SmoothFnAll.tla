----------------------------- MODULE SmoothFnAll -----------------------------
(***************************************************************************)
(* Unbounded companion of SmoothFn.tla (property C18) for Apalache / Z3:   *)
(* the algebra of the smoothed minimum for ALL integers x, y and ALL       *)
(* widths e >= 1 (TLC checks the lattice |x|,|y| <= 2E, e <= E).           *)
(*   inside the band (|x-y| < e):  4e smin = 4e min(x,y) - (e - |x-y|)^2   *)
(*   outside:                      smin = min(x,y)                          *)
(* Obligations (each an invariant of the one-state system Init):           *)
(*   OneSided, Quarter, ContinuousAtSwitch, Symmetric, MaxMirrors.         *)
(***************************************************************************)
EXTENDS Integers

VARIABLES
  \* @type: Int;
  x,
  \* @type: Int;
  y,
  \* @type: Int;
  e

Abs(a) == IF a >= 0 THEN a ELSE 0 - a
Min(a, b) == IF a <= b THEN a ELSE b
Max(a, b) == IF a >= b THEN a ELSE b
\* 4 e smin(a, b)
S4(a, b) == LET d == Abs(a - b) IN
            IF d < e THEN 4 * e * Min(a, b) - (e - d) * (e - d) ELSE 4 * e * Min(a, b)
\* 4 e smax(a, b) = -4 e smin(-a, -b)
X4(a, b) == 0 - S4(0 - a, 0 - b)

Init == x \in Int /\ y \in Int /\ e \in Int /\ e >= 1
Next == UNCHANGED <<x, y, e>>

OneSided == S4(x, y) <= 4 * e * Min(x, y)
Quarter == 4 * e * Min(x, y) - S4(x, y) <= e * e
OutsideEqual == Abs(x - y) >= e => S4(x, y) = 4 * e * Min(x, y)
Symmetric == S4(x, y) = S4(y, x)
MaxMirrors == /\ X4(x, y) >= 4 * e * Max(x, y)
              /\ X4(x, y) - 4 * e * Max(x, y) <= e * e
\* translation invariance smin(x + t, y + t) = smin(x, y) + t, here for t = e and t = -1
Translate == /\ S4(x + e, y + e) = S4(x, y) + 4 * e * e
             /\ S4(x - 1, y - 1) = S4(x, y) - 4 * e
All == OneSided /\ Quarter /\ OutsideEqual /\ Symmetric /\ MaxMirrors /\ Translate
\* negative control: an eighth of the width is NOT a bound
Eighth == 2 * (4 * e * Min(x, y) - S4(x, y)) <= e * e
=============================================================================
