------------------------------ MODULE LadderInd ------------------------------
(***************************************************************************)
(* Unbounded companion of PrecondLadder.tla / PrecondStrategy.tla for      *)
(* Apalache: the retry ladder of SparseCholesky.factorize composed with a  *)
(* strategy, for any cap MaxAttempts in 1..64 and any subset of 0..63 of attempts *)
(* whose matrix is positive definite (TLC checks MaxAttempts = 10).         *)
(* IndInv is inductive and implies "the factorized matrix is the first     *)
(* positive-definite request, else the identity".                          *)
(***************************************************************************)
EXTENDS Integers

CONSTANTS
  \* @type: Int;
  MaxAttempts,
  \* @type: Set(Int);
  Spd              \* attempts whose requested matrix is positive definite

VARIABLES
  \* @type: Int;
  attempt,
  \* @type: Int;
  final,           \* -2 none yet, -1 identity, a >= 0: the matrix of attempt a
  \* @type: Str;
  pc

ConstInit == MaxAttempts \in 1..64 /\ Spd \in SUBSET (0..63)

Init == attempt = 0 /\ final = 0 - 2 /\ pc = "try"
Try == /\ pc = "try" /\ attempt < MaxAttempts
       /\ IF attempt \in Spd
          THEN final' = attempt /\ pc' = "done" /\ UNCHANGED attempt
          ELSE attempt' = attempt + 1 /\ pc' = "try" /\ UNCHANGED final
Fallback == pc = "try" /\ attempt = MaxAttempts /\ final' = 0 - 1 /\ pc' = "done" /\ UNCHANGED attempt
Next == Try \/ Fallback

NoEarlierSuccess == \A b \in Spd : b >= attempt
IndInv ==
  /\ pc \in {"try", "done"} /\ attempt \in 0..MaxAttempts
  /\ NoEarlierSuccess
  /\ (pc = "try" => final = 0 - 2)
  /\ (pc = "done" => \/ (final = attempt /\ attempt \in Spd /\ attempt < MaxAttempts)
                     \/ (final = 0 - 1 /\ attempt = MaxAttempts))
\* the property a caller relies on
FinalIsFirstSuccess ==
  pc = "done" => \/ (final >= 0 /\ final \in Spd /\ final < MaxAttempts /\ \A b \in Spd : b >= final)
                 \/ (final = 0 - 1 /\ \A b \in Spd : b >= MaxAttempts)
\* negative control (must be refuted): the ladder never falls back to the identity
NeverIdentity == pc = "done" => final >= 0
IndInit == pc \in {"try", "done"} /\ attempt \in Int /\ final \in Int /\ IndInv
=============================================================================
