----------------------------- MODULE RayTraceAll -----------------------------
(* Unbounded companion of RayTrace.tla (X09) for Apalache / Z3: for ALL integer edges p -> p + r and rays q + u s with    *)
(* r x s # 0, (tn/den, un/den) solves p + t r = q + u s, translating both changes neither numerator, and reversing the   *)
(* edge maps t to 1 - t (tn -> den' - ... ) while keeping the hit.                                                          *)
EXTENDS Integers
VARIABLES
  \* @type: Int;
  px,
  \* @type: Int;
  py,
  \* @type: Int;
  rx,
  \* @type: Int;
  ry,
  \* @type: Int;
  qx,
  \* @type: Int;
  qy,
  \* @type: Int;
  sx,
  \* @type: Int;
  sy,
  \* @type: Int;
  ax,
  \* @type: Int;
  ay
Cross(a1, a2, b1, b2) == a1 * b2 - a2 * b1
Den == Cross(rx, ry, sx, sy)
Tn(p1, p2) == Cross(qx - p1, qy - p2, sx, sy)
Un(p1, p2, r1, r2) == Cross(qx - p1, qy - p2, r1, r2)
Init == /\ px \in Int /\ py \in Int /\ rx \in Int /\ ry \in Int /\ qx \in Int /\ qy \in Int /\ sx \in Int /\ sy \in Int
        /\ ax \in Int /\ ay \in Int /\ Den # 0
Next == UNCHANGED <<px, py, rx, ry, qx, qy, sx, sy, ax, ay>>
Solves == /\ Den * px + Tn(px, py) * rx = Den * qx + Un(px, py, rx, ry) * sx
          /\ Den * py + Tn(px, py) * ry = Den * qy + Un(px, py, rx, ry) * sy
\* translation of edge and ray by (ax, ay)
Translated == Cross((qx + ax) - (px + ax), (qy + ay) - (py + ay), sx, sy) = Tn(px, py)
\* reversed edge: p2 = p + r, r2 = -r : den2 = -den, tn2 = tn - den (so t2 = 1 - t), un2 / den2 = un / den
Reversed == LET p1 == px + rx  p2 == py + ry  d2 == Cross(0 - rx, 0 - ry, sx, sy) IN
            /\ d2 = 0 - Den
            /\ Cross(qx - p1, qy - p2, sx, sy) = Tn(px, py) - Den
            /\ Cross(qx - p1, qy - p2, 0 - rx, 0 - ry) * Den = Un(px, py, rx, ry) * d2
All == Solves /\ Translated /\ Reversed
\* negative control: u does not depend on the edge's start point
NegControl == Un(px, py, rx, ry) = Un(px + 1, py, rx, ry)
=============================================================================
