---------------------------- MODULE LUPrecondInd ----------------------------
(* Unbounded companion of LUPrecond.tla (X15) for Apalache: the LU preconditioner object after ANY number of installs       *)
(* (TLC checks words of depth 5; the inductive step is checked from every pre-state whose factorizable matrices are among the first 12).  good = set of numbers of the matrices that factorized.  IndInv is inductive and implies   *)
(* the caller-level property FactorsUsable; AlwaysInSync is the negative control (refuted: a failed update leaves the old    *)
(* factors under the new matrix).                                                                                             *)
EXTENDS Integers
VARIABLES
  \* @type: Int;
  cur,
  \* @type: Int;
  fac,
  \* @type: Int;
  n,
  \* @type: Set(Int);
  good,
  \* @type: Bool;
  firstBad
Init == cur = 0 /\ fac = 0 /\ n = 0 /\ good = {} /\ firstBad = FALSE
ConstructGood == n = 0 /\ cur' = 1 /\ fac' = 1 /\ n' = 1 /\ good' = {1} /\ firstBad' = FALSE
ConstructBad == n = 0 /\ cur' = 1 /\ fac' = 0 /\ n' = 1 /\ good' = {} /\ firstBad' = TRUE
UpdateGood == n > 0 /\ cur' = n + 1 /\ fac' = n + 1 /\ n' = n + 1 /\ good' = good \cup {n + 1} /\ UNCHANGED firstBad
UpdateBad == n > 0 /\ cur' = n + 1 /\ fac' = fac /\ n' = n + 1 /\ UNCHANGED <<good, firstBad>>
Next == ConstructGood \/ ConstructBad \/ UpdateGood \/ UpdateBad
IndInv ==
  /\ n >= 0 /\ cur = n /\ fac >= 0 /\ fac <= cur
  /\ \A g \in good : g >= 1 /\ g <= n
  /\ (fac # 0 => fac \in good)
  /\ (fac = 0 /\ n > 0 => firstBad)
  /\ (firstBad => ~(1 \in good))
  /\ \A g \in good : g <= fac              \* the installed factors are those of the LATEST matrix that factorized
\* what a caller relies on: solves use the latest matrix that factorized, or the identity only if the construction failed and nothing factorized since
FactorsUsable == /\ (fac # 0 => fac \in good /\ \A g \in good : g <= fac)
                 /\ (fac = 0 /\ n > 0 => good = {} /\ firstBad)
\* negative control (must be refuted)
AlwaysInSync == n > 0 => (fac = cur \/ fac = 0)
IndInit == cur \in Int /\ fac \in Int /\ n \in Int /\ good \in SUBSET (1..12) /\ firstBad \in BOOLEAN /\ IndInv
=============================================================================
