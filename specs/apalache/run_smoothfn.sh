#!/bin/sh
# usage: specs/apalache/run_smoothfn.sh -- the smoothed-min/max algebra of SmoothFn.tla for ALL integers (Apalache + Z3)
cd "$(dirname "$0")" || exit 2
# supplementary step: if the tool is not installed, say so and do not fail the (TLC-decided) check
command -v apalache-mc >/dev/null 2>&1 || { echo "APALACHE-SKIP apalache-mc not on PATH"; exit 0; }
OUT=/var/tmp/verif-apalache-sf-$$
ok=0
mkdir -p $OUT; export TMPDIR=$OUT
run() { timeout -s KILL 900 apalache-mc check --init=Init --inv=$1 --length=0 --out-dir=$OUT SmoothFnAll.tla 2>&1 | grep -q "EXITCODE: OK"; }
run All && echo "APALACHE-OK OneSided, Quarter, OutsideEqual, Symmetric, MaxMirrors, Translate for all integers x, y and widths e >= 1" || { echo "APALACHE-FAIL All"; ok=1; }
run Eighth && { echo "APALACHE-FAIL negative control Eighth was not refuted"; ok=1; } || echo "APALACHE-OK negative control (an eighth of the width is not a bound) refuted"
rm -rf $OUT; rmdir tmp 2>/dev/null
exit $ok
