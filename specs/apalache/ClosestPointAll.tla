---------------------------- MODULE ClosestPointAll ----------------------------
(* Unbounded companion of ContactGeom.tla (property C16) for Apalache / Z3: the closest-point projection onto a segment      *)
(* a -> a + r is nearest among ALL rational points a + (sn/sd) r of the segment, for ALL integer a, r # 0, p.                  *)
(*   tn = (p - a).r, L = r.r ; t = 0 if tn <= 0, 1 if tn >= L, tn/L otherwise.                                                 *)
(* With w = p - a:  |w - t r|^2 <= |w - s r|^2  for 0 <= s <= 1, cleared of denominators in each of the three cases.           *)
EXTENDS Integers
VARIABLES
  \* @type: Int;
  wx,
  \* @type: Int;
  wy,
  \* @type: Int;
  rx,
  \* @type: Int;
  ry,
  \* @type: Int;
  sn,
  \* @type: Int;
  sd
L == rx * rx + ry * ry
Tn == wx * rx + wy * ry
W2 == wx * wx + wy * wy
Init == /\ wx \in Int /\ wy \in Int /\ rx \in Int /\ ry \in Int /\ sn \in Int /\ sd \in Int
        /\ L >= 1 /\ sd >= 1 /\ sn >= 0 /\ sn <= sd
Next == UNCHANGED <<wx, wy, rx, ry, sn, sd>>
\* sd^2 |w - s r|^2 = sd^2 W2 - 2 sn sd Tn + sn^2 L
Cand == sd * sd * W2 - 2 * sn * sd * Tn + sn * sn * L
Nearest ==
  /\ (Tn <= 0 => sd * sd * W2 <= Cand)                                       \* closest point is a
  /\ (Tn >= L => sd * sd * (W2 - 2 * Tn + L) <= Cand)                          \* closest point is b
  /\ ((Tn > 0 /\ Tn < L) => sd * sd * (L * W2 - Tn * Tn) <= L * Cand)          \* foot of the perpendicular: |w - (Tn/L) r|^2 = W2 - Tn^2/L
\* negative control: the end point a is always nearest
NegControl == sd * sd * W2 <= Cand
=============================================================================
