---------------------------- MODULE CompSumKernels ----------------------------
(* X14: the error-free-transformation claims of optimism/Math.py for EVERY pair (a, b) of toy floats up to MaxIn (one initial  *)
(* state per pair, so a refutation names the pair).  CompSumKernels.cfg uses the Veltkamp factor 2^S + 1; CompSumPrec.cfg    *)
(* uses 2^(S+1), the value `1<<_SPLIT_S + 1` has in Python, and TwoProductExact is REFUTED there (finding F35).               *)
EXTENDS ToyFloat, TLC
CONSTANTS MaxIn
VARIABLES a, b
In == Floats(MaxIn)
Init == a \in In /\ b \in In
Next == UNCHANGED <<a, b>>
Spec == Init /\ [][Next]_<<a, b>>
TwoSumExact == LET t == TwoSum(a, b) IN t[1] + t[2] = a + b /\ t[1] = Fl(a + b) /\ IsFloat(t[2])
SplitExact == LET s == Split(a) IN s[1] + s[2] = a /\ SigBits(s[1]) <= P - S /\ SigBits(s[2]) <= S - 1
SplitSums == LET s == Split(a) IN s[1] + s[2] = a
TwoProductExact == LET t == TwoProduct(a, b) IN t[1] + t[2] = a * b /\ t[1] = Fl(a * b)
=============================================================================
