SPECIFICATION Spec
CONSTANTS
  L = 2
  EmitMode = "all"
INVARIANT Solves
INVARIANT TranslationInvariant
INVARIANT ReversalKeepsHit
INVARIANT Emit
CHECK_DEADLOCK FALSE
