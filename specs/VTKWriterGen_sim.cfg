SPECIFICATION GSpec
CONSTANTS
  Meshes <- MeshesSmall
  Names = {"a", "b", "c"}
  Kinds = {"S", "V", "T"}
  DTypes = {"double", "int", "float"}
  MaxSpheres = 3
  MaxEdgeRows = 5
  EdgeBatches = {1, 2}
  MaxDepth = 12
  EmitMode = "all"
  OkNodal = {TRUE}
  OkCell = {TRUE, FALSE}
CONSTRAINT Bound
INVARIANT TypeOK
INVARIANT EveryFileWellFormed
INVARIANT FileIsFunctionOfState
INVARIANT Emit
PROPERTY Idempotent
CHECK_DEADLOCK FALSE
