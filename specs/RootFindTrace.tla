--------------------------- MODULE RootFindTrace ---------------------------
(* Trace validation for RootFind.tla / RootContract.tla (property C17).      *)
(* Each line of IOEnv.TRACE_FILE is ONE call of the real                     *)
(* optimism.ScalarRootFind.find_root / rtsafe_:                              *)
(*   {"id":n, "mode":"script"|"genuine", "lo":_, "hi":_, "g":_, "T":_,       *)
(*    "R":_, "maxit":_, "ev":[ e1, e2, ... ]}                                *)
(* with events (all fields always present)                                   *)
(*   op="E"  one evaluation of the user function f, in program order:        *)
(*           x abstract abscissa (lattice position | dense rank | -1 NaN |   *)
(*           -2 not on the scripted table), s exact sign of f there          *)
(*           (-1,0,1; 2 = NaN), F, DF the scripted value / slope (script)    *)
(*   op="R"  the return: x, conv, it as returned; stepLt, resLt, stag as     *)
(*           exact as abstracted by the harness from the recorded            *)
(*           evaluations                                                     *)
(*   op="D"  one derivative comparison: cmp in {"EQ","LT","GT","NAN"}        *)
(* mode "script": lattice positions; the mechanism spec is re-run by TLC on  *)
(*   the revealed table and compared step by step (drift_* clauses).         *)
(* mode "genuine": dense ranks of floats; TLC reconstructs the bracket       *)
(*   history from the signs with the spec's own update rule.                 *)
(* Contract clauses (RootContract) are the only ones that can raise a        *)
(* violation.  Verdicts are total.                                           *)
EXTENDS RootFind, Sequences, TLC, Json, IOUtils

Traces == ndJsonDeserialize(IOEnv.TRACE_FILE)
NT == Len(Traces)

VARIABLES tid, l, viol,
          offt,     \* an evaluation left the scripted table: the environment is undefined there
          early     \* the real loop went on although the spec had converged / stopped
tvars == <<vars, tid, l, viol, offt, early>>

Tr == Traces[tid]
Script == Tr.mode = "script"

\* ---- expected next iterate of the mechanism spec from the current (spec) state
Expected ==
  IF root = NaN THEN [x |-> NaN, dx |-> 0, stag |-> FALSE]
  ELSE IF UseBisect(root, xl, xh, F, DF, dxOld)
       THEN IF BisectOK(xl, xh) THEN StepB(xl, xh) ELSE [x |-> 0 - 2, dx |-> 0, stag |-> FALSE]
       ELSE IF F = 0 /\ DF = 0 THEN [x |-> NaN, dx |-> 0, stag |-> FALSE]
       ELSE IF NewtonOK(F, DF) THEN StepN(root, F, DF) ELSE [x |-> 0 - 2, dx |-> 0, stag |-> FALSE]

\* ---- clauses per event; anything not applicable to the event is TRUE
EvalClauses(e) ==
  [ drift_eval_order   |-> (l = 0 => e.x = Tr.lo) /\ (l = 1 => e.x = Tr.hi),
    drift_x0           |-> (l = 2) => e.x = X0(fl, fh, Tr.g, Tr.lo, Tr.hi),
    drift_iterate      |-> (l >= 3 /\ Script) => (e.x = Expected.x /\ ~conv /\ i < Tr.maxit),
    drift_iter_in_bracket |-> (l >= 3 /\ ~Script /\ e.x # NaN /\ root # NaN /\ xh # NaN)
                                => (Min(xl, xh) <= e.x /\ e.x <= Max(xl, xh)),
    drift_offtable     |-> e.x # 0 - 2 ]

ReturnClauses(e) ==
  LET o  == [x |-> e.x, stepLt |-> e.stepLt, resLt |-> e.resLt, stag |-> e.stag, exact |-> e.exact]
      cc == ContractClauses(fl, fh, Tr.lo, Tr.hi, o)
      judge == /\ ~(Script /\ offt)      \* scripted environment undefined off the table: no verdict
               /\ fl \in {0 - 1, 0, 1} /\ fh \in {0 - 1, 0, 1}   \* f is NaN at an end point: not a function on the bracket
  IN [ bracketed_in_bracket   |-> judge => cc.bracketed_in_bracket,
       bracketed_meets_tol    |-> judge => cc.bracketed_meets_tol,
       endpoint_root_returned |-> judge => cc.endpoint_root_returned,
       no_sign_change_nan     |-> judge => cc.no_sign_change_nan,
       drift_result |-> /\ e.it = i
                        /\ (e.conv <=> e.x # NaN)
                        /\ (e.x # NaN => e.x = root)
                        /\ Script => (e.conv = conv /\ (conv \/ i = Tr.maxit) /\ ~early) ]

DerivClauses(e) == [ ift_derivative |-> DerivativeClause(e.cmp) ]

Failing(cl) == {c \in DOMAIN cl : ~cl[c]}

TInit ==
  /\ tid = 1 /\ l = 0 /\ viol = {} /\ offt = FALSE /\ early = FALSE
  /\ b0 = 0 /\ b1 = 0 /\ fl = 0 /\ fh = 0 /\ guess = 0 /\ T = 0 /\ R = 0
  /\ root = NaN /\ dx = 0 /\ dxOld = 0 /\ F = 0 /\ DF = 0 /\ xl = 0 /\ xh = 0 /\ conv = FALSE /\ i = 0
  /\ stag = FALSE /\ sxl = 0 /\ sxh = 0 /\ pc = "loop"

\* fl, fh hold the SIGNS of f at the bracket ends (that is all the contract and X0 need)
EvalStep(e) ==
  /\ viol' = viol \cup { <<Tr.id, l + 1, c>> : c \in Failing(EvalClauses(e)) }
  /\ offt' = (offt \/ e.x = 0 - 2)
  /\ UNCHANGED <<guess, sxl, sxh, pc>>
  /\ CASE l = 0 -> /\ fl' = e.s /\ b0' = Tr.lo /\ b1' = Tr.hi /\ T' = Tr.T /\ R' = Tr.R
                   /\ UNCHANGED <<fh, root, dx, dxOld, F, DF, xl, xh, conv, i, stag, early>>
       [] l = 1 -> /\ fh' = e.s
                   /\ UNCHANGED <<fl, b0, b1, T, R, root, dx, dxOld, F, DF, xl, xh, conv, i, stag, early>>
       [] l = 2 -> /\ root' = e.x /\ F' = e.F /\ DF' = e.DF
                   /\ xl' = IF fl < 0 THEN b0 ELSE b1
                   /\ xh' = IF fl < 0 THEN b1 ELSE b0
                   /\ dx' = b1 - b0 /\ dxOld' = b1 - b0
                   /\ conv' = (fl = 0 \/ fh = 0 \/ (StopOnExactRoot /\ e.x >= 0 /\ e.s = 0)) /\ i' = 0 /\ stag' = FALSE
                   /\ UNCHANGED <<fl, fh, b0, b1, T, R, early>>
       [] OTHER -> LET ex == Expected
                       m  == (e.x = ex.x)
                       ndx == IF Script /\ m THEN ex.dx
                              ELSE IF e.x >= 0 /\ root >= 0 THEN e.x - root ELSE 0
                       nst == IF Script /\ m THEN ex.stag ELSE (e.x >= 0 /\ e.x = root)
                   IN /\ root' = e.x /\ F' = e.F /\ DF' = e.DF
                      /\ dxOld' = dx /\ dx' = ndx /\ stag' = nst
                      /\ xl' = IF e.s < 0 THEN e.x ELSE xl          \* the spec's bracket update rule
                      /\ xh' = IF e.s < 0 THEN xh ELSE e.x
                      /\ i' = i + 1
                      /\ early' = (early \/ conv \/ (Script /\ i >= Tr.maxit))
                      /\ conv' = IF ~Script THEN FALSE
                                 ELSE (e.x >= 0 /\ (nst \/ Abs(ndx) < T \/ Abs(e.F) < R \/ (StopOnExactRoot /\ e.F = 0)))
                      /\ UNCHANGED <<fl, fh, b0, b1, T, R>>

OtherStep(e) ==
  /\ viol' = viol \cup { <<Tr.id, l + 1, c>> :
                           c \in Failing(IF e.op = "R" THEN ReturnClauses(e) ELSE DerivClauses(e)) }
  /\ UNCHANGED <<vars, offt, early>>

Step ==
  /\ tid <= NT /\ l < Len(Tr.ev)
  /\ LET e == Tr.ev[l + 1] IN IF e.op = "E" THEN EvalStep(e) ELSE OtherStep(e)
  /\ l' = l + 1 /\ tid' = tid

NextTrace ==
  /\ tid <= NT /\ l = Len(Tr.ev)
  /\ tid' = tid + 1 /\ l' = 0 /\ viol' = viol /\ offt' = FALSE /\ early' = FALSE
  /\ b0' = 0 /\ b1' = 0 /\ fl' = 0 /\ fh' = 0 /\ guess' = 0 /\ T' = 0 /\ R' = 0
  /\ root' = NaN /\ dx' = 0 /\ dxOld' = 0 /\ F' = 0 /\ DF' = 0 /\ xl' = 0 /\ xh' = 0 /\ conv' = FALSE
  /\ i' = 0 /\ stag' = FALSE /\ sxl' = 0 /\ sxh' = 0 /\ pc' = "loop"

TNext == Step \/ NextTrace
TSpec == TInit /\ [][TNext]_tvars

Done == tid > NT
Verdict == Done => PrintT(<<"VERDICT", ToJson([n |-> NT, viol |-> viol])>>)
=============================================================================
