SPECIFICATION Spec
CONSTANTS
  MaxSteps = 3
  EmitMode = "all"
  PresentSets <- PresentQuick
INVARIANT ReverseOrder
INVARIANT AllReversed
INVARIANT OperatorAtSavedParams
INVARIANT Routing
INVARIANT NoCotForAppOrDynamic
INVARIANT Emit
CHECK_DEADLOCK FALSE
