----------------------------- MODULE TREigenTrace -----------------------------
(* Validates observations of the REAL optimism.treigen.treigen.solve against TREigen.tla.                   *)
(* One line per call:                                                                                      *)
(*  {"id":n, "lmin":"pos"|"zero"|"neg", "perp":b, "pn":code|"INF", "symB":b     input class (alpha, numpy)  *)
(*   "finite":b, "nrm":"in"|"on"|"out", "stat":b, "lam":"zero"|"lam0"|"above"|"below",   certificate flags   *)
(*   "mcmp":code   model value of the returned step versus the dense secular-equation reference}            *)
EXTENDS TREigen, Sequences, Json, IOUtils

Traces == ndJsonDeserialize(IOEnv.TRACE_FILE)
NT == Len(Traces)
VARIABLES tid, viol
xvars == <<tvars, tid, viol>>

Clauses(t) ==
  LET o == Traces[t] IN
  [ tre_finite      |-> o.finite,
    tre_inside      |-> o.finite => o.nrm # "out",
    \* "returns a global minimiser": value not above the minimum over the ball ...
    tre_global_min  |-> o.finite => o.mcmp \in {"LT", "EQ"},
    \* ... equivalently the More-Sorensen certificate holds for the returned step
    tre_certificate |-> o.finite => GlobalMinimiser([stat |-> o.stat, lmin |-> o.lmin, lam |-> o.lam, nrm |-> o.nrm]),
    \* mechanism: the case the spec selects for this input class puts the step where it was observed
    drift_case      |-> (o.finite /\ o.id < 9000000) =>            \* ids >= 9000000: corrupted copies (binding self-test)
                                    \/ "interior" \in Cases(o.lmin, o.pn) /\ o.nrm = "in"
                                    \/ Cases(o.lmin, o.pn) \cap {"hard", "secular"} # {} /\ o.nrm = "on" ]
ClauseNames == {"tre_finite", "tre_inside", "tre_global_min", "tre_certificate", "drift_case"}

\* the spec's own run on the observed input class (advances the design spec next to the observation)
Load(t) ==
  IF t <= NT
  THEN /\ lmin' = Traces[t].lmin /\ perp' = Traces[t].perp /\ pn' = Traces[t].pn /\ symB' = Traces[t].symB
  ELSE UNCHANGED <<lmin, perp, pn, symB>>

TInit == /\ tid = 1 /\ viol = {}
         /\ pc = "call" /\ case = "none" /\ lam = "zero" /\ stat = FALSE /\ nrm = "in"
         /\ IF NT >= 1 THEN /\ lmin = Traces[1].lmin /\ perp = Traces[1].perp /\ pn = Traces[1].pn /\ symB = Traces[1].symB
                       ELSE /\ lmin = "pos" /\ perp = FALSE /\ pn = "LT" /\ symB = FALSE
Step == /\ tid <= NT
        /\ LET cl == Clauses(tid) IN viol' = viol \cup { <<Traces[tid].id, 1, c>> : c \in {c \in ClauseNames : ~cl[c]} }
        /\ tid' = tid + 1
        /\ Load(tid + 1)
        /\ UNCHANGED <<pc, case, lam, stat, nrm>>
TSpec == TInit /\ [][Step]_xvars
Done == tid > NT
Verdict == Done => PrintT(<<"VERDICT", ToJson([n |-> NT, viol |-> viol])>>)
===============================================================================
