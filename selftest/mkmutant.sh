#!/bin/sh
# usage: selftest/mkmutant.sh <name> <file relative to repo> <python regex-free old string> <new string>
# writes selftest/mutants/<name>.patch
N=$1; F=$2
D=/var/tmp/verif-mk-$$; mkdir -p $D/a/$(dirname $F) $D/b/$(dirname $F)
cp /repo/$F $D/a/$F; cp /repo/$F $D/b/$F
OLD="$3" NEW="$4" python3 - "$D/b/$F" <<'PY'
import os,sys
p=sys.argv[1]; s=open(p).read(); o=os.environ['OLD']; n=os.environ['NEW']
assert s.count(o)>=1, "old string not found"
open(p,'w').write(s.replace(o,n,1))
PY
[ $? = 0 ] || { rm -rf $D; exit 2; }
(cd $D && diff -u a/$F b/$F) > "$(dirname "$0")/mutants/$N.patch"
rm -rf $D; echo "wrote $N.patch"
