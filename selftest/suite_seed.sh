#!/bin/sh
# usage: selftest/suite_seed.sh <seed name under seeded/>
# Runs the repository's pinned test command (/root/.vp/BASELINE.json) on a scratch copy of /repo with the seeded patch
# applied and compares the passing set with the baseline's stable_pass list.  Records the outcome in meta.json.
NAME=$1
cd "$(dirname "$0")/.." || exit 2
D=/var/tmp/verif-suite-$NAME-$$
rsync -a --exclude .git /repo/ $D/ || exit 2
P=$(readlink -f seeded/$NAME/patch.diff); (cd $D && patch -p1 -s < "$P") || { echo "PATCH-FAILED"; rm -rf $D; exit 2; }
(cd $D && /venv/bin/python -m pytest -ra -q -p no:cacheprovider --timeout=900 --continue-on-collection-errors --junitxml=$D/junit.xml > $D/pytest.log 2>&1)
python3 - "$D/junit.xml" "seeded/$NAME/meta.json" "$NAME" <<'PY'
import json,sys,xml.etree.ElementTree as ET
junit,meta,name=sys.argv[1:4]
base=set(json.load(open('/root/.vp/BASELINE.json'))['stable_pass'])
passed=set()
for tc in ET.parse(junit).getroot().iter('testcase'):
    if not any(ch.tag in('failure','error','skipped') for ch in tc):
        passed.add(tc.get('classname')+'::'+tc.get('name'))
missing=sorted(base-passed)
m=json.load(open(meta)); m['baseline_tests_pass_with_patch']=(not missing); m['baseline_tests_missing']=missing[:10]
m['baseline_tests_checked']=len(base)
json.dump(m,open(meta,'w'),indent=1)
print("SUITE %s baseline=%d passed_of_baseline=%d missing=%s"%(name,len(base),len(base&passed),missing[:5]))
PY
rm -rf $D
