#!/bin/sh
# usage: selftest/verify_seed.sh <PID> <seed-out-dir> [name]
# Confirms an independently written breaking change: demo fails with the patch and passes without it, then runs check PID
# against a scratch copy with the patch (never touches /repo).  Stores everything under /verif/seeded/<name>/.
PID=$1; SRC=$2; NAME=${3:-$PID}
cd "$(dirname "$0")/.." || exit 2
DST=seeded/$NAME; mkdir -p $DST
cp $SRC/patch.diff $DST/patch.diff; cp $SRC/demo.py $DST/demo.py
[ -d $SRC/sksparse ] && cp -r $SRC/sksparse $DST/ 2>/dev/null
D=/var/tmp/verif-seed-$$
rsync -a --exclude .git /repo/ $D/ || exit 2
P=$(readlink -f $DST/patch.diff); (cd $D && patch -p1 -s < "$P") || { echo "PATCH-FAILED"; rm -rf $D; exit 2; }
(cd $DST && PYTHONPATH=$D timeout 900 /venv/bin/python demo.py > /var/tmp/seed-demo-with-$$.log 2>&1); rc_with=$?
(cd $DST && PYTHONPATH=/repo timeout 900 /venv/bin/python demo.py > /var/tmp/seed-demo-without-$$.log 2>&1); rc_without=$?
OPTIMISM_SRC=$D VERIF_EVIDENCE_DIR=/var/tmp/verif-seed-ev-$$ ./check $PID --tier quick > /var/tmp/seed-check-$$.log 2>&1; rc=$?
clauses=$(grep '^VIOLATION' /var/tmp/seed-check-$$.log | sed 's/.*clause=//' | sort | uniq -c | tr '\n' ';')
echo "SEED $NAME demo_with_patch_rc=$rc_with demo_without_rc=$rc_without check=$PID rc=$rc clauses=[$clauses]"
python3 - "$DST" "$PID" "$rc_with" "$rc_without" "$rc" "$clauses" <<'PY'
import json,sys,os
dst,pid,rw,rwo,rc,cl=sys.argv[1:7]
m={}
p=os.path.join(dst,'meta.json')
if os.path.exists(p): m=json.load(open(p))
m.update(dict(property=pid, demo_exit_with_patch=int(rw), demo_exit_without_patch=int(rwo),
  ran=["demo.py with the patch applied to a scratch copy of /repo (PYTHONPATH)", "demo.py against unmodified /repo", "./check %s --tier quick with OPTIMISM_SRC=<scratch copy>"%pid],
  check_exit=int(rc), check_failing_clauses=cl, detected=(int(rc)==1)))
json.dump(m,open(p,'w'),indent=1)
PY
[ "$rc" = 2 ] && tail -5 /var/tmp/seed-check-$$.log
rm -rf $D /var/tmp/seed-demo-with-$$.log /var/tmp/seed-demo-without-$$.log /var/tmp/seed-check-$$.log /var/tmp/verif-seed-ev-$$
