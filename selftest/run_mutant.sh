#!/bin/sh
# usage: selftest/run_mutant.sh <patch file> <PID> [tier]   -- runs check PID against a scratch copy of /repo with the patch applied
# expects exit 1 + VIOLATION line.  Scratch copy is removed afterwards.  /repo itself is never touched.
P=$(readlink -f "$1"); PID=$2; TIER=${3:-quick}
D=/var/tmp/verif-mut-$$
rsync -a --exclude .git /repo/ $D/ || exit 2
(cd $D && patch -p1 -s < "$P") || { echo "PATCH-FAILED $P"; rm -rf $D; exit 2; }
cd "$(dirname "$0")/.." || exit 2
OPTIMISM_SRC=$D VERIF_EVIDENCE_DIR=/var/tmp/verif-mut-ev-$$ ./check $PID --tier $TIER > /var/tmp/verif-mut-$$.log 2>&1
rc=$?
nv=$(grep -c '^VIOLATION' /var/tmp/verif-mut-$$.log)
echo "MUTANT $(basename $P) check=$PID rc=$rc violations=$nv $(grep '^VIOLATION' /var/tmp/verif-mut-$$.log | sed 's/.*clause=//' | sort | uniq -c | tr '\n' ' ')"
[ "$rc" = 2 ] && tail -5 /var/tmp/verif-mut-$$.log
rm -rf $D /var/tmp/verif-mut-$$.log /var/tmp/verif-mut-ev-$$
[ "$rc" = 1 ]
