"""Dense stand-in for sksparse.cholmod (absent in this sandbox).

Only what optimism.SparseCholesky uses: analyze(A, mode, ordering_method) -> Factor,
Factor.cholesky_inplace(A), Factor.__call__(b), and CholmodNotPositiveDefiniteError.
Part of the trusted base of the solver checks (C01, C04, C05, C07, C19).
"""
import numpy as np
import scipy.linalg


class CholmodError(Exception):
    pass


class CholmodNotPositiveDefiniteError(CholmodError):
    pass


class Factor:
    def __init__(self):
        self._c = None

    def cholesky_inplace(self, A, beta=0):
        Ad = np.asarray(A.todense()) if hasattr(A, "todense") else np.asarray(A)
        Ad = Ad + beta * np.eye(Ad.shape[0])
        try:
            self._c = scipy.linalg.cho_factor(Ad, lower=True, check_finite=True)
        except (np.linalg.LinAlgError, ValueError) as e:
            raise CholmodNotPositiveDefiniteError(str(e))

    def cholesky(self, A, beta=0):
        f = Factor()
        f.cholesky_inplace(A, beta)
        return f

    def __call__(self, b):
        return scipy.linalg.cho_solve(self._c, np.asarray(b))

    solve_A = __call__


def analyze(A, mode="auto", ordering_method="default", use_long=None):
    return Factor()


def cholesky(A, beta=0, mode="auto", ordering_method="default", use_long=None):
    f = Factor()
    f.cholesky_inplace(A, beta)
    return f
