"""Shared plumbing for all checks: paths, seeds, evidence, VIOLATION / KNOWN-FINDING reporting.

Exit codes used by every check:
  0  property held on everything explored (possibly with KNOWN-FINDING lines)
  1  violation of a contract clause demonstrated on the real code (VIOLATION line printed)
  2  machinery failure (TLC error, parse error, vacuity, harness exception)
"""
import json
import os
import sys
import time
import hashlib

VERIF = os.path.dirname(os.path.dirname(os.path.abspath(__file__)))
SPECS = os.path.join(VERIF, "specs")
EVIDENCE = os.environ.get("VERIF_EVIDENCE_DIR", os.path.join(VERIF, "evidence"))   # selftest redirects it
REPLAYS = os.path.join(VERIF, "replays") if "VERIF_EVIDENCE_DIR" not in os.environ else os.path.join(os.environ["VERIF_EVIDENCE_DIR"], "replays")
KNOWN = os.path.join(VERIF, "KNOWN_FINDINGS.json")
REPO = os.environ.get("OPTIMISM_SRC", "/repo")


def setup_paths():
    """Make `import optimism` resolve to the tree under test and `sksparse` to the dense shim."""
    shim = os.path.join(VERIF, "harness", "shims")
    for p in (shim, REPO):
        if p in sys.path:
            sys.path.remove(p)
    sys.path.insert(0, REPO)
    try:
        import sksparse.cholmod  # noqa: F401  (a real install wins over the shim)
    except Exception:
        sys.path.insert(1, shim)
    os.environ.setdefault("JAX_PLATFORMS", "cpu")


def seed():
    return int(os.environ.get("VERIF_SEED", "0"))


def tier(argv_tier=None):
    t = argv_tier or os.environ.get("VERIF_TIER", "quick")
    return t if t in ("quick", "thorough") else "quick"


def scratch(name):
    """Per-process scratch directory (outside /repo and /verif); caller removes it."""
    base = os.environ.get("VERIF_SCRATCH", "/var/tmp/verif-scratch")
    d = os.path.join(base, "%s-%d" % (name, os.getpid()))
    os.makedirs(d, exist_ok=True)
    return d


def load_known():
    # VERIF_IGNORE_KNOWN=1 is a diagnosis aid (selftests / triage of a candidate repair): every failure is then reported
    if not os.path.exists(KNOWN) or os.environ.get("VERIF_IGNORE_KNOWN") == "1":
        return []
    with open(KNOWN) as f:
        return json.load(f).get("findings", [])


class Reporter:
    """Collects contract-clause failures, classifies them against KNOWN_FINDINGS.json,
    writes replay files, prints VIOLATION / KNOWN-FINDING lines and the evidence file."""

    def __init__(self, pid, tier_, level="model_checking"):
        self.pid = pid
        self.tier = tier_
        self.level = level
        self.t0 = time.time()
        self.violations = []   # (clause, case, replay path)
        self.known_hits = {}   # finding id -> count
        self.known = [k for k in load_known() if k.get("property") == pid and k.get("status") == "known"]
        self.coverage = {"states": 0, "transitions": 0, "traces_validated_against_impl": 0,
                         "samples": [], "tlc_runs": [], "clauses_evaluated": {},
                         "mechanism_drift": 0}
        self.assumptions = []
        self.machinery_errors = []

    # ---- coverage helpers
    def add_tlc(self, res, label=None):
        self.coverage["states"] += res.distinct
        self.coverage["transitions"] += res.generated
        self.coverage["tlc_runs"].append({"label": label or res.label, "spec": res.spec, "cfg": res.cfg,
                                          "mode": res.mode, "distinct_states": res.distinct,
                                          "states_generated": res.generated, "depth": res.depth,
                                          "wall_s": round(res.wall, 2),
                                          "actions_covered": res.action_counts})

    def add_traces(self, n):
        self.coverage["traces_validated_against_impl"] += n

    def count_clause(self, clause, n=1):
        c = self.coverage["clauses_evaluated"]
        c[clause] = c.get(clause, 0) + n

    def sample(self, s, cap=6):
        if len(self.coverage["samples"]) < cap:
            self.coverage["samples"].append(s)

    def drift(self, n=1):
        self.coverage["mechanism_drift"] += n

    # ---- failures
    def match_known(self, clause, case):
        for k in self.known:
            sig = k.get("signature", {})
            if sig.get("clause") not in (None, clause):
                continue
            want = sig.get("case", {})
            if all(case.get(a) == b for a, b in want.items()):
                return k
        return None

    def fail(self, clause, case, detail=None):
        """Record a contract-clause failure on the real code. `case` is a JSON-able dict that
        identifies the concrete inputs (enough to re-run)."""
        k = self.match_known(clause, case)
        if k is not None:
            self.known_hits[k["id"]] = self.known_hits.get(k["id"], 0) + 1
            return "known"
        os.makedirs(REPLAYS, exist_ok=True)
        blob = json.dumps({"property": self.pid, "clause": clause, "case": case, "detail": detail},
                          sort_keys=True, default=str)
        h = hashlib.sha1(blob.encode()).hexdigest()[:12]
        path = os.path.join(REPLAYS, "%s-%s-%s.json" % (self.pid, clause.replace(" ", "_")[:40], h))
        if len(self.violations) < 50:
            with open(path, "w") as f:
                f.write(blob)
        self.violations.append((clause, case, path))
        return "violation"

    def machinery(self, msg):
        self.machinery_errors.append(msg)

    # ---- finish
    def finish(self, rule="", extra=None, exhaustive=None):
        cov = self.coverage
        cov["rule"] = rule
        if exhaustive is not None:
            cov["exhaustive"] = bool(exhaustive)
        cov["known_findings_hit"] = self.known_hits
        if extra:
            cov.update(extra)
        if not cov["samples"]:
            cov["samples"] = ["(no sample recorded)"]
        if cov["transitions"] == 0:
            # trace-only checks (no design run): the TLC runs are the trace-specification runs; count their states
            tr = [r for r in cov["tlc_runs"] if str(r.get("label", "")).startswith("trace:")]
            cov["transitions"] = int(sum(r.get("states_generated", 0) for r in tr))
            cov["states"] = cov["states"] or cov["transitions"]
            if tr:
                cov["states_counted_from"] = "trace-specification runs (this check has no design run)"
        # generic keys as well (measured): evaluations = total clause evaluations
        cov["evaluations"] = int(sum(cov["clauses_evaluated"].values()))
        ev = {"property_id": self.pid, "tier": self.tier, "seed": seed(), "level": self.level,
              "coverage": cov, "assumptions": self.assumptions,
              "wall_s": round(time.time() - self.t0, 2), "violations": len(self.violations)}
        if self.machinery_errors:
            ev["coverage"]["machinery_errors"] = self.machinery_errors[:20]
        os.makedirs(EVIDENCE, exist_ok=True)
        with open(os.path.join(EVIDENCE, self.pid + ".json"), "w") as f:
            json.dump(ev, f, indent=1, default=str)
        for k in self.known:
            if k["id"] in self.known_hits:
                print("KNOWN-FINDING: property=%s %s (%s; %d occurrence(s) this run)"
                      % (self.pid, k["what"], k["id"], self.known_hits[k["id"]]))
        seen = set()
        for clause, case, path in self.violations:
            if path in seen:
                continue
            seen.add(path)
            if len(seen) <= 20:
                print("VIOLATION property=%s replay=%s clause=%s" % (self.pid, path, clause))
        if self.violations:
            print("%s: %d contract violation(s) in %d distinct case(s)" % (self.pid, len(self.violations), len(seen)))
            return 1
        if self.machinery_errors:
            for m in self.machinery_errors[:20]:
                print("MACHINERY-ERROR %s: %s" % (self.pid, m))
            return 2
        print("%s: OK tier=%s states=%d traces=%d clauses=%d wall=%.1fs" % (
            self.pid, self.tier, cov["states"], cov["traces_validated_against_impl"],
            cov["evaluations"], time.time() - self.t0))
        return 0
