"""Recording / scripting proxies around optimism.Objective (no source hooks needed).

ObjectiveProxy forwards every attribute (including assignment of .p) to a real Objective, logs the calls the
solvers make, and can answer value(x) from a script of reduction-ratio classes (the 'value oracle' of
DESIGN.md 2.1(B)): gradient / hessian_vec / preconditioner stay genuine.
"""
import numpy as onp


def _fp(p):
    """content fingerprint of the bc slot of a Params tuple (identifies load steps across JAX re-wrapping)"""
    try:
        return onp.asarray(p[0], dtype=onp.float64).tobytes()
    except Exception:
        return b""


def _key(x):
    return onp.asarray(x, dtype=onp.float64).tobytes()


class ObjectiveProxy:
    _own = ("_real", "_script", "_memo", "_log", "_cur", "_cur_val", "_last_hv", "_settings", "_n_scripted",
            "_measure", "_default_rho", "_trial_info", "_cur_x", "_last_op")

    def __init__(self, real, settings=None, script=None, measure=None, default_rho=1.0):
        object.__setattr__(self, "_real", real)
        object.__setattr__(self, "_script", list(script) if script is not None else None)
        object.__setattr__(self, "_memo", {})
        object.__setattr__(self, "_log", [])
        object.__setattr__(self, "_cur", None)
        object.__setattr__(self, "_cur_val", None)
        object.__setattr__(self, "_last_hv", None)
        object.__setattr__(self, "_settings", settings)
        object.__setattr__(self, "_n_scripted", 0)
        object.__setattr__(self, "_measure", measure)      # optimality measure (x, g) -> residual vector
        object.__setattr__(self, "_default_rho", default_rho)
        object.__setattr__(self, "_trial_info", [])
        object.__setattr__(self, "_cur_x", None)
        object.__setattr__(self, "_last_op", None)

    # ---- transparent forwarding
    def __getattr__(self, name):
        return getattr(object.__getattribute__(self, "_real"), name)

    def __setattr__(self, name, val):
        if name in ObjectiveProxy._own:
            object.__setattr__(self, name, val)
        else:
            if name == "p":
                self._log.append(("set_p", id(val), _fp(val)))
            setattr(self._real, name, val)

    # ---- logged calls
    def gradient(self, x):
        self._last_op = "gradient"
        self._log.append(("gradient", _key(x)))
        return self._real.gradient(x)

    def hessian_vec(self, x, v):
        r = self._real.hessian_vec(x, v)
        if not self._log or self._log[-1][0] != "hessian_vec":
            self._log.append(("hessian_vec", id(self._real.p)))
        self._last_op = "hv"
        self._last_hv = (x, v, r)
        return r

    def hessian(self, x):
        self._log.append(("hessian", _key(x), onp.array(x)))
        return self._real.hessian(x)

    def update_precond(self, x):
        self._log.append(("update_precond", id(self._real.p)))
        return self._real.update_precond(x)

    def vec_jacobian_p0(self, x, v):
        self._log.append(("vec_jac", 0, id(self._real.p), _fp(self._real.p)))
        return self._real.vec_jacobian_p0(x, v)

    def vec_jacobian_p1(self, x, v):
        self._log.append(("vec_jac", 1, id(self._real.p), _fp(self._real.p)))
        return self._real.vec_jacobian_p1(x, v)

    def vec_jacobian_p2(self, x, v):
        self._log.append(("vec_jac", 2, id(self._real.p), _fp(self._real.p)))
        return self._real.vec_jacobian_p2(x, v)

    def vec_jacobian_p4(self, x, v):
        self._log.append(("vec_jac", 4, id(self._real.p), _fp(self._real.p)))
        return self._real.vec_jacobian_p4(x, v)

    def jacobian_p_vec(self, x, vp):
        self._log.append(("jacobian_p_vec", id(self._real.p)))
        return self._real.jacobian_p_vec(x, vp)

    def jacobian_p2_vec(self, x, vp):
        self._log.append(("jacobian_p2_vec", id(self._real.p)))
        return self._real.jacobian_p2_vec(x, vp)

    def value(self, x):
        import jax.numpy as np
        k = _key(x)
        last_op, self._last_op = self._last_op, "value"
        if k in self._memo:
            v = self._memo[k]
            if self._cur is not None and k != self._cur:
                if last_op == "gradient":
                    # value(x) right after gradient(trial point), no new step in between:
                    # the solver accepted the trial point and re-evaluates the objective there
                    self._cur, self._cur_val, self._cur_x = k, v, np.array(x)
                    self._log.append(("accept", k))
                else:
                    # the same trial point proposed again (e.g. an interior Newton step after the
                    # radius shrank): same answer, logged as a trial, no script item consumed
                    xc = self._cur_x
                    d = x - xc
                    model = self._real.gradient(xc) @ d + 0.5 * (d @ self._real.hessian_vec(xc, d))
                    self._log.append(("trial", k, dict(code="repeat", model=float(model), cur=float(self._cur_val),
                                                       v=float(v), x=onp.array(x), xc=onp.array(xc))))
            return v
        if self._cur is None:
            v = self._real.value(x)
            self._memo[k] = v
            self._cur, self._cur_val, self._cur_x = k, v, np.array(x)
            self._log.append(("start_value", k))
            return v
        # a new point: a trial.  model change recomputed here from genuine derivatives
        xc = self._cur_x
        d = x - xc
        g = self._real.gradient(xc)
        model = g @ d + 0.5 * (d @ self._real.hessian_vec(xc, d))
        code = None
        if self._script is None:
            v = self._real.value(x)
        else:
            code = self._script.pop(0) if self._script else None
            if code is not None:
                self._n_scripted += 1
            v = self._scripted_value(code, model)
        self._memo[k] = v
        info = dict(code=code, model=float(model), cur=float(self._cur_val), v=float(v), x=onp.array(x), xc=onp.array(xc))
        self._log.append(("trial", k, info))
        return v

    def _scripted_value(self, code, model):
        import jax.numpy as np
        s = self._settings
        cur = self._cur_val
        if model is None or not bool(np.isfinite(model)) or float(model) == 0.0:
            mi = 1.0
        else:
            mi = abs(float(model))
        if code is None:
            rho = self._default_rho
        elif code == "nan":
            return np.array(onp.nan)
        elif code == "equal":
            return cur
        elif code == "worse":
            rho = -1.0
        elif code == "pos_lt_eta1":
            rho = 0.5 * s.eta1
        elif code == "eta1_eta2":
            rho = 0.5 * (s.eta1 + s.eta2)
        elif code == "eta2_eta3":
            rho = 0.5 * (s.eta2 + s.eta3)
        elif code == "gt_eta3":
            rho = max(2.0 * s.eta3, 1.0)
        else:
            raise ValueError(code)
        return cur - rho * mi


class Silence:
    """Redirect the library's prints."""
    def __enter__(self):
        import contextlib, io
        self._cm = contextlib.redirect_stdout(io.StringIO())
        self._cm.__enter__()
        return self

    def __exit__(self, *a):
        return self._cm.__exit__(*a)
