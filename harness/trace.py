"""Batched code->spec trace validation: write ndjson traces, run the trace spec once, parse verdicts."""
import json
import os
import shutil

from . import common, tlc


def validate(trace_spec, cfg, traces, rep, label=None, timeout=3600, chunk=4000, drift_prefix="drift_",
             on_fail=None, env=None):
    """traces: list of dicts with an integer "id".  Returns list of (id, event index, clause).
    Contract-clause failures are reported through on_fail(id, l, clause) (which calls rep.fail with the
    concrete case); clauses whose name starts with drift_prefix only count as mechanism drift."""
    out = []
    d = common.scratch("traces")
    try:
        for c0 in range(0, len(traces), chunk):
            part = traces[c0:c0 + chunk]
            path = os.path.join(d, "t%d.ndjson" % c0)
            with open(path, "w") as f:
                for t in part:
                    f.write(json.dumps(t, separators=(",", ":")) + "\n")
            e = {"TRACE_FILE": path}
            if env:
                e.update(env)
            res = tlc.run(trace_spec, cfg, workers=1, env=e, timeout=timeout, coverage=False,
                          label=(label or trace_spec) + "-%d" % c0)
            verdicts = res.payloads("VERDICT")
            if not res.ok or not verdicts:
                rep.machinery("trace validation %s failed: %s\n%s" % (trace_spec, res.error_text, tlc.tail(res, 25)))
                continue
            v = verdicts[-1]
            if v.get("n") != len(part):
                rep.machinery("trace validation %s consumed %s of %d traces" % (trace_spec, v.get("n"), len(part)))
            rep.add_traces(len(part))
            rep.coverage["tlc_runs"].append({"label": "trace:" + trace_spec, "traces": len(part),
                                             "states_generated": res.generated, "wall_s": round(res.wall, 2)})
            for item in v.get("viol", []):
                tid, l, clause = item[0], item[1], item[2]
                if clause.startswith(drift_prefix):
                    rep.drift()
                    rep.coverage.setdefault("drift_samples", [])
                    if len(rep.coverage["drift_samples"]) < 5:
                        rep.coverage["drift_samples"].append([tid, l, clause])
                    continue
                out.append((tid, l, clause))
                if on_fail:
                    on_fail(tid, l, clause)
    finally:
        shutil.rmtree(d, ignore_errors=True)
    return out
