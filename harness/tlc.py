"""Thin driver around TLC: run a spec/cfg, parse statistics, coverage, PrintT payloads, errors."""
import json
import os
import re
import shutil
import subprocess
import time

from . import common

JAR_CP = "/opt/veriftools/tla/tla2tools.jar:/opt/veriftools/tla/CommunityModules-deps.jar"


class TLCResult:
    def __init__(self):
        self.spec = self.cfg = self.mode = self.label = ""
        self.stdout = ""
        self.rc = None
        self.wall = 0.0
        self.distinct = 0
        self.generated = 0
        self.depth = 0
        self.ok = False               # finished without TLC error / invariant violation
        self.violated = []            # names of violated invariants / properties
        self.error_text = ""
        self.prints = {}              # tag -> list of decoded payloads
        self.action_counts = {}       # named action -> count (from -coverage)
        self.timed_out = False

    def payloads(self, tag):
        return self.prints.get(tag, [])


_PRINT_RE = re.compile(r'^<<"([A-Z_]+)", (.*)>>$')


def _unescape(s):
    # TLA+ string printed with \" and \\ escapes
    out = []
    i = 0
    while i < len(s):
        c = s[i]
        if c == "\\" and i + 1 < len(s):
            n = s[i + 1]
            out.append({"n": "\n", "t": "\t"}.get(n, n))
            i += 2
        else:
            out.append(c)
            i += 1
    return "".join(out)


def parse_output(res, text, json_tags=("BEH", "VERDICT", "OBS", "STAT")):
    res.stdout = text
    for line in text.splitlines():
        m = _PRINT_RE.match(line)
        if m:
            tag, rest = m.group(1), m.group(2)
            if rest.startswith('"') and rest.endswith('"'):
                raw = _unescape(rest[1:-1])
                if tag in json_tags:
                    try:
                        val = json.loads(raw)
                    except Exception:
                        val = raw
                else:
                    val = raw
            else:
                val = rest
            res.prints.setdefault(tag, []).append(val)
            continue
        m = re.match(r"^(\d+) states generated, (\d+) distinct states found", line)
        if m:
            res.generated = int(m.group(1))
            res.distinct = int(m.group(2))
        m = re.match(r"^The depth of the complete state graph search is (\d+)", line)
        if m:
            res.depth = int(m.group(1))
        m = re.match(r"^<(\w+) line \d+, col \d+ to line \d+, col \d+ of module \w+>: (\d+):(\d+)", line)
        if m:
            res.action_counts[m.group(1)] = res.action_counts.get(m.group(1), 0) + int(m.group(3))
        m = re.match(r"^Error: Invariant (\w+) is violated", line)
        if m:
            res.violated.append(m.group(1))
        m = re.match(r"^Error: Action property (\w+) is violated", line)
        if m:
            res.violated.append(m.group(1))
        m = re.match(r"^Error: Temporal properties were violated", line)
        if m:
            res.violated.append("temporal")
        if line.startswith("Error:") and not res.error_text:
            res.error_text = line
    # simulation mode prints a different summary
    if res.generated == 0:
        m = re.search(r"(\d+) states checked", text)
        if m:
            res.generated = int(m.group(1))
            res.distinct = res.distinct or 0
    finished = ("Model checking completed. No error has been found." in text) or \
               ("Finished in" in text and "Error:" not in text)
    res.ok = finished and not res.violated and "Error:" not in text
    return res


def run(spec, cfg, mode="check", workers=None, simulate=None, depth=None, seed=None, env=None,
        timeout=1800, coverage=True, deadlock=None, label=None, extra=None, dfs=False, cwd=None):
    """Run TLC on SPECS/spec with SPECS/cfg. simulate = number of behaviours (simulation mode)."""
    cwd = cwd or common.SPECS
    res = TLCResult()
    res.spec, res.cfg, res.label = spec, cfg, label or cfg
    res.mode = "simulate" if simulate else "check"
    meta = common.scratch("tlc-" + re.sub(r"\W", "_", res.label))
    w = str(workers or (1 if simulate else min(16, os.cpu_count() or 1)))
    jopts = ["-XX:+UseParallelGC", "-Xss16m"]
    if dfs:
        jopts.append("-Dtlc2.tool.queue.IStateQueue=StateDeque")
    cmd = ["java"] + jopts + ["-cp", JAR_CP, "tlc2.TLC", "-workers", w, "-metadir", meta,
                              "-noGenerateSpecTE", "-config", cfg]
    if coverage and not simulate:
        cmd += ["-coverage", "1"]
    if simulate:
        cmd += ["-simulate", "num=%d" % simulate]
        if depth:
            cmd += ["-depth", str(depth)]
        if seed is not None:
            cmd += ["-seed", str(seed)]
    if deadlock is False:
        pass  # use CHECK_DEADLOCK FALSE in cfg
    if extra:
        cmd += list(extra)
    cmd.append(spec)
    e = dict(os.environ)
    if env:
        e.update({k: str(v) for k, v in env.items()})
    t0 = time.time()
    try:
        p = subprocess.run(cmd, cwd=cwd, env=e, stdout=subprocess.PIPE, stderr=subprocess.STDOUT,
                           timeout=timeout, text=True, errors="replace")
        out, res.rc = p.stdout, p.returncode
    except subprocess.TimeoutExpired as ex:
        out = (ex.stdout or b"")
        out = out.decode(errors="replace") if isinstance(out, bytes) else out
        res.timed_out = True
        res.rc = -9
    res.wall = time.time() - t0
    shutil.rmtree(meta, ignore_errors=True)
    parse_output(res, out)
    return res


def tail(res, n=30):
    lines = [l for l in res.stdout.splitlines() if not l.startswith("<<") and not re.match(r"^\s*\|*line ", l)]
    return "\n".join(lines[-n:])


def require_ok(res, rep, what):
    """A design-level TLC failure is a machinery/design error, never a VIOLATION of the implementation."""
    if not res.ok:
        rep.machinery("%s: TLC run %s/%s failed (violated=%s timed_out=%s): %s\n%s" % (
            what, res.spec, res.cfg, res.violated, res.timed_out, res.error_text, tail(res, 15)))
        return False
    return True
