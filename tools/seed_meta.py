import json,os,sys
META={
"C01":dict(breaks="C01: `o = objective.value(x)` moved before `x = y` in the accept branch of trust_region_minimize: the stored objective is that of the PREVIOUS accepted iterate",
  needs="an accepted step with a sizeable decrease followed by a trial step that overshoots (uphill from the current iterate but below the previous one): strongly non-quadratic / non-convex objective (Rosenbrock valley, Gaussian well), default (non-incremental) mode; convex quadratics are bit-for-bit unaffected"),
"C02":dict(breaks="C02: the multi-block factory's compute_element_stiffnesses passes the stale unprojected grad_2D_to_3D instead of modify_element_gradient",
  needs="multi-block factory AND pressureProjectionDegree not None AND J varying inside an element (order >= 2 or several quadrature points with a non-affine field); K stays symmetric"),
"C06":dict(breaks="C06: two lines of the Gould recurrence swapped in cg_inner_products_preconditioned (zd updated with the NEW dd)",
  needs="use_preconditioned_inner_product_for_cg=True AND the CG leaving the trust region / hitting negative curvature on iteration >= 2"),
"C09":dict(breaks="C09: FpNew = FpOld @ exp_symm(DeltaEp) instead of exp_symm(DeltaEp) @ FpOld in the finite-deformation J2 update",
  needs="large-deformation kinematics, a plastic step starting from Fp != I with a new flow direction that does not commute with the old Fp (non-proportional multi-step history); invisible from the virgin state and for coaxial histories; det Fp and eqps monotonicity unaffected"),
"C11":dict(breaks="C11: Fv_new = Fv_old @ expm(delta_Ev) instead of expm(delta_Ev) @ Fv_old in the multi-branch viscoelastic update",
  needs="three-branch model, a branch with Fv_old != I followed by a non-coaxial deformation, and dt not small compared with tau; det Fv stays 1, dissipation stays >= 0; relaxation at fixed deformation stops being monotone"),
"C15":dict(breaks="C15: displacement predictor rewritten with the mean of old and predicted velocity: coefficient 0.5*dt^2*(1-gamma) instead of 0.5*dt^2*(1-2*beta)",
  needs="Newmark parameters with gamma != 2*beta AND non-zero previous acceleration AND an independent check of the displacement update formula (balance, velocity formula, energy for the defaults, rigid translation, mass all still pass)"),
"C16":dict(breaks="C16: the `* sgn` factor dropped from the t > 1 branch of EdgeCpp.cpp_distance",
  needs="a query point projecting strictly beyond the SECOND end point of the segment AND lying on the inner (negative-normal) side; magnitude stays exact"),
"C18":dict(breaks="C18: safeTol raised from 1e-14 to 1e-7 in SmoothFunctions (the band test uses eps, the blend uses safeEps)",
  needs="a smoothing width <= 1e-7 together with |x-y| < eps (e.g. EdgeCpp.smooth_distance for nearly parallel edges); widths above 1e-7 behave exactly as before"),
"C19":dict(breaks="C19: warm-start increment multiplied by objective.scaling once more in nonlinear_equation_solve",
  needs="a ScaledObjective whose scaling != 1 AND useWarmStart=True with a changed bc parameter AND inspection of the warm-started start point (final solutions, objective.p and the flag stay correct)"),
"C07":dict(breaks="C07: nonlinear_solve_with_state_b saves and restores the objective's parameters, but the restore sits BEFORE the vec_jacobian_p* calls: the parameter Jacobians are evaluated at the last forward solve's parameters",
  needs="a multi-step history differentiated as a whole (two or more nonlinear_solve_with_state calls on the same Objective inside one jax.grad) with a residual whose parameter Jacobian depends on the parameters at an earlier step; a single solve is exact"),
"C08":dict(breaks="(filled from the agent report)", needs=""),
}

META.update({
"C08":dict(breaks="C08: one wrong index in TensorMath.eigen_sym33_non_unit (row copy after pivoting): V diag(lam) V^T != C on one branch, so log/exp/pow of symmetric tensors are wrong",
  needs="the spectral routine taking the branch where the pivot is row 1 or 2 and row 0 is selected as second row: uniaxial strain along an in-plane axis between 45 and 135 degrees from x (not 90), biaxial stretch near 45 degrees, some 3-D reference rotations; axis-aligned states are exact; objectivity and stress symmetry still hold, isotropy is violated"),
"C20b":dict(breaks="C20: np.vstack arguments reversed when padding cell fields for contact edges (defaults placed BEFORE the element data)",
  needs="at least one cell field AND at least one contact edge AND a per-cell comparison of parsed values with the supplied ones; all counts still match"),
"C13b":dict(breaks="C13: running element offset in ReadExodusMesh._read_blocks assigned instead of accumulated",
  needs="an Exodus file with three or more element blocks (the repo's sample has two)"),
"C17b":dict(breaks="C17: the `| (F == 0.0)` term dropped from the in-loop convergence test of rtsafe_ (re-introduces half of defect F12)",
  needs="an iterate (not the initial guess) landing exactly on a root where the slope also vanishes (dead zone), with r_tol == 0"),
"C04b":dict(breaks="C04: the `else: alObjective.p = p` branch removed from augmented_lagrange_solve",
  needs="a direct call with useWarmStart=False AND a p different from the one stored on the objective; the solver returns a KKT point of the previous problem"),
"C01b":dict(breaks="C01: in nonlinear_equation_solve the two `objective.p = p` assignments merged into one inside `if updatePrecond:`",
  needs="updatePrecond=False AND p different from the objective's current parameters: success is reported for parameters that were never installed"),
"C14b":dict(breaks="C14: guard `if not nodes.any(): continue` in DofManager.__init__ meant to skip empty node sets also skips the set {0}",
  needs="a node set consisting of exactly node 0 (e.g. pinning the corner node)"),
"C05b":dict(breaks="C05: fallback acceptance clause rewritten as `realObjective >= 0 and ...` (sign backwards: accepts steps that increase the objective when the optimality measure did not grow)",
  needs="a trial step rejected by the ratio test (genuine increase) landing where the projected-gradient norm is no larger: non-convex objective and a radius large enough to overshoot"),
"C19b":dict(breaks="C19: same merge of `objective.p = p` into `if updatePrecond:` as C01b (independently found)",
  needs="nonlinear_equation_solve(..., updatePrecond=False) with changed parameters"),
})

META.update({
"C18b":dict(breaks="C18: friction potential refactor loses mu on the offset of the outer branch: mu*|s| - sReg/2 instead of mu*(|s| - sReg/2)",
  needs="a friction coefficient other than 1 AND looking at the potential's value (forces are unchanged): value jump at the switch radius, negativity for mu < 0.5 just outside it, loss of convexity"),
"C16b":dict(breaks="C16: B-side mortar weight made signed (xiB[0]-xiB[1]) instead of |xiB[1]-xiB[0]|",
  needs="compute_normal_from_a as common normal AND segment B numbered in the same sense as A; facing pairs and the averaged normal are unaffected"),
"C11b":dict(breaks="C11: the non-equilibrium energy of the multi-branch model uses the full elastic strain instead of its deviator (extra G_n (ln J)^2/3 that never relaxes)",
  needs="three-branch model AND energy evaluation AND a volume-changing deformation (det F != 1): both virgin limits are off by 12-17 percent"),
"C15b":dict(breaks="C15: corrector guards dt*dt with max(dt*dt, 1e-12) (zero-step guard) while predictor and inertia weight use the true dt",
  needs="at least one time step shorter than 1e-6; sequences with all dt >= 1e-6 are bit-identical"),
"C02b":dict(breaks="C02: last two arguments of modify_element_gradient swapped in FunctionSpace.integrate_element_from_local_field (the element stiffness kernel); energy path unchanged",
  needs="mode2D='axisymmetric' AND inspection of the assembled stiffness; plane strain and the pressure projection ignore those arguments"),
"C06b":dict(breaks="C06: preconditioned_project_to_boundary computes z.d with the Euclidean product while zz and dd use the preconditioner norm",
  needs="preconditioned inner-product mode AND the true dogleg branch (Cauchy point inside, quasi-Newton point outside, cc <= nn) AND z not an eigenvector of P"),
"C07b":dict(breaks="C07: ivs_update_jac_disp_vjp drops dt in its inner call (always evaluated at dt=0)",
  needs="a rate-dependent material AND a non-zero time step passed to the helper"),
"C08b":dict(breaks="C08: C = F @ F.T instead of F.T @ F in J2 compute_elastic_seth_hill_strain",
  needs="kinematics 'seth hill' AND a non-virgin state with stored plastic strain AND a deformation gradient with a rotational part"),
"C09b":dict(breaks="C09: threshold of the 'deviatoric strain is non-zero' guard in compute_flow_direction raised from 1e-16 to 1e-8 (squared norm): fallback flow direction for strain norms below 1e-4",
  needs="yield strain Y0/E below ~9e-5 AND small increments through yield; ordinary parameters are bit-for-bit unaffected"),
})

META.update({
"C01c":dict(breaks="C01: in the 'positive model objective' branch the re-signing `rho = realImprove / -modelImprove` became `realImprove / -modelObjective` (a no-op): an uphill step with a positive model is accepted",
  needs="modelObjective > 0: indefinite Hessian at the iterate AND a non-exact (diagonally shifted) preconditioner AND a rejected negative-curvature boundary step followed by a dogleg between the unpreconditioned Cauchy point and the rejected point; about 0.3-3 percent of saddle-start instances"),
"C02c":dict(breaks="C02: multi-block internal-variable update slices `min..max` instead of gathering elemIds when a block's ids form a contiguous range",
  needs="a block whose element ids are a contiguous range listed in NON-ascending order (the scatter uses the listed order), and a path-dependent material"),
"C04c":dict(breaks="C04: in BoundConstrainedObjective.__init__ `invScaling = 1/scaling` computed before the constraintStiffnessScaling factor is applied: scaling and invScaling are no longer reciprocal on bounded dofs",
  needs="a precondStrategy AND constraintStiffnessScaling != 1 AND an active bound AND the multipliers read through get_multipliers() judged against the original problem (point, signs, complementarity stay right)"),
"C05c":dict(breaks="C05: optimality measure of the trial point computed as project(x - gy) - x (stale previous iterate) instead of project(y - gy) - y",
  needs="previous iterate on a bound, a step leaving that bound and overshooting (non-quadratic objective) so the new gradient points back to the bound, all other components already below tol: low dimension / vertex starts"),
"C06c":dict(breaks="C06: treigen eigenvalue scale `np.abs(np.mean(sig))` instead of `np.mean(np.abs(sig))`: eps vanishes for traceless spectra and the step is nan",
  needs="a (nearly) traceless model Hessian: saddles, deviatoric tensors, symmetric spectra"),
"C07c":dict(breaks="C07: adjoint CG in both reverse rules uses `settings.tr_size` as radius instead of infinity: the adjoint is truncated to norm tr_size",
  needs="a cotangent large relative to the Hessian: |H^-1 v| > tr_size (2.0 by default); unit cotangents on well-conditioned problems are unaffected"),
"C13c":dict(breaks="C13: combine_sidesets overwrites mesh 1's non-empty side set when mesh 2 has an EMPTY set of the same name",
  needs="equal side-set names AND the second mesh's set empty (shape (0,)) AND the first one non-empty"),
"C19c":dict(breaks="C19: TrustRegionSPG.solve builds the bounds from the scaled lower bound and the UNSCALED upper bound",
  needs="ScaledObjective with non-unit scaling AND TrustRegionSPG.solve AND a finite upper bound that is (nearly) active"),
})

META.update({
"C08c":dict(breaks="C08: `Fe_trial = F @ inv(Fv_old)` rewritten as `np.linalg.solve(Fv_old, F)` (wrong-side solve: Fv^-1 F) in both viscoelastic models",
  needs="a non-virgin viscous state (Fv != I) AND a deformation gradient that does not commute with it (rotated copy Q F, shear after stretch); virgin state and coaxial histories are bit-identical"),
"C09c":dict(breaks="C09: return-map starting guess changed from the bracket midpoint to the root of the residual linearised at the old state; with power-law rate sensitivity (m > 1) the slope is infinite there, the guess collapses to eqpsOld and rtsafe_ 'converges' with dx = 0",
  needs="rate-sensitive hardening with exponent m > 1 AND a plastic step; rate-independent models and m <= 1 are unchanged"),
"C11c":dict(breaks="C11: trial elastic log strain of the multi-branch model from Fe Fe^T (log V_e) instead of Fe^T Fe (log U_e)",
  needs="three-branch model AND a deformation gradient with a rotation part (simple shear, rotated stretch) AND a hold / continued history with sizeable rotation x dt/tau; symmetric F histories are bit-identical; energy value, dissipation sign and det Fv unaffected"),
"C14c":dict(breaks="C14: DofManager memoises HessRowCoords/HessColCoords/hessian_bc_mask in a module-level cache keyed by (conns.shape, fieldShape, isBc bytes) -- not by connectivity content",
  needs="a HISTORY in one process: two DofManagers on meshes with equal array shapes and identical constraint pattern but different connectivity; the first is always right, any single construction is right"),
"C15c":dict(breaks="C15: create_dynamics_functions passes the bare 2D->3D gradient map to compute_newmark_lagrangian while every other member uses the pressure-projected one",
  needs="pressureProjectionDegree not None AND a projection that is not the identity (more quadrature points than projection shape functions: P2 with a 6-point rule) AND non-uniform dilatation inside elements; the default option is bit-identical"),
"C16c":dict(breaks="C16: EdgeCpp.cpp clamps in two statements and the second reads the unclamped parameter again: the lower clamp is lost",
  needs="EdgeCpp.cpp called directly with a point projecting before the FIRST end point (t < 0); cpp_line, cpp_distance and smooth_distance are unchanged"),
"C17c":dict(breaks="C17: rtsafe_ tests |F| < r_tol before re-evaluating F at the new iterate (stale residual of the previous iterate)",
  needs="r_tol > 0 (not the default) AND an iterate below r_tol followed by a safeguard bisection step that makes the residual worse (flat / steep power-law functions, outside or reversed guesses)"),
"C18c":dict(breaks="C18: SmoothFunctions.max rewritten as x + y - min_base(x, y, eps): exact in real arithmetic, but x + y is rounded at the size of the larger argument",
  needs="arguments differing by ~15 orders of magnitude relative to the width, the larger-in-magnitude one NOT being the maximum; comparable magnitudes (inside, on, outside the band) all pass"),
"C20c":dict(breaks="C20: TENSORS branch of VTKWriter flattens a d x d tensor row-major into the first d*d of 9 slots instead of embedding it in the top-left block",
  needs="a TENSORS field supplied as (n,2,2); 3x3 tensors (all existing tests), scalars and vectors are byte-identical"),
})

META.update({
"C10":dict(breaks="C10: the hand-written JVP rules of sqrt/exp/log/pow_symm take their primal output from the undecorated symmetric_matrix_function instead of the decorated function: values and first derivatives unchanged, second derivatives go through raw autodiff of the eigensolver",
  needs="a tangent (second derivative) at a state whose elastic right Cauchy-Green tensor is spherical (rest state, pure dilation, F = Fp / F = Fv after a history); distinct-eigenvalue states are unaffected, stresses and energies exact"),
"C10b":dict(breaks="C10: HyperViscoelastic._energy_density wraps the viscous strain increment in jax.lax.stop_gradient ('the potential is stationary with respect to it'): stress exact, tangent uses the unrelaxed non-equilibrium stiffness",
  needs="the single-branch viscoelastic model AND a check of the SECOND derivative of the energy AND a time step not negligible against the relaxation time (error ~ G_neq (dt/tau)/(1+dt/tau))"),
})

META.update({
"C03":dict(breaks="C03: the barycentric weights placing element-interior nodes in create_higher_order_mesh_from_simplex_mesh use the textbook convention (vertex 0 at the parent origin) instead of the library's (vertex 2 at the origin): interior nodes get each other's coordinates",
  needs="an element with at least three interior nodes (plain order 4-5, or bubble order 3-5) AND interpolation of a nodal field / an x-dependent integrand; areas, partition of unity and shape gradients are untouched; orders <= 3 without bubble (all upstream tests) never reach the branch"),
})

META.update({
"C03b":dict(breaks="C03: compute_element_volumes_axisymmetric takes the radius at the quadrature points from the vertex nodes and vertex shape functions only ('elements are affine'): exact for linear triangles, wrong for order >= 2 or bubble elements where the vertex functions alone do not reproduce a linear field",
  needs="mode2D='axisymmetric' AND element order >= 2 (or bubble); Cartesian mode and linear axisymmetric elements (the only axisymmetric configuration the upstream tests use) are unchanged"),
})

META.update({
"C12":dict(breaks="C12: the exact test `x2 == x1` in the shared derivative rule (_symmetric_matrix_function_jvp_helper.rd) replaced by np.isclose (rtol 1e-5, atol 1e-8): pairs that are merely close, or merely small, get f'(lam) instead of the divided difference",
  needs="a derivative (jvp) of sqrt/exp/log/pow_symm at a tensor with two eigenvalues within ~1e-5 relative but further apart than 5e-9, or with all eigenvalues below ~1e-8 in absolute size; well separated O(1) spectra, exactly repeated pairs and gaps <= 1e-10 are unaffected"),
"C12b":dict(breaks="C12: the same exact test replaced by an ABSOLUTE tolerance |x2 - x1| <= eps: harmless for O(1) tensors, but every pair of a tensor of magnitude <= 1e-16 counts as repeated",
  needs="a derivative of sqrt/log/pow_symm at scale 1e-16 and below with eigenvalues distinct in relative terms (ratio 1:2:4): 5-15 percent error; function values, exp_symm and ordinary scales unaffected"),
})

META.update({
"C03c":dict(breaks="C03: the face-2 node list of the BUBBLE parent element (Interpolants.make_parent_element_2d_with_bubble) computed with the plain element's formula flip(jj) - ii: right for degree 1-2, wrong node lists (including vertex 1) for degree >= 3 because interior base nodes were removed and the rest renumbered",
  needs="useBubbleElement=True AND element order >= 3: mid-edge node placement, edge integration and node sets from side sets all use faceNodes; parent-element shape functions (all of test_Interpolants) untouched"),
})

META.update({
"C10c":dict(breaks="C10: in the stable branch of TensorMath._pow_relative_difference x = (lam_small - lam_big)/lam_small instead of /lam_big: same limit at coinciding eigenvalues, relative error (1-m)/2 x^2 otherwise; the primal pow_symm (hence the energy) is unchanged",
  needs="J2 with kinematics 'seth hill' AND finite strain with principal values of C differing by 1 percent .. factor 1.5 AND a direction that shears the principal axes; the stress is wrong only with a plastic strain not coaxial with the deformation, the tangent already from the virgin state"),
"C12c":dict(breaks="C12: the tie bias put on the other side of the comparison in the fac2 line only of eigen_sym33_non_unit (rm2xx2 < rm2yy2*tieBias): fac1 and fac2 come from different branches when rm2xx2/rm2yy2 is within 1e-8 of 1",
  needs="a tensor whose deflated 2x2 problem has equal diagonal entries (measure zero for random or rotated input; 144 of the 15 624 integer tensors with entries -2..2, and the rational-rotation lattice point with eigenvalues -0.02, 0.01, 0.02): eigenvalues, ordering and orthonormality stay right, V diag(d) V^T != A"),
})
for pid in sys.argv[1:]:
    p='/verif/seeded/%s/meta.json'%pid
    if not os.path.exists(p): print('no meta for',pid); continue
    m=json.load(open(p)); m.update(META[pid]); m['author']="independent sub-agent (given only the property text and a scratch worktree)"
    json.dump(m,open(p,'w'),indent=1); print(pid, m['detected'], m['check_failing_clauses'])
