#!/bin/sh
# usage: tools/sweep.sh "<seeds>" [tier]  -- runs every registered check with each seed, prints one line per run
cd "$(dirname "$0")/.." || exit 2
TIER=${2:-quick}
for s in $1; do
  for c in $(python3 -c "import json; print(' '.join(x['property_id'] for x in json.load(open('MANIFEST.json'))['checks']))"); do
    t0=$(date +%s)
    VERIF_SEED=$s ./check $c --tier $TIER > /var/tmp/sweep-$c-$s.log 2>&1; rc=$?
    echo "SWEEP seed=$s check=$c rc=$rc wall=$(( $(date +%s) - t0 ))s $(grep -c '^VIOLATION' /var/tmp/sweep-$c-$s.log) violations $(grep -c '^KNOWN-FINDING' /var/tmp/sweep-$c-$s.log) known"
  done
done
