#!/usr/bin/env python3
"""Writes seeded/README.md from seeded/*/meta.json (which checks catch which independently written changes)."""
import json, glob, os
rows=[]
for p in sorted(glob.glob('/verif/seeded/*/meta.json')):
    m=json.load(open(p)); name=os.path.basename(os.path.dirname(p))
    rows.append("| %s | %s | %s | %s | %s | %s |" % (name, m.get('property'), m.get('breaks','').replace('|','/'), m.get('needs','').replace('|','/'),
        'yes' if m.get('detected') else 'NO', ' '.join(m.get('check_failing_clauses','').split())))
txt = """# Independently written breaking changes

Each directory holds a change to sandialabs/optimism written by a fresh sub-agent that was given only the text of one
property and its own scratch worktree (nothing from /verif): `patch.diff`, the author's demonstration `demo.py` (exit 0 on
the unmodified library, non-zero with the change) and `meta.json` (what it breaks, what it needs to manifest, what was run).
`selftest/verify_seed.sh <ID> <dir>` confirms the demonstration both ways and runs the property's quick check against a
scratch copy of /repo with the patch applied (OPTIMISM_SRC); /repo itself is never modified.

| seed | property | change | needs | detected by quick check | failing clauses (count clause) |
|---|---|---|---|---|---|
""" + "\n".join(rows) + "\n"
open('/verif/seeded/README.md','w').write(txt)
print(len(rows),'seeds')
