#!/usr/bin/env python3
"""Regenerates MANIFEST.json from the registry below (single source of truth for what is claimed)."""
import json, os
HERE = os.path.dirname(os.path.dirname(os.path.abspath(__file__)))

CHECKS = {
 "C01": dict(cat="model_checking", ref="DESIGN.md §3 C01",
   text="TLC explores every sequence of environment answers (convergence test, comparison of objective values, reduction-ratio class, residual comparison) of the trust-region state machine in TrustRegion.tla and proves Descent on accepted iterates, ReturnsLast and HonestFlag for the mechanism as coded (and exhibits the counterexample to NoUphillConvergence, finding F1). Every distinct ratio-class sequence on TLC's abstract state graph is replayed through a value-oracle proxy into the real trust_region_minimize under setting vectors that force each exit path; genuine solves of a seeded smooth family (convex, indefinite, singular, badly scaled, wiggly; exact/stale/identity preconditioner; incremental mode) are recorded through the public callback and a recording proxy; all traces are judged clause by clause by TrustRegionTrace.tla inside TLC. Right level: the guarantees are history properties of an iterative state machine driven by an environment.",
   note="Trusted: dense sksparse shim; alpha in checks/trsolve.py (objective comparison exact on reported iterates, 64 eps allowance only on the convergence-exit report, gradient recomputed with the objective's own jitted functions); scripted replays check only clauses valid for arbitrary environments; model change assumed non-zero for non-zero steps (positive-model re-signing branch is not reachable with consistent derivatives and is covered at design level only). Known finding F1 (convergence exit bypasses acceptance) is reported as KNOWN-FINDING.",
   tech="TLA+ mechanism+contract spec (TrustRegion.tla) + TLC exhaustive; spec->code replay via scripted value oracle; code->spec trace validation in TLC"),
 "C04": dict(cat="model_checking", ref="DESIGN.md §3 C04",
   text="AugLag.tla models the outer iteration of augmented_lagrange_solve as coded (callback, optional Newton multiplier update with a 10-trial line search that may drive multipliers negative, sub-problem solve, first-order update with max(.,0), penalty growth only on poor progress after a successful sub-solve, termination test, raise after max iterations); TLC explores every environment history and proves multipliers non-negative at every callback, penalties monotone, normal return only through the termination test (and that Newton-only mode never returns). FischerBurmeister.tla checks on an integer lattice that FB=0 iff complementarity. Sub-solver scripts (quality x success) from TLC's behaviours are replayed through the real sub_problem_solver parameter on real ConstrainedObjectives; genuine solves (active/inactive/weakly active/redundant/nonlinear constraints, infeasible starts, random initial multipliers and penalties, first/second-order updates, penalty scalings) and the bound-constrained front end are recorded via the public callback; AugLagTrace.tla judges every snapshot and return.",
   note="Trusted: dense sksparse shim; alpha in checks/c04.py: KKT flags are the literal consequences of the termination test ||[grad_x L_A; FB(c,lam,k0)]||<tol (c>=-tol/k0, lam>=0 exactly, min(k0 c,lam)<=2tol, ||grad f-J^T lam||<=tol(1+2 sum||grad c_j||max(1,kappa_j/k0_j))) recomputed from the harness's own f and c; convex agreement against active-set enumeration (linear constraints).",
   tech="TLA+ specs (AugLag.tla, FischerBurmeister.tla) + TLC exhaustive; scripted sub-solver replay into the real AL loop; trace validation in TLC"),
 "C05": dict(cat="model_checking", ref="DESIGN.md §3 C05",
   text="TrustRegion.tla with Bounded=TRUE (same convergence-first/ratio/accept skeleton, one trial per outer iteration) checked exhaustively by TLC for Feasible, Descent, ReturnsLast, HonestFlag; BoxProjection.tla is an exact lattice model of the box projection (closest point, idempotent, in box, infinite and degenerate bounds) and of the project_onto_tr contract. TLC's ratio-class sequences are replayed through the value-oracle proxy into the real bound_constrained_trust_region_minimize on random boxes (finite, one-sided, degenerate; starts on faces and vertices); every lattice instance is replayed, scaled over 13 decades, into the real project/project_onto_tr with TLC as exact oracle; genuine solves (monotone and non-monotone SPG, iteration caps, radii) incl. convex quadratics compared with active-set enumeration; all traces judged by TrustRegionTrace.tla / BoxProjectionTrace.tla.",
   note="Trusted: dense sksparse shim; alpha in checks/trsolve.py and checks/c05.py (box membership exact; ball membership of project_onto_tr within 1e-9 relative = brentq xtol; optimality measure recomputed as ||P(x-g)-x||); runs where find_generalized_cauchy_point raises RuntimeError are outside the contract and dropped (counted in evidence). Known finding F2 reported as KNOWN-FINDING.",
   tech="TLA+ specs (TrustRegion.tla Bounded, BoxProjection.tla) + TLC exhaustive; scripted-oracle and lattice replay into the real code; trace validation in TLC"),
 "C07": dict(cat="model_checking", ref="DESIGN.md §3 C07",
   text="Sensitivity.tla models the forward/backward protocol of differentiable equilibrium solves over multi-step histories (saved residual data, reverse-order backward rules that must reinstall the saved parameters on the shared mutable objective before building the adjoint operator) and the parameter-slot routing (present slots among 0,1,2,4 get a cotangent from the matching Jacobian, slots 3,5 and absent slots none, the guess zero); TLC checks routing/ordering invariants for every present-slot set and history length. Every (present set, steps) it explores is executed on the real nonlinear_solve_with_state / nonlinear_solve: single solves through jax.vjp with random cotangents, chains with a differentiable state update through jax.grad, observed through a recording proxy; cotangents are compared with dense implicit-function references, MechanicsInverse helper vjps with dense Jacobian transposes (J2 and neo-Hookean FE problems), the adjoint function space with direct construction; SensitivityTrace.tla judges existence, presence, equality codes, routing and order.",
   note="The numeric equality of cotangents is judged by the abstraction predicate (rtol 1e-6 against dense jax.jacfwd / unrolled dense Newton references, solver tol 1e-12); the specification decides existence, presence, routing, ordering and reinstallation. Trusted: dense sksparse shim; synthetic smooth energy with SPD Hessian for the solve-level checks; FE helper checks on a 3x3 structured mesh. Defect F7 (reverse rules raised TypeError) was found and fixed.",
   tech="TLA+ protocol/routing spec (Sensitivity.tla) + TLC exhaustive; replay of every explored slot-set/history into the real differentiable solves; trace validation in TLC (numeric equality by abstraction predicate)"),
 "C14": dict(cat="model_checking", ref="DESIGN.md §3 C14",
   text="TLC checks DofManager.tla exhaustively over every (node, component) essential-BC mask of 1-, 2- and 4-triangle linear meshes and one- and two-element quadratic meshes with 1-3 fields per node (13 784 masks quick, 2^18 more thorough); the mechanism model mirrors FunctionSpace.DofManager and is checked against the clauses partition, exact constrained set, sizes, token-field split/round trip, per-component slices in node order, element COO maps as bags and entry-wise. Every mask is replayed, as the EssentialBC list TLC built for it (empty, full, overlapping, repeated-member node sets), into the real DofManager on a real Mesh/FunctionSpace; the logged integer observations are judged inside TLC by DofManagerTrace.tla with the same operators. Thorough adds simulated lists on the larger meshes and random lists on structured/Delaunay meshes of order 1-3 up to 511 nodes.",
   note="Comparisons are exact on integers. Trusted: alpha in checks/c14.py (row-major dof id, unknown number = position in get_unknown_values, the assembler's mask-to-coordinate pairing). Negative or out-of-range components / node ids are not explored. A binding self-test (10 corrupted traces must be rejected with the intended clause) runs inside every check.",
   tech="TLA+ spec (DofManager.tla) + TLC exhaustive over all BC masks; replay of every mask into the real DofManager; trace validation in TLC"),
 "C18": dict(cat="model_checking", ref="DESIGN.md §3 C18",
   text="TLC exhaustively model-checks SmoothFn.tla, an exact-integer model of min_base/min/max/abs, zmax, the friction potential and smooth_linear with the code's own branch tests: one-sidedness, quarter-width bound, equality outside the band, symmetry, friction non-negativity/convexity/Coulomb bound/r/2 offset, and C1 matching of value and derivative on every switch surface hold at every lattice point (19.5k quick, 143k thorough). The same run is the exact oracle: every lattice point is scaled over ten decades (plus an offset family with arguments up to 1e10 widths), perturbed by +-1 ulp per argument and evaluated on the real functions and jax.grad (vmapped, single jitted, eager); the comparison codes are judged clause by clause by SmoothFnTrace.tla.",
   note="Trusted: alpha in checks/c18.py (value allowance 16 ulp of the largest argument + 1e-9 width; continuity: spread over the ulp-neighbourhood <= 2 allowances, gradient spread <= 1e-7 scale); claims hold on a finite lattice x decades, not for all reals; friction convexity proved for the radial profile, 2-D by three-point tests on the real code; smooth_linear limited to l <= 1/2. Defect F14 (cancellation in min_base) was found by this check and fixed.",
   tech="TLA+ exact-integer lattice spec (SmoothFn.tla) + TLC exhaustive as oracle; scaled/ulp-perturbed replay into the real functions; trace validation in TLC"),
 "C19": dict(cat="model_checking", ref="DESIGN.md §3 C19",
   text="LoadStep.tla models one load step of the four drivers (refresh, warm-start jvp with the OLD parameters installed, install, refresh, solve; the bound-constrained front end re-installs) with an exact rational 1-D predictor model; TLC checks AfterStep (objective carries the new parameters, flag refers to them), PredictorLands and the operation order over all histories. All two-step histories (driver x warm x refresh x parameter version) emitted by TLC are replayed (seeded sample in quick) into the real nonlinear_equation_solve, TrustRegionSPG.solve, augmented_lagrange_solve and bound_constrained_solve through recording proxies; the order of jvp/assignment/refresh/first gradient, identity of the installed parameters, the increment (against independent dense Jacobians) and the flag under the new parameters are judged by LoadStepTrace.tla; warm_start_increment is also called directly for slots 0 and 2 and ScaledObjective is compared with Objective.",
   note="Trusted: dense sksparse shim; alpha in checks/c19.py (||H dx - b_ref|| <= 1e-4||b_ref||; quadratic landing allows the old point's own residual; scaled vs unscaled 1e-6 relative). AL drivers exercised with inactive constraints (protocol only; C04 covers constraints).",
   tech="TLA+ protocol spec (LoadStep.tla) + TLC exhaustive; history replay into the four real drivers via recording proxies; trace validation in TLC"),
 "C20": dict(cat="model_checking", ref="DESIGN.md §3 C20",
   text="TLC exhaustively checks WellFormed/Idempotent/FileIsFunctionOfState on VTKWriter.tla (all op sequences to depth 5-6, three mesh shapes); every abstract writer state TLC reaches to depth 3 (quick) / 4 (thorough) plus seeded samples of further transitions and simulated deep behaviours is executed on the real VTKWriter for element orders 1-4, each file parsed by an independent reader and the abstract file records validated clause by clause by VTKWriterTrace.tla. Right level: the property is about call histories of a small stateful object, fully discrete.",
   note="Trusted: the independent VTK reader and alpha in checks/c20.py; meshes are the structured 2x2 patch at orders 1-4 (file structure depends on the mesh only through nOut/nEl/npe); float round-trip judged by exact equality of parsed text.",
   tech="TLA+ spec (VTKWriter.tla) + TLC exhaustive; spec->code behaviour replay; code->spec trace validation in TLC"),
}

NOT_APPLICABLE = [
 dict(property_id="C03", reason="numeric exactness of tabulated quadrature / Vandermonde interpolation: no state, history or case structure for a TLA+ model to decide (DESIGN.md §4)"),
 dict(property_id="C10", reason="agreement of automatic and numerical differentiation of one pure function is a numeric-accuracy judgement, outside what a TLA+ spec + TLC can decide (DESIGN.md §4)"),
 dict(property_id="C12", reason="floating-point accuracy of 3x3 eigen/tensor functions over forty decades; branch structure over reals inside jitted code is neither observable nor expressible in TLC integers (DESIGN.md §4)"),
]
PENDING_REASON = "check not built yet in this round (planned: DESIGN.md §3); not claimed until its machinery exists"
ALL = ["C%02d" % i for i in range(1, 21)]

def main():
    checks = []
    for pid in sorted(CHECKS):
        c = CHECKS[pid]
        checks.append(dict(property_id=pid, quick_cmd="./check %s --tier quick" % pid,
                           thorough_cmd="./check %s --tier thorough" % pid,
                           evidence_file="/verif/evidence/%s.json" % pid,
                           replay_cmd_template="./check %s --replay {path}" % pid,
                           engine="tlc", technique=c["tech"],
                           level_claimed=dict(category=c["cat"], text=c["text"], design_ref=c["ref"]),
                           level_note=c["note"]))
    na = list(NOT_APPLICABLE)
    claimed = set(CHECKS) | {n["property_id"] for n in na}
    for pid in ALL:
        if pid not in claimed:
            na.append(dict(property_id=pid, reason=PENDING_REASON))
    m = dict(version=1,
             setup_cmd="cd /verif && /venv/bin/python -m compileall -q harness checks && (cd specs && for f in *.tla; do tla-sany \"$f\" >/dev/null 2>&1 || echo \"sany: $f does not parse\"; done; true)",
             hooks=dict(guard="OPTIMISM_VERIF", enable="no source hooks: all observation is through public interfaces (callbacks, proxies, return values, files); checks import /repo's working tree directly",
                        baseline_off_cmd="cd /repo && /venv/bin/python -m pytest -ra -q -p no:cacheprovider --timeout=900 --continue-on-collection-errors",
                        source_commits=[], add_only=True),
             engines=[dict(name="tlc", path="/opt/veriftools/tla/tla2tools.jar", serves_properties=sorted(CHECKS),
                           kind_free_text="TLA+ specifications under /verif/specs checked by TLC 1.8; behaviours replayed into the real code and recorded traces validated by TLC (harness/ + checks/)")],
             checks=checks, not_applicable=sorted(na, key=lambda n: n["property_id"]),
             notes="Every check: TLA+ design spec checked exhaustively by TLC, behaviours replayed into /repo's working tree, observations validated by a TLC trace spec. Genuine defects are in KNOWN_FINDINGS.json (fixed entries name their 'fix:' commit).")
    with open(os.path.join(HERE, "MANIFEST.json"), "w") as f:
        json.dump(m, f, indent=1)
    print("MANIFEST.json: %d checks, %d not_applicable" % (len(checks), len(na)))

if __name__ == "__main__":
    main()
