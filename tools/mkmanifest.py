#!/usr/bin/env python3
"""Regenerates MANIFEST.json from the registry below (single source of truth for what is claimed)."""
import json, os
HERE = os.path.dirname(os.path.dirname(os.path.abspath(__file__)))

CHECKS = {
 "C20": dict(cat="model_checking", ref="DESIGN.md §3 C20",
   text="TLC exhaustively checks WellFormed/Idempotent/FileIsFunctionOfState on VTKWriter.tla (all op sequences to depth 5-6, three mesh shapes); every abstract writer state TLC reaches to depth 3 (quick) / 4 (thorough) plus seeded samples of further transitions and simulated deep behaviours is executed on the real VTKWriter for element orders 1-4, each file parsed by an independent reader and the abstract file records validated clause by clause by VTKWriterTrace.tla. Right level: the property is about call histories of a small stateful object, fully discrete.",
   note="Trusted: the independent VTK reader and alpha in checks/c20.py; meshes are the structured 2x2 patch at orders 1-4 (file structure depends on the mesh only through nOut/nEl/npe); float round-trip judged by exact equality of parsed text.",
   tech="TLA+ spec (VTKWriter.tla) + TLC exhaustive; spec->code behaviour replay; code->spec trace validation in TLC"),
}

NOT_APPLICABLE = [
 dict(property_id="C03", reason="numeric exactness of tabulated quadrature / Vandermonde interpolation: no state, history or case structure for a TLA+ model to decide (DESIGN.md §4)"),
 dict(property_id="C10", reason="agreement of automatic and numerical differentiation of one pure function is a numeric-accuracy judgement, outside what a TLA+ spec + TLC can decide (DESIGN.md §4)"),
 dict(property_id="C12", reason="floating-point accuracy of 3x3 eigen/tensor functions over forty decades; branch structure over reals inside jitted code is neither observable nor expressible in TLC integers (DESIGN.md §4)"),
]
PENDING_REASON = "check not built yet in this round (planned: DESIGN.md §3); not claimed until its machinery exists"
ALL = ["C%02d" % i for i in range(1, 21)]

def main():
    checks = []
    for pid in sorted(CHECKS):
        c = CHECKS[pid]
        checks.append(dict(property_id=pid, quick_cmd="./check %s --tier quick" % pid,
                           thorough_cmd="./check %s --tier thorough" % pid,
                           evidence_file="/verif/evidence/%s.json" % pid,
                           replay_cmd_template="./check %s --replay {path}" % pid,
                           engine="tlc", technique=c["tech"],
                           level_claimed=dict(category=c["cat"], text=c["text"], design_ref=c["ref"]),
                           level_note=c["note"]))
    na = list(NOT_APPLICABLE)
    claimed = set(CHECKS) | {n["property_id"] for n in na}
    for pid in ALL:
        if pid not in claimed:
            na.append(dict(property_id=pid, reason=PENDING_REASON))
    m = dict(version=1,
             setup_cmd="cd /verif && /venv/bin/python -m compileall -q harness checks && for f in specs/*.tla; do tla-sany \"$f\" >/dev/null || exit 1; done",
             hooks=dict(guard="OPTIMISM_VERIF", enable="no source hooks: all observation is through public interfaces (callbacks, proxies, return values, files); checks import /repo's working tree directly",
                        baseline_off_cmd="cd /repo && /venv/bin/python -m pytest -ra -q -p no:cacheprovider --timeout=900 --continue-on-collection-errors",
                        source_commits=[], add_only=True),
             engines=[dict(name="tlc", path="/opt/veriftools/tla/tla2tools.jar", serves_properties=sorted(CHECKS),
                           kind_free_text="TLA+ specifications under /verif/specs checked by TLC 1.8; behaviours replayed into the real code and recorded traces validated by TLC (harness/ + checks/)")],
             checks=checks, not_applicable=sorted(na, key=lambda n: n["property_id"]),
             notes="Every check: TLA+ design spec checked exhaustively by TLC, behaviours replayed into /repo's working tree, observations validated by a TLC trace spec. Genuine defects are in KNOWN_FINDINGS.json (fixed entries name their 'fix:' commit).")
    with open(os.path.join(HERE, "MANIFEST.json"), "w") as f:
        json.dump(m, f, indent=1)
    print("MANIFEST.json: %d checks, %d not_applicable" % (len(checks), len(na)))

if __name__ == "__main__":
    main()
