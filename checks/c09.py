"""C09 -- J2 plasticity update is irreversible, isochoric, yield-consistent, variational.

Design: specs/MaterialPoint.tla (caller-owned material point; history properties Irreversible, Idempotent,
CommitInvariant, PendingAhead, Isochoric, YieldConsistent) and specs/ReturnMap.tla (integer model of the return
mapping with a nondeterministic in-bracket root finder; ReturnMap_mismatch.cfg must produce a counterexample).
Binding: TLC emits every action sequence of MaterialPointGen_plastic_<tier>.cfg plus random walks; each is a load
history executed on the real optimism.material.J2Plastic (all hardening laws, with / without rate sensitivity,
large / small kinematics; 'seth hill' too once its rest state is sane, see C08) and judged by
MaterialPointTrace.tla.  Shared machinery: checks/matpoint.py.
"""
import sys

from harness import common
from checks import matpoint as mp

PID = "C09"


def seth_hill_sane():
    """The 'seth hill' option is exercised here only if its virgin rest energy is zero (C08 reports it otherwise)."""
    try:
        common.setup_paths()
        import jax.numpy as jnp
        m = mp.CATALOGUE["j2_seth_hill_linear"]["build"]([10.0, 0.25, 0.1, 1.0, 0.0])
        w = float(m.compute_energy_density(jnp.zeros((3, 3)), m.compute_initial_state(), 1.0))
        return abs(w) <= 1e-11
    except Exception:
        return False


def variants(tier):
    kins = ["large", "small"] + (["seth_hill"] if seth_hill_sane() else [])
    if tier == "thorough":
        return ["j2_%s_%s%s" % (k, h, r) for k in kins for h in ("linear", "voce", "power") for r in ("", "_rate")]
    v = ["j2_large_linear", "j2_large_voce", "j2_large_power_rate", "j2_large_linear_rate",
         "j2_small_linear", "j2_small_voce_rate", "j2_small_power"]
    if "seth_hill" in kins:
        v += ["j2_seth_hill_linear", "j2_seth_hill_voce_rate"]
    return v


def main(tier, replay=None):
    vs = variants(tier)
    targets = [(v, m) for v in vs for m in ("jit", "vmapBatch")]
    def multi_commit(b):
        """histories with at least two committed plastic updates (a second update starts from Fp != I): the
        non-proportional multi-step histories of the property's quantifier"""
        acts = [o["a"] for o in b]
        n = sum(1 for i in range(1, len(acts)) if acts[i] == "Commit" and acts[i - 1] in ("Update", "ReUpdate"))
        return n >= 2
    plan = mp.shares(targets, n_sim=150 if tier == "quick" else 2500, prefer=multi_commit)

    def single(behs, rng, n=(1 if tier == "quick" else 6)):
        full = [b for b in behs["ex"] if [o["a"] for o in b][-3:] == ["Update", "ReUpdate", "Commit"]]
        return rng.sample(full, min(n, len(full)))
    plan += [(v, "single", single) for v in (vs[:1] if tier == "quick" else vs[:6])]
    return mp.run_check(PID, tier, replay, plan, ["plastic"], {"plastic": 2500 if tier == "quick" else 8000},
                        rule="load histories = every action sequence of MaterialPointGen_plastic_<tier>.cfg (each to one "
                             "model variant x exec mode, round robin) + seeded TLC random walks per variant x mode; "
                             "moduli, hardening constants, increments, rotations, time steps drawn per seed; distinct = "
                             "distinct (history, variant, mode, seed) executed on the real J2Plastic model")


if __name__ == "__main__":
    sys.exit(main(common.tier()))
