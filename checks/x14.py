"""X14 (extension, not a listed property) — optimism.Math: the error-free transformations _two_sum / _float_split /
_two_product and the compensated scans sum2 / dot2 built from them, plus safe_sqrt.

Design side (TLC, exact toy floating point, ToyFloat.tla): CompSumKernels.tla proves the three kernels error free for EVERY
pair of toy floats (P = 5 and P = 6 bit significands) with the Veltkamp factor 2^S + 1, and REFUTES the product kernel for
the factor 2^(S+1) that `1<<_SPLIT_S + 1` denotes in Python (CompSumPrec.cfg, must be refuted: the design-level image of
finding F35).  CompSum.tla runs the scans as a state machine (one Add per element) with the invariants EFTChain
(p + recovered error terms = exact sum) and ResultBound (the a-priori bound of Ogita, Rump and Oishi).

Code side: every behaviour TLC emits (input sequences with the absorption / cancellation pattern of the toy run) is mapped to
binary64 (exponent gaps stretched, low significand bits filled) and replayed through the REAL kernels step by step and through
the real sum2 / dot2 (eager and jitted); exact rational arithmetic (fractions) is the oracle; CompSumTrace.tla judges."""
import json
import random
import sys
from fractions import Fraction as Fr

import numpy as onp

from harness import common, tlc, trace
from harness.proxies import Silence

PID = "X14"
P_TOY = 5
K_STRETCH = 13
U = Fr(1, 2 ** 53)


def to_double(n, rng, fill):
    """toy float m * 2^e  ->  (m + frac) * 2^(K e): exponent gaps stretched so that the toy run's absorptions and
    cancellations also happen in binary64; frac fills the low significand bits (fill) or is 0."""
    if n == 0:
        return 0.0
    s = -1.0 if n < 0 else 1.0
    a = abs(n)
    e = max(0, a.bit_length() - P_TOY)
    m = a >> e
    frac = rng.getrandbits(44) / 2.0 ** 44 if fill else 0.0
    return s * (m + frac) * 2.0 ** (K_STRETCH * e)


def sigbits(x):
    if x == 0.0:
        return 0
    m, _ = onp.frexp(x)
    n = int(abs(float(m)) * 2 ** 53)
    while n % 2 == 0:
        n //= 2
    return n.bit_length()


class Kernels:
    def __init__(self):
        import jax
        from optimism import Math
        self.Math = Math
        self.two_sum = jax.jit(Math._two_sum)
        self.two_product = jax.jit(Math._two_product)
        self.split = jax.jit(Math._float_split)
        self.sum2 = {}
        self.dot2 = {}
        self.jax = jax

    def jsum(self, n):
        if n not in self.sum2:
            self.sum2[n] = self.jax.jit(self.Math.sum2)
        return self.sum2[n]

    def jdot(self, n):
        if n not in self.dot2:
            self.dot2[n] = self.jax.jit(self.Math.dot2)
        return self.dot2[n]


def run_scan(kn, mode, xs, ys, tid, eager, eager_kernels=False):
    p, sigma = 0.0, 0.0
    exact, comp, abs_sum = Fr(0), Fr(0), Fr(0)
    steps = []
    for a, b in zip(xs, ys):
        st = dict(eft_sum=True, rounded_sum=True, eft_prod=True, rounded_prod=True, split=True)
        if mode == "dot":
            h, r = (float(v) for v in kn.two_product(a, b))
            st["eft_prod"] = bool(Fr(h) + Fr(r) == Fr(a) * Fr(b))
            if eager_kernels:      # op-by-op execution (no fusion / contraction by the compiler): the kernel as written
                he, re_ = (float(v) for v in kn.Math._two_product(a, b))
                st["eft_prod"] = st["eft_prod"] and bool(Fr(he) + Fr(re_) == Fr(a) * Fr(b))
            st["rounded_prod"] = bool(h == a * b)
            for v in (a, b):
                hi, lo = (float(w) for w in kn.split(v))
                st["split"] = st["split"] and bool(Fr(hi) + Fr(lo) == Fr(v) and sigbits(hi) <= 26 and sigbits(lo) <= 26)
        else:
            h, r = a, 0.0
        x, q = (float(v) for v in kn.two_sum(p, h))
        st["eft_sum"] = bool(Fr(x) + Fr(q) == Fr(p) + Fr(h))
        st["rounded_sum"] = bool(x == p + h)
        sigma = sigma + (q + r) if mode == "dot" else sigma + q
        p = x
        exact += Fr(a) * Fr(b)
        comp += Fr(q) + Fr(r)
        abs_sum += abs(Fr(a) * Fr(b))
        steps.append(st)
    chained = p + sigma
    n = len(xs)
    import jax.numpy as jnp
    if mode == "dot":
        got = [float(kn.jdot(n)(jnp.array(xs), jnp.array(ys)))]
        if eager:
            got.append(float(kn.Math.dot2(jnp.array(xs), jnp.array(ys))))
    else:
        got = [float(kn.jsum(n)(jnp.array(xs)))]
        if eager:
            got.append(float(kn.Math.sum2(jnp.array(xs))))
    same = all(g == chained for g in got)
    gam = Fr(n, 2 ** 53 - n)
    bound = all(abs(Fr(g) - exact) <= U * abs(exact) + gam * gam * abs_sum for g in got)
    grad = True
    if mode == "sum" and eager:
        g = onp.asarray(kn.jax.grad(kn.Math.sum2)(jnp.array(xs)))
        grad = bool(onp.all(g == 1.0))
    return dict(id=tid, mode=mode, n=n, steps=steps, same=bool(same), chain=bool(Fr(p) + comp == exact), bound=bool(bound),
                grad=grad)


def run_sqrt(kn, x, tid):
    import jax
    f = kn.Math.safe_sqrt
    val = float(f(x))
    g = float(jax.grad(f)(x))
    gj = float(jax.jit(jax.grad(f))(x))
    if x > 0:
        ok = val == float(onp.sqrt(x)) and abs(g - 0.5 / onp.sqrt(x)) <= 4e-16 * 0.5 / onp.sqrt(x) and g == gj
    elif x == 0:
        ok = val == 0.0 and g == 0.0 and gj == 0.0
    else:
        ok = onp.isnan(val) and g == 0.0 and gj == 0.0
    return dict(id=tid, mode="sqrt", n=1, steps=[], same=True, chain=True, bound=True, grad=bool(ok))


# pairs on which the product kernel is NOT error free with the split factor 2^28 (found by the probe that confirmed F35);
# directed so that detection of the precedence slip does not depend on VERIF_SEED
F35_WITNESS_SEEDS = (1, 2, 3)


def witnesses():
    out = []
    for s in F35_WITNESS_SEEDS:
        r = random.Random(1000 + s)
        for _ in range(400):
            a = r.uniform(1, 2) * 2.0 ** r.randrange(-5, 5)
            b = r.uniform(1, 2) * 2.0 ** r.randrange(-5, 5)
            out.append((a, b))
    return out


def main(tier, replay=None):
    common.setup_paths()
    rep = common.Reporter(PID, tier)
    rep.assumptions = ["extension beyond the listed properties: not registered in MANIFEST.json",
                       "toy floating point (5- and 6-bit significands, no underflow / overflow) on the design side; binary64 without "
                       "underflow / overflow on the code side (magnitudes 2^-40 .. 2^120)",
                       "exact rational arithmetic (python fractions) is the oracle for every recorded flag"]
    rng = random.Random(common.seed())
    with Silence():
        kn = Kernels()
    traces, cases = [], {}
    if replay:
        c = json.load(open(replay))["case"]
        if c["mode"] == "sqrt":
            traces.append(run_sqrt(kn, c["xs"][0], 1))
        else:
            traces.append(run_scan(kn, c["mode"], c["xs"], c["ys"], 1, True, eager_kernels=True))
        cases[1] = c
    else:
        for cfg, label, want in (("CompSumKernels.cfg", "kernels-P5", True), ("CompSumKernels6.cfg", "kernels-P6", True),
                                 ("CompSumPrec.cfg", "kernels-precedence-factor (must be refuted)", False)):
            res = tlc.run("CompSumKernels.tla", cfg, label=label)
            if want:
                tlc.require_ok(res, rep, label)
                rep.add_tlc(res)
            else:
                refuted = (not res.ok) and "TwoProductExact" in (res.stdout or "")
                rep.coverage["negative_control_precedence_factor_refuted"] = bool(refuted)
                if not refuted:
                    rep.machinery("CompSumPrec.cfg: TLC did not refute TwoProductExact for the factor 2^(S+1) (vacuity control)")
        des = tlc.run("CompSum.tla", "CompSumGen.cfg", label="design")
        tlc.require_ok(des, rep, "design")
        rep.add_tlc(des)
        behs, seen = [], set()
        for b in des.payloads("BEH"):
            key = json.dumps(b["hist"])
            if key not in seen:
                seen.add(key)
                behs.append(b)
        rep.coverage["behaviours_emitted"] = len(behs)
        cap = 2500 if tier == "quick" else len(behs)
        rng.shuffle(behs)
        behs.sort(key=lambda b: 0 if b["res"] != b["exact"] or abs(b["exact"]) < 4 else 1)   # cancellation-heavy first
        tid = 0
        for b in behs[:cap]:
            tid += 1
            fill = (tid % 3 != 0)
            g = 2.0 ** rng.randrange(-40, 41)
            xs = [to_double(int(h[0]), rng, fill) * g for h in b["hist"]]
            ys = [to_double(int(h[1]), rng, fill) if b["mode"] == "dot" else 1.0 for h in b["hist"]]
            c = dict(mode=b["mode"], xs=xs, ys=ys, toy=b["hist"])
            traces.append(run_scan(kn, b["mode"], xs, ys, tid, eager=(tid % 50 == 0))); cases[tid] = c
        for (a, b) in witnesses():
            tid += 1
            c = dict(mode="dot", xs=[a, -a], ys=[b, b * (1 + 2.0 ** -30)], toy="directed: full-significand products")
            traces.append(run_scan(kn, "dot", c["xs"], c["ys"], tid, eager=False, eager_kernels=True)); cases[tid] = c
        # long ill-conditioned scans (the upstream test's pattern at random lengths / scales)
        for i in range(40 if tier == "quick" else 400):
            tid += 1
            n = rng.randrange(4, 40)
            big = [rng.uniform(-1, 1) * 2.0 ** rng.randrange(0, 100) for _ in range(n)]
            xs = big + [-v for v in big] + [rng.uniform(-1, 1) for _ in range(3)]
            rng.shuffle(xs)
            mode = "dot" if i % 2 else "sum"
            ys = [rng.uniform(1, 2) for _ in xs] if mode == "dot" else [1.0] * len(xs)
            if mode == "dot":
                xs = xs + [-v for v in xs]
                ys = ys + ys
            c = dict(mode=mode, xs=xs, ys=ys, toy="directed: ill-conditioned long scan")
            traces.append(run_scan(kn, mode, xs, ys, tid, eager=(i < 4))); cases[tid] = c
        for x in (-2.0, -1e-300, 0.0, 1e-300, 2.0 ** -1022, 1.0, 2.0, 1e300) + tuple(rng.uniform(0, 10) for _ in range(10)):
            tid += 1
            cases[tid] = dict(mode="sqrt", xs=[x], ys=[])
            traces.append(run_sqrt(kn, x, tid))
    for cl, n in (("two_sum_error_free", sum(len(t["steps"]) for t in traces)),
                  ("two_product_error_free", sum(len(t["steps"]) for t in traces if t["mode"] == "dot")),
                  ("scan_is_kernel_chain", len(traces)), ("result_bound", len(traces)), ("nothing_lost", len(traces)),
                  ("derivative", sum(1 for t in traces if t["mode"] == "sqrt"))):
        rep.count_clause(cl, n)
    rep.coverage["modes"] = {k: sum(1 for t in traces if t["mode"] == k) for k in ("sum", "dot", "sqrt")}
    rep.sample(traces[len(traces) // 2])
    trace.validate("CompSumTrace.tla", "CompSumTrace.cfg", traces, rep,
                   on_fail=lambda tid, l, clause: rep.fail(clause, cases[tid]))
    return rep.finish(rule="every toy-float pair (kernels) and every input sequence to depth 3 (scans) enumerated by TLC; the scans' "
                           "behaviours replayed on binary64 through the real kernels with an exact rational oracle",
                      extra={"distinct_nontrivial": len(traces)}, exhaustive=(tier != "quick"))


if __name__ == "__main__":
    sys.exit(main(common.tier()))
