"""C11 -- Viscoelastic models dissipate, relax and keep viscous flow isochoric.

Design: specs/MaterialPoint.tla (MonotoneRelax, NonNegDissipation, Isochoric over all histories of Load / Hold /
Deform / rotations / LimitFast / LimitSlow).  Binding: TLC emits every action sequence of
MaterialPointGen_viscous_<tier>.cfg plus random walks; each is executed on the real HyperViscoelastic (1 branch) and
MultiBranchHyperViscoelastic (3 branches) models with time steps 1e-6..1e6 relaxation times; MaterialPointTrace.tla
judges dissipation_nonneg, isochoric_v, relax_monotone, limit_fast, limit_slow.  Shared machinery: checks/matpoint.py.
"""
import json
import sys

from harness import common
from checks import matpoint as mp

PID = "C11"


def main(tier, replay=None):
    quick = tier == "quick"
    vs = ["visco_1", "visco_3"]
    targets = [(v, m) for v in vs for m in ("jit", "vmapBatch")]
    def limits_at_a_deformed_state(b):
        acts = [o["a"] for o in b]
        return "Deform" in acts and any(a in ("LimitFast", "LimitSlow") for a in acts[acts.index("Deform"):])
    plan = mp.shares(targets, n_sim=150 if quick else 3000, n_ex_extra=0 if quick else 5000,
                     boost=(limits_at_a_deformed_state, 150 if quick else 2000))

    def single(behs, rng, n=(1 if quick else 4)):
        # plain un-jitted calls re-trace everything (seconds per call): Reset, Load, Hold only
        good = sorted({json.dumps(b[:3]) for b in behs["ex"] if [o["a"] for o in b][1:3] == ["Load", "Hold"]})
        return [json.loads(g) for g in rng.sample(good, min(n, len(good)))]
    plan += [(v, "single", single) for v in (vs[:1] if quick else vs)]
    return mp.run_check(PID, tier, replay, plan, ["viscous"], {"viscous": 200 if quick else 4000},
                        rule="load histories = every action sequence of MaterialPointGen_viscous_<tier>.cfg (each to one model x "
                             "exec mode, round robin) + seeded TLC random walks; moduli and relaxation times over decades, time "
                             "steps 1e-6..1e6 tau, increments 1e-9..0.5 drawn per seed; distinct = distinct (history, model, "
                             "mode, seed) executed on the real viscoelastic model")


if __name__ == "__main__":
    sys.exit(main(common.tier()))
