"""C15 — Newmark stepping satisfies the equations of motion and conserves energy.

(A) Newmark.tla: exact rational single-degree-of-freedom model  m a + k u = 0  stepped by the three calls of one
    library time step (Predict(dt) / Minimise / Correct, composed as Mechanics.create_dynamics_functions composes
    them), step size chosen anew each step; TLC checks balance, the Newmark update identities, exact energy
    conservation for (beta, gamma) = (1/4, 1/2) and exact free flight for k = 0 on every behaviour.
(B) modal replay: every maximal behaviour printed by NewmarkGen.tla (exact rationals of the predicted values and of
    (u, v, a) after every step) is executed on a REAL mesh: K and M are the Hessians of the library's own strain and
    kinetic energies, (omega^2, phi) a generalized eigenpair, U0 = c u0 phi, V0 = c omega v0 phi, A0 = -omega^2 U0,
    dt_n = dt_n^spec / omega; each step is  dyn.predict -> minimise dyn.compute_algorithmic_energy -> dyn.correct.
    The modal amplitudes are compared (codes, rtol 1e-9) with the rationals TLC printed.
(C) general fields (random fields, variable steps, linear elastic and neo-Hookean, several (beta, gamma), BC sets,
    element orders): residual of the discrete momentum balance, update formulas, energy drift (trapezoidal + linear
    elastic, many variable steps), rigid translation, sum of the consistent mass.
All comparison codes are judged by NewmarkTrace.tla, which also advances the exact model itself with the logged
step sizes and checks that the reference rationals used by the harness are its own state (oracle_binding).
"""
import json
import math
import random
import re
import sys
from fractions import Fraction

import numpy as onp

from harness import common, tlc, trace
from harness.proxies import Silence

PID = "C15"

# rounding allowances (same quantity evaluated two ways); copied into the evidence
RT_MODAL = 1e-9     # modal amplitude vs num/den printed by TLC, relative to max(1, largest amplitude of the behaviour)
RT_BAL = 1e-8       # || grad SE(U) + M A || <= RT_BAL * scale
RT_FORM = 1e-9      # Newmark update formulas, relative to the sum of the magnitudes of the terms
RT_EN = 1e-9        # |E_n - E_0| <= RT_EN * E_0
EN_FLOOR = 1e-12    # ... + EN_FLOOR * (||K||_F |U|^2 + ||M||_F |V|^2): rounding of evaluating E itself
RT_FF = 1e-10       # rigid translation
ROUND_AMP = 1e3 * 2.0 ** -52   # x sum over the steps so far of cond(M/(beta dt^2) + K) = 1 + beta dt^2 omega_max^2: added to RT_MODAL / RT_FF
RT_MASS = 1e-12     # sum of consistent mass vs rho * area * dim
NEWTON_TOL = 1e-10  # the harness minimiser must reach ||grad algorithmic energy|| <= NEWTON_TOL * scale, else conv = False

PARS = {"trap": [[1, 4], [1, 2]], "damped": [[3, 10], [11, 20]], "half": [[1, 2], [1, 2]],
        "third": [[1, 3], [1, 2]], "hht": [[9, 25], [7, 10]]}
BCS = {"none": [], "roller": [("bottom", 1)], "clamped": [("left", 0), ("left", 1)], "sym": [("left", 0), ("bottom", 1)]}
FREE_DIRS = {"none": [(1.0, 0.0), (0.0, 1.0), (0.6, -0.8)], "roller": [(1.0, 0.0)], "clamped": [], "sym": []}

MESHES_QUICK = [dict(nx=3, ny=3, Lx=1.0, Ly=0.8, order=1, bc="none"),
                dict(nx=3, ny=2, Lx=1.0, Ly=0.1, order=2, bc="roller"),
                dict(nx=4, ny=3, Lx=1.3, Ly=1.0, order=1, bc="clamped"),
                dict(nx=2, ny=2, Lx=0.7, Ly=1.1, order=2, bc="sym")]
MESHES_MORE = [dict(nx=4, ny=4, Lx=2.0, Ly=1.5, order=2, bc="none"),
               dict(nx=3, ny=3, Lx=1.0, Ly=1.0, order=3, bc="roller"),
               dict(nx=6, ny=4, Lx=3.0, Ly=1.0, order=1, bc="roller"),
               dict(nx=3, ny=4, Lx=0.5, Ly=2.0, order=2, bc="clamped"),
               dict(nx=5, ny=3, Lx=2.0, Ly=0.5, order=2, bc="sym"),
               dict(nx=2, ny=2, Lx=1.0, Ly=1.0, order=3, bc="none"),
               dict(nx=5, ny=3, Lx=1.6, Ly=0.8, order=1, bc="clamped"),
               dict(nx=4, ny=2, Lx=1.0, Ly=0.25, order=2, bc="none"),
               dict(nx=2, ny=5, Lx=0.3, Ly=3.0, order=1, bc="sym"),
               dict(nx=3, ny=3, Lx=0.01, Ly=0.02, order=2, bc="roller")]


def fr(q):
    return Fraction(int(q[0]), int(q[1]))


# ----------------------------------------------------------------------------- real-code model
_MODELS = {}


class Model:
    """One mesh / BC set / material / Newmark parameter set: the library's dynamics functions plus jitted
    derivatives of the LIBRARY's energies with respect to the unknowns."""

    def __init__(self, cfg):
        import jax
        import jax.numpy as np
        from optimism import Mechanics, Mesh, FunctionSpace, QuadratureRule
        from optimism.material import LinearElastic, Neohookean
        self.cfg = cfg
        xr, yr = [0.0, cfg["Lx"]], [0.0, cfg["Ly"]]
        m = Mesh.construct_structured_mesh(cfg["nx"], cfg["ny"], xr, yr)
        if cfg["order"] > 1:
            m = Mesh.create_higher_order_mesh_from_simplex_mesh(m, order=cfg["order"])
        c = onp.asarray(m.coords)
        tol = 1e-8
        ns = dict(left=onp.flatnonzero(c[:, 0] < xr[0] + tol), right=onp.flatnonzero(c[:, 0] > xr[1] - tol),
                  bottom=onp.flatnonzero(c[:, 1] < yr[0] + tol), top=onp.flatnonzero(c[:, 1] > yr[1] - tol))
        m = Mesh.mesh_with_nodesets(m, {k: np.array(v) for k, v in ns.items()})
        self.mesh = m
        qr = QuadratureRule.create_quadrature_rule_on_triangle(degree=2 * m.parentElement.degree)
        fs = FunctionSpace.construct_function_space(m, qr)
        props = {"elastic modulus": cfg["E"], "poisson ratio": cfg["nu"], "density": cfg["rho"]}
        # the volume-averaged-J projection makes the strain energy non-quadratic whatever the material
        self.linear = cfg["mat"] == "linear" and cfg.get("ppd") is None
        mat = (LinearElastic if cfg["mat"] == "linear" else Neohookean).create_material_model_functions(props)
        self.beta = float(fr(cfg["par"][0]))
        self.gamma = float(fr(cfg["par"][1]))
        self.dyn = dyn = Mechanics.create_dynamics_functions(
            fs, "plane strain", mat, Mechanics.NewmarkParameters(gamma=self.gamma, beta=self.beta),
            pressureProjectionDegree=cfg.get("ppd"))
        self.iv = iv = dyn.compute_initial_state()
        ebcs = [FunctionSpace.EssentialBC(nodeSet=s, component=comp) for s, comp in BCS[cfg["bc"]]]
        self.dm = dm = FunctionSpace.DofManager(fs, 2, ebcs)
        self.nu = int(dm.get_unknown_size())
        self.nn = int(m.coords.shape[0])

        def fld(x):
            return dm.create_field(x)

        def se(x):
            return dyn.compute_output_strain_energy(fld(x), iv, 0.0)

        def ke(x):
            return dyn.compute_output_kinetic_energy(fld(x))

        def alg(x, xp, dt):
            return dyn.compute_algorithmic_energy(fld(x), fld(xp), iv, dt)

        self.alg = alg
        self.se, self.ke = jax.jit(se), jax.jit(ke)
        self.gse, self.gke = jax.jit(jax.grad(se)), jax.jit(jax.grad(ke))
        self.valg, self.galg, self.halg = jax.jit(alg), jax.jit(jax.grad(alg)), jax.jit(jax.hessian(alg))
        z = np.zeros(self.nu)
        self.K = onp.asarray(jax.jacfwd(self.gse)(z))           # Hessian of the library strain energy at rest
        self.M = onp.asarray(jax.jacfwd(self.gke)(z))           # Hessian of the library kinetic energy
        self.K = 0.5 * (self.K + self.K.T)
        self.M = 0.5 * (self.M + self.M.T)
        self.Kn = float(onp.linalg.norm(self.K))
        self.Mn = float(onp.linalg.norm(self.M))
        self._eig = None
        self._mass = None
        self._obj = None
        # unknown-vector of a constant translation (for rigid motion)
        self.unknownIdx = onp.asarray(dm.unknownIndices)

    # ---- mass observation: full (unconstrained) field
    def mass_codes(self):
        if self._mass is None:
            import jax
            import jax.numpy as np
            nn = self.nn
            Mfull = onp.asarray(jax.hessian(lambda v: self.dyn.compute_output_kinetic_energy(v.reshape(nn, 2)))(np.zeros(2 * nn)))
            want = self.cfg["rho"] * self.cfg["Lx"] * self.cfg["Ly"] * 2
            sM = float(Mfull.sum())
            sEl = float(onp.asarray(self.dyn.compute_element_masses()).sum())
            _ratio("mass", max(abs(sM - want), abs(sEl - want)), RT_MASS * want)
            self._mass = dict(sumM="EQ" if abs(sM - want) <= RT_MASS * want else "NE",
                              sumEl="EQ" if abs(sEl - want) <= RT_MASS * want else "NE",
                              values=[sM, sEl, want])
        return self._mass

    def eig(self):
        if self._eig is None:
            import scipy.linalg
            w, P = scipy.linalg.eigh(self.K, self.M)
            self._eig = (w, P)
        return self._eig

    def translation(self, d):
        f = onp.zeros((self.nn, 2))
        f[:, 0], f[:, 1] = d[0], d[1]
        return f.reshape(-1)[self.unknownIdx]

    # ---- minimisers of the library's algorithmic energy
    def newton(self, xpre, dt):
        import jax.numpy as np
        x = onp.array(xpre, dtype=float)
        xp = np.array(xpre)
        best, prev = None, None
        for it in range(40):
            g = onp.asarray(self.galg(np.array(x), xp, dt))
            H = onp.asarray(self.halg(np.array(x), xp, dt))
            if not (onp.all(onp.isfinite(g)) and onp.all(onp.isfinite(H))):
                break
            sc = float(onp.linalg.norm(H)) * max(float(onp.linalg.norm(x)), float(onp.linalg.norm(xpre)))
            gn = float(onp.linalg.norm(g))
            if best is None or gn < best[0]:
                best = (gn, x.copy(), sc)
            if gn == 0.0 or (it >= 2 and gn <= 1e-13 * sc) or (it >= 3 and gn <= 1e-11 * sc and gn >= 0.5 * prev):
                break
            prev = gn
            try:
                dx = onp.linalg.solve(0.5 * (H + H.T), -g)
            except onp.linalg.LinAlgError:
                break
            t = 1.0
            if not self.linear and gn > 1e-7 * sc:       # globalisation far from the minimiser only (energy differences
                f0 = float(self.valg(np.array(x), xp, dt))   # drown in rounding close to it)
                while t > 1e-6:
                    f1 = float(self.valg(np.array(x + t * dx), xp, dt))
                    if math.isfinite(f1) and f1 <= f0 + 1e-4 * t * float(g @ dx) + 1e-14 * abs(f0):
                        break
                    t *= 0.5
            x = x + t * dx
        if best is None:
            return x, False
        gn, x, sc = best
        return x, bool(gn <= NEWTON_TOL * sc)

    def tr(self, xpre, dt):
        """the library's own trust-region solver, driven as optimism/test/test_Newmark.py drives it"""
        import jax.numpy as np
        from optimism import EquationSolver, Objective
        p = Objective.Params(None, self.iv, None, None, np.array([dt, 0.0]), np.array(xpre))
        if self._obj is None:
            alg = self.alg

            def f(x, p):
                return alg(x, p.dynamic_data, p.time[0] - p.time[1])
            with Silence():
                self._obj = Objective.Objective(f, np.array(xpre), p)
        H = onp.asarray(self.halg(np.array(xpre), np.array(xpre), dt))
        sc = float(onp.linalg.norm(H)) * float(onp.linalg.norm(xpre))
        s = EquationSolver.get_settings(max_cg_iters=200, max_trust_iters=500, min_tr_size=1e-13,
                                        tol=max(1e-11 * sc, 1e-300), use_incremental_objective=False, debug_info=False)
        with Silence():
            x, ok = EquationSolver.nonlinear_equation_solve(self._obj, np.array(xpre), p, s, useWarmStart=False)
        x = onp.asarray(x)
        g = onp.asarray(self.galg(np.array(x), np.array(xpre), dt))
        return x, bool(ok) and bool(onp.linalg.norm(g) <= NEWTON_TOL * max(sc, 1e-300) * 10)


def get_model(cfg):
    key = json.dumps(cfg, sort_keys=True)
    if key not in _MODELS:
        _MODELS[key] = Model(cfg)
    return _MODELS[key]


# ----------------------------------------------------------------------------- alpha
_WORST = {}      # clause -> largest observed defect / allowance (reported in the evidence; 1.0 = at the allowance)


def _ratio(name, defect, allow):
    if allow > 0 and math.isfinite(defect):
        _WORST[name] = max(_WORST.get(name, 0.0), defect / allow)


def code3(obs, ref, allow, name="modal"):
    d = obs - ref
    _ratio(name, abs(d), allow)
    if not math.isfinite(d):
        return "NE"
    if abs(d) <= allow:
        return "EQ"
    return "LT" if d < 0 else "GT"


def inf(x):
    x = onp.asarray(x)
    return float(onp.abs(x).max()) if x.size else 0.0


def step_obs(md, old, new, dt, E0, ff):
    """alpha for one completed step.  old/new = (U, V, A) unknown-vectors before / after the step."""
    import jax.numpy as np
    U0, V0, A0 = old
    U1, V1, A1 = new
    b, g = md.beta, md.gamma
    fint = onp.asarray(md.gse(np.array(U1)))
    MA = onp.asarray(md.gke(np.array(A1)))
    r = float(onp.linalg.norm(fint + MA))
    scale = float(onp.linalg.norm(fint)) + float(onp.linalg.norm(MA)) + \
        (md.Kn + md.Mn / (b * dt * dt)) * max(float(onp.linalg.norm(U1)), float(onp.linalg.norm(U0)))
    out = dict(bal="EQ" if (math.isfinite(r) and r <= RT_BAL * scale) else "NE")
    _ratio("balance" if md.linear else "balance_neo", r, RT_BAL * scale)
    du = U1 - (U0 + dt * V0 + dt * dt * ((0.5 - b) * A0 + b * A1))
    su = inf(U1) + inf(U0) + dt * inf(V0) + dt * dt * (inf(A0) + inf(A1))
    dv = V1 - (V0 + dt * ((1.0 - g) * A0 + g * A1))
    sv = inf(V1) + inf(V0) + dt * (inf(A0) + inf(A1))
    _ratio("formula_u", inf(du), RT_FORM * su)
    _ratio("formula_v", inf(dv), RT_FORM * sv)
    out["fu"] = "EQ" if (onp.all(onp.isfinite(du)) and inf(du) <= RT_FORM * su) else "NE"
    out["fv"] = "EQ" if (onp.all(onp.isfinite(dv)) and inf(dv) <= RT_FORM * sv) else "NE"
    if E0 is not None:
        E1 = float(md.ke(np.array(V1))) + float(md.se(np.array(U1)))
        # floor: rounding of evaluating the energies themselves (a translation has SE = O(eps K |U|^2), not 0)
        floor = EN_FLOOR * (md.Kn * max(float(U1 @ U1), float(U0 @ U0)) + md.Mn * max(float(V1 @ V1), float(V0 @ V0)))
        _ratio("energy", abs(E1 - E0), RT_EN * E0 + floor)
        out["en"] = "EQ" if (math.isfinite(E1) and abs(E1 - E0) <= RT_EN * E0 + floor) else "NE"
        out["_E"] = E1
    else:
        out["en"] = "NA"
    if ff is not None:
        Ur, Vr, t, dtmin = ff[:4]      # U(0), V(0), time after this step
        RT_FF = globals()["RT_FF"] + (ff[4] if len(ff) > 4 else 0.0)      # + rounding amplified by the step's conditioning
        eu = inf(U1 - (Ur + t * Vr))
        ev = inf(V1 - Vr)
        _ratio("free_flight", eu, RT_FF * (inf(Ur) + t * inf(Vr)))
        _ratio("free_flight", ev, RT_FF * (inf(Vr) + (inf(Ur) + t * inf(Vr)) / dtmin))
        ok = eu <= RT_FF * (inf(Ur) + t * inf(Vr)) and ev <= RT_FF * (inf(Vr) + (inf(Ur) + t * inf(Vr)) / dtmin)
        out["ff"] = "EQ" if ok else "NE"
    else:
        out["ff"] = "NA"
    return out


# ----------------------------------------------------------------------------- (B) modal replay
def run_modal(md, beh, seed, tid, minimiser="newton"):
    import jax.numpy as np
    rng = random.Random(seed)
    st = beh["start"]
    k = int(st["k"])
    u0, v0 = fr(st["u0"]), fr(st["v0"])
    assert u0.denominator == 1 and v0.denominator == 1
    M = md.M
    if k == 1:
        w, P = md.eig()
        elastic = [j for j in range(len(w)) if w[j] > 1e-7 * w[-1]]
        j = rng.choice(elastic)
        om = math.sqrt(w[j])
        phi = P[:, j] / math.sqrt(float(P[:, j] @ M @ P[:, j]))
    else:
        d = rng.choice(FREE_DIRS[md.cfg["bc"]])
        phi = md.translation(d)
        phi = phi / math.sqrt(float(phi @ M @ phi))
        om = 10 ** rng.uniform(-0.5, 1.5)              # no frequency: an arbitrary time scale
        j = -1
    c = 10 ** rng.uniform(-3, 1)
    S = max([1.0] + [abs(float(fr(s[q]))) for s in beh["steps"] for q in ("u", "v", "a", "up", "vp")])
    allow = RT_MODAL * S
    Mphi = M @ phi
    whi2 = float(md.eig()[0][-1])      # largest eigenvalue of (K, M): omega_max^2
    condsum = 0.0

    def amp(x, sc):
        return float(Mphi @ x) / sc

    def off(x, sc):
        y = x - (Mphi @ x) * phi
        return math.sqrt(max(float(y @ M @ y), 0.0)) / sc

    U = c * float(u0) * phi
    V = c * om * float(v0) * phi
    A = -c * om * om * k * float(u0) * phi
    trap_lin = md.cfg["par"] == PARS["trap"] and md.linear
    E0 = (float(md.ke(np.array(V))) + float(md.se(np.array(U)))) if trap_lin else None
    ffref = (U.copy(), V.copy()) if k == 0 else None
    t, dtmin = 0.0, None
    ev = []
    for s in beh["steps"]:
        dt = float(fr(s["dt"])) / om
        t += dt
        dtmin = dt if dtmin is None else min(dtmin, dt)
        # no arithmetic solves (M/(beta dt^2) + K) x = b more accurately than eps * cond, cond = 1 + beta dt^2 omega_max^2
        # (a rigid mode has an arbitrary time scale: dt * omega_max reaches 1e8 on the stiff models)
        condsum += 1.0 + md.beta * dt * dt * whi2
        rnd = ROUND_AMP * condsum
        allow = (RT_MODAL + rnd) * S
        Up, Vp = md.dyn.predict(np.array(U), np.array(V), np.array(A), dt)
        Up, Vp = onp.asarray(Up), onp.asarray(Vp)
        ev.append(dict(op="Predict", dt=[int(s["dt"][0]), int(s["dt"][1])],
                       cup=code3(amp(Up, c), float(fr(s["up"])), allow),
                       cvp=code3(amp(Vp, c * om), float(fr(s["vp"])), allow)))
        Un, conv = (md.newton if minimiser == "newton" else md.tr)(Up, dt)
        ev.append(dict(op="Minimise", conv=bool(conv), cum=code3(amp(Un, c), float(fr(s["u"])), allow)))
        Vn, An = md.dyn.correct(np.array(Un - Up), np.array(Vp), np.array(A), dt)
        Vn, An = onp.asarray(Vn), onp.asarray(An)
        o = step_obs(md, (U, V, A), (Un, Vn, An), dt, E0,
                     (ffref[0], ffref[1], t, dtmin, rnd) if ffref is not None else None)
        o.pop("_E", None)
        on_mode = max(off(Un, c), off(Vn, c * om), off(An, c * om * om)) <= allow
        _ratio("on_mode", max(off(Un, c), off(Vn, c * om), off(An, c * om * om)), allow)
        ev.append(dict(op="Correct", ref=[[int(x) for x in s["u"]], [int(x) for x in s["v"]], [int(x) for x in s["a"]]],
                       cu=code3(amp(Un, c), float(fr(s["u"])), allow),
                       cv=code3(amp(Vn, c * om), float(fr(s["v"])), allow),
                       ca=code3(amp(An, c * om * om), float(fr(s["a"])), allow),
                       onMode=bool(on_mode), **o))
        U, V, A = Un, Vn, An
    return dict(id=tid, kind="modal", par=md.cfg["par"], k=k, u0=int(u0), v0=int(v0), linear=md.linear,
                rigid=(k == 0), ev=ev, _info=dict(mode=j, omega=om, c=c))


# ----------------------------------------------------------------------------- (C) general fields
def run_field(md, ftype, nsteps, seed, tid, minimiser="newton"):
    """ftype: "energy" (consistent A0), "general" (arbitrary A0), "rigid" (constant translation + velocity)."""
    import jax.numpy as np
    rng = random.Random(seed)
    nrng = onp.random.RandomState(seed % (2 ** 31))
    w, P = md.eig()
    pos = [x for x in w if x > 1e-7 * w[-1]]
    om_lo, om_hi = math.sqrt(pos[0]), math.sqrt(pos[-1])
    h = min(md.cfg["Lx"] / (md.cfg["nx"] - 1), md.cfg["Ly"] / (md.cfg["ny"] - 1)) / md.cfg["order"]
    ampU = h * 10 ** rng.uniform(-3, -0.3)
    om_ref = om_lo
    ff = None
    if ftype == "rigid":
        d = rng.choice(FREE_DIRS[md.cfg["bc"]])
        U = md.translation(d) * rng.uniform(-2, 2) * md.cfg["Lx"]
        V = md.translation(d) * 10 ** rng.uniform(-1, 1) * md.cfg["Lx"] * om_lo
        A = onp.zeros(md.nu)
        ff = (U.copy(), V.copy())
    elif not md.linear:
        # finite strains (up to ~0.1 L / wavelength) but smooth fields: combinations of the 4 lowest elastic modes of the
        # rest configuration, so that the predictor does not invert elements and Newton converges
        idx = [j for j in range(len(w)) if w[j] > 1e-7 * w[-1]][:4]
        om_ref = math.sqrt(w[idx[-1]])

        def smooth():
            y = sum(nrng.uniform(-1, 1) * P[:, j] for j in idx)
            return y / inf(y)
        ampU = min(md.cfg["Lx"], md.cfg["Ly"]) * rng.uniform(0.02, 0.1)
        U = ampU * smooth()
        V = ampU * om_ref * rng.uniform(0.2, 1.0) * smooth()
        if rng.random() < 0.5:
            A = -onp.linalg.solve(md.M, onp.asarray(md.gse(np.array(U))))
        else:
            A = ampU * om_ref ** 2 * smooth()
    else:
        U = ampU * nrng.uniform(-1, 1, md.nu)
        V = ampU * 10 ** rng.uniform(math.log10(om_lo), math.log10(om_hi)) * nrng.uniform(-1, 1, md.nu)
        if ftype == "energy" or (md.cfg["par"] == PARS["trap"] and md.linear) or rng.random() < 0.5:
            A = -onp.linalg.solve(md.M, onp.asarray(md.gse(np.array(U))))      # consistent: M A0 + f_int(U0) = 0
        else:
            A = ampU * om_lo ** 2 * nrng.uniform(-1, 1, md.nu)
    trap_lin = md.cfg["par"] == PARS["trap"] and md.linear      # then A0 is consistent (a state of the motion)
    E0 = (float(md.ke(np.array(V))) + float(md.se(np.array(U)))) if trap_lin else None
    mc = md.mass_codes()
    ev = [dict(op="Mass", sumM=mc["sumM"], sumEl=mc["sumEl"])]
    t, dtmin, condsum = 0.0, None, 0.0
    lo, hi = (0.02, 20.0) if md.linear else (0.02, 1.0)
    if ftype == "energy":
        lo = 0.05         # keeps the rounding amplification eps |U| / (beta dt |V|) of correct() two orders below RT_EN
    for i in range(nsteps):
        dt = 10 ** rng.uniform(math.log10(lo), math.log10(hi)) / (om_ref if (not md.linear or rng.random() < 0.5) else om_hi)
        t += dt
        dtmin = dt if dtmin is None else min(dtmin, dt)
        condsum += 1.0 + md.beta * dt * dt * float(w[-1])
        Up, Vp = md.dyn.predict(np.array(U), np.array(V), np.array(A), dt)
        Up, Vp = onp.asarray(Up), onp.asarray(Vp)
        ev.append(dict(op="Predict", dt=[1, 1], cup="NA", cvp="NA"))
        Un, conv = (md.newton if minimiser == "newton" else md.tr)(Up, dt)
        ev.append(dict(op="Minimise", conv=bool(conv), cum="NA"))
        Vn, An = md.dyn.correct(np.array(Un - Up), np.array(Vp), np.array(A), dt)
        Vn, An = onp.asarray(Vn), onp.asarray(An)
        o = step_obs(md, (U, V, A), (Un, Vn, An), dt, E0,
                     (ff[0], ff[1], t, dtmin, ROUND_AMP * condsum) if ff is not None else None)
        o.pop("_E", None)
        ev.append(dict(op="Correct", ref=[[0, 1], [0, 1], [0, 1]], cu="NA", cv="NA", ca="NA", onMode=True, **o))
        U, V, A = Un, Vn, An
    return dict(id=tid, kind="field", par=md.cfg["par"], k=0, u0=0, v0=0, linear=md.linear, rigid=(ftype == "rigid"), ev=ev)


# ----------------------------------------------------------------------------- planning
def materials(rng, idx=None):
    # every third model (deterministically: the 2nd, 5th, ... of the plan) is very stiff (wave speeds ~1e6..1e7): its natural
    # periods, and hence the time steps dt = dt_spec / omega of the replayed behaviours, fall well below 1e-6
    stiff = 10.0 ** (rng.choice([0, 0, 12]) if idx is None else (12 if idx % 3 == 1 else 0))
    return dict(E=round(10 ** rng.uniform(0, 2), 6) * stiff, nu=round(rng.uniform(0.0, 0.4), 6), rho=round(10 ** rng.uniform(-0.3, 0.7), 6))


def plan_models(tier, rng):
    meshes = MESHES_QUICK + (MESHES_MORE if tier == "thorough" else [])
    out = []
    for i, m in enumerate(meshes):
        mm = dict(m)
        mm.update(materials(rng, i))
        out.append(mm)
    return out


def maximal(behs):
    def key(b, upto=None):
        steps = b["steps"] if upto is None else b["steps"][:upto]
        return (json.dumps(b["start"], sort_keys=True), tuple(tuple(s["dt"]) for s in steps))
    keys = {key(b) for b in behs}
    dts = {tuple(s["dt"]) for b in behs for s in b["steps"]}
    out = []
    for b in behs:
        k0 = key(b)
        if not any((k0[0], k0[1] + (d,)) in keys for d in dts):
            out.append(b)
    return out


def predict_count(res):
    m = re.search(r"^<DoPredict line .*?>: (\d+):(\d+)", res.stdout, re.M)
    return int(m.group(2)) if m else 0


def run_case(case, tid):
    md = get_model(case["cfg"])
    if case["kind"] == "modal":
        return run_modal(md, case["beh"], case["seed"], tid, case.get("minimiser", "newton"))
    return run_field(md, case["ftype"], case["nsteps"], case["seed"], tid, case.get("minimiser", "newton"))


def count_clauses(rep, tr):
    trap_lin = tr["par"] == PARS["trap"] and tr["linear"]
    conv = False
    for e in tr["ev"]:
        if e["op"] == "Mass":
            rep.count_clause("mass_sum")
            rep.count_clause("mass_elements")
        elif e["op"] == "Minimise":
            conv = e["conv"]
            rep.coverage["minimise_converged" if conv else "minimise_not_converged"] = \
                rep.coverage.get("minimise_converged" if conv else "minimise_not_converged", 0) + 1
        elif e["op"] == "Correct" and conv:
            for c in ("balance", "formula_u", "formula_v"):
                rep.count_clause(c)
            if not tr["linear"]:
                rep.coverage["nonlinear_steps_judged"] = rep.coverage.get("nonlinear_steps_judged", 0) + 1
            if trap_lin:
                rep.count_clause("energy")
                if tr["rigid"]:
                    rep.count_clause("free_flight")
            if tr["kind"] == "modal":
                for c in ("modal_u", "modal_v", "modal_a"):
                    rep.count_clause(c)


def main(tier, replay=None):
    common.setup_paths()
    rep = common.Reporter(PID, tier)
    rep.assumptions = [
        "K, M, f_int, M A are derivatives (jax.grad / jacfwd) of the LIBRARY's compute_output_strain_energy / "
        "compute_output_kinetic_energy with respect to the unknowns; the assembled Newmark element Hessians are not used",
        "minimise = dense Newton (harness) on jax.grad/jax.hessian of the LIBRARY's compute_algorithmic_energy to "
        "||grad|| <= %g * ||H||_F max(|U|,|Upred|) (a step whose minimisation does not reach this is not judged), or the "
        "library's trust-region solver driven as in optimism/test/test_Newmark.py" % NEWTON_TOL,
        "balance: ||grad SE(U) + grad KE(A)|| <= %g * (||f_int|| + ||M A|| + (||K||_F + ||M||_F/(beta dt^2)) max|U|)" % RT_BAL,
        "formulas: inf-norm defect <= %g * sum of inf-norms of the terms" % RT_FORM,
        "energy: |E_n - E_0| <= %g E_0 + %g (||K||_F |U|^2 + ||M||_F |V|^2) (trapezoidal + linear elastic; E from the library's "
        "output energies; the second term is the rounding of evaluating E, needed when E_0 ~ 0 e.g. a pure translation)" % (RT_EN, EN_FLOOR),
        "rigid translation: |U_n - U_0 - t_n V_0| <= %g (|U_0| + t_n |V_0|), V likewise" % RT_FF,
        "modal and rigid-translation allowances grow by %.1e * sum over the steps so far of (1 + beta dt^2 omega_max^2): the "
        "conditioning of the step's linear system (harness Newton or library trust region) bounds what any arithmetic "
        "can deliver; a rigid mode on a stiff model has dt * omega_max up to 1e8" % ROUND_AMP,
        "mass: |sum M - rho*Lx*Ly*2| <= %g relative (Hessian of the library kinetic energy; compute_element_masses)" % RT_MASS,
        "modal amplitudes: |phi^T M X / scale - num/den| <= %g max(1, largest amplitude of the behaviour); num/den printed "
        "by TLC, NewmarkTrace.tla re-derives them (oracle_binding)" % RT_MODAL,
        "generalized eigenpairs from scipy.linalg.eigh(K, M); structured rectangular meshes (area = Lx*Ly) with aspect "
        "ratio <= 10 (omega_max/omega_min <= ~60): there the rounding of the energy stays below 1e-2 of the allowance; on a "
        "15:1 cantilever (omega_max/omega_min ~ 740) a throw-away probe saw it reach 0.4 of the allowance (cancellation in "
        "correct's (U - Upred)/(beta dt^2) for dt << 1/omega_min), so such meshes are not part of the registered runs",
        "the harness minimiser always performs two polishing Newton iterations: with one, the residual of the step solve "
        "(not the library) caused energy wander of 1e-10 E_0 per large step",
        "dense sksparse shim (harness/shims) only to make optimism.Objective importable for the trust-region runs",
    ]
    rng = random.Random(common.seed())
    traces, cases = [], {}

    if replay:
        case = json.load(open(replay))["case"]
        case = {k: v for k, v in case.items() if k not in ("event", "clause_kind")}
        tr = run_case(case, 1)
        traces.append(tr)
        cases[1] = case
    else:
        # ---------------- (A) design run
        des = tlc.run("Newmark.tla", "Newmark_design.cfg", label="design", timeout=900)
        if tlc.require_ok(des, rep, "design"):
            rep.add_tlc(des)
            acts = dict(des.action_counts)
            acts["DoPredict"] = predict_count(des)
            rep.coverage["design_actions"] = acts
            for a in ("DoPredict", "Minimise", "Correct", "ObserveMass"):
                if acts.get(a, 0) == 0:
                    rep.machinery("design run: action %s never taken" % a)
        if tier == "thorough":      # more parameter sets and step sizes (3 steps, tighter magnitude bound)
            big = tlc.run("Newmark.tla", "Newmark_design_big.cfg", label="design-big", timeout=1800)
            if tlc.require_ok(big, rep, "design-big"):
                rep.add_tlc(big)
        # ---------------- behaviours
        gen = tlc.run("NewmarkGen.tla", "NewmarkGen_3.cfg" if tier == "quick" else "NewmarkGen_4.cfg", workers=1,
                      label="generate", timeout=1800)
        behs = []
        if tlc.require_ok(gen, rep, "generate"):
            rep.add_tlc(gen)
            behs = maximal(gen.payloads("BEH"))
        rep.coverage["behaviours_emitted_by_tlc"] = len(gen.payloads("BEH"))
        rep.coverage["maximal_behaviours_replayed"] = len(behs)
        if tier != "quick":
            # unbounded companion: Apalache / Z3 prove balance, energy conservation and free flight of one trapezoidal step for
            # ALL integer data (amplitudes, stiffness, step size); Newmark.tla's invariant ClosedFormTrap links the closed form
            # used there to the predict / minimise / correct actions on TLC's lattice.  Failure = machinery error.
            import subprocess
            r = subprocess.run([common.SPECS + "/apalache/run_generic.sh", "NewmarkAll.tla", "All", "NegControl"],
                               capture_output=True, text=True)
            rep.coverage["apalache"] = [l for l in r.stdout.splitlines() if l.startswith("APALACHE")]
            if r.returncode != 0:
                rep.machinery("apalache check of NewmarkAll.tla failed: %s" % r.stdout[-400:])
        models = plan_models(tier, rng)
        modal_pars = [PARS["trap"], PARS["damped"], PARS["half"]]
        plan = []
        # ---------------- (B) modal replay plan
        free_models = [m for m in models if FREE_DIRS[m["bc"]]]
        per = 1 if tier == "quick" else 3
        for i, b in enumerate(behs):
            pool = models if int(b["start"]["k"]) == 1 else free_models
            for r in range(per):
                m = pool[(i + r * 3) % len(pool)]
                cfg = dict(m, mat="linear", par=b["start"]["par"])
                plan.append(dict(kind="modal", cfg=cfg, beh=b, seed=rng.randrange(1 << 30)))
        # a few behaviours through the library's own trust-region solver
        ntr = 6 if tier == "quick" else 40
        trcfg = dict(models[1], mat="linear", par=PARS["trap"])
        cand = [b for b in behs if b["start"]["par"] == PARS["trap"] and (b["start"]["u0"][0] != 0 or b["start"]["v0"][0] != 0)]
        for b in rng.sample(cand, min(ntr, len(cand))):
            plan.append(dict(kind="modal", cfg=trcfg, beh=b, seed=rng.randrange(1 << 30), minimiser="tr"))
        # ---------------- (C) general-field plan
        nE = 60 if tier == "quick" else 400
        reps = 1 if tier == "quick" else 5
        field_pars = modal_pars + ([PARS["third"], PARS["hht"]] if tier == "thorough" else [])
        for m in models:
            for par in field_pars:
                cfg = dict(m, mat="linear", par=par)
                for r in range(reps):
                    if par == PARS["trap"]:
                        plan.append(dict(kind="field", cfg=cfg, ftype="energy", nsteps=nE, seed=rng.randrange(1 << 30)))
                    for _ in range(2):
                        plan.append(dict(kind="field", cfg=cfg, ftype="general", nsteps=6, seed=rng.randrange(1 << 30)))
                    if FREE_DIRS[m["bc"]]:
                        plan.append(dict(kind="field", cfg=cfg, ftype="rigid", nsteps=10, seed=rng.randrange(1 << 30)))
        neo = [(models[1], PARS["trap"]), (models[2], PARS["damped"])]
        if tier == "thorough":
            neo += [(models[0], PARS["half"]), (models[3], PARS["hht"]), (models[4], PARS["trap"]), (models[5], PARS["third"])]
        # option lattice of create_dynamics_functions: pressure projection (degree 0 and 1 on quadratic elements with a
        # 6-point rule, where the projection is not the identity), neo-Hookean and linear-elastic base material
        neo += [(dict(models[1], ppd=0), PARS["trap"]), (dict(models[3], ppd=1), PARS["damped"]),
                (dict(models[1], ppd=1, base="linear"), PARS["half"])]
        for m, par in neo:
            cfg = dict(m, mat=m.get("base", "neo"), par=par)
            cfg.pop("base", None)
            for r in range(6 * reps):
                plan.append(dict(kind="field", cfg=cfg, ftype="general", nsteps=6, seed=rng.randrange(1 << 30)))
            if FREE_DIRS[m["bc"]]:
                plan.append(dict(kind="field", cfg=cfg, ftype="rigid", nsteps=6, seed=rng.randrange(1 << 30)))
        plan.append(dict(kind="field", cfg=trcfg, ftype="energy", nsteps=12 if tier == "quick" else 60,
                         seed=rng.randrange(1 << 30), minimiser="tr"))
        # ---------------- execute on the real code (grouped by model so that each is compiled once)
        plan.sort(key=lambda c: json.dumps(c["cfg"], sort_keys=True))
        for tid, case in enumerate(plan, 1):
            try:
                tr = run_case(case, tid)
            except Exception as ex:      # a public call raised
                rep.fail("no_exception", dict(case), repr(ex)[:300])
                continue
            traces.append(tr)
            cases[tid] = case
            if case.get("minimiser") == "tr":
                rep.coverage["steps_minimised_by_library_trust_region"] = \
                    rep.coverage.get("steps_minimised_by_library_trust_region", 0) + sum(1 for e in tr["ev"] if e["op"] == "Minimise" and e["conv"])
                rep.coverage["tr_not_converged"] = rep.coverage.get("tr_not_converged", 0) + \
                    sum(1 for e in tr["ev"] if e["op"] == "Minimise" and not e["conv"])
        rep.coverage["models_built"] = len(_MODELS)
        rep.coverage["modal_traces"] = sum(1 for t in traces if t["kind"] == "modal")
        rep.coverage["field_traces"] = sum(1 for t in traces if t["kind"] == "field")
        rep.coverage["mass_values"] = [md._mass["values"] for md in _MODELS.values() if md._mass][:4]

    rep.coverage["worst_defect_over_allowance"] = {k: float("%.3g" % v) for k, v in sorted(_WORST.items())}
    for tr in traces:
        count_clauses(rep, tr)
    info = {t["id"]: t.pop("_info", None) for t in traces}
    for mid in [t for t in traces if t["kind"] == "modal" and t["k"] == 1 and t["u0"] != 0][:1] + \
            [t for t in traces if t["kind"] == "field"][:1] + traces[:1]:
        rep.sample(dict(kind=mid["kind"], par=mid["par"], k=mid["k"], u0=mid["u0"], v0=mid["v0"], events=mid["ev"][:4],
                        info=info.get(mid["id"])))

    def on_fail(tid, l, clause):
        if clause in ("oracle_binding", "protocol"):
            rep.machinery("trace %d event %d: %s" % (tid, l, clause))
            return
        c = dict(cases[tid])
        c["event"] = l
        rep.fail(clause, c, json.dumps(next(t for t in traces if t["id"] == tid)["ev"][l - 1]))

    trace.validate("NewmarkTrace.tla", "NewmarkTrace.cfg", traces, rep, on_fail=on_fail)

    if not replay:
        nconv = rep.coverage.get("minimise_converged", 0)
        nnot = rep.coverage.get("minimise_not_converged", 0)
        if nnot > 0.02 * max(nconv, 1):
            rep.machinery("%d of %d minimisations did not converge (steps not judged)" % (nnot, nconv + nnot))
        for c in ("balance", "formula_u", "formula_v", "energy", "free_flight", "mass_sum", "mass_elements",
                  "modal_u", "modal_v", "modal_a"):
            if rep.coverage["clauses_evaluated"].get(c, 0) == 0:
                rep.machinery("clause %s never evaluated" % c)
        if rep.coverage.get("nonlinear_steps_judged", 0) == 0:
            rep.machinery("no neo-Hookean step judged")
    return rep.finish(
        rule="modal: every maximal behaviour of NewmarkGen.tla (all (beta,gamma) x k x initial (u,v) x step-size "
             "sequences within the 32-bit magnitude bound) replayed on a real mesh mode; field: seeded random fields / "
             "step sequences per (mesh, BC set, material, (beta,gamma)); distinct = distinct spec behaviours",
        extra={"distinct_nontrivial": rep.coverage.get("maximal_behaviours_replayed", len(traces))},
        exhaustive=False)


if __name__ == "__main__":
    sys.exit(main(common.tier()))
