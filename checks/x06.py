"""X06 (extension, not a listed property) — EquationSolver.trust_region_least_squares_solve: the merit 1/2|g|^2 never
increases along accepted iterates (observed where the solver refreshes the Jacobian), success is only reported with
|g| < tol.  Judged by LeastSquaresTrace.tla."""
import json
import random
import sys

import numpy as onp

from harness import common, trace
from harness.proxies import ObjectiveProxy, Silence
from checks import trsolve
from checks.c01 import settings_from

PID = "X06"


def run_case(c, tid):
    import jax.numpy as np
    from optimism import EquationSolver
    prob = c["prob"]
    real = trsolve.get_objective(prob["n"], "exact")
    real.p = trsolve.make_params(prob)
    s = dict(c["settings"]); s["debug_info"] = False
    st = settings_from(s)
    proxy = ObjectiveProxy(real)
    x0 = np.array(c["x0"], dtype=float)
    ev = []
    try:
        with Silence():
            xr, flag = EquationSolver.trust_region_least_squares_solve(proxy, x0, st)
    except Exception as ex:  # noqa
        return dict(id=tid, ev=[dict(e="Raised", what=repr(ex)[:120])])
    pts = [it[2] for it in proxy._log if it[0] == "hessian"]
    def merit(x):
        g = onp.asarray(real.gradient(np.array(x)))
        return 0.5 * float(g @ g)
    prev = merit(pts[0]) if pts else merit(x0)
    for x in pts[1:]:
        m = merit(x)
        ev.append(dict(e="Accept", cmp="LT" if m < prev else ("EQ" if m == prev else "UP"), fin=bool(onp.all(onp.isfinite(x)))))
        prev = m
    g = onp.asarray(real.gradient(np.array(xr)))
    ev.append(dict(e="Return", flag=bool(flag), gSmall=bool(onp.linalg.norm(g) < st.tol * (1 + 1e-12))))
    return dict(id=tid, ev=ev)


def main(tier, replay=None):
    common.setup_paths()
    rep = common.Reporter(PID, tier)
    rep.assumptions = ["extension beyond the listed properties: not registered in MANIFEST.json"]
    rng = random.Random(common.seed())
    cases = []
    for i in range(40 if tier == "quick" else 600):
        n = [2, 3, 5][i % 3]
        prob = trsolve.random_problem(rng, n, ["convex", "wiggly", "indef"][i % 3])
        cases.append(dict(prob=prob, x0=[rng.uniform(-2, 2) for _ in range(n)],
                          settings=[dict(), dict(max_trust_iters=4), dict(tr_size=0.05, max_trust_iters=15)][(i // 3) % 3]))
    if replay:
        cases = [json.load(open(replay))["case"]]
    traces = [run_case(c, i + 1) for i, c in enumerate(cases)]
    for t in traces:
        for e in t["ev"]:
            rep.count_clause("merit_descends" if e["e"] == "Accept" else "honest_flag")
    rep.sample(traces[0]["ev"][:6])
    trace.validate("LeastSquaresTrace.tla", "LeastSquaresTrace.cfg", traces, rep,
                   on_fail=lambda tid, l, clause: rep.fail(clause, dict(cases[tid - 1], event=l, kind=cases[tid - 1]['prob']['kind'])))
    return rep.finish(rule="seeded smooth family x setting vectors", extra={"distinct_nontrivial": len({json.dumps(t["ev"]) for t in traces})})


if __name__ == "__main__":
    sys.exit(main(common.tier()))
