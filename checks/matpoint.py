"""Shared machinery of C08 / C09 / C11: one caller-owned material point (specs/MaterialPoint.tla).

TLC enumerates / simulates action sequences of MaterialPoint.tla per model kind (MaterialPointGen.tla);
every sequence is a load history.  This module concretises a history per seed (moduli over decades,
deformation classes, proper rotations, time-step classes), executes it on the REAL optimism material
model (compute_energy_density, jax.grad of it, compute_state_new, compute_material_qoi) in the named
execution mode, abstracts every observation (alpha, constants below) to ints / strings / booleans and has
MaterialPointTrace.tla judge the clauses.  Nothing in here decides a clause: Python only rounds.

Execution modes: "single" = one point, model built from Python floats and each model function wrapped in its own
jax.jit (exactly how the upstream tests call a model; one compilation per parameter set, so only a few histories),
"jit" = jax.jit of one point with the material parameters as traced arguments (one compilation serves all seeds),
"vmapBatch" = jax.jit(jax.vmap(.)) over a batch of 4 points in which the point of interest sits at a seeded position
among unrelated deformations.  (Plain op-by-op calls re-trace every lax.cond of the eigen-solver: 5-20 s per call,
not used.)
"""
import contextlib
import io
import json
import math
import os
import random
import sys
import time

import numpy as onp

from harness import common, tlc

# ----------------------------------------------------------------------------- alpha constants
ALPHA = dict(
    rest_energy_rel=1e-12,      # |W(rest)| <= rest_energy_rel * Emod
    rest_stress_rel=1e-9,       # ||P(rest)|| <= rest_stress_rel * Emod
    energy_rel=1e-9,            # energies equal: |dW| <= energy_rel*max|W| + energy_abs*Kref
    energy_abs=1e-13,           #   (Kref = largest modulus; rounding of J, I1 at O(1) entries is eps*Kref)
    stress_sym_rel=1e-9,        # ||tau - tau^T|| <= stress_sym_rel*||tau|| + stress_abs*Kref (+ 10*tol*Y0 for J2)
    stress_abs=1e-12,
    stress_eq_rel=1e-8,         # stresses equal (before/after commit): ||dP|| <= rel*max||P|| + 10*tol*Y0
    det_abs=1e-10,              # |det Fp - 1|, |det Fv - 1|, |tr eps_p|
    yield_factor=10.0,          # yield excess <= yield_factor * solver_tol * Y0 + yield_round * ||P||
    yield_round=1e4 * 2.0 ** -52,   # ulps of ||P||: the Mises stress is a small difference of an autodiff stress (log strain, P F^T)
    same_state_abs=1e-13,       # "changes nothing": tensor part of the state, eqps compared exactly
    mini_rel=1e-9,              # incremental potential at the update <= candidate + mini_rel*scale
    relax_rel=1e-12,            # Wneq' <= Wneq*(1+relax_rel) + relax floor (rounding of the log strain)
    relax_floor=1e-14,          #   floor = Gsum*(relax_floor*sqrt(Wneq/Gsum) + 1e-28)
    diss_rel=1e-14,             # dissipation >= -diss_rel*scale
    limit_rel=1e-4,             # |W(dt) - W_limit| <= limit_rel*(W_inst - W_eq) + rounding at dt = 1e-/+6 tau
    batch=4,
)
SOLVER_TOL_DEFAULT = 1e-10

SIM_DEPTH = {"elastic": 6, "plastic": 10, "viscous": 9}      # Depth of MaterialPointGen_<kind>_sim.cfg
ELASTIC_CLASSES = ["generic", "planeStrain", "uniaxialInPlane", "equibiaxial", "dilation"]

CLAUSES = {
    "C08": ["rest_energy", "rest_stress", "objective", "isotropic", "sym_stress"],
    "C09": ["irreversible", "isochoric", "yield_consistent", "minimises", "idempotent", "commit_energy",
            "commit_stress"],
    "C11": ["dissipation_nonneg", "isochoric_v", "relax_monotone", "limit_fast", "limit_slow"],
}
CLAUSES["C10"] = ["stress_matches_energy", "tangent_matches_energy"]
ALL_CLAUSES = [c for k in ("C08", "C09", "C11", "C10") for c in CLAUSES[k]]

# C10: difference quotients of the energy density itself (6th-order central stencils, 6 step sizes h0/2^j)
FD_C1 = [-1.0 / 60, 3.0 / 20, -3.0 / 4, 0.0, 3.0 / 4, -3.0 / 20, 1.0 / 60]
FD_C2 = [1.0 / 90, -3.0 / 20, 3.0 / 2, -49.0 / 18, 3.0 / 2, -3.0 / 20, 1.0 / 90]
FD_NH = 14
DERIV = dict(rel=1e-5,        # |AD - FD| <= rel*scale + est_factor*(FD error estimate) + abs floor
             est_factor=20.0,  # FD error estimate = |D(h_j) - D(h_j/2)| at the best pair of step sizes
             trust=1e-4,      # the quotient is judged only where its own estimate <= trust*scale (+ floor)
             floor=1e-10,     # abs floor: floor*Kref*|V| (stress) and floor*Kref*|V|^2 (tangent)
             h0=0.02, hmin=0.05, ndir=4)
# rounding of a quotient: 2*noise/h (stress), 6*noise/h^2 (tangent), noise = |sixth difference of the stencil values|/sqrt(924) + ulp(W)


# ----------------------------------------------------------------------------- model catalogue
def _quiet():
    return contextlib.redirect_stdout(io.StringIO())


def _mk_le(sm):
    def build(p):
        from optimism.material import LinearElastic
        return LinearElastic.create_material_model_functions(
            {'elastic modulus': p[0], 'poisson ratio': p[1], 'strain measure': sm})
    return build


def _mk_nh(version):
    def build(p):
        from optimism.material import Neohookean
        return Neohookean.create_material_model_functions(
            {'elastic modulus': p[0], 'poisson ratio': p[1], 'version': version})
    return build


def _mk_gent(p):
    from optimism.material import Gent
    return Gent.create_material_functions({'bulk modulus': p[0], 'shear modulus': p[1], 'Jm parameter': p[2]})


def _mk_pf(kin):
    def build(p):
        from optimism.phasefield import PhaseFieldThreshold
        return PhaseFieldThreshold.create_material_model_functions(
            {'elastic modulus': p[0], 'poisson ratio': p[1], 'critical energy release rate': p[2],
             'regularization length': p[3], 'kinematics': kin})
    return build


J2_KIN = {"large": "large deformations", "small": "small deformations", "seth_hill": "seth hill"}


def _mk_j2(kin, hard, rate):
    def build(p):
        from optimism.material import J2Plastic
        props = {'elastic modulus': p[0], 'poisson ratio': p[1], 'yield strength': p[2],
                 'kinematics': J2_KIN[kin], 'hardening model': {"linear": "linear", "voce": "voce",
                                                                "power": "power law"}[hard]}
        if hard == "linear":
            props['hardening modulus'] = p[3]
        elif hard == "voce":
            props['saturation strength'] = p[3]
            props['reference plastic strain'] = p[4]
        else:
            props['hardening exponent'] = p[3]
            props['reference plastic strain'] = p[4]
        if rate:
            props['rate sensitivity'] = 'power law'
            props['rate sensitivity stress'] = p[5]
            props['rate sensitivity exponent'] = p[6]
            props['reference plastic strain rate'] = p[7]
        return J2Plastic.create_material_model_functions(props)
    return build


def _mk_visco1(p):
    from optimism.material import HyperViscoelastic
    with _quiet():
        return HyperViscoelastic.create_material_model_functions(
            {'equilibrium bulk modulus': p[0], 'equilibrium shear modulus': p[1],
             'non equilibrium shear modulus': p[2], 'relaxation time': p[3]})


def _mk_visco3(p):
    from optimism.material import MultiBranchHyperViscoelastic
    props = {'equilibrium bulk modulus': p[0], 'equilibrium shear modulus': p[1]}
    for b in range(3):
        props['non equilibrium shear modulus %d' % (b + 1)] = p[2 + 2 * b]
        props['relaxation time %d' % (b + 1)] = p[3 + 2 * b]
    with _quiet():
        return MultiBranchHyperViscoelastic.create_material_model_functions(props)


def _catalogue():
    cat = {}

    def add(variant, family, kind, finite, rate_indep, nb, build, sig="std", **kw):
        cat[variant] = dict(variant=variant, model=family, kind=kind, finiteDef=finite, rateIndep=rate_indep,
                            nBranches=nb, build=build, sig=sig, **kw)
    add("le_linear", "le_linear", "elastic", False, True, 0, _mk_le("linear"), par="E")
    add("le_green_lagrange", "le_green_lagrange", "elastic", True, True, 0, _mk_le("green lagrange"), par="E")
    add("le_logarithmic", "le_logarithmic", "elastic", True, True, 0, _mk_le("logarithmic"), par="E")
    add("nh_adagio", "nh_adagio", "elastic", True, True, 0, _mk_nh("adagio"), par="E")
    add("nh_coupled", "nh_coupled", "elastic", True, True, 0, _mk_nh("coupled"), par="E")
    add("gent", "gent", "elastic", True, True, 0, _mk_gent, par="gent")
    add("pf_large", "pf_large", "elastic", True, True, 0, _mk_pf("large deformations"), sig="pf", par="pf")
    add("pf_small", "pf_small", "elastic", False, True, 0, _mk_pf("small deformations"), sig="pf", par="pf")
    for kin in ("large", "small", "seth_hill"):
        for hard in ("linear", "voce", "power"):
            for rate in (False, True):
                v = "j2_%s_%s%s" % (kin, hard, "_rate" if rate else "")
                add(v, "j2_" + kin, "plastic", kin != "small", not rate, 0, _mk_j2(kin, hard, rate),
                    par="j2", kin=kin, hard=hard, rate=rate)
    add("visco_1", "visco_1", "viscous", True, False, 1, _mk_visco1, par="visco")
    add("visco_3", "visco_3", "viscous", True, False, 3, _mk_visco3, par="visco")
    return cat


CATALOGUE = _catalogue()


def model_abs(variant):
    m = CATALOGUE[variant]
    return dict(name=m["model"], kind=m["kind"], finiteDef=m["finiteDef"], rateIndep=m["rateIndep"],
                nBranches=m["nBranches"])


# ----------------------------------------------------------------------------- parameter sampling
def sample_params(variant, rng):
    """Admissible material constants over decades.  Returns (p, meta) with p a list of floats."""
    m = CATALOGUE[variant]
    par = m["par"]
    E = 10.0 ** rng.uniform(-2, 5)
    nu = rng.uniform(0.01, 0.49)
    mu = 0.5 * E / (1 + nu)
    kappa = E / 3.0 / (1 - 2 * nu)
    meta = dict(E=E, nu=nu, mu=mu, kappa=kappa, Emod=E, Kref=max(mu, kappa))
    if par == "E":
        p = [E, nu]
    elif par == "pf":
        p = [E, nu, E * 10.0 ** rng.uniform(-4, 0), 10.0 ** rng.uniform(-3, 0)]
    elif par == "gent":
        Jm = 10.0 ** rng.uniform(0.3, 2)
        p = [kappa, mu, Jm]
        meta["Jm"] = Jm
    elif par == "j2":
        Y0 = E * 10.0 ** rng.uniform(-5.0, -0.7)      # yield strains down to 1e-5 (very soft / non-dimensionalised models)
        h = dict(model=m["hard"], Y0=Y0, rate=m["rate"])
        if m["hard"] == "linear":
            h["H"] = 0.0 if rng.random() < 0.15 else E * 10.0 ** rng.uniform(-3, -0.5)
            p = [E, nu, Y0, h["H"], 0.0]
        elif m["hard"] == "voce":
            h["Ysat"] = Y0 * (1 + 10.0 ** rng.uniform(-1, 1))
            h["eps0"] = 10.0 ** rng.uniform(-3, -0.5)
            p = [E, nu, Y0, h["Ysat"], h["eps0"]]
        else:
            h["n"] = rng.uniform(1.0, 10.0)
            h["eps0"] = 10.0 ** rng.uniform(-3, -1)
            p = [E, nu, Y0, h["n"], h["eps0"]]
        if m["rate"]:
            h["S"] = Y0 * 10.0 ** rng.uniform(-2, 0.5)
            h["m"] = rng.uniform(1.0, 8.0)
            h["epsDot0"] = 10.0 ** rng.uniform(-3, 1)
            p += [h["S"], h["m"], h["epsDot0"]]
        else:
            p += [0.0, 1.0, 1.0]
        meta.update(Y0=Y0, hard=h, tau=[1.0 / (h.get("epsDot0", 1.0))])
    elif par == "visco":
        G = 10.0 ** rng.uniform(-2, 3)
        K = G * 10.0 ** rng.uniform(0, 3)
        nb = m["nBranches"]
        Gs = [G * 10.0 ** rng.uniform(-1.5, 1.5) for _ in range(nb)]
        taus = [10.0 ** rng.uniform(-3, 3) for _ in range(nb)]
        p = [K, G]
        for g, t in zip(Gs, taus):
            p += [g, t]
        mut = G + sum(Gs)
        meta = dict(K=K, G=G, Gs=Gs, taus=taus, Gsum=sum(Gs), Kref=max(K, mut), mu=mut, kappa=K,
                    Emod=9 * K * mut / (3 * K + mut))
    return [float(x) for x in p], meta


# ----------------------------------------------------------------------------- numpy oracles (independent of optimism)
I3 = onp.eye(3)


def np_dev(A):
    return A - onp.trace(A) / 3.0 * I3


def np_sym(A):
    return 0.5 * (A + A.T)


def np_symfun(C, f):
    if not onp.all(onp.isfinite(C)):
        return onp.full((3, 3), onp.nan)
    w, V = onp.linalg.eigh(np_sym(C))
    return (V * f(w)) @ V.T


def np_logstrain(F):
    """Hencky strain 1/2 log(F^T F)."""
    return np_symfun(F.T @ F, lambda w: 0.5 * onp.log(w))


def eig_gap(C):
    """Smallest relative gap between two eigenvalues of a symmetric tensor (0 = two equal)."""
    if not onp.all(onp.isfinite(C)):
        return 1.0
    w = onp.linalg.eigvalsh(np_sym(C))
    sc = max(abs(w[0]), abs(w[2]), 1e-300)
    return float(min(w[1] - w[0], w[2] - w[1]) / sc)


def eig_spread(C):
    """Relative spread of the spectrum (0 = spherical tensor)."""
    if not onp.all(onp.isfinite(C)):
        return 1.0
    w = onp.linalg.eigvalsh(np_sym(C))
    return float((w[2] - w[0]) / max(abs(w[0]), abs(w[2]), 1e-300))


def np_mises(T):
    d = np_dev(np_sym(T))
    return math.sqrt(1.5 * float(onp.tensordot(d, d)))


def np_norm(A):
    return float(onp.sqrt(onp.tensordot(A, A)))


def np_inv(A):
    try:
        return onp.linalg.inv(A)
    except onp.linalg.LinAlgError:
        return onp.full((3, 3), onp.nan)


def hard_energy(e, h):
    """Stored hardening energy (documented laws re-implemented); NaN (never complex) outside the domain."""
    e = onp.asarray(e, dtype=float)
    if h["model"] == "linear":
        return h["Y0"] * e + 0.5 * h["H"] * e * e
    if h["model"] == "voce":
        return h["Ysat"] * e + (h["Ysat"] - h["Y0"]) * h["eps0"] * onp.expm1(-e / h["eps0"])
    n, e0 = h["n"], h["eps0"]
    return n * h["Y0"] * e0 / (1.0 + n) * ((1.0 + e / e0) ** ((n + 1) / n) - 1.0)


def hard_stress(e, h):
    e = onp.asarray(e, dtype=float)
    if h["model"] == "linear":
        return h["Y0"] + h["H"] * e
    if h["model"] == "voce":
        return h["Ysat"] - (h["Ysat"] - h["Y0"]) * onp.exp(-e / h["eps0"])
    return h["Y0"] * (1.0 + e / h["eps0"]) ** (1.0 / h["n"])


def kin_energy(de, dt, h):
    if not h["rate"]:
        return 0.0 * de
    m = h["m"]
    r = onp.maximum(onp.asarray(de, dtype=float), 0.0) / dt / h["epsDot0"]
    return m / (m + 1) * h["S"] * h["epsDot0"] * dt * r ** ((m + 1) / m)


def kin_stress(de, dt, h):
    if not h["rate"]:
        return 0.0
    return h["S"] * (max(de, 0.0) / dt / h["epsDot0"]) ** (1.0 / h["m"])


def j2_elastic_strain(kin, F, state):
    T = onp.asarray(state[1:10]).reshape(3, 3)
    if kin == "large":
        return np_logstrain(F @ np_inv(T))
    if kin == "small":
        return np_sym(F - I3) - T
    return (np_symfun(F.T @ F, lambda w: w ** 0.25) - I3) / 0.5 - T      # Seth-Hill, m = 1/4


def visco_branches(state, nb):
    return [onp.asarray(state[9 * b:9 * b + 9]).reshape(3, 3) for b in range(nb)]


def visco_wneq(F, state, meta):
    w = 0.0
    for g, Fv in zip(meta["Gs"], visco_branches(state, len(meta["Gs"]))):
        d = np_dev(np_logstrain(F @ np_inv(Fv)))
        w += g * float(onp.tensordot(d, d))
    return w


def visco_weq(F, meta):
    J = float(onp.linalg.det(F))
    I1b = J ** (-2.0 / 3.0) * float(onp.tensordot(F, F))
    return 0.5 * meta["G"] * (I1b - 3.0) + 0.5 * meta["K"] * (0.5 * J * J - 0.5 - math.log(J))


# ----------------------------------------------------------------------------- deformation classes
def rand_rot(rng, inplane=None):
    """Proper rotation: about the out-of-plane axis or general (uniform quaternion)."""
    if inplane is None:
        inplane = rng.random() < 0.4
    if inplane:
        t = rng.uniform(-math.pi, math.pi)
        c, s = math.cos(t), math.sin(t)
        return onp.array([[c, -s, 0.0], [s, c, 0.0], [0.0, 0.0, 1.0]])
    q = onp.array([rng.gauss(0, 1) for _ in range(4)])
    q /= onp.linalg.norm(q)
    a, b, c, d = q
    return onp.array([[a * a + b * b - c * c - d * d, 2 * (b * c - a * d), 2 * (b * d + a * c)],
                      [2 * (b * c + a * d), a * a - b * b + c * c - d * d, 2 * (c * d - a * b)],
                      [2 * (b * d - a * c), 2 * (c * d + a * b), a * a - b * b - c * c + d * d]])


def make_def(cls, rng, rot=True):
    """Returns mag -> F (positive determinant); all random choices are drawn now so F(mag) is a path.
    rot=False: pure stretches (no rotation factor), used for small-strain theories and tiny increments."""
    sgn = rng.choice([-1.0, 1.0])
    if cls == "generic":
        a = onp.array([rng.gauss(0, 1) for _ in range(3)])
        a /= onp.linalg.norm(a)
        V = rand_rot(rng, False)
        R = rand_rot(rng) if (rot and rng.random() < 0.5) else I3
        return lambda mag: R @ ((V * onp.exp(mag * a)) @ V.T)
    if cls == "planeStrain":
        a = onp.array([rng.gauss(0, 1) for _ in range(2)] + [0.0])
        a /= onp.linalg.norm(a)
        V = rand_rot(rng, True)
        R = rand_rot(rng, True) if (rot and rng.random() < 0.5) else I3
        return lambda mag: R @ ((V * onp.exp(mag * a)) @ V.T)
    if cls == "uniaxialInPlane":
        t = rng.uniform(-math.pi, math.pi)
        n = onp.array([math.cos(t), math.sin(t), 0.0])
        return lambda mag: I3 + (math.exp(sgn * mag) - 1.0) * onp.outer(n, n)
    if cls == "equibiaxial":
        third = rng.choice(["one", "isochoric", "free"])
        V = rand_rot(rng, False) if rng.random() < 0.4 else I3
        k = rng.uniform(-1, 1)

        def f(mag):
            lam = math.exp(sgn * mag)
            l3 = {"one": 1.0, "isochoric": lam ** -2.0, "free": math.exp(k * mag)}[third]
            return (V * onp.array([lam, lam, l3])) @ V.T
        return f
    if cls == "dilation":
        R = rand_rot(rng) if (rot and rng.random() < 0.4) else I3
        return lambda mag: R * math.exp(sgn * mag)
    raise ValueError(cls)


def gent_ok(F, Jm):
    J = float(onp.linalg.det(F))
    return J > 0 and (J ** (-2.0 / 3.0) * float(onp.tensordot(F, F)) - 3.0) < 0.8 * Jm


# ----------------------------------------------------------------------------- real-code runner
class Runner:
    """Calls the real model of one variant in one execution mode; compiled functions are reused."""

    def __init__(self, variant, mode):
        import jax
        import jax.numpy as jnp
        self.jax, self.jnp = jax, jnp
        self.m = CATALOGUE[variant]
        self.mode = mode
        self.kind = self.m["kind"]
        self.calls = 0
        build, sig, kind = self.m["build"], self.m["sig"], self.kind

        def obs(p, H, s, dt):
            mdl = build(p)
            if sig == "pf":
                z3 = jnp.zeros(3)
                energy = lambda h, st, t: mdl.compute_energy_density(h, 0.0, z3, st, t)
                snew = lambda h, st, t: mdl.compute_state_new(h, 0.0, z3, st, t)
                qoi = None
            else:
                energy, snew = mdl.compute_energy_density, mdl.compute_state_new
                qoi = mdl.compute_material_qoi if callable(mdl.compute_material_qoi) else None
            out = {}
            if kind == "plastic":
                W, (P, G) = jax.value_and_grad(energy, (0, 1))(H, s, dt)
                out["G"] = G
            else:
                W, P = jax.value_and_grad(energy, 0)(H, s, dt)
            out["W"], out["P"] = W, P
            out["sn"] = snew(H, s, dt)
            if kind == "viscous" and qoi is not None:
                out["q"] = qoi(H, s, dt)
            return out
        self._obs = obs

        def deriv(p, H, s, dt, V, hs):
            """stress, tangent action on each direction, and the energy (and the eqps increment of the model's own
            state update: which side of the yield switch) at every stencil point H + c*h_j*V_k"""
            mdl = build(p)
            if sig == "pf":
                z3 = jnp.zeros(3)
                energy = lambda h: mdl.compute_energy_density(h, 0.0, z3, s, dt)
                snew = lambda h: mdl.compute_state_new(h, 0.0, z3, s, dt)
            else:
                energy = lambda h: mdl.compute_energy_density(h, s, dt)
                snew = lambda h: mdl.compute_state_new(h, s, dt)
            g = jax.grad(energy)
            P = g(H)
            T = jax.vmap(lambda v: jax.jvp(g, (H,), (v,))[1])(V)
            c = jnp.arange(-3.0, 4.0)
            pts = H[None, None, None] + (hs[None, :, None] * c[None, None, :])[..., None, None] * V[:, None, None]
            flat = pts.reshape(-1, 3, 3)
            W = jax.vmap(energy)(flat).reshape(pts.shape[:3])
            out = dict(P=P, T=T, Wst=W, W0=energy(H))
            if kind == "plastic":
                de = jax.vmap(lambda h: snew(h)[0] - s[0])(flat).reshape(pts.shape[:3])
                out["de"] = de
            return out
        self._dfn = jax.jit(deriv) if mode == "deriv" else None
        if mode in ("jit", "deriv"):
            self._fn = jax.jit(obs)
        elif mode == "vmapBatch":
            self._fn = jax.jit(jax.vmap(obs, (None, 0, 0, None)))
        else:
            self._fn = None

    def _single(self, p, H, s, dt):
        """The way the upstream tests use a model on one point: built from Python floats, each function wrapped in
        jax.jit on its own (constants folded by XLA; one compilation per parameter set)."""
        jax, jnp = self.jax, self.jnp
        key = tuple(float(x) for x in p)
        if getattr(self, "_single_key", None) != key:
            mdl = self.m["build"](list(key))
            if self.m["sig"] == "pf":
                z3 = jnp.zeros(3)
                energy = lambda h, st, t: mdl.compute_energy_density(h, 0.0, z3, st, t)
                snew = lambda h, st, t: mdl.compute_state_new(h, 0.0, z3, st, t)
                qoi = None
            else:
                energy, snew = mdl.compute_energy_density, mdl.compute_state_new
                qoi = mdl.compute_material_qoi if callable(mdl.compute_material_qoi) else None
            f = dict(W=jax.jit(energy), P=jax.jit(jax.grad(energy, 0)), sn=jax.jit(snew))
            if self.kind == "plastic":
                f["G"] = jax.jit(jax.grad(energy, 1))
            if self.kind == "viscous" and qoi is not None:
                f["q"] = jax.jit(qoi)
            self._single_key, self._single_f = key, f
        H, s = onp.asarray(H, dtype=float), onp.asarray(s, dtype=float)
        return {k: onp.asarray(fn(H, s, float(dt))) for k, fn in self._single_f.items()}

    def initial_state(self, p):
        if getattr(self, "_s0", None) is None:          # does not depend on the material constants
            mdl = self.m["build"](p)
            self._s0 = onp.asarray(mdl.compute_initial_state(), dtype=float).reshape(-1)
        return self._s0.copy()

    def __call__(self, p, H, s, dt, rng=None, others=None):
        jnp = self.jnp
        self.calls += 1
        if self.mode == "single":
            return self._single(p, H, s, dt)
        if self.mode in ("jit", "deriv"):
            out = self._fn(onp.asarray(p, dtype=float), onp.asarray(H, dtype=float), onp.asarray(s, dtype=float), float(dt))
            return {k: onp.asarray(v) for k, v in out.items()}
        B = ALPHA["batch"]
        k = rng.randrange(B)
        Hs = [onp.asarray(o) for o in others[:B - 1]]
        Hs.insert(k, onp.asarray(H))
        out = self._fn(onp.asarray(p, dtype=float), onp.stack(Hs), onp.stack([onp.asarray(s, dtype=float)] * B), float(dt))
        return {kk: onp.asarray(v)[k] for kk, v in out.items()}


# ----------------------------------------------------------------------------- one material point = one trace
DT_CLASS = {"fast": (-6.0, -2.0), "mid": (-1.0, 1.0), "slow": (2.0, 6.0)}


def _close(a, b, rel, ab):
    if not (math.isfinite(a) and math.isfinite(b)):
        return False
    return abs(a - b) <= rel * max(abs(a), abs(b)) + ab


class Point:
    def __init__(self, runner, variant, seed, solver_tol):
        self.r = runner
        self.m = CATALOGUE[variant]
        self.kind = self.m["kind"]
        self.rng = random.Random(seed)
        self.p, self.meta = sample_params(variant, self.rng)
        self.tol = solver_tol
        self.s0 = runner.initial_state(self.p)
        self.F = I3.copy()
        self.sc = self.s0.copy()
        self.sp = None
        self.dF_last = None
        taus = self.meta.get("taus") or self.meta.get("tau") or [1.0]
        self.tau_min, self.tau_max = min(taus), max(taus)
        self.dt = math.sqrt(self.tau_min * self.tau_max)
        # registers as Python sees them (floats) and their abstract ids
        self.wreg, self.wid, self.preg, self.sid = 0.0, 0, onp.zeros((3, 3)), 0
        self.next_id = 1
        self.nreg, self.nid = 0.0, 1000
        self.eq = []                      # (event index, field, float) for dense ranking at the end
        self.nan_events = []
        self.deg_events = []
        self.sph_events = []
        self.flat_events = []
        self.gap = 1.0
        self.flat = False
        self.stats = dict(yield_steps=0, elastic_steps=0, at_yield=0, holds_decreasing=0, limits_nontrivial=0,
                          rot_nontrivial=0, max_rel={}, deriv_stress_judged=0, deriv_tangent_judged=0,
                          deriv_dirs_skipped_untrusted=0, deriv_dirs_skipped_straddle=0, deriv_plastic_branch_judged=0,
                          deriv_nonfinite_energy=0)

    # -- helpers
    def _track(self, key, val):
        """largest fraction of an allowance used by an evaluation that is within it (margin of the tolerances)"""
        mr = self.stats["max_rel"]
        if self.r.mode == "vmapBatch":
            key += ":batch"
        if self.m["model"] == "j2_seth_hill":
            key += ":seth_hill"
        if os.environ.get("MP_CALIB"):
            key = key + ":" + self.m["model"] + ":" + self.r.mode + (":deg" if self.gap < 1e-5 else "")
        if math.isfinite(val) and val <= (1e9 if os.environ.get("MP_CALIB") else 1.0) and val > mr.get(key, 0.0):
            mr[key] = float(val)

    def _others(self):
        out = []
        for _ in range(ALPHA["batch"] - 1):
            g = make_def("generic", self.rng, rot=self.m["finiteDef"])
            mag = self._mag_elastic()
            F = g(mag)
            if self.m["model"] == "gent":
                while not gent_ok(F, self.meta["Jm"]):
                    mag *= 0.5
                    F = g(mag)
            if self.m["model"] in ("j2_small", "le_linear", "pf_small"):
                F = I3 + (F - I3) * min(1.0, 0.2 / max(np_norm(F - I3), 1e-300))
            out.append(F - I3)
        return out

    def call(self, state, dt=None, F=None):
        F = self.F if F is None else F
        dt = self.dt if dt is None else dt
        others = self._others() if self.r.mode == "vmapBatch" else None
        return self.r(self.p, F - I3, state, dt, rng=self.rng, others=others)

    def _mag_elastic(self):
        return 10.0 ** self.rng.uniform(-8, 0)

    def _pick_dt(self, cls):
        lo, hi = DT_CLASS[cls] if self.kind != "plastic" else (-3.0, 3.0)   # plastic: around 1/epsDot0
        ref = self.rng.choice([self.tau_min, self.tau_max])
        return ref * 10.0 ** self.rng.uniform(lo, hi)

    _deform_only = False

    def _new_F(self, cls):
        """Deformation for Deform/Load: elastic models jump to a fresh F of the class; history models compose an
        increment of the class with the current F (non-proportional paths), reverse it, sit exactly at yield, ..."""
        rng, kind = self.rng, self.kind
        fin = self.m["finiteDef"]
        if kind == "elastic":
            g = make_def(cls, rng, rot=fin)
            mag = self._mag_elastic()
            F = g(mag)
            if self.m["model"] == "gent":
                while not gent_ok(F, self.meta["Jm"]):
                    mag *= 0.5
                    F = g(mag)
            if not self.m["finiteDef"]:          # small-strain theories: keep |H| moderate
                H = F - I3
                F = I3 + H * min(1.0, 0.3 / max(np_norm(H), 1e-300))
            return F
        geo = rng.choice(ELASTIC_CLASSES)
        if kind == "plastic":
            ey = self.meta["Y0"] / self.meta["E"]
            if cls == "reverse" and self.dF_last is not None:
                k = rng.choice([1, 2, 2])
                dF = onp.linalg.matrix_power(np_inv(self.dF_last), k)
            elif cls == "atYield":
                dF = self._at_yield_increment(make_def(geo, rng, rot=False))
            else:
                mag = ey * (10.0 ** rng.uniform(-8, -4) if cls == "tiny" else 10.0 ** rng.uniform(-1.5, 2.0))
                dF = make_def(geo, rng, rot=fin and cls != "tiny")(min(mag, 0.4))
        else:
            # up to stretches of about 3: the relaxation clauses must hold for large deformations too
            mag = 10.0 ** (rng.uniform(-9, -6) if cls == "tiny" else rng.uniform(-5, 0.3))
            if cls == "large":                    # stretches 1.6 .. 3 along a fresh (non-coaxial) direction
                mag = rng.uniform(0.6, 2.0)
            if self._deform_only:                 # Deform (no time step) serves the limit / rotation clauses
                mag = 10.0 ** rng.uniform(-3, -0.3)
            if cls == "reverse" and self.dF_last is not None:
                dF = onp.linalg.matrix_power(np_inv(self.dF_last), rng.choice([1, 2]))
            else:
                dF = make_def(geo, rng, rot=cls != "tiny")(mag)
        Fn = dF @ self.F
        small = self.m["model"] == "j2_small"
        too_big = (np_norm(Fn - I3) > 0.3) if small else (np_norm(np_logstrain(Fn)) > (2.5 if kind == "viscous" else 1.2) or
                                                          onp.linalg.det(Fn) <= 0)
        if too_big:                               # stay in the admissible range: restart the path near I
            dF = make_def(geo, rng, rot=fin)(0.05)
            Fn = dF
        self.dF_last = dF
        return Fn

    def _at_yield_increment(self, g):
        """Increment along path g whose trial Mises stress equals the current flow stress (bisection to the
        last bit with the independent oracle); zero increment if the committed state is already at yield."""
        kin, h, mu = self.m["kin"], self.meta["hard"], self.meta["mu"]
        e = float(self.sc[0])
        Y = float(hard_stress(e, h))

        def f(mag):
            Ee = j2_elastic_strain(kin, g(mag) @ self.F, self.sc)
            return 2 * mu * np_mises(Ee) - Y
        if f(0.0) >= 0:
            return I3.copy()
        lo, hi = 0.0, 1e-6
        while f(hi) < 0 and hi < 0.5:
            hi *= 4
        if f(hi) < 0:
            return g(hi)
        for _ in range(80):
            mid = 0.5 * (lo + hi)
            if mid == lo or mid == hi:
                break
            if f(mid) < 0:
                lo = mid
            else:
                hi = mid
        self.stats["at_yield"] += 1
        return g(self.rng.choice([lo, hi]))

    # -- alpha on energy / stress registers
    def _energy_id(self, W, reset=False, judged=False):
        W = float(W)
        if reset:
            ok = math.isfinite(W) and abs(W) <= ALPHA["rest_energy_rel"] * self.meta["Emod"]
            self.wid = 0 if ok else self._fresh()
        else:
            ab = ALPHA["energy_abs"] * self.meta["Kref"]
            if judged and math.isfinite(W) and math.isfinite(self.wreg):
                self._track("energy", abs(W - self.wreg) / (ALPHA["energy_rel"] * max(abs(W), abs(self.wreg)) + ab))
            if not _close(W, self.wreg, ALPHA["energy_rel"], ab):
                self.wid = self._fresh()
        self.wreg = W
        return self.wid

    def _stress_id(self, P, reset=False, commit=False):
        P = onp.asarray(P, dtype=float)
        n = np_norm(P)
        if reset:
            ok = math.isfinite(n) and n <= ALPHA["rest_stress_rel"] * self.meta["Emod"]
            self.sid = 0 if ok else self._fresh()
        else:
            d = np_norm(P - self.preg)
            ab = ALPHA["stress_abs"] * self.meta["Kref"]
            if self.kind == "plastic":
                ab += ALPHA["yield_factor"] * self.tol * self.meta["Y0"]
            allow = ALPHA["stress_eq_rel"] * max(n, np_norm(self.preg)) + ab
            if commit and self.m["rateIndep"] and math.isfinite(d):
                self._track("commit_stress", d / allow)
            if not (math.isfinite(d) and d <= allow):
                self.sid = self._fresh()
        self.preg = P
        return self.sid

    def _fresh(self):
        self.next_id += 1
        return self.next_id - 1

    def _sym(self, P, F):
        tau = onp.asarray(P, dtype=float) @ F.T
        a = np_norm(tau - tau.T)
        allow = ALPHA["stress_sym_rel"] * np_norm(tau) + ALPHA["stress_abs"] * self.meta["Kref"]
        if self.kind == "plastic":         # in the plastic regime the stress is only determined to the solver tolerance
            allow += ALPHA["yield_factor"] * self.tol * self.meta["Y0"]
        if math.isfinite(a) and self.m["finiteDef"]:
            self._track("sym_stress", a / allow)
        return bool(math.isfinite(a) and a <= allow)

    def _observe(self, o, reset=False, commit=False, r=None, state=None, judged=False):
        r = r if r is not None else self.call(self.sc if state is None else state)
        o["W"] = self._energy_id(r["W"], reset, judged or (commit and self.m["rateIndep"]))
        o["S"] = self._stress_id(r["P"], reset, commit)
        o["symS"] = self._sym(r["P"], self.F)
        return r

    # -- plastic observations
    def _plastic_obs(self, o, s_in, s_out, r, dt, i):
        kin, h, mu, kap, Y0 = self.m["kin"], self.meta["hard"], self.meta["mu"], self.meta["kappa"], self.meta["Y0"]
        e_in, e_out = float(s_in[0]), float(s_out[0])
        self.eq.append((i, "eIn", e_in))
        self.eq.append((i, "eOut", e_out))
        T = onp.asarray(s_out[1:10]).reshape(3, 3)
        iso = abs(onp.linalg.det(T) - 1.0) if kin == "large" else abs(onp.trace(T))
        o["isoch"] = bool(math.isfinite(iso) and iso <= ALPHA["det_abs"])
        self._track("isochoric", iso / ALPHA["det_abs"])
        # stress of the step (at the input state) against the yield surface of the output state
        if kin == "large":
            sig = np_mises(onp.asarray(r["P"]) @ self.F.T)
        elif kin == "small":
            sig = np_mises(onp.asarray(r["P"]))
        else:
            sig = np_mises(-onp.asarray(r["G"])[1:10].reshape(3, 3))
        de = e_out - e_in
        with onp.errstate(all="ignore"):
            Y = float(hard_stress(e_out, h)) + kin_stress(de, dt, h)
            f = sig - Y
            # + rounding of the stress itself: the Mises stress is read off an autodiff stress whose norm can exceed it by
            # orders of magnitude (large pressure, stiff bulk modulus); 1e4 ulp of that norm
            band = ALPHA["yield_factor"] * self.tol * Y0 + ALPHA["yield_round"] * np_norm(onp.asarray(r["P"]))
            if h.get("rate") and de > 0:
                # the increment de = e_out - e_in is known to one ulp of e_out only, and the rate term S (de/(dt eps0))^(1/m)
                # of the flow stress is infinitely steep at de = 0: propagate that ulp through the oracle's own formula
                ulp = 2.0 ** -52 * max(abs(e_out), abs(e_in))
                band += 4.0 * abs(kin_stress(de + ulp, dt, h) - kin_stress(max(de - ulp, 0.0), dt, h))
            o["ye"] = "outside" if not (f <= band) else ("on" if f >= -band else "inside")
            self.last = dict(sig=sig, Y=Y, f=f, band=band, de=de)
            if math.isfinite(f):
                self._track("yield", f / band)
            # incremental potential: actual update against a 33-point grid of the elastic-predictor bracket
            Etr = j2_elastic_strain(kin, self.F, s_in)
            dE = np_dev(Etr)
            nrm = np_norm(dE)
            N = math.sqrt(1.5) * dE / nrm if nrm > 0 else onp.zeros((3, 3))
            trial = 2 * mu * math.sqrt(1.5) * nrm
            ub = max((trial - float(hard_stress(e_in, h))) / (3 * mu), 0.0)
            span = ub if ub > 0 else 1e-3 * Y0 / (3 * mu)
            g = span * onp.arange(33) / 32.0
            self.flat = self._flat(s_in)
            # |dE - g N|^2 = nrm^2 - 2 g sqrt(3/2) nrm + 3/2 g^2
            hin = hard_energy(e_in, h)
            psi = mu * (nrm * nrm - 2 * g * math.sqrt(1.5) * nrm + 1.5 * g * g) + 0.5 * kap * onp.trace(Etr) ** 2 \
                + (hard_energy(e_in + g, h) - hin) + kin_energy(g, dt, h)
            Eact = j2_elastic_strain(kin, self.F, s_out)
            dA = np_dev(Eact)
            psi_act = mu * float(onp.tensordot(dA, dA)) + 0.5 * kap * onp.trace(Eact) ** 2 \
                + float(hard_energy(e_out, h) - hin) + float(kin_energy(onp.array(de), dt, h))
            scale = mu * nrm * nrm + 0.5 * kap * onp.trace(Etr) ** 2 + abs(float(hard_energy(e_in + span, h) - hin))
            exc = float(psi_act - onp.min(psi))
            o["mini"] = bool(math.isfinite(exc) and exc <= ALPHA["mini_rel"] * scale)
            if math.isfinite(exc) and scale > 0:
                self._track("minimises", exc / (ALPHA["mini_rel"] * scale))
        if de > 0:
            self.stats["yield_steps"] += 1
        else:
            self.stats["elastic_steps"] += 1

    # -- viscous observations
    def _viscous_step(self, o, dt, hold):
        r0 = self.call(self.sc, dt)
        sn = onp.asarray(r0["sn"], dtype=float)
        nb = self.m["nBranches"]
        dets = [abs(onp.linalg.det(Fv) - 1.0) for Fv in visco_branches(sn, nb)]
        o["isoch"] = bool(all(math.isfinite(d) and d <= ALPHA["det_abs"] for d in dets))
        self._track("isochoric_v", max(dets) / ALPHA["det_abs"])
        wn_old = visco_wneq(self.F, self.sc, self.meta)
        q = float(r0["q"])
        scale = wn_old
        o["diss"] = "neg" if not (q >= -ALPHA["diss_rel"] * scale) else ("zero" if q <= ALPHA["diss_rel"] * scale
                                                                          else "pos")
        self.sc = sn
        wn = visco_wneq(self.F, self.sc, self.meta)
        gs = self.meta["Gsum"]
        floor = gs * (ALPHA["relax_floor"] * math.sqrt(max(wn_old, 0.0) / gs) + 1e-28)
        up = wn_old * (1 + ALPHA["relax_rel"]) + floor
        if not (wn <= up):
            self.nid += 1
        elif wn < wn_old * (1 - ALPHA["relax_rel"]) - floor:
            self.nid -= 1
            if hold:
                self.stats["holds_decreasing"] += 1
        if math.isfinite(wn) and wn > wn_old:
            self._track("relax", (wn - wn_old) / (wn_old * ALPHA["relax_rel"] + floor))
        self.nreg = wn
        o["Wneq"] = self.nid

    def _limit(self, o, fast):
        dt = 1e-6 * self.tau_min if fast else 1e6 * self.tau_max
        r = self.call(self.s0, dt)
        E = np_dev(np_logstrain(self.F))
        weq = visco_weq(self.F, self.meta)
        winst = weq + self.meta["Gsum"] * float(onp.tensordot(E, E))
        target = winst if fast else weq
        # the backward-Euler factor is 1e-6 away from its limit, so W is within ~2e-6*(W_inst - W_eq) of the target;
        # rounding of the energies themselves: energy_rel*W_inst + energy_abs*Kref
        rounding = ALPHA["energy_rel"] * abs(winst) + ALPHA["energy_abs"] * self.meta["Kref"]
        allow = ALPHA["limit_rel"] * abs(winst - weq) + rounding
        d = abs(float(r["W"]) - target)
        o["lim"] = "EQ" if (math.isfinite(d) and d <= allow) else "NE"
        if math.isfinite(d):
            self._track("limit", d / allow)
        if ALPHA["limit_rel"] * abs(winst - weq) > 10 * rounding:
            self.stats["limits_nontrivial"] += 1

    # -- the actions
    def step(self, i, op):
        a = op["a"]
        o = dict(W=self.wid, S=self.sid, symS=True, eIn=1, eOut=1, isoch=True, ye="inside", mini=True, same=True,
                 Wneq=self.nid, diss="zero", lim="EQ", dS="NA", dT="NA")
        kind = self.kind
        if a == "Reset":
            self.F, self.sc, self.sp, self.dF_last = I3.copy(), self.s0.copy(), None, None
            self._observe(o, reset=True)
            if kind == "viscous":
                self.nreg = visco_wneq(self.F, self.sc, self.meta)
        elif a == "Deform":
            self._deform_only = True
            self.F = self._new_F(op["c"])
            self._deform_only = False
            self.sp = None
            self._observe(o)
            if kind == "viscous":
                self.nreg = visco_wneq(self.F, self.sc, self.meta)
                self.nid += 3          # a new deformation: the register is not ordered against the old one
                o["Wneq"] = self.nid
        elif a in ("SupRot", "RefRot"):
            Q = rand_rot(self.rng)
            w_before = self.wreg
            if a == "SupRot":
                self.F = Q @ self.F
            else:
                self.F = self.F @ Q
                self.sc = self._rotate_state(self.sc, Q)
            self._observe(o, judged=True)
            if abs(w_before) > 1e3 * ALPHA["energy_abs"] * self.meta["Kref"]:
                self.stats["rot_nontrivial"] += 1
        elif a == "Update":
            dt = self._pick_dt(op.get("dt", "mid"))
            self.dt = dt
            r = self.call(self.sc, dt)
            self.sp = onp.asarray(r["sn"], dtype=float)
            self._observe(o, r=r)
            self._plastic_obs(o, self.sc, self.sp, r, dt, i)
        elif a == "ReUpdate":
            r = self.call(self.sp, self.dt)
            sn = onp.asarray(r["sn"], dtype=float)
            d = float(onp.max(onp.abs(sn[1:] - self.sp[1:])))
            o["same"] = bool(math.isfinite(d) and d <= ALPHA["same_state_abs"] * max(1.0, float(onp.max(onp.abs(self.sp[1:])))))
            self._plastic_obs(o, self.sp, sn, r, self.dt, i)
            self.sp = sn
        elif a == "Commit":
            self.sc, self.sp = self.sp, None
            self._observe(o, commit=True)
        elif a in ("Hold", "Load"):
            dt = self._pick_dt(op.get("dt", "mid"))
            self.dt = dt
            if a == "Load":
                self.F = self._new_F(op.get("c", "inc"))
            self._viscous_step(o, dt, a == "Hold")
            self._observe(o)
        elif a in ("LimitFast", "LimitSlow"):
            self._limit(o, a == "LimitFast")
        else:
            raise ValueError(a)
        self.gap = self._gap()
        if self.r.mode == "deriv" and a not in ("ReUpdate", "LimitFast", "LimitSlow"):
            self._deriv_obs(o)
        if kind == "plastic" and a not in ("Update", "ReUpdate"):
            self.flat = self._flat(self.sc)
        if kind == "plastic" and a not in ("Update", "ReUpdate"):
            self.eq.append((i, "eOut", float(self.sc[0])))
            self.eq.append((i, "eIn", float(self.sc[0])))
        return o

    def _deriv_obs(self, o):
        """C10: stress and tangent action (library differentiation rules) against difference quotients of the energy
        density itself at (current F, committed state, current dt), along ndir directions (the last one is the
        normalised sum of the first two: its second derivative contains their mixed term)."""
        D = DERIV
        H = self.F - I3
        nrng = onp.random.RandomState(self.rng.randrange(1 << 30))
        V = nrng.normal(size=(D["ndir"], 3, 3))
        if self.rng.random() < 0.3:                      # in-plane block form (plane-strain kinematics)
            V[0, 2, :] = 0.0
            V[0, :, 2] = 0.0
        if self.rng.random() < 0.3:
            V[1] = 0.5 * (V[1] + V[1].T)                 # a symmetric direction
        V[-1] = V[0] / np_norm(V[0]) + V[1] / np_norm(V[1])
        V = V / onp.sqrt((V * V).sum(axis=(1, 2)))[:, None, None]
        h0 = D["h0"] * max(np_norm(H), D["hmin"])
        hs = h0 / 2.0 ** onp.arange(FD_NH)
        r = self.r._dfn(onp.asarray(self.p, dtype=float), onp.asarray(H, dtype=float), onp.asarray(self.sc, dtype=float),
                        float(self.dt), V, hs)
        self.r.calls += 1
        P, T, Wst = (onp.asarray(r[k], dtype=float) for k in ("P", "T", "Wst"))
        if not math.isfinite(float(r["W0"])):
            self.stats["deriv_nonfinite_energy"] += 1
            return
        Kref = self.meta["Kref"]
        ok = onp.isfinite(Wst).all(axis=2)                                   # [dir, step size]
        plastic_here = False
        if "de" in r:
            de = onp.asarray(r["de"], dtype=float)
            pos = de > 0
            same = pos.all(axis=2) | (~pos).all(axis=2)
            # a stencil is on one side of the yield switch only if every FINER stencil along the same line is on that side
            # too (all seven sample points of a coarse stencil can be plastic while the points next to its centre are not)
            same = onp.flip(onp.logical_and.accumulate(onp.flip(same, axis=1), axis=1), axis=1)
            self.stats["deriv_dirs_skipped_straddle"] += int((ok & ~same).all(axis=1).sum())
            ok &= same
            plastic_here = bool(pos[:, :, 3].all())
        c1, c2 = onp.array(FD_C1), onp.array(FD_C2)
        D1 = (Wst * c1).sum(axis=2) / hs[None, :]
        D2 = (Wst * c2).sum(axis=2) / (hs * hs)[None, :]
        eps = 2.0 ** -52
        # noise of one energy evaluation, measured: the sixth difference of the seven stencil values is h^6 W^(6) (negligible at
        # fine steps, an over-estimate at coarse ones) plus sqrt(924) x the noise; never below one ulp of the energy
        c6 = onp.array([1.0, -6.0, 15.0, -20.0, 15.0, -6.0, 1.0])
        wmax = float(onp.abs(Wst[onp.isfinite(Wst)]).max()) if onp.isfinite(Wst).any() else 0.0
        noise = onp.abs((Wst * c6).sum(axis=2)) / 30.4 + eps * wmax + eps * Kref * (1.0 if self.m["finiteDef"] else 0.0)  # + ulp of the O(1) invariants (rest state: W itself is ~0)
        R1 = 2.0 * noise / hs[None, :]                 # sum |c1| = 1.83
        R2 = 6.0 * noise / (hs * hs)[None, :]          # sum |c2| = 6.0
        codes = {}
        for name, Dq, Rq, ad, scale, floor in (
                ("dS", D1, R1, (P[None] * V).sum(axis=(1, 2)), onp.full(len(V), np_norm(P)), D["floor"] * Kref),
                ("dT", D2, R2, (T * V).sum(axis=(1, 2)), onp.sqrt((T * T).sum(axis=(1, 2))), D["floor"] * Kref)):
            worst, judged = 0.0, 0
            bad = False
            for k in range(len(V)):
                # three consecutive step sizes in the asymptotic regime: halving h shrinks the change of the quotient at
                # least four-fold (6th order: 64-fold) up to rounding -- a non-smooth energy or too large a step fails this
                def est_of(j):
                    return abs(Dq[k, j] - Dq[k, j + 1]) + Rq[k, j + 1]
                js = [j for j in range(FD_NH - 2) if ok[k, j] and ok[k, j + 1] and ok[k, j + 2]
                      and abs(Dq[k, j + 1] - Dq[k, j + 2]) <= 0.25 * abs(Dq[k, j] - Dq[k, j + 1]) + Rq[k, j + 2]
                      and est_of(j + 1) <= D["trust"] * scale[k] + floor]
                if not js:
                    self.stats["deriv_dirs_skipped_untrusted"] += 1
                    continue
                # best estimate first; a candidate must be confirmed by every finer quotient (the energy of a plastic state
                # varies on the scale of the yield strain: plateaus of the quotient at coarse steps are spurious)
                pick = None
                for jc in sorted(js, key=lambda j: est_of(j + 1)):
                    e = est_of(jc + 1)
                    if all(abs(Dq[k, jf] - Dq[k, jc + 2]) <= D["est_factor"] * e + 4 * Rq[k, jf]
                           for jf in range(jc + 3, FD_NH) if ok[k, jf]):
                        pick = jc + 1
                        break
                if pick is None:
                    self.stats["deriv_dirs_skipped_untrusted"] += 1
                    continue
                j = pick
                est = est_of(j)
                judged += 1
                allow = D["rel"] * scale[k] + D["est_factor"] * est + floor
                d = abs(ad[k] - Dq[k, j + 1])
                if os.environ.get("MP_DERIV_DEBUG"):
                    print("DERIV", name, "dir", k, "j", j, "est", est, "allow", allow, "d", d, "ad", ad[k], "fd", Dq[k, j + 1], "R", Rq[k, j + 1])
                if not (math.isfinite(ad[k]) and d <= allow):
                    bad = True
                elif allow > 0:
                    worst = max(worst, d / allow)
            if judged:
                codes[name] = "NE" if bad else "EQ"
                self.stats["deriv_stress_judged" if name == "dS" else "deriv_tangent_judged"] += 1
                if not bad:
                    self._track("deriv_" + name, worst)
        o.update(codes)
        if codes and plastic_here:
            self.stats["deriv_plastic_branch_judged"] += 1

    def _flat(self, state):
        """Classification feature only: the flow stress does not rise over the elastic-predictor bracket of the
        current trial state (perfect plasticity, saturated Voce), so the root of the stationarity condition sits ON
        the upper bracket."""
        try:
            h, mu = self.meta["hard"], self.meta["mu"]
            if h["rate"] or not onp.all(onp.isfinite(state)):
                return False
            e = float(state[0])
            trial = 2 * mu * np_mises(j2_elastic_strain(self.m["kin"], self.F, state))
            span = (trial - float(hard_stress(e, h))) / (3 * mu)
            if not (span > 0):
                return False
            return bool(float(hard_stress(e + span, h)) - float(hard_stress(e, h)) <= 1e-10 * 3 * mu * span)
        except Exception:
            return False

    def _gap(self):
        """Classification feature only: smallest relative eigenvalue gap of the (elastic) right Cauchy-Green
        tensors the model decomposes in this step (two nearly equal principal stretches <=> small gap)."""
        F = self.F
        g = eig_gap(F.T @ F)
        spread = [eig_spread(F.T @ F)]
        with onp.errstate(all="ignore"):
            try:
                if self.kind == "plastic" and self.m["kin"] == "large":
                    for st in (self.sc, self.sp):
                        if st is not None and onp.all(onp.isfinite(st)):
                            Fe = F @ np_inv(st[1:10].reshape(3, 3))
                            g = min(g, eig_gap(Fe.T @ Fe))
                            spread.append(eig_spread(Fe.T @ Fe))
                elif self.kind == "plastic":
                    for st in (self.sc, self.sp):
                        if st is not None and onp.all(onp.isfinite(st)):
                            g = min(g, eig_gap(np_dev(j2_elastic_strain(self.m["kin"], F, st)) + I3))
                            spread.append(eig_spread(np_dev(j2_elastic_strain(self.m["kin"], F, st)) + I3))
                elif self.kind == "viscous":
                    for Fv in visco_branches(self.sc, self.m["nBranches"]):
                        Fe = F @ np_inv(Fv)
                        g = min(g, eig_gap(Fe.T @ Fe))
                        spread.append(eig_spread(Fe.T @ Fe))
            except Exception:
                pass
        self.spherical = bool(max(spread) < 1e-12)     # every tensor the model decomposes is spherical (three equal stretches)
        return g

    def _rotate_state(self, s, Q):
        if self.kind == "plastic":
            T = s[1:10].reshape(3, 3)
            return onp.hstack((s[0], (Q.T @ T @ Q).ravel()))
        if self.kind == "viscous":
            return onp.hstack([(Q.T @ Fv @ Q).ravel() for Fv in visco_branches(s, self.m["nBranches"])])
        return s


def run_trace(runner, variant, mode, ops, seed, tid, solver_tol):
    """Execute one history on the real model; returns (trace dict for TLC, stats)."""
    pt = Point(runner, variant, seed, solver_tol)
    m = CATALOGUE[variant]
    evs = []
    with onp.errstate(all="ignore"):
        for i, op in enumerate(ops):
            if op["a"] in ("SupRot", "RefRot") and not m["finiteDef"]:
                continue                     # rotations are not enabled for small-strain theories
            o = pt.step(len(evs), op)
            if not (math.isfinite(pt.wreg) and onp.all(onp.isfinite(pt.sc))
                    and (pt.sp is None or onp.all(onp.isfinite(pt.sp)))):
                pt.nan_events.append(len(evs) + 1)
            if pt.gap < 1e-5:
                pt.deg_events.append(len(evs) + 1)
            if getattr(pt, "spherical", False):
                pt.sph_events.append(len(evs) + 1)
            if pt.flat:
                pt.flat_events.append(len(evs) + 1)
            evs.append(dict(a=op["a"], c=op.get("c", ""), dt=op.get("dt", ""), o=o))
    # dense ranks of every eqps value of the history (exact float comparison; NaN ranks lowest = 0)
    vals = sorted({v for _, _, v in pt.eq if math.isfinite(v)})
    rank = {v: k + 1 for k, v in enumerate(vals)}
    for i, fld, v in pt.eq:
        evs[i]["o"][fld] = rank.get(v, 0)
    tr = dict(id=tid, model=model_abs(variant), mode=mode, ev=evs)
    h = pt.meta.get("hard", {})
    facts = dict(nan_events=pt.nan_events, deg_events=pt.deg_events, sph_events=pt.sph_events, flat_events=pt.flat_events, perfect_plasticity=bool(h.get("model") == "linear" and h.get("H") == 0.0),
                 rate_sensitive=bool(h.get("rate", False)))
    return tr, pt.stats, facts


# ----------------------------------------------------------------------------- worker processes
_RUNNERS = {}
_SOLVER_TOL = None


def _worker_init():
    common.setup_paths()
    import optimism  # noqa: F401  (enables x64)


def solver_tol():
    global _SOLVER_TOL
    if _SOLVER_TOL is None:
        try:
            from optimism.material import J2Plastic
            t = float(J2Plastic._TOLERANCE)
            _SOLVER_TOL = t if 0 < t <= 1e-6 else SOLVER_TOL_DEFAULT
        except Exception:
            _SOLVER_TOL = SOLVER_TOL_DEFAULT
    return _SOLVER_TOL


def run_job(job):
    """job = (variant, mode, [(tid, ops, seed), ...]) -> (traces, stats list, wall, error text)"""
    variant, mode, items = job
    t0 = time.time()
    _worker_init()
    key = (variant, mode)
    out, stats, errs = [], [], []
    try:
        if key not in _RUNNERS:
            _RUNNERS[key] = Runner(variant, mode)
        rn = _RUNNERS[key]
        for tid, ops, seed in items:
            try:
                tr, st, facts = run_trace(rn, variant, mode, ops, seed, tid, solver_tol())
                out.append(tr)
                st["facts"] = (tid, facts)
                stats.append(st)
            except Exception as ex:                       # a public call raised
                errs.append((tid, repr(ex)[:300]))
    except Exception as ex:
        errs.append((-1, repr(ex)[:300]))
    return out, stats, time.time() - t0, errs


def run_jobs(jobs, nproc=None):
    """Run jobs in worker processes (compilation of each model/mode happens once, in parallel)."""
    if not jobs:
        return []
    nproc = nproc or min(len(jobs), max(1, min(10, (os.cpu_count() or 2) - 2)))
    if nproc <= 1 or os.environ.get("MP_SERIAL"):
        return [run_job(j) for j in jobs]
    import multiprocessing as mp
    from concurrent.futures import ProcessPoolExecutor
    ctx = mp.get_context("spawn")
    with ProcessPoolExecutor(max_workers=nproc, mp_context=ctx) as ex:
        return list(ex.map(run_job, jobs))


# ----------------------------------------------------------------------------- TLC side
def generate(rep, kind, tier, nsim):
    """Behaviours of one model kind from MaterialPointGen.tla: "ex" = EVERY action sequence of the cfg's Depth
    (exhaustive), "sim" = seeded random walks (TLC -simulate) of the _sim cfg's Depth without intermediate Reset."""
    cfg = "MaterialPointGen_%s_%s.cfg" % (kind, tier)
    res = tlc.run("MaterialPointGen.tla", cfg, workers=1, label="gen-%s-%s" % (kind, tier), timeout=1500)
    out = dict(ex=[], sim=[])
    if tlc.require_ok(res, rep, "generator " + cfg):
        rep.add_tlc(res)
        out["ex"] = [b["ops"] for b in res.payloads("BEH")]
    if nsim:
        depth = SIM_DEPTH[kind]
        sim = tlc.run("MaterialPointGen.tla", "MaterialPointGen_%s_sim.cfg" % kind, simulate=nsim, depth=depth + 1,
                      seed=common.seed() + 17, label="sim-" + kind, timeout=1500)
        if tlc.require_ok(sim, rep, "simulate " + kind):
            rep.add_tlc(sim)
            seen = set()
            for b_ in sim.payloads("BEH"):
                k = json.dumps(b_["ops"][:-1])          # one walk per distinct prefix (TLC prints every last step)
                if k not in seen:
                    seen.add(k)
                    out["sim"].append(b_["ops"])
    return out


def design(rep, tier):
    """(A) exhaustive model checking of the design specs."""
    ok = True
    res = tlc.run("MaterialPoint.tla", "MaterialPoint.cfg" if tier == "quick" else "MaterialPoint_thorough.cfg",
                  label="design-MaterialPoint", timeout=1500)
    if tlc.require_ok(res, rep, "design MaterialPoint"):
        rep.add_tlc(res)
        import re
        counts = {}
        for ln in res.stdout.splitlines():
            mm = re.match(r"^<(\w+) line \d+, col \d+ to line \d+, col \d+ of module MaterialPoint[^>]*>: (\d+):(\d+)", ln)
            if mm:
                counts[mm.group(1)] = counts.get(mm.group(1), 0) + int(mm.group(3))
        rep.coverage["design_action_counts"] = counts
        zero = [a for a in ("Reset", "Deform", "SupRot", "RefRot", "Update", "ReUpdate", "Commit", "Hold", "Load",
                            "LimitFast", "LimitSlow") if counts.get(a, 0) == 0]
        if zero:
            rep.machinery("design run: actions never taken: %s" % zero)
    else:
        ok = False
    return ok


def design_return_map(rep):
    res = tlc.run("ReturnMap.tla", "ReturnMap.cfg", label="design-ReturnMap", timeout=600)
    if tlc.require_ok(res, rep, "design ReturnMap"):
        rep.add_tlc(res)
    # documented design dependency: with a yield tolerance smaller than the solver tolerance TLC must find
    # a counterexample to idempotence (spec sensitivity self-test)
    bad = tlc.run("ReturnMap.tla", "ReturnMap_mismatch.cfg", label="design-ReturnMap-mismatch", timeout=600)
    if "Idempotent" not in bad.violated and "IdempotentStep" not in bad.violated:
        rep.machinery("ReturnMap_mismatch.cfg: expected a counterexample to Idempotent, got %s %s"
                      % (bad.violated, bad.error_text))
    else:
        rep.coverage["tlc_runs"].append({"label": "design-ReturnMap-mismatch (expected counterexample)",
                                         "violated": bad.violated, "distinct_states": bad.distinct})


def validate(traces, rep, pid, cases, facts=None):
    """(C) one TLC invocation per chunk; verdicts and clause-evaluation counts come from the trace spec."""
    mine = set(CLAUSES[pid])
    d = common.scratch("mp-traces")
    import shutil
    fails = []
    try:
        chunk = 3000
        for c0 in range(0, len(traces), chunk):
            part = traces[c0:c0 + chunk]
            path = os.path.join(d, "t%d.ndjson" % c0)
            with open(path, "w") as f:
                for t in part:
                    f.write(json.dumps(t, separators=(",", ":")) + "\n")
            res = tlc.run("MaterialPointTrace.tla", "MaterialPointTrace.cfg", workers=1, env={"TRACE_FILE": path},
                          timeout=3600, coverage=False, label="trace-%s-%d" % (pid, c0))
            verdicts = res.payloads("VERDICT")
            if not res.ok or not verdicts:
                rep.machinery("trace validation failed: %s\n%s" % (res.error_text, tlc.tail(res, 25)))
                continue
            v = verdicts[-1]
            if v.get("n") != len(part):
                rep.machinery("trace validation consumed %s of %d traces" % (v.get("n"), len(part)))
            rep.add_traces(len(part))
            rep.coverage["tlc_runs"].append({"label": "trace:MaterialPointTrace.tla", "traces": len(part),
                                             "states_generated": res.generated, "wall_s": round(res.wall, 2)})
            for c, n in v.get("cnt", {}).items():
                if c in mine:
                    rep.count_clause(c, int(n))
            for tid, l, clause in v.get("viol", []):
                if clause.startswith("drift_"):
                    rep.machinery("harness produced an event the spec does not enable: trace %s event %s" % (tid, l))
                    continue
                if clause in mine:
                    fails.append((tid, l, clause))
    finally:
        shutil.rmtree(d, ignore_errors=True)
    first = {}
    for tid, l, clause in fails:
        first[tid] = min(first.get(tid, l), l)
    later = 0
    for tid, l, clause in fails:
        # the state of a point is contaminated by its first failure -- except for C10, whose clauses only observe
        if l > first[tid] and pid != "C10":
            later += 1
            continue
        c = dict(cases[tid])
        c["event"] = l
        c["action"] = c["ops"][l - 1]["a"] if l - 1 < len(c["ops"]) else "?"
        f = (facts or {}).get(tid, {})
        c["nan"] = bool(l in f.get("nan_events", []))
        c["near_equal_stretches"] = bool(l in f.get("deg_events", []))
        c["perfect_plasticity"] = bool(f.get("perfect_plasticity", False))
        c["flat_hardening"] = bool(l in f.get("flat_events", []))
        c["rate_sensitive"] = bool(f.get("rate_sensitive", False))
        c["all_stretches_equal"] = bool(l in f.get("sph_events", []))
        rep.fail(clause, c)
    if later:
        rep.coverage["failures_after_the_first_failing_event_of_a_trace_not_reported"] = later
    return fails


def merge_stats(rep, results):
    tot = {}
    mx = {}
    for _, stats, _, _ in results:
        for st in stats:
            for k, v in st.items():
                if k == "facts":
                    continue
                if k == "max_rel":
                    for kk, vv in v.items():
                        mx[kk] = max(mx.get(kk, 0.0), vv)
                else:
                    tot[k] = tot.get(k, 0) + v
    rep.coverage["nontrivial"] = tot
    rep.coverage["largest_fraction_of_allowance_used_by_passing_evaluations"] = {k: float("%.3g" % v) for k, v in sorted(mx.items())}
    return tot, mx


def assumptions(pid):
    a = ["alpha constants: " + json.dumps(ALPHA, sort_keys=True),
         "solver tolerance read from J2Plastic._TOLERANCE (default 1e-10, ignored if > 1e-6)",
         "independent numpy oracles in checks/matpoint.py: Hencky strain by numpy.linalg.eigh, hardening laws "
         "(linear, Voce, power law, power-law rate sensitivity), incremental potential, non-equilibrium energy, "
         "instantaneous / equilibrium neo-Hookean energies",
         "energy / stress class ids are assigned relative to the previous register value (equal id <=> within the "
         "allowance of the value last observed); eqps ranks are dense ranks under exact float comparison",
         "material parameters traced through jax.jit (the library builds its closures from tracers); mode 'single' "
         "builds the model from Python floats and jits each model function separately, as the upstream tests do"]
    return a


# ----------------------------------------------------------------------------- generic check driver
def assign(behs_by_kind, plan, rng):
    """plan: list of (variant, mode, pick) with pick(behs_of_kind: dict(ex, sim), rng) -> list of op sequences."""
    jobs, cases = [], {}
    tid = 0
    for variant, mode, pick in plan:
        kind = CATALOGUE[variant]["kind"]
        chosen = pick(behs_by_kind[kind], rng)
        items = []
        for ops in chosen:
            if not CATALOGUE[variant]["finiteDef"]:     # rotations are not enabled for small-strain theories
                ops = [o for o in ops if o["a"] not in ("SupRot", "RefRot")]
            tid += 1
            s = rng.randrange(1 << 30)
            items.append((tid, ops, s))
            cases[tid] = dict(model=CATALOGUE[variant]["model"], variant=variant, mode=mode, ops=ops, seed=s)
        chunk = 8 if mode == "single" else 1500          # big shares are split so the worker pool stays busy
        for c0 in range(0, len(items), chunk):
            jobs.append((variant, mode, items[c0:c0 + chunk]))
    return jobs, cases


def shares(targets, n_sim, n_ex_extra=0, cap_ex=None, prefer=None, boost=None):
    """Every exhaustive sequence goes to exactly one target of its kind (round robin after a seeded shuffle);
    every target also gets n_sim random walks (and n_ex_extra further exhaustive sequences)."""
    by_kind = {}
    for t in targets:
        by_kind.setdefault(CATALOGUE[t[0]]["kind"], []).append(t)
    plan = []
    for kind, ts in by_kind.items():
        K = len(ts)
        for k, (variant, mode) in enumerate(ts):
            def pick(behs, rng, k=k, K=K, kind=kind):
                ex = list(behs["ex"])
                random.Random(common.seed() + 101).shuffle(ex)
                sim = list(behs["sim"])
                rng.shuffle(sim)
                if prefer:                             # stable: preferred histories first
                    sim.sort(key=lambda b: 0 if prefer(b) else 1)
                more = rng.sample(ex, min(n_ex_extra, len(ex))) if n_ex_extra else []
                mine = ex[k::K]
                if cap_ex and kind in cap_ex:          # (C08 uses the history kinds only to reach evolved states)
                    mine = mine[:cap_ex[kind]]
                if boost:                               # (predicate, n): n further seeds for histories of interest
                    good = [b for b in ex if boost[0](b)]
                    more += [rng.choice(good) for _ in range(boost[1])] if good else []
                return mine + more + sim[:n_sim]
            plan.append((variant, mode, pick))
    return plan


def run_check(pid, tier, replay, plan, kinds, nsim, rule):
    """plan: list of (variant, mode, pick)."""
    common.setup_paths()
    rep = common.Reporter(pid, tier)
    rep.assumptions = assumptions(pid)
    rng = random.Random(common.seed() * 7919 + {"C08": 8, "C09": 9, "C11": 11, "C10": 10}[pid])
    t0 = time.time()
    if replay:
        case = json.load(open(replay))["case"]
        jobs = [(case["variant"], case["mode"], [(1, case["ops"], case["seed"])])]
        cases = {1: {k: case[k] for k in ("model", "variant", "mode", "ops", "seed")}}
        results = run_jobs(jobs, nproc=1)
    else:
        design(rep, tier)
        if pid == "C09":
            design_return_map(rep)
        behs_by_kind = {kind: generate(rep, kind, tier, nsim.get(kind, 0)) for kind in kinds}
        rep.coverage["behaviours_emitted_by_tlc"] = {k: dict(exhaustive=len(v["ex"]), random_walks=len(v["sim"]))
                                                     for k, v in behs_by_kind.items()}
        jobs, cases = assign(behs_by_kind, plan, rng)
        jobs.sort(key=lambda j: -len(j[2]) * (20 if j[1] == "single" else 1))     # largest first
        results = run_jobs(jobs)
    traces = []
    for (variant, mode, items), (trs, stats, wall, errs) in zip(jobs, results):
        traces += trs
        for tid, msg in errs:
            if tid < 0:
                rep.machinery("worker for %s/%s failed: %s" % (variant, mode, msg))
            else:
                rep.fail("no_exception", dict(cases[tid], event=0, action="?"), msg)
    rep.coverage["replay_wall_s"] = round(time.time() - t0, 1)
    merge_stats(rep, results)
    acts, per_model = {}, {}
    for t in traces:
        v = cases[t["id"]]["variant"] + "/" + t["mode"]
        per_model[v] = per_model.get(v, 0) + 1
        for e in t["ev"]:
            acts[e["a"]] = acts.get(e["a"], 0) + 1
    rep.coverage["actions_replayed"] = acts
    rep.coverage["traces_per_model_mode"] = per_model
    if traces:
        rep.sample(dict(case={k: cases[traces[0]["id"]][k] for k in ("variant", "mode", "seed")},
                        events=traces[len(traces) // 2]["ev"][:4]))
    facts = {st["facts"][0]: st["facts"][1] for _, stats, _, _ in results for st in stats if "facts" in st}
    rep.coverage["job_wall_s"] = sorted(((round(w, 1), j[0], j[1], len(j[2])) for j, (_, _, w, _) in zip(jobs, results)),
                                        reverse=True)[:8]
    validate(traces, rep, pid, cases, facts)
    if not replay:
        for c in CLAUSES[pid]:
            if rep.coverage["clauses_evaluated"].get(c, 0) == 0:
                rep.machinery("vacuity: clause %s was never evaluated" % c)
        need = {"elastic": ["Reset", "Deform", "SupRot", "RefRot"],
                "plastic": ["Reset", "Deform", "SupRot", "RefRot", "Update", "ReUpdate", "Commit"],
                "viscous": ["Reset", "Deform", "SupRot", "RefRot", "Hold", "Load", "LimitFast", "LimitSlow"]}
        for a in sorted({a for k in kinds for a in need[k]}):
            if acts.get(a, 0) == 0:
                rep.machinery("vacuity: action %s of the design spec was never replayed" % a)
    return rep.finish(rule=rule, extra={"distinct_nontrivial": len(traces)}, exhaustive=False)
