"""C12 - Symmetric-tensor eigen-decomposition, functions and derivative rules are exact.

(A) SymTensor.tla is model-checked exhaustively: a lattice of symmetric 3x3 tensors with EXACTLY known spectra
    (R diag(d) R^T with integer eigenvalues and exact rational orthogonal R; small integer matrices with their integer
    characteristic polynomial) and the algebra the oracle relies on, in exact integer arithmetic at every point.  The
    same run (SymTensorGen.tla) emits every lattice point with its oracle.  DenseMatFn.tla does the same for the dense
    square root / logarithm: M = S D S^-1 with S a product of integer shears.
(B) Every emitted point is concretised on the real routines of /repo: the exact rational tensor times a scale factor
    (decades 10^k, k = -20..20, and exact binary scales), correctly rounded to float64, plus seeded +-1 ulp
    neighbours; eigen_sym33_unit, sqrt/exp/log/pow_symm, jax.jvp of them, detpIm1, inv, right_polar_decomposition are
    evaluated inside jit(vmap) ("vmapBatch") and as one jitted call per tensor ("single").
(C) The observations are abstracted to comparison codes (2 = within the allowance, 4 = outside, 7 = not finite), OR-ed
    per (lattice point, applicability flags) and judged by SymTensorTrace.tla / DenseMatFnTrace.tla, which hold the
    applicability rules (log: positive definite; sqrt: positive semi-definite, derivative only when definite; exp
    where no overflow; pow derivative only where its docstring claims accuracy).

alpha / rounding allowances (references in 80-bit long double):
  values, identities, reconstruction, orthonormality, equivariance : 1e-9 relative to the natural scale (below)
  derivative rules (jax.jvp against Daleckii-Krein)                : 1e-6 relative to max |divided difference| * |H|
"""
import json
import math
import random
import sys
import warnings
import zlib

import numpy as onp

from harness import common, tlc, trace

PID = "C12"
LD = onp.longdouble
EQ, GT, BAD = 2, 4, 7
VTOL = 1e-9
DTOL = 1e-6
G = 52                               # eigenvalue numerators carried over 2^G
TINY = LD(1e-300)

FNS = ("sqrt", "exp", "log")
POW_M = {"quick": [2.0, -1.0, 2.5], "thorough": [2.0, 3.0, -1.0, -2.0, 0.5, -0.5, 2.5]}
DECADES = {"quick": [-20, -12, -6, -2, 0, 1, 6, 12, 20], "thorough": list(range(-20, 21))}
BINS = {"quick": [-40, 0, 3], "thorough": [-66, -40, -13, -1, 0, 3, 20, 66]}
SINGLE_DEC = {"quick": [-20, 0, 6], "thorough": [-20, -9, -2, 0, 1, 9, 20]}
SINGLE_BIN = {"quick": [0], "thorough": [-40, 0, 3]}
PER_GROUP = {"quick": (3, 8), "thorough": (14, 40)}          # (rotated points per (rot, mult, mid0), integer matrices per class)

# symmetric perturbation directions: the six basis directions span all of them (the rule is linear in H), one dense
_B = []
for _i, _j in ((0, 0), (1, 1), (2, 2), (0, 1), (0, 2), (1, 2)):
    _m = onp.zeros((3, 3))
    _m[_i, _j] = _m[_j, _i] = 1.0
    _B.append(_m)
_B.append(onp.array([[1.0, 2.0, 3.0], [2.0, -1.0, 0.5], [3.0, 0.5, 2.0]]))
DIRS = onp.array(_B)
# signed permutations for the equivariance clause (exact in floating point)
PERMS = onp.array([[[0.0, 0, 1], [1, 0, 0], [0, 1, 0]], [[0.0, -1, 0], [1, 0, 0], [0, 0, -1]]])
# exact rational rotations for the polar decomposition F = Q U
QROT = [(onp.array([[2, -1, 2], [2, 2, -1], [-1, 2, 2]], LD), 3), (onp.array([[3, -4, 0], [4, 3, 0], [0, 0, 5]], LD), 5),
        (onp.array([[2, 3, 6], [3, -6, 2], [6, 2, -3]], LD), 7)]


def mclass(m):
    if float(m).is_integer():
        return "pi" if m > 0 else "pn"
    return "pf"


FIELDS = ["fi", "asc", "orth", "rc", "ev", "dp", "iv", "po"]
for _f in ("s", "e", "l", "pi", "pn", "pf"):
    FIELDS += [_f + "_fv", _f + "_id", _f + "_eq", _f + "_fr"]
PREFIX = {"sqrt": "s", "exp": "e", "log": "l"}

# clause -> fields it reads (for counting and for locating a witness only; the verdict is TLC's)
CLAUSE_FIELDS = {
    "eig_finite": ["fi"], "eig_ascending": ["asc"], "eig_orthonormal": ["orth"], "eig_reconstructs": ["rc"],
    "eig_values": ["ev"], "detpIm1": ["dp"], "inverse": ["iv"], "polar": ["po"],
    "sqrt_value": ["s_fv"], "sqrt_identity": ["s_id"], "sqrt_equivariant": ["s_eq"], "sqrt_frechet": ["s_fr"],
    "exp_value": ["e_fv"], "exp_identity": ["e_id"], "exp_equivariant": ["e_eq"], "exp_frechet": ["e_fr"],
    "log_value": ["l_fv"], "log_identity": ["l_id"], "log_equivariant": ["l_eq"], "log_frechet": ["l_fr"],
    "pow_value": ["pi_fv", "pn_fv", "pf_fv"], "pow_identity": ["pn_id", "pf_id"],
    "pow_equivariant": ["pi_eq", "pn_eq", "pf_eq"], "pow_frechet": ["pi_fr", "pn_fr", "pf_fr"],
}


# ----------------------------------------------------------------------------- exact construction of the samples
def point_key(o):
    if o["kind"] == "rot":
        return "rot:%s:%s:%d:%d" % (",".join(map(str, o["d"])), o["rot"], o["g"], o["sp"])
    A = o["An"]
    return "int:%d,%d,%d,%d,%d,%d" % (A[0][0], A[0][1], A[0][2], A[1][1], A[1][2], A[2][2])


def point_id(o):
    """what the trace spec needs to recompute the lattice point"""
    A = o["An"]
    return dict(kind=o["kind"], d=o["d"], rot=o["rot"], g=o["g"], sp=o["sp"],
                a=[A[0][0], A[0][1], A[0][2], A[1][1], A[1][2], A[2][2]])


def exact_numerators(o):
    """integer matrix N and denominator D with  exact tensor = N / D  (before scaling)."""
    if o["kind"] == "int":
        return [list(r) for r in o["An"]], 1
    Rn, den, g = o["Rn"], o["den"], o["g"]
    lamN = [o["d"][i] * (1 << G) + (o["split"][i] << (G - g) if g else 0) for i in range(3)]
    N = [[sum(Rn[i][k] * lamN[k] * Rn[j][k] for k in range(3)) for j in range(3)] for i in range(3)]
    return N, den * den * (1 << G)


def scale_ratio(sc, den):
    """scale factor as an exact ratio (sn, sd). dec k: 10^k ; bin j: 2^j den^2 (the tensor is then An 2^j exactly)."""
    kind, k = sc
    if kind == "dec":
        return (10 ** k, 1) if k >= 0 else (1, 10 ** (-k))
    return ((1 << k) * den * den, 1) if k >= 0 else (den * den, 1 << (-k))


def scale_ld(sc, den):
    kind, k = sc
    if kind == "dec":
        return LD(10.0) ** k
    return LD(2.0) ** k * LD(den * den)


def ulp_neighbour(A, key, seed):
    rs = onp.random.RandomState(zlib.crc32(("%d|%s" % (seed, key)).encode()) & 0x7FFFFFFF)
    p = rs.randint(-1, 2, size=6)
    if not p.any():
        p[rs.randint(6)] = 1
    B = A.copy()
    for (i, j), s in zip(((0, 0), (0, 1), (0, 2), (1, 1), (1, 2), (2, 2)), p):
        if s and A[i, j] != 0.0:                   # exact zeros stay zero (no subnormal neighbours)
            B[i, j] = B[j, i] = onp.nextafter(A[i, j], onp.inf if s > 0 else -onp.inf)
    return B


def jacobi_ld(A):
    """cyclic Jacobi in long double for a batch (N,3,3) of symmetric matrices: eigenvalues ascending, vectors in columns."""
    A = onp.array(A, LD)
    N = A.shape[0]
    V = onp.broadcast_to(onp.eye(3, dtype=LD), (N, 3, 3)).copy()
    for _ in range(12):
        for p, q in ((0, 1), (0, 2), (1, 2)):
          with onp.errstate(all="ignore"):
              apq = A[:, p, q]
              nz = apq != 0
              den = onp.where(nz, 2 * apq, LD(1))
              th = (A[:, q, q] - A[:, p, p]) / den
              t = onp.where(th >= 0, LD(1), LD(-1)) / (onp.abs(th) + onp.sqrt(th * th + 1))
              t = onp.where(nz, t, LD(0))
              c = 1 / onp.sqrt(t * t + 1)
              s = t * c
              J = onp.broadcast_to(onp.eye(3, dtype=LD), (N, 3, 3)).copy()
              J[:, p, p] = c
              J[:, q, q] = c
              J[:, p, q] = s
              J[:, q, p] = -s
              A = onp.einsum("nji,njk,nkl->nil", J, A, J)
              A[:, p, q] = onp.where(nz, LD(0), A[:, p, q])
              A[:, q, p] = A[:, p, q]
              V = onp.einsum("nij,njk->nik", V, J)
    lam = onp.stack([A[:, 0, 0], A[:, 1, 1], A[:, 2, 2]], axis=1)
    idx = onp.argsort(lam, axis=1)
    lam = onp.take_along_axis(lam, idx, axis=1)
    V = onp.take_along_axis(V, idx[:, None, :], axis=2)
    return lam, V


def build_samples(pts, scales, nb_scales, seed):
    """All samples of a unit.  Returns a dict of arrays (N = number of samples)."""
    A, pid, sci, var, exact = [], [], [], [], []
    for ip, o in enumerate(pts):
        N_, D_ = exact_numerators(o)
        key = point_key(o)
        for isc, sc in enumerate(scales):
            sn, sd = scale_ratio(sc, o["den"])
            M = onp.empty((3, 3))
            ex = True
            for i in range(3):
                for j in range(3):
                    num, den = N_[i][j] * sn, D_ * sd
                    x = num / den                      # Python int true division is correctly rounded
                    M[i, j] = x
                    if ex:
                        p, q = x.as_integer_ratio()
                        ex = (p * den == num * q)
            A.append(M); pid.append(ip); sci.append(isc); var.append(0); exact.append(ex)
            if list(sc) in nb_scales:
                A.append(ulp_neighbour(M, key + "|%s%d" % (sc[0], sc[1]), seed))
                pid.append(ip); sci.append(isc); var.append(1); exact.append(False)
    A = onp.array(A).reshape(-1, 3, 3)
    pid, sci, var, exact = onp.array(pid), onp.array(sci), onp.array(var), onp.array(exact, bool)
    n = len(A)
    lam = onp.zeros((n, 3), LD)
    V = onp.zeros((n, 3, 3), LD)
    inv3 = onp.zeros((n, 3), LD)              # exact invariants (int points) scaled
    isint = onp.array([pts[i]["kind"] == "int" for i in pid], bool)
    for ip, o in enumerate(pts):
        sel = onp.nonzero(pid == ip)[0]
        if not len(sel):
            continue
        S = onp.array([scale_ld(scales[sci[i]], o["den"]) for i in sel], LD)
        if o["kind"] == "rot":
            base = onp.array([LD(o["d"][i]) + (LD(o["split"][i]) * LD(2.0) ** (-o["g"]) if o["g"] else LD(0))
                              for i in range(3)], LD)
            lam[sel] = base[None, :] * S[:, None]
            V[sel] = (onp.array(o["Rn"], LD) / LD(o["den"]))[None]
        else:
            inv3[sel, 0] = LD(o["i1"]) * S
            inv3[sel, 1] = LD(o["i2"]) * S * S
            inv3[sel, 2] = LD(o["i3"]) * S * S * S
    if isint.any():
        lj, Vj = jacobi_ld(A[isint].astype(LD))
        lam[isint], V[isint] = lj, Vj
    nrm = onp.abs(lam).max(axis=1)
    return dict(A=A, pid=pid, sci=sci, var=var, exact=exact, lam=lam, V=V, inv3=inv3, isint=isint, nrm=nrm,
                small=onp.asarray(nrm <= 50), mild=onp.asarray(nrm <= 4))


# ----------------------------------------------------------------------------- the REAL routines, two execution modes
class Evaluator:
    """mode 'vmapBatch': jax.jit(jax.vmap(f)) over the whole batch (in blocks of 8192 tensors, the last one padded by repetition);
    mode 'single': jax.jit(f) called once per tensor."""
    BATCH = 8192

    def __init__(self, mode):
        import optimism.JaxConfig  # noqa: F401  (enables x64)
        import jax
        from optimism import TensorMath as TM
        self.jax, self.mode = jax, mode
        self.calls = 0
        val = {"sqrt": TM.sqrt_symm, "exp": TM.exp_symm, "log": TM.log_symm}
        raw = {"eig": (lambda A: TM.eigen_sym33_unit(A), 1), "pow": (lambda A, m: TM.pow_symm(A, m), 2),
               "jvp_pow": (lambda A, H, m: jax.jvp(lambda X: TM.pow_symm(X, m), (A,), (H,))[1], 3),
               "dp": (TM.detpIm1, 1), "inv": (TM.inv, 1), "polar": (TM.right_polar_decomposition, 1)}
        for n, f in val.items():
            raw[n] = (f, 1)
            raw["jvp_" + n] = ((lambda f_: lambda A, H: jax.jvp(f_, (A,), (H,))[1])(f), 2)
        self.fn = {}
        for n, (f, nargs) in raw.items():
            self.fn[n] = jax.jit(jax.vmap(f)) if mode == "vmapBatch" else jax.jit(f)

    def __call__(self, name, *args):
        n = len(args[0])
        self.calls += n
        f = self.fn[name]
        if self.mode == "vmapBatch":
            B = self.BATCH                                   # one batch size for every call: one compilation per routine
            parts = []
            for a0 in range(0, n, B):
                part = [a[a0:a0 + B] for a in args]
                k = len(part[0])
                padded = [onp.concatenate([a, onp.repeat(a[-1:], B - k, axis=0)]) if k < B else a for a in part]
                out = f(*padded)
                parts.append(tuple(onp.asarray(x)[:k] for x in out) if isinstance(out, (tuple, list)) else onp.asarray(out)[:k])
            if isinstance(parts[0], tuple):
                return tuple(onp.concatenate([p_[i] for p_ in parts]) for i in range(len(parts[0])))
            return onp.concatenate(parts)
        outs = []
        for i in range(n):
            out = f(*[a[i] for a in args])
            outs.append(tuple(onp.asarray(x) for x in out) if isinstance(out, (tuple, list)) else onp.asarray(out))
        if isinstance(outs[0], tuple):
            return tuple(onp.array([o[k] for o in outs]) for k in range(len(outs[0])))
        return onp.array(outs)


def observe(S, ev, ms, dirs, nperm):
    """Evaluate everything on the samples S.  dirs: index array (N, nd) into DIRS.  Returns dict of float64 outputs."""
    A = S["A"]
    n = len(A)
    out = {}
    out["lam"], out["V"] = ev("eig", A)
    nd = dirs.shape[1]
    H = DIRS[dirs]                                           # (N, nd, 3, 3)
    Arep = onp.repeat(A, nd, axis=0)
    Hrep = H.reshape(-1, 3, 3)
    P = PERMS[:nperm]
    PA = onp.einsum("pij,njk,plk->npil", P, A, P).reshape(-1, 3, 3)     # (N*nperm, 3, 3)
    for f in FNS:
        out["val_" + f] = ev(f, A)
        out["eqv_" + f] = ev(f, PA).reshape(n, nperm, 3, 3)
        out["tan_" + f] = ev("jvp_" + f, Arep, Hrep).reshape(n, nd, 3, 3)
    for m in sorted(set(ms) | {-m for m in ms if mclass(m) != "pi"}):      # partner powers for A^m A^-m = I
        out["val_pow%g" % m] = ev("pow", A, onp.full(n, float(m)))
    for m in ms:
        out["eqv_pow%g" % m] = ev("pow", PA, onp.full(len(PA), float(m))).reshape(n, nperm, 3, 3)
        out["tan_pow%g" % m] = ev("jvp_pow", Arep, Hrep, onp.full(len(Arep), float(m))).reshape(n, nd, 3, 3)
    out["explog"] = ev("exp", out["val_log"])                # library exp of library log
    out["logexp"] = ev("log", out["val_exp"])
    out["expneg"] = ev("exp", -A)
    out["dp"] = ev("dp", A)
    out["inv"] = ev("inv", A)
    # polar decomposition of F = Q U with U = the lattice tensor
    F = onp.empty_like(A)
    qi = onp.arange(n) % len(QROT)
    Al = A.astype(LD)
    for k, (Qn, qd) in enumerate(QROT):
        sel = qi == k
        F[sel] = (onp.einsum("ij,njk->nik", Qn, Al[sel]) / LD(qd)).astype(onp.float64)
    out["F"], out["qi"] = F, qi
    out["polR"], out["polU"] = ev("polar", F)
    return out


# ----------------------------------------------------------------------------- alpha: references and comparison codes
def fapply(name, lam, m=None):
    with onp.errstate(all="ignore"):
        if name == "sqrt":
            return onp.sqrt(lam)
        if name == "exp":
            return onp.exp(onp.minimum(lam, LD(11000)))
        if name == "log":
            return onp.log(lam)
        return onp.power(lam, LD(m))


def fprime(name, lam, m=None):
    with onp.errstate(all="ignore"):
        if name == "sqrt":
            return LD(0.5) / onp.sqrt(lam)
        if name == "exp":
            return onp.exp(onp.minimum(lam, LD(11000)))
        if name == "log":
            return 1 / lam
        return LD(m) * onp.power(lam, LD(m) - 1)


def divdiff(name, a, b, m=None):
    """stable divided difference (f(a)-f(b))/(a-b) in long double; f'(a) where a == b."""
    with onp.errstate(all="ignore"):
        h = a - b
        same = h == 0
        hs = onp.where(same, LD(1), h)
        if name == "sqrt":
            r = 1 / (onp.sqrt(a) + onp.sqrt(b))
        elif name == "exp":
            r = onp.exp(onp.minimum(b, LD(11000))) * onp.expm1(hs) / hs
        elif name == "log":
            r = onp.log1p(hs / b) / hs
        else:
            # a^m - b^m = big^m (1 - (small/big)^m), (small/big)^m - 1 = expm1(m log1p(x)), x = small/big - 1 (exact-ish)
            big = onp.where(onp.abs(a) >= onp.abs(b), a, b)
            sml = onp.where(onp.abs(a) >= onp.abs(b), b, a)
            bigs = onp.where(big == 0, LD(1), big)
            x = (sml - big) / bigs                            # ratio - 1, computed without cancellation error growth
            ratio = sml / bigs
            pos = ratio > 0
            num = onp.where(pos, onp.expm1(LD(m) * onp.log1p(onp.where(pos, x, LD(0)))),
                            onp.power(ratio, LD(m)) - 1)
            r = onp.power(bigs, LD(m) - 1) * num / onp.where(x == 0, LD(1), x)
        return onp.where(same, fprime(name, a, m), r)


def code(err, tol, *finite):
    err, tol = onp.asarray(err, LD), onp.asarray(tol, LD)
    out = onp.where(err <= tol, EQ, GT).astype(onp.int64)
    bad = ~onp.isfinite(err)
    for f in finite:
        bad = bad | ~f
    out[bad] = BAD
    return out


def amax(x):
    x = onp.asarray(x)
    return onp.abs(x).reshape(len(x), -1).max(axis=1)


def fin(*xs):
    ok = None
    for x in xs:
        f = onp.isfinite(onp.asarray(x, onp.float64)).reshape(len(x), -1).all(axis=1)
        ok = f if ok is None else ok & f
    return ok


def mm(*Ms):
    r = Ms[0]
    for M in Ms[1:]:
        r = onp.einsum("nij,njk->nik", r, M)
    return r


def tr(M):
    return onp.swapaxes(M, 1, 2)


def recompose(V, f):
    return onp.einsum("nij,nj,nkj->nik", V, f, V)


def expm_ld(X):
    """long double matrix exponential of a batch (scaling and squaring + Taylor)."""
    X = onp.asarray(X, LD)
    with onp.errstate(all="ignore"):
        nr = onp.abs(X).reshape(len(X), -1).sum(axis=1)
        nr = onp.where(onp.isfinite(nr), nr, LD(1))
        s = onp.maximum(0, onp.ceil(onp.log2(onp.maximum(nr, LD(1e-30))).astype(onp.float64)) + 2).astype(int)
        s = onp.minimum(s, 80)
        Y = X / (LD(2.0) ** s)[:, None, None]
        E = onp.broadcast_to(onp.eye(X.shape[-1], dtype=LD), X.shape).copy()
        T = E.copy()
        for k in range(1, 20):                               # |Y| <= 1/4: 0.25^20 / 20! < 1e-30
            T = mm(T, Y) / LD(k)
            E = E + T
        for it in range(int(s.max()) if len(s) else 0):
            sq = mm(E, E)
            E = onp.where((s > it)[:, None, None], sq, E)
    return E


def alpha(S, O, ms, dirs):
    """per-sample comparison codes for every field."""
    warnings.simplefilter("ignore")
    A = S["A"].astype(LD)
    n = len(A)
    lam, V, nrm = S["lam"], S["V"], S["nrm"]
    I3 = onp.eye(3, dtype=LD)[None]
    C = {}
    with onp.errstate(all="ignore"):
        l, W = O["lam"].astype(LD), O["V"].astype(LD)
        okf = fin(O["lam"], O["V"])
        C["fi"] = onp.where(okf, EQ, BAD)
        C["asc"] = onp.where(~okf, BAD, onp.where((O["lam"][:, 0] <= O["lam"][:, 1]) & (O["lam"][:, 1] <= O["lam"][:, 2]), EQ, GT))
        C["orth"] = code(amax(mm(tr(W), W) - I3), VTOL, okf)
        C["rc"] = code(amax(recompose(W, l) - A), VTOL * nrm + TINY, okf)
        err = amax(l - lam) / (nrm + TINY)
        # integer matrices: the symmetric functions of the computed eigenvalues against the integer invariants
        e1 = l.sum(axis=1)
        e2 = l[:, 0] * l[:, 1] + l[:, 1] * l[:, 2] + l[:, 0] * l[:, 2]
        e3 = l[:, 0] * l[:, 1] * l[:, 2]
        ie = onp.maximum.reduce([onp.abs(e1 - S["inv3"][:, 0]) / (3 * nrm + TINY),
                                 onp.abs(e2 - S["inv3"][:, 1]) / (3 * nrm * nrm + TINY),
                                 onp.abs(e3 - S["inv3"][:, 2]) / (nrm * nrm * nrm + TINY)])
        err = onp.where(S["isint"], onp.maximum(err, ie), err)
        C["ev"] = code(err, VTOL, okf)
        # detpIm1 against e1 + e2 + e3 of the exact spectrum
        r1 = lam.sum(axis=1)
        r2 = lam[:, 0] * lam[:, 1] + lam[:, 1] * lam[:, 2] + lam[:, 0] * lam[:, 2]
        r3 = lam[:, 0] * lam[:, 1] * lam[:, 2]
        dref = onp.where(S["isint"] & (S["var"] == 0), S["inv3"].sum(axis=1), r1 + r2 + r3)
        C["dp"] = code(onp.abs(O["dp"].astype(LD) - dref), VTOL * (nrm + nrm ** 2 + nrm ** 3) + TINY, fin(O["dp"]))
        # inverse: A^-1 A = I and against V diag(1/lam) V^T
        Xi = O["inv"].astype(LD)
        iref = recompose(V, 1 / lam)
        cond = nrm / onp.abs(lam).min(axis=1)
        C["iv"] = code(onp.maximum(amax(mm(Xi, A) - I3) / cond, amax(Xi - iref) / (amax(iref) * cond)), VTOL, fin(O["inv"]))
        # polar: R U = F, R^T R = I, U = the lattice tensor, R = Q
        Rp, Up = O["polR"].astype(LD), O["polU"].astype(LD)
        Fl = O["F"].astype(LD)
        Qref = onp.stack([QROT[k][0] / LD(QROT[k][1]) for k in O["qi"]])
        perr = onp.maximum.reduce([amax(mm(Rp, Up) - Fl) / (nrm + TINY), amax(mm(tr(Rp), Rp) - I3) / cond,
                                   amax(Up - A) / (nrm + TINY), amax(Up - tr(Up)) / (nrm + TINY), amax(Rp - Qref) / cond])
        C["po"] = code(perr, VTOL, fin(O["polR"], O["polU"]))

        H = DIRS[dirs].astype(LD)                                # (n, nd, 3, 3)
        hn = onp.abs(DIRS[dirs]).reshape(n, dirs.shape[1], -1).max(axis=2)
        Vf = V.astype(onp.float64)

        def fn_codes(name, m, key):
            # the reference spectrum of a singular positive semi-definite tensor (80-bit Jacobi) can carry a zero as -O(eps)
            fl = fapply(name, onp.maximum(lam, 0) if name == "sqrt" else lam, m)
            fs = onp.abs(fl).max(axis=1)
            if name == "log":
                fs = onp.maximum(fs, LD(1))
            X = O["val_" + key].astype(LD)
            okx = fin(O["val_" + key])
            fv = code(amax(X - recompose(V, fl)), VTOL * fs, okx)
            P = PERMS[:O["eqv_" + key].shape[1]].astype(LD)
            PX = onp.einsum("pij,njk,plk->npil", P, X, P)
            # sqrt is not Lipschitz at 0: a zero eigenvalue computed as O(eps |A|) has a square root of O(sqrt(eps |A|)), in
            # any arithmetic; two evaluations of a singular tensor can differ by that much
            sing = (onp.sqrt(LD(1e-12) * nrm) * (onp.abs(lam).min(axis=1) <= LD(1e-9) * nrm)) if name == "sqrt" else 0
            eq = code(onp.abs(O["eqv_" + key].astype(LD) - PX).reshape(n, -1).max(axis=1), VTOL * fs + sing, okx,
                      fin(O["eqv_" + key]))
            # Daleckii-Krein: Df(A)[H] = V (Fdd o (V^T H V)) V^T
            Fdd = divdiff(name, lam[:, :, None], lam[:, None, :], m)
            fds = onp.abs(Fdd).reshape(n, -1).max(axis=1)
            Wh = onp.einsum("nji,ndjk,nkl->ndil", Vf, DIRS[dirs], Vf)
            Dref = onp.einsum("nij,ndjk,nlk->ndil", Vf, Fdd[:, None].astype(onp.float64) * Wh, Vf)
            terr = onp.abs(O["tan_" + key] - Dref).reshape(n, dirs.shape[1], -1).max(axis=2)
            fr = code((terr / hn).max(axis=1), DTOL * fds, fin(O["tan_" + key]))
            return X, fs, okx, fv, eq, fr

        X, fs, okx, C["s_fv"], C["s_eq"], C["s_fr"] = fn_codes("sqrt", None, "sqrt")
        C["s_id"] = code(amax(mm(X, X) - A), VTOL * nrm + TINY, okx)
        X, fs, okx, C["e_fv"], C["e_eq"], C["e_fr"] = fn_codes("exp", None, "exp")
        Xn = O["expneg"].astype(LD)
        kap = onp.exp(onp.minimum(lam.max(axis=1) - lam.min(axis=1), LD(100)))
        C["e_id"] = code(onp.maximum(amax(mm(X, Xn) - I3) / kap, amax(O["logexp"].astype(LD) - A) / kap),
                         VTOL, okx, fin(O["expneg"], O["logexp"]))
        X, fs, okx, C["l_fv"], C["l_eq"], C["l_fr"] = fn_codes("log", None, "log")
        EX = onp.full(X.shape, onp.nan, LD)
        if okx.any():
            EX[okx] = expm_ld(X[okx])                            # 80-bit exponential of the library's logarithm
        C["l_id"] = code(onp.maximum(amax(EX - A), amax(O["explog"].astype(LD) - A)), VTOL * nrm + TINY, okx,
                         fin(O["explog"]))
        for cl in ("pi", "pn", "pf"):
            for f in ("fv", "id", "eq", "fr"):
                C["%s_%s" % (cl, f)] = onp.zeros(n, onp.int64)
        C["pow_by_m"] = {}
        for m in ms:
            cl = mclass(m)
            X, fs, okx, fv, eq, fr = fn_codes("pow", m, "pow%g" % m)
            if cl == "pi":                                       # integer power against the exact matrix product
                Pm = A
                for _ in range(int(m) - 1):
                    Pm = mm(Pm, A)
                fv = onp.maximum(fv, code(amax(X - Pm), VTOL * fs, okx))
                idc = onp.zeros(n, onp.int64)
            else:                                                # A^m A^-m = I (allowance scaled by cond^|m|)
                Y = O["val_pow%g" % -m].astype(LD)
                idc = code(amax(mm(X, Y) - I3) / cond ** abs(m), VTOL, okx, fin(O["val_pow%g" % -m]))
                if m == 0.5:
                    idc = onp.maximum(idc, code(amax(mm(X, X) - A), VTOL * nrm + TINY, okx))
            C["pow_by_m"][m] = dict(fv=fv, id=idc, eq=eq, fr=fr)
            for f, c in (("fv", fv), ("id", idc), ("eq", eq), ("fr", fr)):
                C["%s_%s" % (cl, f)] = C["%s_%s" % (cl, f)] | c
    return C


# ----------------------------------------------------------------------------- grouping into events
def to_events(pts, S, C):
    """one event per (lattice point, exact, small, mild): OR of the codes over scales and neighbours."""
    key = ((S["pid"] * 2 + S["exact"]) * 2 + S["small"]) * 2 + S["mild"]
    evs = []
    for k in onp.unique(key):
        sel = key == k
        ip = int(k) >> 3
        e = dict(point_id(pts[ip]))
        e.update(exact=bool(k & 4), small=bool(k & 2), mild=bool(k & 1), n=int(sel.sum()))
        for f in FIELDS:
            e[f] = int(onp.bitwise_or.reduce(C[f][sel]))
        evs.append(e)
    return evs


def applicability(pts, S):
    """Mirror of the trace spec's applicability rules, used ONLY to count how often each clause was really evaluated
    (vacuity control); the verdict is TLC's."""
    def flag(fn):
        return onp.array([fn(pts[i]) for i in S["pid"]], bool)
    pd = flag(lambda o: o["d"][0] >= 1 if o["kind"] == "rot" else o["def"] == "pd")
    psd = flag(lambda o: o["d"][0] >= 0 if o["kind"] == "rot" else o["def"] in ("pd", "psd", "zero"))
    ns = flag(lambda o: all(x != 0 for x in o["d"]) if o["kind"] == "rot" else o["i3"] != 0)
    g0 = flag(lambda o: o["g"] == 0)
    dist = flag(lambda o: o["mult"] == "distinct")
    ex, small, mild = S["exact"], S["small"], S["mild"]
    allp = onp.ones(len(ex), bool)
    sq = pd | (psd & ex)
    pfa = g0 & (dist | ex)
    out = {}
    for clause, fields in CLAUSE_FIELDS.items():
        fn, what = (clause.split("_") + [""])[:2]
        for f in fields:
            if fn == "eig" or clause == "detpIm1":
                a = allp
            elif clause == "inverse":
                a = ns
            elif clause == "polar":
                a = pd
            elif fn == "sqrt":
                a = sq if what in ("identity", "equivariant") else pd
            elif fn == "exp":
                a = mild if what == "identity" else small
            elif fn == "log":
                a = pd
            else:
                a = {"pi": allp, "pn": ns, "pf": pd}[f.split("_")[0]]
                if what == "frechet":
                    a = a & pfa
            out[(clause, f)] = a
    return out


def features(o):
    return dict(kind=o["kind"], rot=o["rot"], mult=o["mult"], mid_dev_eig_zero=bool(o["mid0"]), block=bool(o["block"]),
                gap=o["g"], definiteness=o["def"], near_equal=(o["mult"] != "distinct"),
                rank_deficient=(o["i3"] == 0 if o["kind"] == "int" else 0 in o["d"]))


def run_unit(unit, evs):
    ev = evs[unit["mode"]]
    pts = unit["pts"]
    S = build_samples(pts, unit["scales"], unit["nb_scales"], unit["seed"])
    n = len(S["A"])
    if unit["mode"] == "vmapBatch":
        dirs = onp.broadcast_to(onp.arange(len(DIRS))[None, :], (n, len(DIRS))).copy()
        nperm = 2
    else:
        rs = onp.random.RandomState(zlib.crc32(("%d|dirs" % unit["seed"]).encode()) & 0x7FFFFFFF)
        dirs = onp.stack([onp.full(n, len(DIRS) - 1), rs.randint(0, 6, size=n)], axis=1)
        nperm = 1
    O = observe(S, ev, unit["ms"], dirs, nperm)
    C = alpha(S, O, unit["ms"], dirs)
    return S, O, C, dirs


def find_witness(unit, evs, clause, e):
    """first offending sample of the group (concrete input and output) for a failing clause."""
    S, O, C, dirs = run_unit(unit, evs)
    grp = (S["exact"] == e["exact"]) & (S["small"] == e["small"]) & (S["mild"] == e["mild"])
    for f in CLAUSE_FIELDS.get(clause, []):
        idx = onp.nonzero(grp & (C[f] != EQ) & (C[f] != 0))[0]
        if not len(idx):
            continue
        i = int(idx[0])
        w = dict(field=f, code=int(C[f][i]), scale=list(unit["scales"][S["sci"][i]]), ulp_neighbour=bool(S["var"][i]),
                 A=S["A"][i].tolist(), offending_samples_in_group=int(len(idx)),
                 eig_values=O["lam"][i].tolist(), eig_vectors=O["V"][i].tolist(),
                 exact_spectrum=[float(x) for x in S["lam"][i]])
        fnk = {"s": "sqrt", "e": "exp", "l": "log"}.get(f.split("_")[0])
        if fnk:
            w["fn_out"] = O["val_" + fnk][i].tolist()
            if f.endswith("_fr"):
                w["jvp_out"] = O["tan_" + fnk][i].tolist()
                w["directions"] = DIRS[dirs[i]].tolist()
        if f.split("_")[0] in ("pi", "pn", "pf"):
            for m, cm in C["pow_by_m"].items():
                if mclass(m) == f.split("_")[0] and cm[f.split("_")[1]][i] not in (EQ, 0):
                    w["m"] = m
                    w["fn_out"] = O["val_pow%g" % m][i].tolist()
                    if f.endswith("_fr"):
                        w["jvp_out"] = O["tan_pow%g" % m][i].tolist()
                        w["directions"] = DIRS[dirs[i]].tolist()
                    break
        if f == "dp":
            w["detpIm1"] = float(O["dp"][i])
        if f == "iv":
            w["inv"] = O["inv"][i].tolist()
        if f == "po":
            w["F"], w["R"], w["U"] = O["F"][i].tolist(), O["polR"][i].tolist(), O["polU"][i].tolist()
        return w
    return None


# ----------------------------------------------------------------------------- dense sqrtm / logm_iss
class DenseEvaluator:
    def __init__(self):
        import optimism.JaxConfig  # noqa: F401
        import jax
        from optimism import LinAlg
        self.jax = jax
        self.f = {("sqrtm", "single"): jax.jit(LinAlg.sqrtm), ("logm", "single"): jax.jit(LinAlg.logm_iss),
                  ("sqrtm", "vmapBatch"): jax.jit(jax.vmap(LinAlg.sqrtm)),
                  ("logm", "vmapBatch"): jax.jit(jax.vmap(LinAlg.logm_iss)),
                  ("expm", "single"): jax.jit(jax.scipy.linalg.expm)}
        self.calls = 0

    def __call__(self, name, mode, Ms):
        self.calls += len(Ms)
        if mode == "vmapBatch":
            return onp.asarray(self.f[(name, mode)](onp.asarray(Ms)))
        return onp.array([onp.asarray(self.f[(name, mode)](M)) for M in Ms])


def dense_matrices(o, jscales):
    """exact M = S D S^-1 (Python ints) times 2^j; reference pieces in long double."""
    S, Si, D = o["S"], o["Sinv"], o["D"]
    n = o["n"]
    M = [[sum(S[i][k] * D[k] * Si[k][j] for k in range(n)) for j in range(n)] for i in range(n)]
    assert M == o["M"], "harness construction of M differs from the spec's"
    Ms = onp.array([[[math.ldexp(float(M[i][j]), j2) for j in range(n)] for i in range(n)] for j2 in jscales])
    return Ms


def dense_observe(o, jscales, mode, dev):
    n = o["n"]
    Ms = dense_matrices(o, jscales)
    Sl, Sil = onp.array(o["S"], LD), onp.array(o["Sinv"], LD)
    condS = float(onp.linalg.cond(onp.array(o["S"], float)))
    out = []
    X = dev("sqrtm", mode, Ms)
    L = dev("logm", mode, Ms)
    with onp.errstate(all="ignore"):
        E = expm_ld(onp.where(onp.isfinite(L), L, 0.0))          # judged with the 80-bit exponential (jax.scipy.linalg.expm
    Ej = dev("expm", "single", L)                                # loses 1e-7 at |log M| ~ 20; kept as a drift code only)
    for q, j2 in enumerate(jscales):
        Ml = Ms[q].astype(LD)
        lamj = onp.array(o["D"], LD) * LD(2.0) ** j2
        nM = onp.abs(Ml).max()
        with onp.errstate(all="ignore"):
            Xr = (Sl * onp.sqrt(lamj)[None, :]) @ Sil
            Lr = (Sl * onp.log(lamj)[None, :]) @ Sil
            Xl, Ll = X[q].astype(LD), L[q].astype(LD)
            okX, okL = bool(onp.isfinite(X[q]).all()), bool(onp.isfinite(L[q]).all())
            c = dict(j=j2,
                     sq_id=int(code(onp.abs(Xl @ Xl - Ml).max() / nM, VTOL * condS, onp.array(okX))),
                     sq_fv=int(code(onp.abs(Xl - Xr).max() / onp.abs(Xr).max(), VTOL * condS, onp.array(okX))),
                     lg_id=int(code(onp.abs(E[q] - Ml).max() / nM, VTOL * condS * max(onp.abs(Lr).max(), LD(1)), onp.array(okL))),
                     lg_fv=int(code(onp.abs(Ll - Lr).max() / max(onp.abs(Lr).max(), LD(1)), VTOL * condS, onp.array(okL))),
                     lg_jx=int(code(onp.abs(Ej[q].astype(LD) - Ml).max() / nM, 1e-6 * condS, onp.array(okL))))
        out.append(c)
    return out, condS, dict(M=Ms.tolist(), sqrtm=X.tolist(), logm=L.tolist())


# ----------------------------------------------------------------------------- work list
def stratified(pts, per, rng):
    groups = {}
    for o in pts:
        key = (o["kind"], o["rot"], o["mult"], o["mid0"]) if o["kind"] == "rot" else \
              (o["kind"], o["mult"], o["mid0"], o["block"], o["def"] in ("pd", "psd"))
        groups.setdefault(key, []).append(o)
    out = []
    for k in sorted(groups, key=str):
        g = sorted(groups[k], key=point_key)
        rng.shuffle(g)
        out += g[:per[0] if k[0] == "rot" else per[1]]
    return out


def build_units(obs, tier, rng, seed):
    seen, pts = set(), []
    for o in obs:
        k = point_key(o)
        if k not in seen:
            seen.add(k)
            pts.append(o)
    pts.sort(key=point_key)
    scales = [["dec", k] for k in DECADES[tier]] + [["bin", j] for j in BINS[tier]]
    nb = [["dec", 0], ["bin", 0], ["dec", -6]] if tier == "quick" else scales
    units = []
    sub = stratified(pts, PER_GROUP[tier], rng)
    sscales = [["dec", k] for k in SINGLE_DEC[tier]] + [["bin", j] for j in SINGLE_BIN[tier]]
    for i in range(0, len(sub), 100):                     # single-call units first: their failures get replay files first
        units.append(dict(mode="single", pts=sub[i:i + 100], scales=sscales, nb_scales=[["dec", 0]], ms=POW_M[tier], seed=seed))
    per = 600 if tier == "quick" else 400
    # thorough: the 15 625 full integer matrices get a subset of the scale factors, the rotated points all 41 decades
    iscales = scales if tier == "quick" else [["dec", k] for k in (-20, -13, -6, -1, 0, 1, 6, 13, 20)] + [["bin", 0], ["bin", -40]]
    inb = nb if tier == "quick" else [["dec", 0], ["bin", 0]]
    rnb = nb if tier == "quick" else [["dec", k] for k in (-20, -10, -3, 0, 1, 3, 10, 20)] + [["bin", 0], ["bin", -40]]
    for kind, sc_, nb_ in (("rot", scales, rnb), ("int", iscales, inb)):
        kp = [o for o in pts if o["kind"] == kind]
        for i in range(0, len(kp), per):
            units.append(dict(mode="vmapBatch", pts=kp[i:i + per], scales=sc_, nb_scales=nb_, ms=POW_M[tier], seed=seed))
    return units, len(pts)


DENSE_J = {"quick": [-10, 0, 10], "thorough": [-30, -10, -1, 0, 1, 10, 30]}


# ----------------------------------------------------------------------------- main
def main(tier, replay=None):
    common.setup_paths()
    rep = common.Reporter(PID, tier)
    rep.assumptions = [
        "alpha: comparison codes (2 within allowance / 4 outside / 7 not finite) computed in 80-bit long double from the "
        "float64 results of the real routines; inputs are the exact rational lattice tensors times the scale factor, "
        "correctly rounded to float64 (Python integer division), plus seeded +-1 ulp symmetric neighbours",
        "values / identities / reconstruction / orthonormality / equivariance: 1e-9 relative to the natural scale "
        "(|A|_2 for reconstruction, eigenvalues, sqrt(A)^2 = A, exp(log A) = A; max |f(lambda)| for f(A), for log at least 1; "
        "1 for V^T V = I); integer matrices: e1, e2, e3 of the computed eigenvalues against the integer invariants "
        "i1 s, i2 s^2, i3 s^3 relative to 3|A|, 3|A|^2, |A|^3",
        "derivative rules: jax.jvp against the Daleckii-Krein formula with the spec's R and d (integer matrices: long "
        "double Jacobi decomposition of the float tensor) and stable long double divided differences, 1e-6 relative to "
        "max |divided difference| * max |H|; directions: the six symmetric basis tensors and one dense symmetric tensor",
        "exp clauses only where max |eigenvalue| * scale <= 50 (no overflow); exp(A) exp(-A) = I and log(exp A) = A only "
        "where it is <= 4, allowance scaled by exp(spread of the spectrum); inverse, polar and A^m A^-m = I allowances "
        "scaled by cond(A)^(1 or |m|), cond(A) = max|eigenvalue| / min|eigenvalue| of the lattice tensor",
        "sqrt on singular positive semi-definite tensors is judged only for inputs that are EXACTLY representable "
        "(identity and equivariance; no value clause: sqrt is not Lipschitz at 0); log and fractional powers: positive definite",
        "pow_symm derivative judged only where its docstring claims accuracy: exactly representable input with exactly "
        "repeated eigenvalues, or well separated (distinct integer / distinct integer-matrix) eigenvalues",
        "dense sqrtm / logm_iss: M = S D S^-1 2^j with S a product of integer shears (exact integer inverse), allowance "
        "1e-9 * cond_2(S) relative (cond <= 107 on the lattice); exp(logm M) = M is judged with an 80-bit scaling-and-squaring "
        "exponential, allowance 1e-9 * cond(S) * max(1, |log M|) (a relative error of log M is an absolute error of its exponent); jax.scipy.linalg.expm(logm M) = M is only a drift code (allowance 1e-6 cond(S): jax's expm itself "
        "loses 3.5e-7 at |log M| ~ 21)",
    ]
    seed = common.seed()
    rng = random.Random(seed)

    class EvMap(dict):
        def __missing__(self, k):
            self[k] = Evaluator(k)
            return self[k]
    evs = EvMap()
    dev = []

    def dense_ev():
        if not dev:
            dev.append(DenseEvaluator())
        return dev[0]

    case = None
    if replay:
        stored = json.load(open(replay))
        case, stored_clause = stored["case"], stored.get("clause")
        tier_of_case = case.get("tier", tier)
    else:
        tier_of_case = tier

    traces, cases = [], {}
    dtraces, dcases = [], {}
    npts = 0
    if replay and case.get("part") == "dense":
        dunits = [case["unit"]]
        units = []
    elif replay:
        units = [case["unit"]]
        dunits = []
    else:
        gen = tlc.run("SymTensorGen.tla", "SymTensorGen_%s.cfg" % tier, workers=1, label="design+oracle-" + tier, timeout=1800)
        if not tlc.require_ok(gen, rep, "design"):
            return rep.finish(rule="design run failed")
        rep.add_tlc(gen)
        for a in ("PickRot", "PickInt", "PickBlock"):
            if gen.action_counts.get(a, 0) == 0:
                rep.machinery("design spec action %s was never taken" % a)
        obs = gen.payloads("OBS")
        units, npts = build_units(obs, tier, rng, seed)
        rep.coverage["lattice_points_emitted_by_tlc"] = npts
        rep.coverage["lattice_points_mid_dev_eig_zero"] = len({point_key(o) for o in obs if o["mid0"]})
        dgen = tlc.run("DenseMatFnGen.tla", "DenseMatFnGen_%s.cfg" % tier, workers=1, label="dense-design+oracle-" + tier, timeout=1800)
        if not tlc.require_ok(dgen, rep, "dense design"):
            return rep.finish(rule="design run failed")
        rep.add_tlc(dgen)
        dobs = dgen.payloads("OBS")
        rep.coverage["dense_points_emitted_by_tlc"] = len(dobs)
        dunits = [dict(o=o, mode=mode, jscales=DENSE_J[tier]) for o in dobs for mode in ("single", "vmapBatch")]

    # ---- dense part
    did = 0
    for du in dunits:
        codes, condS, raw = dense_observe(du["o"], du["jscales"], du["mode"], dense_ev())
        did += 1
        o = du["o"]
        dtraces.append(dict(id=did, mode=du["mode"], n=o["n"], spec=o["spec"], shear=o["shear"], ev=codes))
        dcases[did] = (du, condS, raw)
        for c in ("sqrtm_identity", "sqrtm_value", "logm_identity", "logm_value"):
            rep.count_clause(c, len(codes))
        if condS > 2e3:
            rep.machinery("dense lattice point with cond(S) = %g > 2e3" % condS)

    dby = {}

    def on_dfail(tid_, l, clause):
        if replay and clause != stored_clause:
            return
        du, condS, raw = dcases[tid_]
        o = du["o"]
        dk = "%s/%s/n=%d" % (clause, du["mode"], o["n"])
        dby[dk] = dby.get(dk, 0) + 1
        if dby[dk] > 1 and not replay:
            return
        cd = dict(part="dense", tier=tier_of_case, mode=du["mode"], fn=clause.split("_")[0], n=o["n"], spectrum=o["spec"],
                  shear=o["shear"], unit=dict(du, jscales=[du["jscales"][l - 1]]), condS=condS)
        rep.fail(clause, cd, dict(j=du["jscales"][l - 1], M=raw["M"][l - 1], sqrtm=raw["sqrtm"][l - 1], logm=raw["logm"][l - 1]))

    if dtraces:
        trace.validate("DenseMatFnTrace.tla", "DenseMatFnTrace.cfg", dtraces, rep, on_fail=on_dfail, chunk=2000)
        rep.coverage["dense_real_function_calls"] = dense_ev().calls
        if dby:
            rep.coverage["dense_failures_by_clause_mode_size"] = dict(sorted(dby.items()))

    # ---- symmetric 3x3 part
    nsamples = 0
    tid = 0
    for unit in units:
        S, O, C, dirs = run_unit(unit, evs)
        events = to_events(unit["pts"], S, C)
        if replay:
            events = [e for e in events if all(e[k] == case["event_key"][k] for k in ("exact", "small", "mild"))]
        nsamples += len(S["A"])
        app = applicability(unit["pts"], S)
        for clause, fields in CLAUSE_FIELDS.items():
            nn = sum(int(((C[f] != 0) & app[(clause, f)]).sum()) for f in fields)
            rep.count_clause(clause, nn)
        k = "samples_" + unit["mode"]
        rep.coverage[k] = rep.coverage.get(k, 0) + len(S["A"])
        tid += 1
        traces.append(dict(id=tid, mode=unit["mode"], ev=events))
        cases[tid] = unit
        if events:
            rep.sample(dict(mode=unit["mode"], event=events[len(events) // 2]))
    rep.coverage["tensor_samples_evaluated"] = nsamples
    rep.coverage["events"] = sum(len(t["ev"]) for t in traces)
    rep.coverage["real_function_calls"] = {m: e.calls for m, e in evs.items()}

    byp = {}

    def on_fail(tid_, l, clause):
        if replay and clause != stored_clause:            # a replay reports the stored clause of the stored case
            return
        unit = cases[tid_]
        e = traces[tid_ - 1]["ev"][l - 1]
        o = [p for p in unit["pts"] if point_id(p) == {k: e[k] for k in ("kind", "d", "rot", "g", "sp", "a")}][0]
        ft = features(o)
        sig = (clause, unit["mode"], ft["mult"], "rank_deficient" if ft["rank_deficient"] else "full_rank",
               "exact_input" if e["exact"] else "rounded_input")
        byp[sig] = byp.get(sig, 0) + 1
        if byp[sig] > 1 and not replay:                   # every failure is counted; one replayable witness per signature
            return
        one = dict(unit, pts=[o])
        w = find_witness(one, evs, clause, e)
        cd = dict(part="sym", tier=tier_of_case, mode=unit["mode"], fn=clause.split("_")[0], unit=one,
                  event_key=dict(exact=e["exact"], small=e["small"], mild=e["mild"]), exact_input=e["exact"])
        cd.update(ft)
        if w:
            cd["decade"] = w["scale"]
        rep.fail(clause, cd, w)

    if traces:
        trace.validate("SymTensorTrace.tla", "SymTensorTrace.cfg", traces, rep, on_fail=on_fail, chunk=8)
    if byp:
        rep.coverage["failures_by_clause_mode_mult_rank_exactness"] = {"/".join(map(str, k)): v for k, v in sorted(byp.items(), key=str)}

    if not replay:
        for c in CLAUSE_FIELDS:
            if rep.coverage["clauses_evaluated"].get(c, 0) < 500:
                rep.machinery("clause %s evaluated only %d times" % (c, rep.coverage["clauses_evaluated"].get(c, 0)))
    return rep.finish(
        rule="every lattice point of SymTensor.tla (TLC-emitted with exact oracle) x scale factors (decades and binary) "
             "x {exact, +-1 ulp neighbour} evaluated on the real routines inside jit(vmap); a stratified seeded subset "
             "as single jitted calls; every dense lattice point of DenseMatFn.tla in both modes; distinct = lattice points",
        extra={"distinct_nontrivial": int(npts + rep.coverage.get("dense_points_emitted_by_tlc", 0)) or 1},
        exhaustive=True)


if __name__ == "__main__":
    sys.exit(main(common.tier()))
