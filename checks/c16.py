"""C16 - Contact geometry: closest points, signed gaps and mortar integrals are exact.

ContactGeom.tla is an exact integer model on the lattice: closest-point projection with clamped rational
parameter, signed squared distance, mutual-projection overlap of segment pairs with the exact mortar
integrals of parallel pairs, nodal areas of two opposed chains, penalty energy sign logic, level-set values
at deformed mid points, and the rigid motions Rot / Trans (+ orientation-preserving Mirror) as actions.
TLC checks the design exhaustively, then emits (i) the table of all lattice queries and (ii) behaviours with
moves.  Every query is concretised (scale 10^k, Pythagorean / random rotation, real translation) and
evaluated by the REAL optimism functions; the observation is abstracted to integers (value snapped to the
rational grid the query lives on + "on grid within the rounding allowance" flag), signs and comparison
codes, and ContactGeomTrace.tla - which recomputes every expectation from the integers - judges the clauses.
"""
import json
import math
import random
import sys
from functools import partial

import numpy as onp

from harness import common, tlc, trace

PID = "C16"
RT = 1e-12          # rounding allowance (relative to the coordinate magnitude E) for cpp / level-set values
RTM = 1e-11         # rounding allowance for mortar integrals (2x2 linear solves, sums of products)
PYTH = {"p345": (3.0, 4.0, 5.0), "p51213": (5.0, 12.0, 13.0), "p81517": (8.0, 15.0, 17.0)}
SMOOTH = [1e-7, 1e-9, 1e-5]      # relativeSmoothingSize values used for integrate_with_mortar (default 1e-7)
ASSEMBLY_SMOOTH = 1e-9           # hard-coded in MortarContact.assembly_mortar_integral
BIG = 10 ** 8
CONTRACT = {"cpp": ["cpp_nearest", "dist_magnitude", "dist_sign"],
            "pair": ["mortar_invariant", "mortar_nonneg", "mortar_disjoint_zero", "mortar_length", "mortar_gap_area"],
            "chain": ["nodal_area_sum", "nodal_gap_sum", "nodal_nonneg"],
            "pen": ["levelset_value", "penalty_nonneg", "penalty_zero_iff"],
            "ls": ["levelset_value", "penalty_nonneg", "penalty_zero_iff"]}
ACTIONS = ["Rot", "Trans", "Mirror", "Refine", "Slide", "SetSample", "Displace"]


# ----------------------------------------------------------------------------- small helpers
def clipint(x):
    if not math.isfinite(x):
        return 0
    return int(max(-BIG, min(BIG, round(x))))


def snap(value, unit, allow):
    """alpha: value ~ n * unit with n integer -> (n, on_grid_within_allowance)."""
    if not math.isfinite(value):
        return 0, False
    n = clipint(value / unit)
    return n, bool(abs(value - n * unit) <= allow)


def sign_code(v, allow):
    if not math.isfinite(v):
        return "NAN"
    return "Z" if abs(v) <= allow else ("P" if v > 0 else "N")


def rotmat(conc):
    c, s = conc["c"], conc["s"]
    return onp.array([[c, -s], [s, c]])


def to_real(pts, conc):
    """x_real = 10^k R (x + tau)"""
    x = onp.asarray(pts, dtype=float) + onp.asarray(conc["tau"], dtype=float)
    return (10.0 ** conc["k"]) * (x @ rotmat(conc).T)


def pull_back(x, conc):
    return (onp.asarray(x, dtype=float) / (10.0 ** conc["k"])) @ rotmat(conc) - onp.asarray(conc["tau"], dtype=float)


def extent(pts, conc):
    x = onp.asarray(pts, dtype=float) + onp.asarray(conc["tau"], dtype=float)
    return float(max(1.0, onp.abs(x).max()))


def make_conc(kind, k, rng):
    if kind == "id":
        return dict(rot="id", c=1.0, s=0.0, tau=[0.0, 0.0], k=k)
    if kind in PYTH:
        a, b, h = PYTH[kind]
        c, s = a / h, b / h
        if rng.random() < 0.5:
            c, s = s, c
        if rng.random() < 0.5:
            s = -s
        if rng.random() < 0.5:
            c = -c
        tau = [float(rng.randrange(-3, 4)), float(rng.randrange(-3, 4))]
        return dict(rot=kind, c=c, s=s, tau=tau, k=k)
    th = rng.uniform(0.0, 2.0 * math.pi)
    return dict(rot="rnd", c=math.cos(th), s=math.sin(th), tau=[rng.uniform(-3, 3), rng.uniform(-3, 3)], k=k)


# ----------------------------------------------------------------------------- real-code drivers (batched)
_FN = {}


def lib():
    if "lib" not in _FN:
        import jax
        import jax.numpy as jnp
        from optimism.contact import EdgeCpp, MortarContact, PenaltyContact, LevelsetConstraint, Levelset, Contact
        from optimism import QuadratureRule, Mesh, Surface
        _FN["lib"] = dict(jax=jax, jnp=jnp, EdgeCpp=EdgeCpp, MC=MortarContact, Pen=PenaltyContact,
                          LC=LevelsetConstraint, LS=Levelset, Q=QuadratureRule, Mesh=Mesh, Surface=Surface,
                          Contact=Contact)
    return _FN["lib"]


def _pad(n):
    m = 64
    while m < n:
        m *= 2
    return m


def _batched(fn, arrays):
    """call a jitted vmapped fn on arrays padded (by repeating row 0) to a power-of-two batch."""
    n = arrays[0].shape[0]
    m = _pad(n)
    padded = []
    for a in arrays:
        if m > n:
            a = onp.concatenate([a, onp.repeat(a[:1], m - n, axis=0)], axis=0)
        padded.append(a)
    out = fn(*padded)
    if isinstance(out, (tuple, list)):
        return [onp.asarray(o)[:n] for o in out]
    return onp.asarray(out)[:n]


def cpp_fn():
    if "cpp" not in _FN:
        L = lib()
        jax, E = L["jax"], L["EdgeCpp"]

        def one(edge, p):
            q, t = E.cpp(edge, p)
            d = E.cpp_distance(edge, p)
            return q, t, d
        _FN["cpp"] = jax.jit(jax.vmap(one))
    return _FN["cpp"]


def multi_fn():
    if "multi" not in _FN:
        L = lib()
        jax = L["jax"]
        _FN["multi"] = jax.jit(jax.vmap(L["Contact"].get_closest_distance))
    return _FN["multi"]


def pair_fn(nm):
    key = "pair_" + nm
    if key not in _FN:
        L = lib()
        jax, jnp, MC = L["jax"], L["jnp"], L["MC"]
        nf = MC.compute_normal_from_a if nm == "fromA" else MC.compute_average_normal
        fs = [lambda xa, xb, g: 1.0, lambda xa, xb, g: g, lambda xa, xb, g: xa, lambda xa, xb, g: xb,
              lambda xa, xb, g: g * g, lambda xa, xb, g: xa * xb]

        def one(A, B, l):
            return jnp.array([MC.integrate_with_mortar(A, B, nf, f, l) for f in fs])

        def default(A, B):          # default relativeSmoothingSize of the library (1e-7)
            return jnp.array([MC.integrate_with_mortar(A, B, nf, f) for f in fs])
        _FN[key] = jax.jit(jax.vmap(one))
        _FN[key + "_default"] = jax.jit(jax.vmap(default))
    return _FN[key], _FN[key + "_default"]


def chain_fn():
    if "chain" not in _FN:
        L = lib()
        jax, MC = L["jax"], L["MC"]

        def one(coords, disp, connsA, connsB, neigh):
            a = MC.assemble_nodal_areas(coords, disp, connsA, connsB, neigh, MC.compute_average_normal)
            g = MC.assemble_area_weighted_gaps(coords, disp, connsA, connsB, neigh, MC.compute_average_normal)
            return a, g
        _FN["chain"] = jax.jit(jax.vmap(one))
    return _FN["chain"]


_MESH = {}


def get_mesh(nx, ny):
    """structured patch on the integer lattice (0..nx-1) x (0..ny-1) with its counter-clockwise boundary edges."""
    if (nx, ny) not in _MESH:
        L = lib()
        Mesh, Surface = L["Mesh"], L["Surface"]
        coords, conns = Mesh.create_structured_mesh_data(nx, ny, [0.0, float(nx - 1)], [0.0, float(ny - 1)])
        c = onp.asarray(coords)

        def on_boundary(xy):
            xy = onp.asarray(xy)
            return bool(onp.all(xy[:, 0] < 1e-8) or onp.all(xy[:, 1] < 1e-8) or
                        onp.all(xy[:, 0] > nx - 1 - 1e-8) or onp.all(xy[:, 1] > ny - 1 - 1e-8))
        edges = onp.asarray(Surface.create_edges(coords, conns, on_boundary))
        mesh = Mesh.construct_mesh_from_basic_data(coords, conns, {"block": onp.arange(conns.shape[0])}, None,
                                                   {"all_boundary": edges})
        cn = onp.asarray(conns)
        nodes = onp.array([[cn[e, n], cn[e, (n + 1) % 3]] for e, n in edges])
        _MESH[(nx, ny)] = dict(mesh=mesh, edges=edges, nodes=nodes, coords=onp.rint(c).astype(int))
    return _MESH[(nx, ny)]


def ls_fn(otype, degree, nx, ny):
    key = "ls_%s_%d_%d_%d" % (otype, degree, nx, ny)
    if key not in _FN:
        L = lib()
        jax, LS, LC, Pen, Q = L["jax"], L["LS"], L["LC"], L["Pen"], L["Q"]
        mesh = get_mesh(nx, ny)["mesh"]
        quad = Q.create_quadrature_rule_1D(degree)

        def one(coords, disp, prm, stiff, edges):
            m = mesh._replace(coords=coords)
            if otype == "plane":
                f = partial(LS.plane, yLoc=prm[1])
            elif otype == "corner":
                f = partial(LS.corner, xLoc=prm[0], yLoc=prm[1])
            else:
                f = partial(LS.sphere, xLoc=prm[0], yLoc=prm[1], R=prm[2])
            c1 = LC.compute_levelset_constraints(f, disp, m, quad, edges)
            c2 = Pen.evaluate_contact_constraints(f, disp, m, quad, edges)
            e = Pen.compute_total_penalty_contact_energy(f, disp, m, quad, edges, stiff)
            return c1, c2, e
        _FN[key] = (jax.jit(jax.vmap(one)), onp.asarray(quad.xigauss, dtype=float), onp.asarray(quad.wgauss, dtype=float))
    return _FN[key]


# ----------------------------------------------------------------------------- lattice facts used by alpha (inputs only)
def v2(a, b):
    return (b[0] - a[0], b[1] - a[1])


def dot(u, v):
    return u[0] * v[0] + u[1] * v[1]


def cross(u, v):
    return u[0] * v[1] - u[1] * v[0]


def pair_units(Q):
    A, B = Q["A"], Q["B"]
    vA, vB = v2(A[0], A[1]), v2(B[0], B[1])
    dA, dB = dot(vA, vA), dot(vB, vB)
    par = cross(vA, vB) == 0
    opp = par and dot(vA, vB) < 0
    exact = Q["nm"] == "fromA" or opp
    eB = dot(v2(A[0], B[1]), vA) - dot(v2(A[0], B[0]), vA)
    gnum = dot(v2(A[0], B[0]), (vA[1], -vA[0]))
    pts = [A[0], A[1], B[0], B[1]]
    diam = max(math.sqrt(dot(v2(x, y), v2(x, y))) for x in pts for y in pts)
    return dict(dA=dA, dB=dB, par=par, exact=exact, parx=(par and exact), eB=eB, gnum=gnum, diam=diam,
                Lmax=math.sqrt(max(dA, dB)))


# ----------------------------------------------------------------------------- evaluation of Eval events on the real code
def eval_cpp(jobs):
    """jobs: list of (Q, conc, out_dict)."""
    if not jobs:
        return
    edges = onp.array([to_real([Q["a"], Q["b"]], c) for Q, c, _ in jobs])
    ps = onp.array([to_real(Q["p"], c) for Q, c, _ in jobs])
    q, t, d = _batched(cpp_fn(), [edges, ps])
    for i, (Q, c, out) in enumerate(jobs):
        E = extent([Q["a"], Q["b"], Q["p"]], c)
        dd = dot(v2(Q["a"], Q["b"]), v2(Q["a"], Q["b"]))
        s = 10.0 ** c["k"]
        tn, ton = snap(float(t[i]), 1.0 / dd, RT * E)
        ql = pull_back(q[i], c)
        qx, qxon = snap(float(ql[0]), 1.0 / dd, RT * E)
        qy, qyon = snap(float(ql[1]), 1.0 / dd, RT * E)
        u = float(d[i]) / s
        if math.isfinite(u):
            m = clipint(u * u * dd)
            mon = bool(abs(abs(u) - math.sqrt(max(m, 0) / dd)) <= RT * E)
            sg = 0 if abs(u) <= RT * E else (1 if u > 0 else -1)
        else:
            m, mon, sg = 0, False, 0
        out.update(tn=tn, ton=ton, qn=[qx, qy], qon=bool(qxon and qyon), m=m, mon=mon, sg=sg,
                   exact=bool(c["rot"] == "id" and c["k"] == 0))
        out["_raw"] = dict(t=float(t[i]), q=[float(q[i][0]), float(q[i][1])], dist=float(d[i]))


PAIR_POW = [1, 2, 1, 1, 3, 1]       # powers of the scale in: int 1, g, xiA, xiB, g^2, xiA xiB


def eval_pair(jobs):
    """jobs: list of (Q, conc, out, refs) ; refs = dict shared by the trace: (k, l, parity) -> reference values."""
    for nm in ("fromA", "avg"):
        sel = [j for j in jobs if j[0]["nm"] == nm]
        if not sel:
            continue
        fn, fn_default = pair_fn(nm)
        for use_default in (True, False):
            part = [j for j in sel if (j[1]["l"] is None) == use_default]
            if not part:
                continue
            A = onp.array([to_real(Q["A"], c) for Q, c, _, _ in part])
            B = onp.array([to_real(Q["B"], c) for Q, c, _, _ in part])
            if use_default:
                vals = _batched(fn_default, [A, B])
            else:
                ls = onp.array([c["l"] for _, c, _, _ in part])
                vals = _batched(fn, [A, B, ls])
            for i, (Q, c, out, refs) in enumerate(part):
                pair_obs(Q, c, [float(x) for x in vals[i]], out, refs)


def pair_obs(Q, c, raw, out, refs):
    U = pair_units(Q)
    E = extent(Q["A"] + Q["B"], c)
    s = 10.0 ** c["k"]
    l = 1e-7 if c["l"] is None else c["l"]
    v = [raw[i] / s ** PAIR_POW[i] for i in range(6)]
    dA, sq = U["dA"], math.sqrt(U["dA"])
    D = max(1.0, U["diam"])
    W = [1.0, D, 1.0, 1.0, D * D, 1.0]                   # bound of the integrand
    rnd = [RTM * E * max(1.0, U["Lmax"]) * w for w in W]  # rounding allowance per integral
    smooth = [2.0 * l * U["Lmax"] * w for w in W]         # documented smoothing: 2 * l * length * |integrand|
    out.update(n1=0, on1=True, ng=0, ong=True, nxa=0, onxa=True, nxb=0, onxb=True)
    if U["parx"]:
        G = abs(U["gnum"]) / sq
        smooth[1] = 2.0 * l * U["Lmax"] * G
        units = [sq / dA, 1.0 / dA, sq / (2.0 * dA * dA), sq / (2.0 * dA * U["eB"])]
        for name, i in (("1", 0), ("g", 1), ("xa", 2), ("xb", 3)):
            allow = smooth[i] + rnd[i]
            if allow > 0.25 * abs(units[i]):
                raise RuntimeError("allowance %g not below a quarter of the grid spacing %g" % (allow, units[i]))
            n, on = snap(v[i], units[i], allow)
            out["n" + name], out["on" + name] = n, on
    out["z"] = [sign_code(v[i], rnd[i]) for i in (0, 1, 2, 3)]
    out["nn"] = [sign_code(v[i], rnd[i]) for i in (0, 2, 3, 4, 5)]
    key = "%d|%r|%d" % (c["k"], c["l"], c.get("parity", 0))
    if key not in refs:
        refs[key] = v
        out["inv"] = "REF"
    else:
        ref = refs[key]
        ok = all(math.isfinite(v[i]) and math.isfinite(ref[i]) and abs(v[i] - ref[i]) <= 2.0 * rnd[i] for i in range(6))
        out["inv"] = "EQ" if ok else "NE"
        out["_ref"] = ref
    out["_raw"] = dict(values=raw, normalised=v)


CH_NSEG = 4


def chain_arrays(Q, c, rng_seed):
    """two opposed chains on a lattice line e, A shifted by h * Perp(e); padded with far-away segments to a fixed shape;
    the positions are split into reference coordinates + displacement (the code must use the sum)."""
    e = c["e"]
    nrm = (e[1], -e[0])
    xb = sorted(Q["xb"])
    ya = sorted(Q["ya"], reverse=True)
    pts, connsB, connsA = [], [], []

    def P(x, h):
        return [x * e[0] + h * nrm[0], x * e[1] + h * nrm[1]]
    bnodes = []
    for x in xb:
        bnodes.append(len(pts)); pts.append(P(x, 0))
    for i in range(len(xb) - 1):
        connsB.append([bnodes[i], bnodes[i + 1]])
    pad = 0
    while len(connsB) < CH_NSEG:
        pts.append(P(100 + 3 * pad, 0)); pts.append(P(101 + 3 * pad, 0))
        connsB.append([len(pts) - 2, len(pts) - 1]); pad += 1
    anodes = []
    for y in ya:
        anodes.append(len(pts)); pts.append(P(y, Q["h"]))
    for i in range(len(ya) - 1):
        connsA.append([anodes[i], anodes[i + 1]])
    pad = 0
    while len(connsA) < CH_NSEG:
        pts.append(P(-100 - 3 * pad, Q["h"])); pts.append(P(-101 - 3 * pad, Q["h"]))
        connsA.append([len(pts) - 2, len(pts) - 1]); pad += 1
    while len(pts) < 4 * CH_NSEG + 4:
        pts.append(P(0, 50))
    cur = to_real(pts, c)
    r = onp.random.default_rng(rng_seed)
    disp = (10.0 ** c["k"]) * r.uniform(-1.0, 1.0, cur.shape)
    coords = cur - disp
    neigh = onp.tile(onp.arange(CH_NSEG), (CH_NSEG, 1))
    real_pts = [pts[n] for n in bnodes + anodes]
    return coords, disp, onp.array(connsA), onp.array(connsB), neigh, bnodes, real_pts


def eval_chain(jobs):
    if not jobs:
        return
    arrs = [chain_arrays(Q, c, c["dseed"]) for Q, c, _ in jobs]
    a, g = _batched(chain_fn(), [onp.array([x[k] for x in arrs]) for k in range(5)])
    for i, (Q, c, out) in enumerate(jobs):
        bnodes, real_pts = arrs[i][5], arrs[i][6]
        e = c["e"]
        dd = dot(e, e)
        s = 10.0 ** c["k"]
        E = extent(real_pts, c)
        L = 4.0 * math.sqrt(dd)
        npairs = CH_NSEG * CH_NSEG
        allow_a = npairs * (2.0 * ASSEMBLY_SMOOTH * L) + RTM * E * L
        gabs = abs(Q["h"]) * math.sqrt(dd)
        allow_g = npairs * (2.0 * ASSEMBLY_SMOOTH * L * gabs) + RTM * E * L * max(1.0, gabs)
        ua, ug = math.sqrt(dd) / 24.0, dd / 24.0
        av = onp.asarray(a[i], dtype=float) / s
        gv = onp.asarray(g[i], dtype=float) / (s * s)
        xb = sorted(Q["xb"])
        areas, gaps, aon, gon = [], [], True, True
        for x, nd in zip(xb, bnodes):
            n, on = snap(float(av[nd]), ua, allow_a); areas.append([x, n]); aon = aon and on
            n, on = snap(float(gv[nd]), ug, allow_g); gaps.append([x, n]); gon = gon and on
        others = [j for j in range(av.shape[0]) if j not in bnodes]
        for j in others:      # nodes of surface A, padding nodes: nothing is assembled there
            aon = aon and bool(abs(av[j]) <= allow_a)
            gon = gon and bool(abs(gv[j]) <= allow_g)
        atot, atoton = snap(float(av.sum()), ua, 2 * allow_a)
        gtot, gtoton = snap(float(gv.sum()), ug, 2 * allow_g)
        out.update(areas=areas, aon=bool(aon), gaps=gaps, gon=bool(gon), atot=atot, atoton=atoton, gtot=gtot,
                   gtoton=gtoton, asign=[sign_code(float(x), allow_a) for x in av])
        out["_raw"] = dict(areas=[float(x) for x in a[i]], gaps=[float(x) for x in g[i]])


def ind_phi(otype, prm, x):
    """independent evaluation of the obstacle functions (numpy)"""
    if otype == "plane":
        return prm[1] - x[..., 1]
    if otype == "corner":
        return onp.minimum(x[..., 0] - prm[0], x[..., 1] - prm[1])
    return onp.hypot(x[..., 0] - prm[0], x[..., 1] - prm[1]) - prm[2]


def eval_mesh_jobs(jobs):
    """jobs: list of (Q, conc, out).  conc: k, degree, src ("lsc" | "pen"), stiff, disp (ints, all nodes), edges (indices
    into the boundary edge table), otype, prm (ints), nx, ny."""
    groups = {}
    for j in jobs:
        c = j[1]
        groups.setdefault((c["otype"], c["degree"], c["nx"], c["ny"], len(c["edges"])), []).append(j)
    for (otype, degree, nx, ny, _), part in sorted(groups.items()):
        fn, xig, wg = ls_fn(otype, degree, nx, ny)
        M = get_mesh(nx, ny)
        S = [10.0 ** c["k"] for _, c, _ in part]
        coords = onp.array([s * M["coords"].astype(float) for s in S])
        disp = onp.array([s * onp.asarray(c["disp"], dtype=float) for s, (_, c, _) in zip(S, part)])
        prm = onp.array([s * onp.asarray(c["prm"], dtype=float) for s, (_, c, _) in zip(S, part)])
        stiff = onp.array([c["stiff"] for _, c, _ in part])
        edges = onp.array([M["edges"][c["edges"]] for _, c, _ in part])
        c1, c2, en = _batched(fn, [coords, disp, prm, stiff, edges])
        for i, (Q, c, out) in enumerate(part):
            s = S[i]
            phi = onp.asarray(c1[i] if c["src"] == "lsc" else c2[i], dtype=float)      # (nedges, nq)
            nodes = M["nodes"][c["edges"]]
            cur = (M["coords"] + onp.asarray(c["disp"]))[nodes].astype(float)           # lattice units (nedges, 2, 2)
            E = float(max(1.0, onp.abs(cur).max(), max(abs(p) for p in c["prm"])))
            e = float(en[i])
            # energy below what a rounding-level penetration can produce counts as zero
            Lref = float(len(c["edges"]))
            ezero = c["stiff"] * Lref * s * (4.0 * RT * E * s) ** 2
            out["esign"] = "NAN" if not math.isfinite(e) else ("Z" if abs(e) <= ezero else ("P" if e > 0 else "N"))
            out["_raw"] = dict(phi=phi.tolist(), energy=e)
            if Q["kind"] == "pen":
                ph, on = [], True
                for r in range(phi.shape[0]):
                    n, o = snap(float(phi[r, 0]) / s, 1.0, RT * E); ph.append(n); on = on and o
                order = c["order"]
                out.update(phin=[ph[j] for j in order], on=bool(on))
                n, o = snap(e / (c["stiff"] * s ** 3), 1.0, 1e-9 * max(1.0, abs(e / (c["stiff"] * s ** 3))))
                out.update(en=n, eon=o)
            elif degree == 1:
                ph, on = [], True
                for r in range(phi.shape[0]):
                    if otype == "circle":
                        r2 = 2.0 * (float(phi[r, 0]) / s + c["prm"][2])
                        n = clipint(r2 * r2) if math.isfinite(r2) else 0
                        o = math.isfinite(r2) and abs(r2 - math.sqrt(max(n, 0))) <= 4.0 * RT * E
                    else:
                        n, o = snap(2.0 * float(phi[r, 0]) / s, 1.0, 4.0 * RT * E)
                    ph.append(n); on = on and bool(o)
                out.update(rule="mid", phin=ph, on=bool(on))
            else:
                xq = cur[:, 0, None, :] + xig[None, :, None] * (cur[:, 1, None, :] - cur[:, 0, None, :])
                want = ind_phi(otype, [float(p) for p in c["prm"]], xq)
                ok = bool(onp.all(onp.isfinite(phi)) and onp.abs(phi / s - want).max() <= 4.0 * RT * E)
                sg = [0 if abs(x) <= 4.0 * RT * E else (1 if x > 0 else -1) for x in (phi / s).ravel().tolist()]
                out.update(rule="gauss", cmp="EQ" if ok else "NE", psign=sg)


# ----------------------------------------------------------------------------- skeletons: behaviours -> events with concretisations
def states_of(beh):
    return [beh["q0"]] + [m["q"] for m in beh["moves"]]


def norm_chain(Q):
    if Q["kind"] == "chain":
        Q = dict(Q); Q["xb"] = sorted(Q["xb"]); Q["ya"] = sorted(Q["ya"])
    return Q


LATTICE_DIRS = [(1, 0), (0, 1), (-1, 0), (0, -1), (1, 1), (-1, 1), (2, 1), (-1, 2), (1, -3)]


def pen_realisation(phi, rng):
    """top edges of the 4 x 2 patch carry the samples: plane y = yLoc above; node heights chosen so that the mid point
    of top edge i (from the left) has level-set value phi_i; x displacements are free (the plane does not see them)."""
    M = get_mesh(4, 2)
    yloc = rng.randrange(0, 4)
    disp = onp.array([[rng.randrange(-1, 2), rng.randrange(-1, 2)] for _ in range(8)])
    h = [rng.randrange(-2, 3)]
    for p in phi:
        h.append(2 * (yloc - p) - h[-1])
    top = [n for n in range(8) if M["coords"][n, 1] == 1]
    top.sort(key=lambda n: M["coords"][n, 0])
    for n, y in zip(top, h):
        disp[n, 1] = y - 1
        disp[n, 0] = 0          # keep the edge lengths |edge_ref| * w the only weights (drift_penalty_value)
    eidx = [i for i, (a, b) in enumerate(M["nodes"]) if M["coords"][a, 1] == 1 and M["coords"][b, 1] == 1]
    mids = [M["coords"][M["nodes"][i]].mean(axis=0)[0] for i in eidx]
    order = [int(j) for j in onp.argsort(mids)]     # position in the edge list of the sample 1, 2, 3
    return dict(otype="plane", prm=[0, yloc, 0], disp=disp.tolist(), edges=eidx, order=order, nx=4, ny=2, degree=1)


def ls_realisation(Qspec, rng):
    """probe edge of the spec state + the boundary edges not sharing a node with it, random integer displacements."""
    M = get_mesh(3, 3)
    e = Qspec["edges"][0]
    C = M["coords"]
    probe = None
    for i, (a, b) in enumerate(M["nodes"]):
        if list(C[a]) == list(e["x0"]) and list(C[b]) == list(e["x1"]):
            probe = i
    if probe is None:
        raise RuntimeError("spec edge %r is not a boundary edge of the real mesh" % (e,))
    a, b = M["nodes"][probe]
    eidx = [probe] + [i for i, (x, y) in enumerate(M["nodes"]) if i != probe and not ({x, y} & {a, b})]
    disp = onp.array([[rng.randrange(-1, 2), rng.randrange(-1, 2)] for _ in range(9)])
    disp[a] = e["u0"]; disp[b] = e["u1"]
    o = Qspec["obst"]
    edges = [dict(x0=[int(v) for v in C[x]], x1=[int(v) for v in C[y]], u0=[int(v) for v in disp[x]],
                  u1=[int(v) for v in disp[y]]) for x, y in M["nodes"][eidx]]
    return dict(otype=o["type"], prm=[o["x"], o["y"], o["r"]], disp=disp.tolist(), edges=eidx, nx=3, ny=3), edges


def build_skeleton(tid, beh, rng, tier, idx):
    """events of one trace: Eval events carry a complete concretisation (so the skeleton is the replay case)."""
    q0 = norm_chain(beh["q0"])
    kind = q0["kind"]
    ev = []
    k = (idx % 13) - 6
    sk = dict(id=tid, kind=kind, info=beh.get("info", {}), ev=ev)
    states = [norm_chain(s) for s in states_of(beh)]
    moves = [m["mv"] for m in beh["moves"]]
    if kind in ("cpp", "pair"):
        sk["q"] = q0
        parity = 0
        lsm = None if idx % 4 == 0 else SMOOTH[idx % 3]
        for si, Q in enumerate(states):
            if si > 0:
                ev.append(dict(op="Move", mv=moves[si - 1], to=Q))
                if moves[si - 1] == "Mirror":
                    parity += 1
            py = ["p345", "p51213", "p81517"][(idx + si) % 3]
            k2 = ((idx // 13 + k + 7) % 13) - 6          # a second scale in the thorough tier
            if tier == "quick":
                plan = [("id", k), (py, k), ("rnd", k)] if si == 0 else [("id", k), ("rnd", k)]
            elif si == 0:
                plan = [("id", k), ("p345", k), ("p51213", k), ("p81517", k), ("rnd", k), ("rnd", k), ("id", k2), ("rnd", k2)]
            else:
                plan = [("id", k), ("rnd", k), ("rnd", k2)]
            for r, kk in plan:
                c = make_conc(r, kk, rng)
                if kind == "pair":
                    c["l"] = lsm
                    c["parity"] = parity
                ev.append(dict(op="Eval", conc=c))
    elif kind == "chain":
        sk["q"] = q0
        e = LATTICE_DIRS[idx % len(LATTICE_DIRS)]
        for si, Q in enumerate(states):
            if si > 0:
                ev.append(dict(op="Move", mv=moves[si - 1], to=Q))
            for r in ["id", "rnd"] if tier == "quick" else ["id", "p345", "rnd"]:
                c = make_conc(r, k, rng)
                c["e"] = list(e)
                c["dseed"] = rng.randrange(1 << 30)
                ev.append(dict(op="Eval", conc=c))
    elif kind == "pen":
        sk["q"] = q0
        kk = [-3, 0, 2][idx % 3]
        for si, Q in enumerate(states):
            if si > 0:
                ev.append(dict(op="Move", mv=moves[si - 1], to=Q))
            for src in ("lsc", "pen"):
                c = pen_realisation(Q["phi"], rng)
                c.update(k=kk, src=src, stiff=10.0 ** rng.uniform(-2, 2))
                ev.append(dict(op="Eval", conc=c))
    else:  # ls: the trace query lists the real edges (probe edge first), Displace acts on the probe edge
        kk = [-3, 0, 2][idx % 3]
        base, edges0 = ls_realisation(states[0], rng)
        sk["q"] = dict(kind="ls", obst=q0["obst"], edges=edges0)
        cur_edges = edges0
        for si, Q in enumerate(states):
            if si > 0:
                pe = Q["edges"][0]
                cur_edges = [dict(cur_edges[0], u0=pe["u0"], u1=pe["u1"])] + cur_edges[1:]
                ev.append(dict(op="Move", mv=moves[si - 1], to=dict(kind="ls", obst=q0["obst"], edges=cur_edges)))
                M = get_mesh(3, 3)
                a, b = M["nodes"][base["edges"][0]]
                d = onp.array(base["disp"]); d[a] = pe["u0"]; d[b] = pe["u1"]
                base = dict(base, disp=d.tolist())
            for degree, src in ((1, "lsc"), (1, "pen"), (2, "lsc"), (4, "pen")):
                c = dict(base, k=kk, src=src, degree=degree, stiff=10.0 ** rng.uniform(-2, 2))
                ev.append(dict(op="Eval", conc=c))
    return sk


def run_skeletons(sks):
    """execute every Eval event on the real code; returns the traces for TLC (without private fields)."""
    jobs = {"cpp": [], "pair": [], "chain": [], "mesh": []}
    for sk in sks:
        Q = sk["q"]
        refs = {}
        for e in sk["ev"]:
            if e["op"] == "Move":
                Q = e["to"]
                continue
            e["obs"] = {}
            if sk["kind"] == "cpp":
                jobs["cpp"].append((Q, e["conc"], e["obs"]))
            elif sk["kind"] == "pair":
                jobs["pair"].append((Q, e["conc"], e["obs"], refs))
            elif sk["kind"] == "chain":
                jobs["chain"].append((Q, e["conc"], e["obs"]))
            else:
                jobs["mesh"].append((Q, e["conc"], e["obs"]))
    eval_cpp(jobs["cpp"])
    eval_pair(jobs["pair"])
    eval_chain(jobs["chain"])
    eval_mesh_jobs(jobs["mesh"])
    traces = []
    for sk in sks:
        evs = []
        for e in sk["ev"]:
            if e["op"] == "Move":
                evs.append(dict(op="Move", mv=e["mv"], to=e["to"]))
            else:
                evs.append(dict(op="Eval", obs={k: v for k, v in e["obs"].items() if not k.startswith("_")}))
        traces.append(dict(id=sk["id"], q=sk["q"], ev=evs))
    return traces


# ----------------------------------------------------------------------------- selection
def stratum(b):
    q, info = b["q0"], b.get("info", {})
    return json.dumps([q["kind"], q.get("nm"), info.get("cls")], sort_keys=True)


def select(table, walks, tier, rng, rep):
    per = {"cpp": 60, "pair": 18, "chain": 60, "pen": 120, "ls": 100} if tier == "quick" else \
          {"cpp": 2500, "pair": 250, "chain": 10 ** 9, "pen": 10 ** 9, "ls": 10 ** 9}
    seen, strata = set(), {}
    for b in table:
        key = json.dumps(b["q0"], sort_keys=True)
        if key in seen:
            continue
        seen.add(key)
        strata.setdefault(stratum(b), []).append(b)
    chosen = []
    for key in sorted(strata):
        lst = strata[key]
        rng.shuffle(lst)
        chosen += lst[:per[lst[0]["q0"]["kind"]]]
    rep.coverage["table_queries_emitted_by_tlc"] = len(seen)
    rep.coverage["strata"] = len(strata)
    wseen, wl = set(), []
    for b in walks:
        key = json.dumps([b["q0"], [m["q"] for m in b["moves"]]], sort_keys=True)
        if key not in wseen:
            wseen.add(key)
            wl.append(b)
    rng.shuffle(wl)
    cap = {"cpp": 400, "pair": 900, "chain": 400, "pen": 300, "ls": 400} if tier == "quick" else \
          {"cpp": 4000, "pair": 9000, "chain": 7000, "pen": 6000, "ls": 6000}
    cnt = {}
    for b in wl:
        kd = b["q0"]["kind"]
        if cnt.get(kd, 0) < cap[kd]:
            cnt[kd] = cnt.get(kd, 0) + 1
            chosen.append(b)
    rep.coverage["walks_emitted_by_tlc"] = len(wl)
    return chosen


def generate(rep, tier):
    des = tlc.run("ContactGeom.tla", "ContactGeom_design.cfg", label="design", timeout=3000)
    if tlc.require_ok(des, rep, "design"):
        rep.add_tlc(des)
        for a in ACTIONS:
            if des.action_counts.get(a, 0) == 0:
                rep.machinery("design run never took action %s (vacuity)" % a)
    if tier == "thorough":
        des3 = tlc.run("ContactGeom.tla", "ContactGeom_design3.cfg", label="design-cpp-N3", timeout=3000)
        if tlc.require_ok(des3, rep, "design-cpp-N3"):
            rep.add_tlc(des3)
        # unbounded companion: Apalache / Z3 prove that the closest-point projection is nearest among all rational points of
        # the segment, for ALL integer segments and query points (negative control refuted); failure = machinery error
        import subprocess
        r = subprocess.run([common.SPECS + "/apalache/run_generic.sh", "ClosestPointAll.tla", "Nearest", "NegControl"],
                           capture_output=True, text=True)
        rep.coverage["apalache"] = [l for l in r.stdout.splitlines() if l.startswith("APALACHE")]
        if r.returncode != 0:
            rep.machinery("apalache check of ClosestPointAll.tla failed: %s" % r.stdout[-400:])
    table, walks = [], []
    runs = [("ContactGeomGen_table.cfg", None, table), ("ContactGeomGen_small.cfg", None, walks),
            ("ContactGeomGen_ls.cfg", None, walks)]
    if tier == "thorough":
        runs.append(("ContactGeomGen_table3.cfg", None, table))
    for cfg, _, dest in runs:
        r = tlc.run("ContactGeomGen.tla", cfg, workers=1, label=cfg, timeout=3000, coverage=False)
        if tlc.require_ok(r, rep, cfg):
            rep.add_tlc(r)
            dest += r.payloads("BEH")
    nsim = 400 if tier == "quick" else 6000
    r = tlc.run("ContactGeomGen.tla", "ContactGeomGen_sim.cfg", simulate=nsim, depth=3, seed=common.seed() + 1,
                label="simulate-moves", timeout=3000)
    if tlc.require_ok(r, rep, "simulate-moves"):
        rep.add_tlc(r)
        walks += r.payloads("BEH")
    return table, walks


# ----------------------------------------------------------------------------- classification of a failing case
def mech_alternatives(Q, tol=1e-9):
    """Float model of compute_intersection on the lattice coordinates, used ONLY to label a failing case (never as an
    oracle): the integral of 1 with all valid candidates, and the values obtainable when candidates that lie exactly
    on the boundary of the validity test xi in [0,1] are rejected (rounding)."""
    A = onp.array(Q["A"], dtype=float)
    B = onp.array(Q["B"], dtype=float)

    def nrm(e):
        t = e[1] - e[0]
        n = onp.array([t[1], -t[0]])
        return n / onp.linalg.norm(n)
    n = nrm(A) if Q["nm"] == "fromA" else nrm(A) - nrm(B)
    if not onp.all(onp.isfinite(n)) or onp.linalg.norm(n) == 0:
        return None
    n = n / onp.linalg.norm(n)

    def xi(xa, edge, normal):
        M = onp.array([edge[0] - edge[1], normal]).T
        if abs(onp.linalg.det(M)) < 1e-12:
            return float("nan")
        return float(onp.linalg.solve(M, edge[0] - xa)[0])
    cands = [(0.0, xi(A[0], B, n), 1), (1.0, xi(A[1], B, n), 1), (xi(B[0], A, -n), 0.0, 0), (xi(B[1], A, -n), 1.0, 0)]
    valid = [c for c in cands if -tol <= c[0] <= 1 + tol and -tol <= c[1] <= 1 + tol]
    frag = [c for c in valid if min(abs(c[c[2]]), abs(c[c[2]] - 1.0)) <= tol]
    solid = [c for c in valid if c not in frag]
    LA, LB = onp.linalg.norm(A[1] - A[0]), onp.linalg.norm(B[1] - B[0])

    def integral(keep):
        if not keep:
            return 0.0
        lo = min(keep, key=lambda c: c[0])
        hi = max(keep, key=lambda c: c[0])
        return float(0.5 * (LA * (hi[0] - lo[0]) + LB * abs(hi[1] - lo[1])))
    full = integral(valid)
    alts = set()
    for mask in range(1 << len(frag)):
        alts.add(round(integral(solid + [f for i, f in enumerate(frag) if mask >> i & 1]), 6))
    return full, alts, len(frag)


def symptom_pair(Q, values):
    """values: observed normalised integral of 1 of the evaluations involved in the failing clause."""
    m = mech_alternatives(Q)
    if m is None or m[2] == 0:
        return "other"
    full, alts, _ = m
    for v in values:
        if v is None or not math.isfinite(v):
            continue
        if abs(v - full) > 1e-4 and any(abs(v - a) <= 1e-4 for a in alts):
            return "boundary_candidate_rejected"
    return "other"


def symptom_chain(Q, total):
    """total: observed sum of nodal areas in units of |e|."""
    xb, ya = sorted(Q["xb"]), sorted(Q["ya"], reverse=True)
    sums, full, anyfrag = {0.0}, 0.0, False
    for i in range(len(xb) - 1):
        for j in range(len(ya) - 1):
            P = dict(A=[[xb[i], 0], [xb[i + 1], 0]], B=[[ya[j], -1], [ya[j + 1], -1]], nm="avg")
            m = mech_alternatives(P)
            if m is None:
                return "other"
            full += m[0]
            anyfrag = anyfrag or m[2] > 0
            sums = {round(a + b, 6) for a in sums for b in m[1]}
    if anyfrag and math.isfinite(total) and abs(total - full) > 1e-4 and any(abs(total - a) <= 1e-4 for a in sums):
        return "boundary_candidate_rejected"
    return "other"


def classify(sk, l, clause):
    """features the known-finding signatures are matched on"""
    Q = sk["q"]
    for e in sk["ev"][:l]:
        if e["op"] == "Move":
            Q = e["to"]
    e = sk["ev"][l - 1]
    case = dict(kind=sk["kind"], q=sk["q"], ev=[{k: v for k, v in x.items() if k != "obs"} for x in sk["ev"]],
                event=l, info=sk.get("info", {}), query_at_event=Q)
    obs = e.get("obs", {})
    if e["op"] == "Eval":
        case["conc_rot"] = e["conc"].get("rot", "")
        case["observed"] = obs.get("_raw")
    if sk["kind"] == "pair":
        case["flush"] = bool(sk.get("info", {}).get("cls", {}).get("flush", False))
        vals = [(obs.get("_raw") or {}).get("normalised", [None])[0]]
        if clause == "mortar_invariant" and obs.get("_ref"):
            vals.append(obs["_ref"][0])
        case["symptom"] = symptom_pair(Q, vals)
    elif sk["kind"] == "chain":
        raw = obs.get("_raw") or {}
        s = 10.0 ** e["conc"]["k"]
        ee = e["conc"]["e"]
        if clause == "nodal_gap_sum" and Q["h"] != 0:
            tot = sum(raw.get("gaps", [float("nan")])) / (s * s * dot(ee, ee) * Q["h"])
        else:
            tot = sum(raw.get("areas", [float("nan")])) / (s * math.sqrt(dot(ee, ee)))
        case["symptom"] = symptom_chain(Q, tot)
    return case


# ----------------------------------------------------------------------------- main
def applicable(sk, Q, clause):
    if sk["kind"] != "pair":
        return True
    U = pair_units(Q)
    if clause in ("mortar_length", "mortar_gap_area"):
        return U["parx"]
    if clause == "mortar_disjoint_zero":
        return U["exact"]
    return True


def main(tier, replay=None):
    common.setup_paths()
    rep = common.Reporter(PID, tier)
    rep.assumptions = [
        "alpha: observed values are divided by the scale, pulled back by the known motion and snapped to the rational grid of "
        "the lattice query (unit computed from the integer inputs only); 'on grid' allowance: cpp parameter/point/distance "
        "and level-set values %g * E (E = coordinate magnitude in lattice units), mortar integrals 2*l*length*|integrand| "
        "(documented smoothing, l = relativeSmoothingSize) + %g * E * length * |integrand| rounding; invariance under a "
        "motion: twice the rounding allowance; zero energy: below stiffness*length*(4e-12*E)^2" % (RT, RTM),
        "every expectation is recomputed by TLC (ContactGeomTrace.tla) from the integers of the query; the harness sends none",
        "compute_average_normal is 0/0 for equally directed parallel segments: such pairs are only used with compute_normal_from_a",
        "level-set / penalty: one-point rule judged exactly by TLC; 2- and 3-point Gauss rules judged through a comparison "
        "code against an independent numpy evaluation at independently computed deformed sample points",
        "concretisations: scales 10^k (k=-6..6), Pythagorean rotations (3,4,5),(5,12,13),(8,15,17), random rotations and "
        "translations (seeded); lattice isometries are TLC actions (Rot, Trans, Mirror)",
    ]
    rng = random.Random(common.seed())
    if replay:
        case = json.load(open(replay))["case"]
        sks = [dict(id=1, kind=case["kind"], q=case["q"], ev=case["ev"], info=case.get("info", {}))]
    else:
        table, walks = generate(rep, tier)
        chosen = select(table, walks, tier, rng, rep)
        sks = []
        for i, b in enumerate(chosen):
            sks.append(build_skeleton(i + 1, b, rng, tier, i))
        if not sks:
            rep.machinery("no behaviours to replay")
    traces = run_skeletons(sks) if sks else []
    byid = {sk["id"]: sk for sk in sks}

    # coverage accounting (vacuity control)
    moves, kinds, distinct = {}, {}, set()
    for sk in sks:
        Q = sk["q"]
        kinds[sk["kind"]] = kinds.get(sk["kind"], 0) + 1
        distinct.add(json.dumps(sk["q"], sort_keys=True))
        for e in sk["ev"]:
            if e["op"] == "Move":
                Q = e["to"]
                moves[e["mv"]] = moves.get(e["mv"], 0) + 1
                distinct.add(json.dumps(Q, sort_keys=True))
            else:
                for c in CONTRACT[sk["kind"]]:
                    if applicable(sk, Q, c):
                        rep.count_clause(c)
    rep.coverage["traces_by_kind"] = kinds
    rep.coverage["moves_replayed"] = moves
    strata_hit = {}
    for sk in sks:
        key = json.dumps([sk["kind"], sk["q"].get("nm"), sk.get("info", {}).get("cls")], sort_keys=True)
        strata_hit[key] = strata_hit.get(key, 0) + 1
    rep.coverage["classes_replayed"] = len(strata_hit)
    if not replay:
        for a in ACTIONS:
            if moves.get(a, 0) == 0:
                rep.machinery("no replayed behaviour contains action %s" % a)
        for kd, cl in CONTRACT.items():
            for c in cl:
                if rep.coverage["clauses_evaluated"].get(c, 0) == 0:
                    rep.machinery("clause %s never evaluated" % c)
    for sk in sks[:: max(1, len(sks) // 5)][:5]:
        rep.sample(dict(q=sk["q"], events=[dict(op=e["op"], mv=e.get("mv"), conc=e.get("conc"),
                                                obs={k: v for k, v in e.get("obs", {}).items() if k != "_raw"})
                                           for e in sk["ev"][:3]]))

    def on_fail(tid, l, clause):
        rep.fail(clause, classify(byid[tid], l, clause))
    if traces:
        trace.validate("ContactGeomTrace.tla", "ContactGeomTrace.cfg", traces, rep, on_fail=on_fail, chunk=6000)
    if replay:      # no design run in replay mode: the states TLC stepped through while validating the stored case
        n = sum(r.get("states_generated", 0) for r in rep.coverage["tlc_runs"])
        rep.coverage["states"] = rep.coverage["transitions"] = max(1, n)
    return rep.finish(rule="queries = all lattice queries of ContactGeom.tla emitted by TLC (stratified seeded sample per "
                           "class in the quick tier, all in the thorough tier) + TLC-generated walks of Rot/Trans/Mirror/"
                           "Refine/Slide/SetSample/Displace steps; each state is concretised (scale, rotation, translation, "
                           "smoothing length, mesh displacement) and evaluated by the real code; distinct = distinct "
                           "lattice queries reached",
                      extra={"distinct_nontrivial": len(distinct)}, exhaustive=False)


if __name__ == "__main__":
    sys.exit(main(common.tier()))
