"""C08 -- Elastic energies are objective, isotropic and stress-free at rest.

Design: specs/MaterialPoint.tla (caller-owned material point; RestIsStressFree, Objective).  Binding: TLC emits every
action sequence of MaterialPointGen_<kind>_<tier>.cfg (Reset / Deform(class) / SupRot / RefRot, and for the plastic
and viscous kinds also Update / Commit / Load / Hold so that rotations are applied to evolved states) plus random
walks; every sequence is executed on the real models (linear elastic x 3 strain measures, both neo-Hookean versions,
Gent, phase-field threshold x 2 kinematics at phase 0, J2 x 3 kinematics, 1- and 3-branch viscoelastic) as plain
calls, jitted calls and jitted vmapped batches; MaterialPointTrace.tla judges rest_energy, rest_stress, objective,
isotropic, sym_stress.  Shared machinery: checks/matpoint.py.
"""
import sys

from harness import common
from checks import matpoint as mp

PID = "C08"
ELASTIC = ["le_linear", "le_green_lagrange", "le_logarithmic", "nh_adagio", "nh_coupled", "gent", "pf_large", "pf_small"]


def main(tier, replay=None):
    quick = tier == "quick"
    if quick:
        j2 = ["j2_large_linear", "j2_small_voce", "j2_seth_hill_power"]
    else:
        j2 = ["j2_%s_%s%s" % (k, h, r) for k in ("large", "small", "seth_hill") for h in ("linear", "voce", "power")
              for r in ("", "_rate")]
    visco = ["visco_1", "visco_3"]
    targets = [(v, m) for v in ELASTIC + j2 + visco for m in ("jit", "vmapBatch")]
    def rotated_after_evolution(b):
        """history kinds serve C08 by rotating EVOLVED states: prefer walks with a rotation after Commit/Load/Hold"""
        acts = [o["a"] for o in b]
        ev = [i for i, a in enumerate(acts) if a in ("Commit", "Load", "Hold")]
        return bool(ev) and any(a in ("SupRot", "RefRot") for a in acts[ev[0]:])
    plan = mp.shares(targets, n_sim=40 if quick else 300, n_ex_extra=60 if quick else 1500,
                     cap_ex={"plastic": 30, "viscous": 30} if quick else {"plastic": 1500, "viscous": 1500},
                     prefer=rotated_after_evolution)

    def few(n, maxlen):
        def pick(behs, rng):
            short = [b for b in behs["ex"] if len(b) <= maxlen] or behs["ex"]
            return rng.sample(short, min(n, len(short)))
        return pick
    # single-point calls with Python-float constants (one compilation per history)
    plan += [(v, "single", few(2 if quick else 12, 6)) for v in ELASTIC]
    plan += [(v, "single", few(1 if quick else 6, 4)) for v in (["j2_seth_hill_power", "visco_1"] if quick else j2[:6] + visco)]
    return mp.run_check(PID, tier, replay, plan, ["elastic", "plastic", "viscous"],
                        {"elastic": 40 if quick else 400, "plastic": 300 if quick else 1500, "viscous": 300 if quick else 1500},
                        rule="load histories = action sequences of MaterialPointGen_<kind>_<tier>.cfg (all of them, each to one "
                             "model x exec mode round robin, plus seeded extra shares) + seeded TLC random walks; moduli over "
                             "decades, strain magnitudes 1e-8..1, deformation classes incl. exactly equal stretches, proper "
                             "rotations drawn per seed; distinct = distinct (history, model, mode, seed) executed on the real model")


if __name__ == "__main__":
    sys.exit(main(common.tier()))
