"""C02 — Assembled stiffness equals the Hessian of the total energy.

Discrete part decided by the specification:
 (A) Assembly.tla (extends DofManager.tla): for every BC mask on small meshes the assembler mechanism
     (mask, C-order flatten, scatter-add at the stored COO coordinates) equals the reduced Hessian of symbolic
     token element matrices and is symmetric; Blocks.tla: every ordered partition of the elements into blocks
     writes every element exactly once and changes neither the element-wise arrays nor the energy;
     MechConfigs.tla: the lattice of advertised factory options.
 (B) token replay: the REAL assemble_sparse_stiffness_matrix is run on integer token element matrices for BC
     lists emitted by TLC; AssemblyTrace.tla recomputes the reduced Hessian from the logged mesh/BC/tokens.
 (C) per-configuration observation: for each advertised configuration the real factories are built on small
     distorted meshes (orders 1-3), random admissible fields / internal states / BC subsets, and
     K (assembled from the real element stiffnesses) is compared with jax.hessian(energy o create_field);
     multi-block vs single-block for every ordered partition TLC enumerates.
The numeric comparison K vs Hessian is the abstraction predicate (rtol 1e-9): that part of C02 is BOUND, not
decided, by the specification.
"""
import dataclasses
import json
import random
import sys

import numpy as onp

from harness import common, tlc, trace
from harness.proxies import Silence
from checks import c14

PID = "C02"
RT = 1e-9


# ------------------------------------------------------------------ (B) token replay
def token_event(case, rng):
    import jax.numpy as np
    from optimism import FunctionSpace, SparseMatrixAssembler
    fs = c14.function_space(case["mesh"], case["nodeSets"])
    dim = 2
    conns = onp.asarray(fs.mesh.conns)
    N = int(fs.mesh.coords.shape[0])
    ebcs = [FunctionSpace.EssentialBC(nodeSet=s, component=int(c)) for s, c in case["bcs"]]
    dm = FunctionSpace.DofManager(fs, dim, ebcs)
    nel, nen = conns.shape
    nd = nen * dim
    W = onp.zeros((nel, nd, nd), dtype=onp.int64)
    for e in range(nel):
        for i in range(nd):
            for j in range(i, nd):
                W[e, i, j] = W[e, j, i] = rng.randrange(1, 1000)
    kvals = np.array(W.astype(float).reshape(nel, nen, dim, nen, dim))
    K = SparseMatrixAssembler.assemble_sparse_stiffness_matrix(kvals, fs.mesh.conns, dm)
    Kd = onp.asarray(K.todense())
    mesh = dict(name=case["mesh"].get("name", "m"), N=N, Dim=dim, conns=[[int(v) for v in r] for r in conns],
                nodeSets={k: [int(v) for v in vs] for k, vs in case["nodeSets"].items()})
    return dict(e="Tok", mesh=mesh, bcs=[dict(nodeSet=s, component=int(c)) for s, c in case["bcs"]],
                W=W.tolist(), K=[[int(round(v)) for v in r] for r in Kd])


# ------------------------------------------------------------------ (C) real configurations
def toy_history_material(rng):
    """a cheap path-dependent material (compiles in seconds): quadratic energy coupled to one internal variable that
    accumulates the deviatoric strain norm.  Used to compare multi-block with single-block state updates on many partitions."""
    import jax.numpy as np
    from optimism.material.MaterialModel import MaterialModel
    E = 10 ** rng.uniform(0, 1)
    def energy(dispGrad, state, dt):
        eps = 0.5 * (dispGrad + dispGrad.T)
        return 0.5 * E * np.tensordot(eps, eps) + 0.05 * E * state[0] * np.trace(eps) + 0.1 * E * np.trace(eps) ** 2
    def state_new(dispGrad, state, dt):
        eps = 0.5 * (dispGrad + dispGrad.T)
        dev = eps - np.trace(eps) / 3.0 * np.eye(3)
        return np.array([state[0] + np.sqrt(np.tensordot(dev, dev) + 1e-30)])
    return MaterialModel(energy, lambda: np.array([0.0]), state_new)


def make_material(name, rng):
    from optimism.material import Neohookean, J2Plastic, LinearElastic
    if name == "toy":
        return toy_history_material(rng)
    E = 10 ** rng.uniform(0, 2)
    nu = rng.uniform(0.1, 0.4)
    rho = rng.uniform(0.5, 3.0)
    if name == "neohookean":
        return Neohookean.create_material_model_functions({'elastic modulus': E, 'poisson ratio': nu, 'version': 'coupled', 'density': rho})
    if name == "linear":
        return LinearElastic.create_material_model_functions({'elastic modulus': E, 'poisson ratio': nu, 'strain measure': 'linear', 'density': rho})
    return J2Plastic.create_material_model_functions({'elastic modulus': E, 'poisson ratio': nu, 'yield strength': 0.02 * E,
                                                      'kinematics': 'small deformations', 'hardening model': 'linear',
                                                      'hardening modulus': 0.1 * E, 'density': rho})


def make_fs(order, rng, axisym, nx=3, ny=2):
    """distorted structured mesh (4 elements), shifted to r > 0 for axisymmetric; quadrature rich enough for p1"""
    import jax.numpy as np
    from optimism import Mesh, FunctionSpace, QuadratureRule
    x0 = 1.0 if axisym else 0.0
    m = Mesh.construct_structured_mesh(nx, ny, [x0, x0 + 2.0], [0.0, 1.0])
    c = onp.asarray(m.coords).copy()
    inner = [i for i in range(c.shape[0]) if x0 < c[i, 0] < x0 + 2.0]
    for i in range(c.shape[0]):
        c[i] += [rng.uniform(-0.12, 0.12), rng.uniform(-0.08, 0.08)] if i in inner else [0.0, 0.0]
    m = Mesh.mesh_with_coords(m, np.array(c))
    if order > 1:
        m = Mesh.create_higher_order_mesh_from_simplex_mesh(m, order)
    q = QuadratureRule.create_quadrature_rule_on_triangle(degree=max(2, 2 * order))
    mode = 'axisymmetric' if axisym else 'cartesian'
    return FunctionSpace.construct_function_space(m, q, mode)


def rel_eq(a, b):
    a = onp.asarray(a, dtype=float); b = onp.asarray(b, dtype=float)
    if a.shape != b.shape or not (onp.all(onp.isfinite(a)) and onp.all(onp.isfinite(b))):
        return False
    return bool(onp.max(onp.abs(a - b), initial=0.0) <= RT * max(1.0, float(onp.max(onp.abs(b), initial=0.0))))


def config_event(cfg, rng):
    import jax
    import jax.numpy as np
    from optimism import FunctionSpace, Mechanics, SparseMatrixAssembler, Mesh
    axisym = cfg["mode"] == "axisymmetric"
    proj = {"none": None, "p0": 0, "p1": 1}[cfg["proj"]]
    order = 2 if proj == 1 else rng.choice([1, 2, 3] + ([4] if common.tier() == "thorough" else []))
    ev = dict(e="Config", cfg={k: cfg[k] for k in ("kind", "mode", "proj", "mat")}, constructed=False, kh="NA", sym="NA",
              order=order)
    try:
        fs = make_fs(order, rng, axisym)
        mat = make_material(cfg["mat"], rng)
        nn = fs.mesh.coords.shape[0]
        nodes = list(range(nn))
        rng.shuffle(nodes)
        nsets = {"a": onp.array(sorted(nodes[:max(1, nn // 4)])), "b": onp.array(sorted(nodes[nn // 4:nn // 3 + 1]))}
        fs = dataclasses.replace(fs, mesh=Mesh.mesh_with_nodesets(fs.mesh, nsets))
        ebcs = [FunctionSpace.EssentialBC("a", rng.choice([0, 1]))] + ([FunctionSpace.EssentialBC("b", 1)] if rng.random() < 0.7 else []) \
            + ([FunctionSpace.EssentialBC("a", 0), FunctionSpace.EssentialBC("a", 1)] if rng.random() < 0.3 else [])
        dm = FunctionSpace.DofManager(fs, 2, ebcs)
        coords = onp.asarray(fs.mesh.coords)
        G = onp.array([[rng.uniform(-0.03, 0.03), rng.uniform(-0.03, 0.03)], [rng.uniform(-0.03, 0.03), rng.uniform(-0.03, 0.03)]])
        U = np.array(coords @ G.T + onp.array([[rng.uniform(-0.004, 0.004) for _ in range(2)] for _ in range(nn)]))
        with Silence():
            if cfg["kind"] == "newmark":
                fn = Mechanics.create_dynamics_functions(fs, cfg["mode"], mat, Mechanics.NewmarkParameters(gamma=0.5, beta=0.25),
                                                         pressureProjectionDegree=proj)
                st0 = fn.compute_initial_state()
                st = fn.compute_updated_internal_variables(0.7 * U, st0, 0.1) if cfg["mat"] == "j2" else st0
                Up = np.array(onp.asarray(U) * 0.5 + onp.array([[rng.uniform(-0.003, 0.003) for _ in range(2)] for _ in range(nn)]))
                dt = 10 ** rng.uniform(-2, 0)
                ev["constructed"] = True
                kel = fn.compute_element_hessians(U, Up, st, dt)
                energy = lambda uu: fn.compute_algorithmic_energy(dm.create_field(uu, dm.get_bc_values(U)), Up, st, dt)
            else:
                if cfg["kind"] == "static_multi":
                    fs2 = dataclasses.replace(fs, mesh=Mesh.mesh_with_blocks(fs.mesh, {"b1": np.array([0, 2]), "b2": np.array([3, 1])}))
                    dm = FunctionSpace.DofManager(fs2, 2, ebcs)
                    fn = Mechanics.create_multi_block_mechanics_functions(fs2, cfg["mode"], {"b1": mat, "b2": mat},
                                                                          pressureProjectionDegree=proj)
                else:
                    fn = Mechanics.create_mechanics_functions(fs, cfg["mode"], mat, pressureProjectionDegree=proj)
                st0 = fn.compute_initial_state()
                st = fn.compute_updated_internal_variables(0.7 * U, st0) if cfg["mat"] == "j2" else st0
                ev["constructed"] = True
                kel = fn.compute_element_stiffnesses(U, st)
                energy = lambda uu: fn.compute_strain_energy(dm.create_field(uu, dm.get_bc_values(U)), st)
            K = onp.asarray(SparseMatrixAssembler.assemble_sparse_stiffness_matrix(kel, fs.mesh.conns, dm).todense())
            H = onp.asarray(jax.hessian(energy)(dm.get_unknown_values(U)))
        ev["kh"] = "EQ" if rel_eq(K, H) else "NE"
        ev["sym"] = "EQ" if rel_eq(K, K.T) else "NE"
        ev["maxdiff"] = float(onp.max(onp.abs(K - H))) if K.shape == H.shape else -1.0
    except Exception as ex:  # noqa
        ev["what"] = (type(ex).__name__ + ": " + str(ex))[:200]
    return ev


def multi_event(parts, matname, rng, proj=None):
    """every ordered partition TLC enumerates: multi-block functions vs single-block functions (same material), with the
    same pressure-projection option on both sides (proj: None, 0 or 1; seed C02d)."""
    import jax.numpy as np
    from optimism import Mechanics, Mesh
    order = rng.choice([1, 2])
    if proj is not None:
        order = 2           # the projection is the identity on linear elements
    fs = make_fs(order, rng, False)
    mat = make_material(matname, rng)
    blocks = {"blk%d" % i: np.array([e - 1 for e in p]) for i, p in enumerate(parts)}
    fsm = dataclasses.replace(fs, mesh=Mesh.mesh_with_blocks(fs.mesh, blocks))
    nn = fs.mesh.coords.shape[0]
    coords = onp.asarray(fs.mesh.coords)
    U = np.array(coords @ onp.array([[0.02, -0.01], [0.015, 0.03]]).T + onp.array([[rng.uniform(-0.004, 0.004) for _ in range(2)] for _ in range(nn)]))
    ev = dict(e="Multi", parts=parts, mat=matname, proj=("none" if proj is None else "p%d" % proj), energy="NE", state="NE", stiff="NE",
              init="NE")
    try:
        with Silence():
            single = Mechanics.create_mechanics_functions(fs, "plane strain", mat, pressureProjectionDegree=proj)
            multi = Mechanics.create_multi_block_mechanics_functions(fsm, "plane strain", {k: mat for k in blocks},
                                                                     pressureProjectionDegree=proj)
            s0 = single.compute_initial_state(); m0 = multi.compute_initial_state()
            ev["init"] = "EQ" if rel_eq(m0, s0) else "NE"
            st = single.compute_updated_internal_variables(0.7 * U, s0)
            ev["state"] = "EQ" if rel_eq(multi.compute_updated_internal_variables(0.7 * U, s0), st) else "NE"
            ev["energy"] = "EQ" if rel_eq(multi.compute_strain_energy(U, st), single.compute_strain_energy(U, st)) else "NE"
            ev["stiff"] = "EQ" if rel_eq(multi.compute_element_stiffnesses(U, st), single.compute_element_stiffnesses(U, st)) else "NE"
    except Exception as ex:  # noqa
        ev["what"] = (type(ex).__name__ + ": " + str(ex))[:200]
    return ev


def main(tier, replay=None):
    common.setup_paths()
    rep = common.Reporter(PID, tier)
    rep.assumptions = [
        "token replay: integer symmetric token element matrices (entries 1..999); the reduced Hessian is recomputed by TLC from the logged mesh, BC list and tokens with the unknown numbering of DofManager.tla (row-major over unconstrained (node, component) pairs; C14 checks that numbering)",
        "numeric comparison K vs jax.hessian(energy o create_field), K vs K^T, multi- vs single-block: max-norm rtol 1e-9 (abstraction predicate; this part of C02 is bound, not decided, by the specification)",
        "configurations: 4-element distorted structured meshes, orders 1-3 (order 2 for linear pressure projection), random small displacement fields, J2 at a non-virgin state, random BC subsets",
        "the multi-block factory documents axisymmetric as NotImplemented: not an advertised configuration"]
    rng = random.Random(common.seed())
    traces, cases = [], {}
    if replay:
        c = json.load(open(replay))["case"]
        r = random.Random(c["seed"])
        if c["mode"] == "tok":
            ev = token_event(c["case"], r)
        elif c["mode"] == "config":
            ev = config_event(c["cfg"], r)
        else:
            ev = multi_event(c["parts"], c["mat"], r, c.get("proj"))
        traces.append(dict(id=1, ev=[ev])); cases[1] = c
    else:
        des = tlc.run("AssemblyGen.tla", "Assembly_design.cfg" if tier == "quick" else "Assembly_design_big.cfg",
                      label="Assembly-design", timeout=3000)
        if tlc.require_ok(des, rep, "Assembly design"):
            rep.add_tlc(des)
        blk = tlc.run("Blocks.tla", "Blocks.cfg", workers=1, label="Blocks-design")
        if tlc.require_ok(blk, rep, "Blocks design"):
            rep.add_tlc(blk)
        cfgs = tlc.run("MechConfigs.tla", "MechConfigs.cfg", workers=1, label="MechConfigs", coverage=False)
        if tlc.require_ok(cfgs, rep, "MechConfigs"):
            rep.add_tlc(cfgs)
        em = tlc.run("DofManagerGen.tla", "DofManagerGen_emit.cfg", workers=1, label="BC-lists", coverage=False, timeout=1500)
        tid = 0
        if tlc.require_ok(em, rep, "BC list emission"):
            meshes = {}
            for raw in em.payloads("MESH"):
                rec = json.loads(raw) if isinstance(raw, str) else raw
                meshes[(rec["name"], rec["Dim"])] = rec
            behs = [b for b in em.payloads("BEH") if b["dim"] == 2 and b["mesh"] in (("T1", "T2", "T4") if tier == "quick" else ("T1", "T2", "T4", "Q1"))]
            rng.shuffle(behs)
            behs = behs[:150 if tier == "quick" else 1500]
            rep.coverage["bc_lists_token_replayed"] = len(behs)
            for c in c14.cases_from_tlc(behs, meshes, rng):
                tid += 1
                s = rng.randrange(1 << 30)
                traces.append(dict(id=tid, ev=[token_event(c, random.Random(s))]))
                cases[tid] = dict(mode="tok", case=c, seed=s)
        # configurations
        allc = cfgs.payloads("BEH")
        allc.sort(key=lambda c: json.dumps(c, sort_keys=True))
        if tier == "quick":
            # seeded covering subset: every value of every factor (kind, mode, proj, material) at least once,
            # at most one path-dependent (J2) configuration (its compile time dominates); thorough runs all 45
            rng.shuffle(allc)
            # always: a Newmark configuration with a nonlinear material (Hessian point matters) and a projected multi-block one
            forced = [dict(kind="newmark", mode="plane strain", proj="p0", mat="neohookean"),
                      dict(kind="static_multi", mode="plane strain", proj="p1", mat="linear")]
            chosen, need, nj2 = list(forced), set(), 0
            for c in forced:
                need |= {("k", c["kind"]), ("m", c["mode"]), ("p", c["proj"]), ("t", c["mat"])}
            for c in allc:
                keys = {("k", c["kind"]), ("m", c["mode"]), ("p", c["proj"]), ("t", c["mat"])}
                if keys <= need or (c["mat"] == "j2" and nj2 >= 1):
                    continue
                chosen.append(c); need |= keys; nj2 += c["mat"] == "j2"
            allc = chosen
        else:
            # thorough: every non-J2 configuration, and the path-dependent material once per (kind, projection)
            seen_j2, keep = set(), []
            for c in allc:
                if c["mat"] == "j2":
                    k = (c["kind"], c["proj"])
                    if k in seen_j2:
                        continue
                    seen_j2.add(k)
                keep.append(c)
            allc = keep
        rep.coverage["configurations_run"] = len(allc)
        for c in allc:
            tid += 1
            s = rng.randrange(1 << 30)
            traces.append(dict(id=tid, ev=[config_event(c, random.Random(s))]))
            cases[tid] = dict(mode="config", cfg=c, seed=s)
        parts = [b["parts"] for b in blk.payloads("BEH")]
        rng.shuffle(parts)
        # blocks that are a contiguous range listed in non-ascending order, interleaved blocks, single-element blocks first
        def interesting(p):
            return any(len(b) > 1 and sorted(b) == list(range(min(b), max(b) + 1)) and b != sorted(b) for b in p)
        parts.sort(key=lambda p: 0 if interesting(p) else 1)
        chosen_parts = parts[:8 if tier == "quick" else 60] + parts[-(6 if tier == "quick" else 40):]
        for i, p in enumerate(chosen_parts):
            tid += 1
            s = rng.randrange(1 << 30)
            mat = "j2" if (tier == "thorough" and i % 10 == 3) else ("toy" if i % 4 != 3 else "neohookean")
            proj = (None, 0, 1)[i % 3]        # the same option on both factories: splitting must be transparent under each
            traces.append(dict(id=tid, ev=[multi_event(p, mat, random.Random(s), proj)]))
            cases[tid] = dict(mode="multi", parts=p, mat=mat, seed=s, proj=proj)
    for t in traces:
        e = t["ev"][0]
        if e["e"] == "Tok":
            rep.count_clause("assembled_equals_reduced_hessian"); rep.count_clause("assembled_symmetric")
        elif e["e"] == "Config":
            rep.count_clause("option_constructs")
            rep.count_clause("stiffness_equals_energy_hessian", 1 if e["constructed"] else 0)
        else:
            rep.count_clause("blocks_same_energy"); rep.count_clause("blocks_same_stiffness")
    samp = [t["ev"][0] for t in traces if t["ev"][0]["e"] != "Tok"][:3]
    for s_ in samp:
        rep.sample(s_)
    if traces and traces[0]["ev"][0]["e"] == "Tok":
        t0 = traces[0]["ev"][0]
        rep.sample(dict(e="Tok", mesh=t0["mesh"]["name"], bcs=t0["bcs"], K=t0["K"]))

    def on_fail(tid, l, clause):
        c = dict(cases[tid]); c["event"] = l
        ev = [t for t in traces if t["id"] == tid][0]["ev"][0]
        c["observed"] = {k: v for k, v in ev.items() if k not in ("W", "K", "mesh")}
        if ev["e"] == "Config":
            c["kind"] = ev["cfg"]["kind"]; c["proj"] = ev["cfg"]["proj"]
        rep.fail(clause, c)
    trace.validate("AssemblyTrace.tla", "AssemblyTrace.cfg", traces, rep, on_fail=on_fail, chunk=1500)
    nd = len({json.dumps(t["ev"][0].get("cfg") or t["ev"][0].get("parts") or t["ev"][0].get("bcs"), sort_keys=True) for t in traces})
    return rep.finish(rule="token replay: BC lists emitted by TLC (DofManagerGen) on T1/T2/T4/Q1 with 2 fields, seeded token matrices; "
                           "configurations: the advertised option lattice enumerated by TLC (covering subset in quick, all 45 in "
                           "thorough); partitions: ordered block partitions enumerated by TLC; distinct = distinct BC lists / "
                           "configurations / partitions", extra={"distinct_nontrivial": nd})


if __name__ == "__main__":
    sys.exit(main(common.tier()))
