"""C03 - Function space reproduces polynomials and integrates them exactly on any mesh.

(A) PolyMesh.tla is model-checked exhaustively: a table of 14 small integer-coordinate triangulations (single
    distorted triangles, four triangulations of one square incl. an off-centre fan and the 2x2 structured patch, a
    graded anisotropic strip, the 3-4-5-rotated square, a non-convex L, a hexagon around the origin) x 4 cyclic node
    orders x all monomials x^a y^b, a+b <= MaxDeg (6 quick / 7 thorough: 32-bit safe, TLC raises on overflow).
    Invariants in exact integers: orientation positive for every cyclic shift, sum of doubled element areas =
    shoelace area of the polygon, integrals independent of the shift and of the triangulation (additivity over
    different triangulations of the same polygon), the divergence theorem on the lattice (boundary sides with
    integer outward normals), closedness of the boundary.  The same run (PolyMeshGen.tla) is the exact ORACLE.
(B) Every emitted mesh (plus copies scaled by 1/8 and seeded random Delaunay / graded / anisotropic / rotated /
    offset float meshes with random cyclic node orders) is built as a block of ONE real optimism Mesh
    (construct_mesh_from_basic_data -> create_higher_order_mesh_from_simplex_mesh, orders 1..5, bubble on/off);
    the real FunctionSpace (quadrature degree 1..10, cartesian / axisymmetric), interpolate_to_points,
    compute_field_gradient, integrate_over_block, integrate_function_on_edge(s), Surface.integrate_function_on_surface
    and the 1-D Gauss rules (degree 0..25) are evaluated on it.
    Oracle beyond the spec's degree and for float coordinates: the same barycentric formula mirrored in unbounded
    integers on the exact dyadic coordinates (Fraction(float) is exact); the mirror is cross-checked against every
    TLC-emitted integer on the overlap (mismatch = machinery error, exit 2).
(C) Observations are abstracted to bit masks of three-valued comparison codes per (sub-mesh, observation class,
    polynomial degree); PolyMeshTrace.tla holds the applicability rules and judges the clauses of the property.

alpha / rounding allowance: |real - exact| <= 1e-11 * (sum of the absolute values of the contributions to the sum
that forms the real value): sum_a |N_a||f_a|, sum_a |dN_a||f_a|, sum_q |vol_q||f(x_q)|, sum_edges L max|f|, sum |w x^n|,
each with a floor of the natural scale for analytically vanishing terms (stated in rep.assumptions).
"""
import json
import math
import sys
import threading
import time
from fractions import Fraction

import numpy as onp

from harness import common, tlc, trace

PID = "C03"
TOL = 1e-11
LD = onp.longdouble
LT, EQ, GT, BAD = 1, 2, 4, 7
ORC_DEG = 3                      # the trace spec recomputes the harness' lattice oracle up to this degree (all degrees are
                                 # compared with the TLC-emitted integers in Python)
NMAX = 11                        # highest polynomial degree handed to the real code (mirror goes one higher)
DISTINCT_RULES = [1, 2, 4, 5, 6, 10]
ALIAS_RULES = [3, 7, 8, 9]
ELEMENT_TYPES = [(1, False), (2, False), (2, True), (3, False), (3, True), (4, False), (4, True), (5, False),
                 (5, True)]
CONTRACT = ["partition_of_unity", "grad_sum_zero", "reproduces_values", "reproduces_gradients", "vols_sum_area",
            "integrates_exactly", "axisymmetric_exact", "divergence_theorem", "gauss_1d_exact"]
SCALED = ["unit", "skew", "sqfan", "rota", "lshb", "hexa"]          # lattice meshes also used at scale 1/8 (exact)
TIER = {"quick": dict(gen="PolyMeshGen_quick.cfg", design="PolyMesh.cfg", maxdeg=6, nrand=6, npts=(3, 4), unions=1),
        "thorough": dict(gen="PolyMeshGen_thorough.cfg", design="PolyMesh_thorough.cfg", maxdeg=7, nrand=14,
                         npts=(3, 6), unions=4)}
MAGNIFY = [1.0, 1.0, 1e-3, 1e3]  # thorough: the random meshes of union u are scaled by MAGNIFY[u] (exact oracle from the floats)


def monolist(n):
    return [(a, m - a) for m in range(n + 1) for a in range(m, -1, -1)]


# ----------------------------------------------------------------------------- exact mirror (unbounded integers)
def to_ints(coords):
    """float coordinates are dyadic rationals: coords = ints / 2^K exactly."""
    fr = [[Fraction(float(v)) for v in p] for p in coords]
    K = max(f.denominator.bit_length() - 1 for p in fr for f in p)
    return [[int(f * (1 << K)) for f in p] for p in fr], K


def _series(P, N):
    """G[i][j] = C(i+j, i) x^i y^j : the coefficient of s^i t^j in 1/(1 - x s - y t)."""
    x, y = P
    px = [1] * (N + 1)
    py = [1] * (N + 1)
    for i in range(1, N + 1):
        px[i] = px[i - 1] * x
        py[i] = py[i - 1] * y
    return [[math.comb(i + j, i) * px[i] * py[j] if i + j <= N else 0 for j in range(N + 1)] for i in range(N + 1)]


def _mul(A, B, N):
    C = [[0] * (N + 1) for _ in range(N + 1)]
    for i in range(N + 1):
        for j in range(N + 1 - i):
            s = 0
            for i1 in range(i + 1):
                Ai, Bi = A[i1], B[i - i1]
                for j1 in range(j + 1):
                    s += Ai[j1] * Bi[j - j1]
            C[i][j] = s
    return C


def boundary_sides(tris):
    """(element, local side) with no element carrying the reversed side; side k joins vertices k and k+1."""
    dirs = {}
    for e, t in enumerate(tris):
        for k in range(3):
            dirs[(int(t[k]), int(t[(k + 1) % 3]))] = (e, k)
    return sorted(ek for (p, q), ek in dirs.items() if (q, p) not in dirs)


def exact_mesh(coords, tris, N):
    """The barycentric formula of PolyMesh.tla in unbounded integers.  Returns the integer sums vs / ex / ey on the
    lattice coords * 2^K and the rational integrals I(a,b), EX(a,b), EY(a,b), a + b <= N, and the area."""
    P, K = to_ints(coords)
    vs = {ab: 0 for ab in monolist(N)}
    ex = {ab: 0 for ab in monolist(N)}
    ey = {ab: 0 for ab in monolist(N)}
    a2sum = 0
    a2min = None
    ser = {}

    def S(n):
        if n not in ser:
            ser[n] = _series(P[n], N)
        return ser[n]
    for t in tris:
        p1, p2, p3 = (P[int(v)] for v in t)
        a2 = (p2[0] - p1[0]) * (p3[1] - p1[1]) - (p2[1] - p1[1]) * (p3[0] - p1[0])
        a2sum += a2
        a2min = a2 if a2min is None else min(a2min, a2)
        G = _mul(_mul(S(int(t[0])), S(int(t[1])), N), S(int(t[2])), N)
        for (a, b) in vs:
            vs[(a, b)] += a2 * G[a][b]
    bnd = boundary_sides(tris)
    for (e, k) in bnd:
        ip, iq = int(tris[e][k]), int(tris[e][(k + 1) % 3])
        p, q = P[ip], P[iq]
        nx, ny = q[1] - p[1], -(q[0] - p[0])
        G = _mul(S(ip), S(iq), N)
        for (a, b) in ex:
            ex[(a, b)] += nx * G[a][b]
            ey[(a, b)] += ny * G[a][b]
    f = math.factorial
    out = dict(K=K, vs=vs, ex=ex, ey=ey, a2=a2sum, a2min=a2min, bnd=bnd,
               area=Fraction(a2sum, 2 << (2 * K)),
               I={(a, b): Fraction(v * f(a) * f(b), f(a + b + 2) << (K * (a + b + 2))) for (a, b), v in vs.items()},
               EX={(a, b): Fraction(v * f(a) * f(b), f(a + b + 1) << (K * (a + b + 1))) for (a, b), v in ex.items()},
               EY={(a, b): Fraction(v * f(a) * f(b), f(a + b + 1) << (K * (a + b + 1))) for (a, b), v in ey.items()})
    return out


def mirror_selfcheck(x, N):
    """The divergence theorem as an exact rational identity of the mirror (holds on every valid mesh)."""
    for (a, b) in monolist(N):
        if x["EX"][(a, b)] != (a * x["I"][(a - 1, b)] if a else 0):
            return "oint x^%d y^%d n_x != int d/dx" % (a, b)
        if x["EY"][(a, b)] != (b * x["I"][(a, b - 1)] if b else 0):
            return "oint x^%d y^%d n_y != int d/dy" % (a, b)
    if x["I"][(0, 0)] != x["area"]:
        return "int 1 != area"
    return None


# ----------------------------------------------------------------------------- sub-meshes and their union
class Sub:
    def __init__(self, name, coords, tris, lat=False, m="", s=0, scale=1.0, family=""):
        self.name, self.lat, self.m, self.s, self.scale, self.family = name, lat, m, int(s), float(scale), family
        self.coords = onp.asarray(coords, onp.float64).reshape(-1, 2)
        self.tris = onp.asarray(tris, onp.int64).reshape(-1, 3)
        self.x = exact_mesh(self.coords, self.tris, NMAX + 1)
        self.rpos = bool((self.coords[:, 0] >= 0).all())
        self.bnd = self.x["bnd"]

    def describe(self):
        return dict(mesh=self.name, lattice=self.lat, table_mesh=self.m, shift=self.s, scale=self.scale,
                    family=self.family, coords=[[float(v) for v in p] for p in self.coords],
                    tris=[[int(v) for v in t] for t in self.tris])

    @staticmethod
    def from_case(c):
        return Sub(c["mesh"], c["coords"], c["tris"], lat=c["lattice"], m=c["table_mesh"], s=c["shift"],
                   scale=c["scale"], family=c.get("family", ""))


class Union:
    def __init__(self, subs):
        self.subs = subs
        cs, ts, self.e0, self.n0 = [], [], [], []
        no = eo = 0
        edges, eowner = [], []
        for i, sb in enumerate(subs):
            self.e0.append(eo)
            self.n0.append(no)
            cs.append(sb.coords)
            ts.append(sb.tris + no)
            for (e, k) in sb.bnd:
                edges.append((e + eo, k))
                eowner.append(i)
            no += len(sb.coords)
            eo += len(sb.tris)
        self.coords = onp.vstack(cs)
        self.conns = onp.vstack(ts)
        self.ne = eo
        self.starts = onp.array(self.e0, onp.int64)
        self.owner = onp.repeat(onp.arange(len(subs)), [len(sb.tris) for sb in subs])
        self.edges = onp.array(edges, onp.int64)
        self.eowner = onp.array(eowner, onp.int64)
        self.estarts = onp.searchsorted(self.eowner, onp.arange(len(subs)))
        self._ho = {}
        smax = max(len(sb.tris) for sb in subs)
        self.blocks = onp.array([[self.e0[i] + min(j, len(sb.tris) - 1) for j in range(smax)] for i, sb in enumerate(subs)])
        self.weights = onp.array([[1.0 if j < len(sb.tris) else 0.0 for j in range(smax)] for sb in subs])

    def base_mesh(self):
        import jax.numpy as jnp
        from optimism import Mesh
        blocks = {"all": jnp.arange(self.ne)}
        for i, sb in enumerate(self.subs[:4]):
            blocks["b%d" % i] = jnp.arange(self.e0[i], self.e0[i] + len(sb.tris))
        return Mesh.construct_mesh_from_basic_data(jnp.asarray(self.coords), jnp.asarray(self.conns), blocks,
                                                   sideSets={"bnd": jnp.asarray(self.edges)})

    def ho(self, order, bubble):
        from optimism import Mesh
        key = (order, bubble)
        if key not in self._ho:
            if "base" not in self._ho:
                self._ho["base"] = self.base_mesh()
            self._ho[key] = Mesh.create_higher_order_mesh_from_simplex_mesh(
                self._ho["base"], order, useBubbleElement=bubble, createNodeSetsFromSideSets=True)
        return self._ho[key]


def lattice_subs(meshes, scaled=True):
    subs = []
    for (m, s), rec in sorted(meshes.items()):
        tris = onp.array(rec["tris"], onp.int64) - 1
        subs.append(Sub("%s/%d" % (m, s), onp.array(rec["nodes"], onp.float64), tris, lat=True, m=m, s=s,
                        family="lattice"))
    if scaled:
        for m in SCALED:
            rec = meshes.get((m, 3))
            if rec:
                subs.append(Sub("%s/3/8" % m, onp.array(rec["nodes"], onp.float64) / 8.0,
                                onp.array(rec["tris"], onp.int64) - 1, lat=True, m=m, s=3, scale=0.125,
                                family="lattice_scaled"))
    return subs


def _orient(p, q, r):
    d = (Fraction(q[0]) - Fraction(p[0])) * (Fraction(r[1]) - Fraction(p[1])) \
        - (Fraction(q[1]) - Fraction(p[1])) * (Fraction(r[0]) - Fraction(p[0]))
    return (d > 0) - (d < 0)


def _min_angle(pts, tris):
    best = 180.0
    for t in tris:
        for k in range(3):
            a, b, c = pts[t[k]], pts[t[(k + 1) % 3]], pts[t[(k + 2) % 3]]
            u, v = b - a, c - a
            cs = float(onp.dot(u, v) / (onp.linalg.norm(u) * onp.linalg.norm(v)))
            best = min(best, math.degrees(math.acos(max(-1.0, min(1.0, cs)))))
    return best


def random_subs(rng, n, npts, tag="", mag=1.0):
    """Seeded float meshes: Delaunay of jittered points, graded tensor grids with random diagonals, anisotropic
    (one axis scaled by 2^-4), rotated by a random angle, far from the origin, with negative x; every element gets a
    random cyclic node order (orientation kept positive, checked exactly)."""
    from scipy.spatial import Delaunay
    fams = ["delaunay", "graded", "aniso", "rotated", "offset", "negx", "delaunay_big"]
    subs = []
    tries = 0
    while len(subs) < n and tries < 50 * n:
        tries += 1
        fam = fams[len(subs) % len(fams)]
        k = int(rng.integers(npts[0], npts[1] + 1)) + (2 if fam == "delaunay_big" else 0)
        if fam == "graded":
            xs = onp.concatenate([[0.0], 2.0 ** -onp.arange(k - 1, -1, -1.0)]) * float(rng.uniform(0.7, 1.9))
            ys = onp.linspace(0.0, 1.0, 3) * float(rng.uniform(0.4, 1.3))
            pts = onp.array([[x, y] for y in ys for x in xs])
            nx = len(xs)
            tris = []
            for j in range(len(ys) - 1):
                for i in range(nx - 1):
                    a, b, c, d = i + nx * j, i + 1 + nx * j, i + 1 + nx * (j + 1), i + nx * (j + 1)
                    tris += [[a, b, c], [a, c, d]] if rng.integers(2) else [[a, b, d], [b, c, d]]
            tris = onp.array(tris)
        else:
            g = onp.linspace(0.0, 1.0, k)
            pts = []
            for j, y in enumerate(g):
                for i, x in enumerate(g):
                    jx = 0.0 if i in (0, k - 1) else float(rng.uniform(-0.3, 0.3)) / (k - 1)
                    jy = 0.0 if j in (0, k - 1) else float(rng.uniform(-0.3, 0.3)) / (k - 1)
                    pts.append([x + jx, y + jy])
            pts = onp.array(pts)
            tris = onp.array(Delaunay(pts).simplices, onp.int64)
            if fam == "aniso":
                pts = pts * onp.array([1.0, 2.0 ** -4]) if rng.integers(2) else pts * onp.array([2.0 ** -4, 1.0])
            elif fam == "rotated":
                th = float(rng.uniform(0, 2 * math.pi))
                Rm = onp.array([[math.cos(th), -math.sin(th)], [math.sin(th), math.cos(th)]])
                pts = (pts * float(rng.uniform(0.5, 3.0))) @ Rm.T
                pts = pts - pts.min(axis=0) + onp.array([float(rng.uniform(0, 0.5)), float(rng.uniform(-2, 0))])
            elif fam == "offset":
                pts = pts * float(rng.uniform(0.5, 2.0)) + onp.array([float(rng.uniform(20, 120)), float(rng.uniform(-90, -10))])
            elif fam == "negx":
                pts = pts * float(rng.uniform(1.0, 4.0)) - onp.array([float(rng.uniform(0.5, 2.0)), 0.3])
        pts = pts * mag
        fixed = []
        ok = True
        for t in tris:
            o = _orient(pts[t[0]], pts[t[1]], pts[t[2]])
            if o == 0:
                ok = False
                break
            t = [int(v) for v in (t if o > 0 else t[::-1])]
            sh = int(rng.integers(3))
            fixed.append(t[sh:] + t[:sh])
        if not ok or _min_angle(pts, fixed) < (1.5 if fam == "aniso" else 8.0):
            continue
        used = sorted({v for t in fixed for v in t})
        if len(used) != len(pts):
            continue
        subs.append(Sub("%s%s%d" % (fam, tag, len(subs)), pts, fixed, family=fam))
    return subs


# ----------------------------------------------------------------------------- alpha helpers
def mono_ld(X, exps):
    """X (..., 2) -> (..., K) monomials in long double."""
    X = onp.asarray(X, LD)
    n = max(max(a, b) for a, b in exps)
    px = [onp.ones(X.shape[:-1], LD)]
    py = [onp.ones(X.shape[:-1], LD)]
    for _ in range(n):
        px.append(px[-1] * X[..., 0])
        py.append(py[-1] * X[..., 1])
    return onp.stack([px[a] * py[b] for a, b in exps], axis=-1)


def dmono_ld(X, exps):
    X = onp.asarray(X, LD)
    n = max(max(a, b) for a, b in exps)
    px = [onp.ones(X.shape[:-1], LD)]
    py = [onp.ones(X.shape[:-1], LD)]
    for _ in range(n):
        px.append(px[-1] * X[..., 0])
        py.append(py[-1] * X[..., 1])
    z = onp.zeros(X.shape[:-1], LD)
    gx = onp.stack([a * px[a - 1] * py[b] if a else z for a, b in exps], axis=-1)
    gy = onp.stack([b * px[a] * py[b - 1] if b else z for a, b in exps], axis=-1)
    return onp.stack([gx, gy], axis=-1)


def codes(real, exact, base):
    """Elementwise comparison: returns (lt, gt, eq, bad, ratio) boolean / float arrays."""
    real = onp.asarray(real, LD)
    exact = onp.asarray(exact, LD)
    tol = TOL * onp.asarray(base, LD)
    err = real - exact
    bad = ~(onp.isfinite(real) & onp.isfinite(tol))
    lt = (err < -tol) & ~bad
    gt = (err > tol) & ~bad
    eq = ~(lt | gt | bad)
    with onp.errstate(divide="ignore", invalid="ignore"):
        ratio = onp.where(tol > 0, onp.abs(err) / onp.where(tol > 0, tol, 1), onp.where(err == 0, 0.0, onp.inf))
    ratio = onp.where(bad, onp.inf, ratio).astype(onp.float64)
    return lt, gt, eq, bad, ratio


def mask_of(lt, gt, eq, bad):
    m = 0
    if bad:
        return BAD
    if lt:
        m |= LT
    if eq:
        m |= EQ
    if gt:
        m |= GT
    return m


def reduce_elems(c, starts, axes):
    """c = (lt, gt, eq, bad, ratio) arrays with leading element axis; reduce the other axes, then per sub-mesh."""
    lt, gt, eq, bad, ratio = c
    if axes:
        lt, gt, eq, bad, ratio = lt.any(axis=axes), gt.any(axis=axes), eq.any(axis=axes), bad.any(axis=axes), ratio.max(axis=axes)
    r = onp.logical_or.reduceat
    return r(lt, starts), r(gt, starts), r(eq, starts), r(bad, starts), onp.maximum.reduceat(ratio, starts)


class Stats:
    def __init__(self):
        self.margin = {}
        self.sharp = {}

    def see(self, clause, ratio):
        if onp.isfinite(ratio):
            self.margin[clause] = max(self.margin.get(clause, 0.0), float(ratio))

    def sharpness(self, key, inexact):
        a = self.sharp.setdefault(key, [0, 0])
        a[0] += int(bool(inexact))
        a[1] += 1


def event(c, sb, mk, d=0, orc=None):
    lat = bool(sb.lat and sb.scale == 1.0)          # the spec's table holds the unscaled lattice meshes
    return dict(c=c, m=(sb.m if lat else sb.name), s=sb.s, lat=lat, rpos=sb.rpos, d=int(d),
                mk=[int(v) for v in mk], orc=orc or [])


# ----------------------------------------------------------------------------- jitted drivers of the real code
_JIT = {}


def _monos_fn(exps):
    import jax.numpy as jnp

    A = jnp.asarray([float(a) for a, _ in exps])
    B = jnp.asarray([float(b) for _, b in exps])

    def monos(x):                      # pow with integer-valued exponents: exact sign for negative bases, 0^0 = 1
        return jnp.power(x[0], A) * jnp.power(x[1], B)
    return monos


def integrator(exps):
    """One jitted call: integrate_over_block of every monomial over every sub-mesh.  block = the elements of the
    sub-mesh, padded to a common length with repetitions of its last element whose integrand is switched off through
    the per-element parameter of integrate_over_block (weight 0) - one array shape serves all sub-meshes."""
    key = ("int", tuple(exps))
    if key not in _JIT:
        import jax
        import jax.numpy as jnp
        from optimism import FunctionSpace
        monos = _monos_fn(exps)

        def func(u, gradu, q, x, dt, c, w):
            return w * jnp.dot(c, monos(x))

        def run(fs, U0, state, C, blocks, weights, allblock):
            def on_block(blk, w):
                return jax.vmap(lambda c: FunctionSpace.integrate_over_block(
                    fs, U0, state, 0.0, func, blk, jnp.tile(c, (blk.shape[0], 1)), w))(C)
            return jax.vmap(on_block)(blocks, weights), on_block(allblock, jnp.ones(allblock.shape[0]))
        _JIT[key] = jax.jit(run)
    return _JIT[key]


def edge_integrator(exps, via, fs, qr):
    """per-edge integrate_function_on_edge and the total integrate_function_on_edges for a batch of fields
    (fs / mesh and the 1-D rule are closed over: Interpolants.compute_shapes needs concrete parent-element data)."""
    import jax
    import jax.numpy as jnp
    from optimism import FunctionSpace, Surface
    monos = _monos_fn(exps)
    if via == "x":
        def run(C, edges, U0):
            def one(c):
                def f(u, X, n):
                    return jnp.dot(c[0], monos(X)) * n[0] + jnp.dot(c[1], monos(X)) * n[1]
                per = jax.vmap(lambda ed: FunctionSpace.integrate_function_on_edge(fs, f, U0, qr, ed))(edges)
                return per, FunctionSpace.integrate_function_on_edges(fs, f, U0, qr, edges)
            return jax.vmap(one)(C)
    elif via == "u":
        def run(Ub, edges):
            def f(u, X, n):
                return jnp.dot(u, n)

            def one(U):
                per = jax.vmap(lambda ed: FunctionSpace.integrate_function_on_edge(fs, f, U, qr, ed))(edges)
                return per, FunctionSpace.integrate_function_on_edges(fs, f, U, qr, edges)
            return jax.vmap(one)(Ub)
    else:
        mesh = fs

        def run(C, edges):
            def one(c):
                def f(X, n):
                    return jnp.dot(c[0], monos(X)) * n[0] + jnp.dot(c[1], monos(X)) * n[1]
                per = jax.vmap(lambda ed: Surface.integrate_function_on_edge((qr.xigauss, qr.wgauss), ed, mesh, f))(edges)
                return per, Surface.integrate_function_on_surface((qr.xigauss, qr.wgauss), edges, mesh, f)
            return jax.vmap(one)(C)
    return jax.jit(run)


# ----------------------------------------------------------------------------- observation of one FunctionSpace
def observe_fs(un, order, bubble, d, mode, integrate, stats, rep, detail=False):
    """Returns the trace body (events) of one real FunctionSpace on the union mesh."""
    import jax.numpy as jnp
    from optimism import FunctionSpace, QuadratureRule
    hm = un.ho(order, bubble)
    qr = QuadratureRule.create_quadrature_rule_on_triangle(d)
    fs = FunctionSpace.construct_function_space(hm, qr, mode2D="cartesian" if mode == "cart" else "axisymmetric")
    Sh = onp.asarray(fs.shapes, onp.float64)
    Gr = onp.asarray(fs.shapeGrads, onp.float64)
    Vo = onp.asarray(fs.vols, onp.float64)
    conns = onp.asarray(hm.conns)
    hcoords = onp.asarray(hm.coords, onp.float64)
    ne, nq, npe = Sh.shape
    st = un.starts
    evs = []
    wit = {}
    nsub = len(un.subs)

    def emit(c, masks_by_sub, clause, ratios_by_sub, lim, per_eval):
        """masks_by_sub: list over degree of tuples (lt, gt, eq, bad) arrays over sub-meshes."""
        for i, sb in enumerate(un.subs):
            mk = [mask_of(m[0][i], m[1][i], m[2][i], m[3][i]) for m in masks_by_sub]
            evs.append(event(c, sb, mk))
            lim_i = lim if not (c == "int" and mode == "axi" and not sb.rpos) else -1
            for n in range(min(lim_i, len(mk) - 1) + 1):
                stats.see(clause, ratios_by_sub[n][i])
        if lim >= 0:
            rep.count_clause(clause, int(per_eval))

    # -- partition of unity / gradients sum to zero at every quadrature point
    c = codes(Sh.sum(axis=2), 1.0, onp.abs(Sh).sum(axis=2))
    r = reduce_elems(c, st, (1,))
    emit("pou", [r[:4]], "partition_of_unity", [r[4]], 0, ne * nq)
    gmax = onp.abs(Gr).max(axis=(2, 3))                                  # gradient scale of the element (~ 1/h)
    c = codes(Gr.sum(axis=2), 0.0, onp.abs(Gr).sum(axis=2) + gmax[:, :, None])
    r = reduce_elems(c, st, (1, 2))
    emit("gsz", [r[:4]], "grad_sum_zero", [r[4]], 0, ne * nq * 2)

    # -- quadrature-point positions from the vertices alone (reference coordinates of the vertex nodes are public)
    pe = hm.parentElement
    Rv = onp.asarray(pe.coordinates, onp.float64)[onp.asarray(pe.vertexNodes)]
    lam = onp.linalg.solve(onp.vstack([Rv.T, onp.ones(3)]),
                           onp.vstack([onp.asarray(qr.xigauss, onp.float64).T, onp.ones(nq)]))       # (3, nq)
    Vx = un.coords[un.conns].astype(LD)                                                            # (ne, 3, 2)
    xq = onp.einsum("iq,eic->eqc", lam.astype(LD), Vx)

    if mode == "cart":
        # -- nodal interpolation of every monomial of degree <= order (+1: sharpness) : values and gradients
        exps = monolist(min(order + 1, NMAX))
        deg = onp.array([a + b for a, b in exps])
        U = mono_ld(hcoords, exps).astype(onp.float64)                                             # (nNodes, K)
        val = onp.asarray(FunctionSpace.interpolate_to_points(fs, jnp.asarray(U)), onp.float64)    # (ne, nq, K)
        grd = onp.asarray(FunctionSpace.compute_field_gradient(fs, jnp.asarray(U)), onp.float64)   # (ne, nq, K, 2)
        Ue = onp.abs(U[conns])                                                                     # (ne, npe, K)
        # floors: a shape value / gradient that is exactly zero analytically carries absolute rounding noise of its
        # natural scale (1 resp. the element's gradient scale) times the largest nodal value
        fmax = Ue.max(axis=1)                                                                      # (ne, K)
        cv = codes(val, mono_ld(xq, exps), onp.einsum("eqa,eak->eqk", onp.abs(Sh), Ue) + fmax[:, None, :])
        cg = codes(grd, dmono_ld(xq, exps), onp.einsum("eqac,eak->eqkc", onp.abs(Gr), Ue)
                   + (gmax[:, :, None] * fmax[:, None, :])[..., None])
        mv, rv_, mg, rg_ = [], [], [], []
        for n in range(deg.max() + 1):
            sel = deg == n
            r = reduce_elems(tuple(a[:, :, sel] for a in cv), st, (1, 2))
            mv.append(r[:4]), rv_.append(r[4])
            r = reduce_elems(tuple(a[:, :, sel] for a in cg), st, (1, 2, 3))
            mg.append(r[:4]), rg_.append(r[4])
        nin = int((deg <= order).sum())
        emit("rv", mv, "reproduces_values", rv_, order, ne * nq * nin)
        emit("rg", mg, "reproduces_gradients", rg_, order, ne * nq * nin * 2)
        if detail:
            wit["rv"] = _worst(cv[4], exps, deg, order, val, mono_ld(xq, exps))
            wit["rg"] = _worst(cg[4].max(axis=3), exps, deg, order, grd[..., 0], dmono_ld(xq, exps)[..., 0])
        # -- volumes sum to the area
        area = onp.array([float(sb.x["area"]) for sb in un.subs])
        c = codes(onp.add.reduceat(Vo.sum(axis=1), st), area, onp.add.reduceat(onp.abs(Vo).sum(axis=1), st))
        emit("vol", [c[:4]], "vols_sum_area", [c[4]], 0, nsub)

    # -- integrals of monomials: sum of vols * monomial at the code's own quadrature points, and integrate_over_block
    nint = min(d + 1, NMAX)
    exps = monolist(nint)
    deg = onp.array([a + b for a, b in exps])
    xqc = onp.asarray(FunctionSpace.interpolate_to_points(fs, hm.coords), onp.float64)
    Mq = mono_ld(xqc, exps)                                                                        # (ne, nq, K)
    VoL = Vo.astype(LD)[:, :, None]
    hsum = onp.add.reduceat((VoL * Mq).sum(axis=1), st)                                            # (nsub, K)
    fvert = onp.abs(mono_ld(un.coords[un.conns], exps)).max(axis=1)                                # (ne, K) max |f| at the vertices
    base = onp.add.reduceat((onp.abs(VoL) * onp.abs(Mq)).sum(axis=1) + onp.abs(VoL).sum(axis=1) * fvert, st)
    if mode == "cart":
        orc = onp.array([[float(sb.x["I"][ab]) for ab in exps] for sb in un.subs])
        clause, lim = "integrates_exactly", d
    else:
        orc = onp.array([[2 * math.pi * float(sb.x["I"][(a + 1, b)]) for (a, b) in exps] for sb in un.subs])
        clause, lim = "axisymmetric_exact", d - 1
    cs = [codes(hsum, orc, base)]
    if integrate:
        run = integrator(exps)
        state = jnp.zeros((ne, nq, 1))
        real, tot = run(fs, jnp.zeros(hcoords.shape[0]), state, jnp.eye(len(exps)), jnp.asarray(un.blocks),
                        jnp.asarray(un.weights), jnp.arange(ne))
        real = onp.asarray(real)
        cs.append(codes(real, orc, base))
        # the whole mesh as one block against the sum of the exact integrals
        ct = codes(onp.asarray(tot), orc.astype(LD).sum(axis=0), base.sum(axis=0))
        if mode == "axi" and not all(sb.rpos for sb in un.subs):
            ct = None
    else:
        ct = None
    comb = tuple(onp.logical_or.reduce([c[i] for c in cs]) for i in range(4)) + (onp.maximum.reduce([c[4] for c in cs]),)
    mi, ri = [], []
    for n in range(nint + 1):
        sel = deg == n
        mi.append(tuple(a[:, sel].any(axis=1) for a in comb[:4]))
        ri.append(comb[4][:, sel].max(axis=1))
    nin = int((deg <= lim).sum())
    napp = nsub if mode == "cart" else sum(1 for sb in un.subs if sb.rpos)
    emit("int", mi, clause, ri, lim, napp * nin * len(cs))
    if ct is not None:                                       # one more event: the block of ALL elements
        allsb = Sub.__new__(Sub)
        allsb.name, allsb.lat, allsb.m, allsb.s, allsb.scale, allsb.rpos = "(all)", False, "", 0, 1.0, True
        mk = [mask_of(*(a[deg == n].any() for a in ct[:4])) for n in range(nint + 1)]
        evs.append(event("int", allsb, mk))
        rep.count_clause(clause, nin)
    # sharpness (not a clause): is degree lim+1 really not integrated exactly on the generic sub-meshes?
    if lim + 1 <= nint and d in DISTINCT_RULES:
        for i, sb in enumerate(un.subs):
            if not sb.lat and (mode == "cart" or sb.rpos):
                m = mi[lim + 1]
                stats.sharpness("%s_rule%d_degree_%d" % (mode, d, lim + 1), m[0][i] or m[1][i])
    if detail:
        wit["int"] = _worst_int(comb[4], exps, deg, lim, hsum, orc)
    return evs, wit


def _worst(ratio, exps, deg, lim, real, exact):
    sel = onp.nonzero(deg <= lim)[0]
    r = ratio[:, :, sel]
    e, q, k = onp.unravel_index(int(onp.argmax(r)), r.shape)
    k = int(sel[k])
    return dict(monomial=list(exps[k]), element=int(e), quad_point=int(q), real=float(real[e, q, k]),
                exact=float(exact[e, q, k]), error_over_allowance=float(ratio[e, q, k]))


def _worst_int(ratio, exps, deg, lim, real, exact):
    sel = onp.nonzero(deg <= lim)[0]
    if not len(sel):
        return {}
    r = ratio[:, sel]
    i, k = onp.unravel_index(int(onp.argmax(r)), r.shape)
    k = int(sel[k])
    return dict(monomial=list(exps[k]), real=float(real[i, k]), exact=float(exact[i, k]),
                error_over_allowance=float(ratio[i, k]))


# ----------------------------------------------------------------------------- observation of edge integration
def observe_edges(un, order, bubble, g, stats, rep, detail=False):
    import jax.numpy as jnp
    from optimism import FunctionSpace, QuadratureRule
    hm = un.ho(order, bubble)
    key = ("fs1", order, bubble)
    if key not in un._ho:
        un._ho[key] = FunctionSpace.construct_function_space(hm, QuadratureRule.create_quadrature_rule_on_triangle(1))
    fs = un._ho[key]
    qr = QuadratureRule.create_quadrature_rule_1D(g)
    qr = QuadratureRule.QuadratureRule(jnp.asarray(qr.xigauss), jnp.asarray(qr.wgauss))
    hcoords = onp.asarray(hm.coords, onp.float64)
    edges = jnp.asarray(un.edges)
    est = un.estarts
    nsub = len(un.subs)
    evs, wit = [], {}
    # geometry of the boundary sides for the allowance: length * max |monomial| at the end points
    P = un.coords[un.conns[un.edges[:, 0], un.edges[:, 1]]]
    Q = un.coords[un.conns[un.edges[:, 0], (un.edges[:, 1] + 1) % 3]]
    L = onp.linalg.norm(Q - P, axis=1)

    def run_family(c, exps, lim, real_per, real_tot):
        deg = onp.array([a + b for a, b in exps])
        K = len(exps)
        tt = onp.linspace(0.0, 1.0, 9)[:, None, None]
        sc = onp.abs(mono_ld(P[None] * (1 - tt) + Q[None] * tt, exps)).max(axis=0) * L[:, None].astype(LD)   # (nE, K)
        base = onp.add.reduceat(sc, est, axis=0)                                                           # (nsub, K)
        base = onp.concatenate([base, base], axis=1)
        orc = onp.array([[float(sb.x["EX"][ab]) for ab in exps] + [float(sb.x["EY"][ab]) for ab in exps]
                         for sb in un.subs])
        real = onp.add.reduceat(onp.asarray(real_per, LD).T, est, axis=0)                                   # (nsub, 2K)
        cc = codes(real, orc, base)
        ct = codes(onp.asarray(real_tot), orc.astype(LD).sum(axis=0), base.sum(axis=0))
        deg2 = onp.concatenate([deg, deg])
        for i, sb in enumerate(un.subs):
            mk = [mask_of(*(a[i, deg2 == n].any() for a in cc[:4])) for n in range(deg.max() + 1)]
            evs.append(event(c, sb, mk))
            for n in range(min(lim, deg.max()) + 1):
                stats.see("divergence_theorem", cc[4][i, deg2 == n].max())
        allsb = Sub.__new__(Sub)
        allsb.name, allsb.lat, allsb.m, allsb.s, allsb.scale, allsb.rpos = "(all)", False, "", 0, 1.0, True
        evs.append(event(c, allsb, [mask_of(*(a[deg2 == n].any() for a in ct[:4])) for n in range(deg.max() + 1)]))
        rep.count_clause("divergence_theorem", int((deg2 <= lim).sum()) * (nsub + 1))
        if detail:
            sel = onp.nonzero(deg2 <= lim)[0]
            if len(sel):
                r = cc[4][:, sel]
                i, k = onp.unravel_index(int(onp.argmax(r)), r.shape)
                k = int(sel[k])
                wit[c] = dict(monomial=list(exps[k % K]), component="xy"[k // K], real=float(real[i, k]),
                              exact=float(orc[i, k]), error_over_allowance=float(cc[4][i, k]))

    # field given as a function of the position X
    exps = monolist(min(g + 1, NMAX))
    K = len(exps)
    C = onp.zeros((2 * K, 2, K))
    C[onp.arange(K), 0, onp.arange(K)] = 1.0
    C[K + onp.arange(K), 1, onp.arange(K)] = 1.0
    per, tot = edge_integrator(exps, "x", fs, qr)(jnp.asarray(C), edges, jnp.zeros(hcoords.shape[0]))
    run_family("divx", exps, g, per, tot)
    # field given as nodal values (interpolated along the edge with the 1-D shape functions of the element order)
    expu = monolist(min(order + 1, g + 1, NMAX))
    Ku = len(expu)
    Mn = mono_ld(hcoords, expu).astype(onp.float64)                                                        # (nNodes, Ku)
    Ub = onp.zeros((2 * Ku, hcoords.shape[0], 2))
    Ub[onp.arange(Ku), :, 0] = Mn.T
    Ub[Ku + onp.arange(Ku), :, 1] = Mn.T
    per, tot = edge_integrator(expu, "u", fs, qr)(jnp.asarray(Ub), edges)
    run_family("divu", expu, min(order, g), per, tot)
    if order == 1 and not bubble:
        per, tot = edge_integrator(exps, "s", hm, qr)(jnp.asarray(C), edges)
        run_family("divs", exps, g, per, tot)
    return evs, wit


# ----------------------------------------------------------------------------- 1-D Gauss rules
def observe_gauss(stats, rep, degrees=range(26), detail=False):
    from optimism import QuadratureRule
    import jax.numpy as jnp
    dummy = Sub.__new__(Sub)
    dummy.name, dummy.lat, dummy.m, dummy.s, dummy.scale, dummy.rpos = "std", False, "", 0, 1.0, True
    evs, wit = [], {}
    for var in ("std", "padded"):
        for d in degrees:
            if var == "std":
                q = QuadratureRule.create_quadrature_rule_1D(d)
            else:
                q = QuadratureRule.create_padded_quadrature_rule_1D(jnp.asarray(d))
            xi = onp.asarray(q.xigauss, LD).reshape(-1)
            w = onp.asarray(q.wgauss, LD).reshape(-1)
            ns = onp.arange(0, d + 3)
            pw = xi[None, :] ** ns[:, None].astype(LD)
            real = (w[None, :] * pw).sum(axis=1)
            c = codes(real, 1.0 / (ns + 1.0).astype(LD), (onp.abs(w)[None, :] * onp.abs(pw)).sum(axis=1))
            dummy.name = var
            evs.append(event("g1d", dummy, [mask_of(c[0][n], c[1][n], c[2][n], c[3][n]) for n in range(len(ns))], d=d))
            for n in range(d + 1):
                stats.see("gauss_1d_exact", c[4][n])
            rep.count_clause("gauss_1d_exact", d + 1)
            stats.sharpness("gauss1d_%s_degree_d_plus_%d" % (var, 2 - d % 2), not c[2][d + 2 - d % 2])
            if detail:
                n = int(onp.argmax(c[4][:d + 1]))
                wit[(var, d)] = dict(power=n, real=float(real[n]), exact=1.0 / (n + 1), error_over_allowance=float(c[4][n]),
                                     points=int(len(xi)))
    return evs, wit


# ----------------------------------------------------------------------------- plan
def plan(tier, rng):
    """(fs configs, edge configs): fs = (order, bubble, d, mode, integrate); edge = (order, bubble, g)."""
    fsc, edc = [], []
    ets = ELEMENT_TYPES
    if tier == "quick":
        off = int(rng.integers(6))
        for i, (p, b) in enumerate(ets):
            for j, d in enumerate(DISTINCT_RULES):
                fsc.append((p, b, d, "cart", (i + j + off) % 3 == 0))
            if i % 2 == off % 2:
                fsc.append((p, b, ALIAS_RULES[((i + off) // 2) % 4], "cart", False))
            for j, d in enumerate(DISTINCT_RULES):
                if (i + j + off) % 3 == 1:
                    fsc.append((p, b, d, "axi", (i + 2 * j + off) % 2 == 0))
            gs = {p, int(rng.integers(1, NMAX + 1))}
            for g in sorted(gs):
                edc.append((p, b, g))
        fsc.append((1, True, 2, "cart", False))
        edc.append((1, False, 0))
    else:
        for (p, b) in ets + [(1, True)]:
            for d in range(1, 11):
                fsc.append((p, b, d, "cart", True))
                fsc.append((p, b, d, "axi", True))
            for g in range(0, NMAX + 1):
                if (p, b) != (1, True):
                    edc.append((p, b, g))
    return fsc, edc


def head(tid, kind, p=0, bub=False, d=0, mode="", g=0, ev=None):
    return dict(id=tid, kind=kind, p=int(p), bub=bool(bub), d=int(d), mode=mode, g=int(g), ev=ev or [])


def oracle_trace(tid, subs, oracle, maxdeg):
    evs = []
    for sb in subs:
        if not (sb.lat and sb.scale == 1.0 and sb.s in (0, 3)):
            continue
        rows = []
        for (a, b) in monolist(min(maxdeg, ORC_DEG)):
            o = oracle[(sb.m, sb.s, a, b)]
            rows.append([a, b, sb.x["vs"][(a, b)], 1 if o["hasax"] else 0, sb.x["vs"][(a + 1, b)] if o["hasax"] else 0,
                         sb.x["ex"][(a, b)], sb.x["ey"][(a, b)]])
        evs.append(event("orc", sb, [], orc=rows))
    return head(tid, "oracle", ev=evs)


# ----------------------------------------------------------------------------- TLC oracle
def run_gen(tier, rep):
    t = TIER[tier]
    gen = tlc.run("PolyMeshGen.tla", t["gen"], workers=8, label="design+oracle-" + tier, timeout=1800)
    if not tlc.require_ok(gen, rep, "design"):
        return None
    rep.add_tlc(gen)
    if tier != "quick":
        # unbounded companion: Apalache / Z3 prove that doubled areas and first moments are additive under splitting a triangle at
        # an arbitrary fourth point and invariant under cyclic node order, for ALL integer coordinates; failure = machinery error
        import subprocess
        r = subprocess.run([common.SPECS + "/apalache/run_generic.sh", "PolyMeshAll.tla", "All", "NegControl"],
                           capture_output=True, text=True)
        rep.coverage["apalache"] = [l for l in r.stdout.splitlines() if l.startswith("APALACHE")]
        if r.returncode != 0:
            rep.machinery("apalache check of PolyMeshAll.tla failed: %s" % r.stdout[-400:])
    for a in ("PickMesh", "EvalMono"):
        if gen.action_counts.get(a, 0) == 0:
            rep.machinery("design spec action %s was never taken" % a)
    meshes, oracle = {}, {}
    for o in gen.payloads("OBS"):
        if not isinstance(o, dict):
            rep.machinery("undecodable oracle line: %r" % (o,))
            return None
        if o["k"] == "mesh":
            meshes[(o["m"], o["s"])] = o
        else:
            oracle[(o["m"], o["s"], o["a"], o["b"])] = o
    nm = len(monolist(t["maxdeg"]))
    if len(meshes) != 56 or len(oracle) != 56 * nm:
        rep.machinery("oracle incomplete: %d meshes, %d monomial records (expected 56, %d)" % (len(meshes), len(oracle), 56 * nm))
        return None
    rep.coverage["lattice_meshes_emitted_by_tlc"] = len(meshes)
    rep.coverage["lattice_oracle_records_emitted_by_tlc"] = len(oracle)
    return meshes, oracle


def crosscheck(subs, meshes, oracle, maxdeg, rep):
    """mirror == TLC on the overlap: every integer of every lattice mesh, boundary sides, doubled area."""
    n = 0
    for sb in subs:
        if not (sb.lat and sb.scale == 1.0):
            err = mirror_selfcheck(sb.x, NMAX + 1)
            if err:
                rep.machinery("mirror self-check failed on %s: %s" % (sb.name, err))
            continue
        rec = meshes[(sb.m, sb.s)]
        if sorted((e - 1, k) for e, k, _, _ in rec["bnd"]) != sb.bnd or rec["a2"] != sb.x["a2"] or sb.x["K"] != 0 \
                or rec["rpos"] != sb.rpos:
            rep.machinery("mirror / TLC mesh facts differ on %s" % sb.name)
        for (a, b) in monolist(maxdeg):
            o = oracle[(sb.m, sb.s, a, b)]
            want = (o["vs"], o["ex"], o["ey"])
            got = (sb.x["vs"][(a, b)], sb.x["ex"][(a, b)], sb.x["ey"][(a, b)])
            if want != got or (o["hasax"] and o["ax"] != sb.x["vs"][(a + 1, b)]):
                rep.machinery("mirror / TLC oracle differ on %s x^%d y^%d: %s vs %s" % (sb.name, a, b, want, got))
            n += 1
        err = mirror_selfcheck(sb.x, NMAX + 1)
        if err:
            rep.machinery("mirror self-check failed on %s: %s" % (sb.name, err))
    rep.coverage["mirror_vs_tlc_records_compared"] = n


# ----------------------------------------------------------------------------- main
def case_of(kind, cfg, sb, c, tier):
    d = dict(kind=kind, obs=c, tier=tier)
    if kind == "fs":
        d.update(order=cfg[0], bubble=cfg[1], qdeg=cfg[2], mode=cfg[3], integrate=True)
    elif kind == "edge":
        d.update(order=cfg[0], bubble=cfg[1], gauss_degree=cfg[2])
    if sb is not None:
        d.update(sb.describe())
    return d


def main(tier, replay=None):
    common.setup_paths()
    rep = common.Reporter(PID, tier)
    rep.assumptions = [
        "alpha: three-valued comparison codes computed in 80-bit long double from the float64 results of the real code; "
        "EQ iff |real - exact| <= 1e-11 * (sum of the absolute values of the contributions to the real sum): "
        "sum_a |N_a||f(x_a)| (values), sum_a |dN_a/dx_c||f(x_a)| (gradients), sum_a |N_a| (partition of unity), "
        "sum_q |vol_q||f(x_q)| (integrals), sum over boundary sides of length*max|f| at 9 points of the side (edge "
        "integrals), sum |w_i x_i^n| (1-D rules); floors for analytically vanishing terms: + max_a |f(x_a)| (values), "
        "+ max_a |f(x_a)| * max_a,c |dN_a/dx_c| (gradients), + |element| * max |f| at its vertices (integrals)",
        "exact values: PolyMesh.tla integers (degree <= 6 quick / 7 thorough) on the lattice meshes; beyond that degree and "
        "for float coordinates the same barycentric formula in unbounded integers on the exact dyadic coordinates, "
        "cross-checked against every TLC-emitted integer and against the divergence theorem as a rational identity",
        "quadrature-point positions for the reproduction clauses are the affine images of the rule's points computed from "
        "the three vertex coordinates alone (reference coordinates of the vertex nodes read from ParentElement)",
        "rule's stated degree = the degree passed to create_quadrature_rule_on_triangle / create_quadrature_rule_1D",
        "axisymmetric_exact is read on the integrand the rule sees: 2*pi*r*x^a*y^b has degree a+b+1, required exact for "
        "a+b+1 <= stated degree, on sub-meshes with r = x >= 0; the stricter reading (a+b <= stated degree) is false for "
        "every rule whose true degree equals its stated degree and is reported under coverage.sharpness only",
        "divergence theorem: closed boundary of every sub-mesh, sides (element, local side) from the spec / mirror, "
        "fields (x^a y^b, 0) and (0, x^a y^b); position-based fields for a+b <= g (1-D rule degree), nodal fields for "
        "a+b <= min(order, g); the exact value is int d_c(x^a y^b) dA (= the exact boundary integral by invariants DivX/DivY)",
        "sub-meshes are blocks of one union Mesh (disjoint node sets); replay rebuilds the failing sub-mesh alone; thorough: "
        "4 unions, the random meshes of unions 2 / 3 scaled by 1e-3 / 1e3",
    ]
    rng = onp.random.default_rng(common.seed())
    stats = Stats()
    T = TIER[tier]
    t_start = time.time()

    # ---- TLC design + oracle (in a thread: JAX import and the random meshes are prepared meanwhile)
    box = {}
    rcase = json.load(open(replay))["case"] if replay else None
    need_gen = not (rcase and not rcase.get("lattice") and "coords" in rcase or rcase and rcase.get("kind") == "gauss")
    th = None
    if need_gen:
        th = threading.Thread(target=lambda: box.update(gen=run_gen(rcase.get("tier", tier) if rcase else tier, rep)))
        th.start()
    import jax  # noqa: F401
    import optimism  # noqa: F401

    traces, cases = [], {}

    def add_trace(kind, cfg, evs, un, **hd):
        tid = len(traces) + 1
        traces.append(head(tid, kind, ev=evs, **hd))
        cases[tid] = (kind, cfg, un)

    if replay:
        gtier = rcase.get("tier", tier)
        if need_gen:
            th.join()
            if box.get("gen") is None:
                return rep.finish(rule="design run failed")
        if rcase["kind"] == "gauss":
            evs, _ = observe_gauss(stats, rep, degrees=[rcase["gauss_degree"]])
            evs = [e for e in evs if e["m"] == rcase["variant"]]
            add_trace("gauss", None, evs, None)
        else:
            if "coords" in rcase:
                sb = Sub.from_case(rcase)
                un = Union([sb])
                if sb.lat and sb.scale == 1.0:
                    crosscheck([sb], box["gen"][0], box["gen"][1], TIER[gtier]["maxdeg"], rep)
            else:                                   # a public call raised on the union: re-run the configuration on the
                un = Union(lattice_subs(box["gen"][0]))      # lattice meshes
                try:
                    if rcase["kind"] == "fs":
                        observe_fs(un, rcase["order"], rcase["bubble"], rcase["qdeg"], rcase["mode"], True, stats, rep)
                    else:
                        observe_edges(un, rcase["order"], rcase["bubble"], rcase["gauss_degree"], stats, rep)
                except Exception as ex:
                    rep.fail("no_exception", rcase, repr(ex))
                return rep.finish(rule="replay of a configuration whose public calls raised")
            if rcase["kind"] == "fs":
                cfg = (rcase["order"], rcase["bubble"], rcase["qdeg"], rcase["mode"], True)
                evs, _ = observe_fs(un, *cfg, stats, rep)
                add_trace("fs", cfg, [e for e in evs if e["c"] == rcase["obs"] and e["m"] != "(all)"], un, p=cfg[0], bub=cfg[1], d=cfg[2], mode=cfg[3])
            else:
                cfg = (rcase["order"], rcase["bubble"], rcase["gauss_degree"])
                evs, _ = observe_edges(un, *cfg, stats, rep)
                add_trace("edge", cfg, [e for e in evs if e["c"] == rcase["obs"] and e["m"] != "(all)"], un, p=cfg[0], bub=cfg[1], g=cfg[2])
    else:
        rsubs = [random_subs(rng, T["nrand"], T["npts"], tag="_%d_" % u, mag=MAGNIFY[u]) for u in range(T["unions"])]
        th.join()
        if box.get("gen") is None:
            return rep.finish(rule="design run failed")
        meshes, oracle = box["gen"]
        lsubs = lattice_subs(meshes)
        crosscheck(lsubs + [s for r in rsubs for s in r], meshes, oracle, T["maxdeg"], rep)
        if rep.machinery_errors:
            return rep.finish(rule="oracle cross-check failed")
        rep.coverage["sub_meshes"] = {"lattice": sum(1 for s in lsubs if s.scale == 1.0),
                                      "lattice_scaled": sum(1 for s in lsubs if s.scale != 1.0),
                                      "random_float": sum(len(r) for r in rsubs)}
        rep.coverage["timing_s"] = {"tlc_and_mirror": round(time.time() - t_start, 1)}
        fsc, edc = plan(tier, rng)
        for u in range(T["unions"]):
            # the first union carries the lattice meshes; further unions (thorough) carry new random meshes only
            un = Union((lsubs if u == 0 else lsubs[:8]) + rsubs[u])
            t0 = time.time()
            for cfg in fsc:
                try:
                    evs, _ = observe_fs(un, *cfg, stats, rep)
                except Exception as ex:                                  # a public call raised
                    rep.fail("no_exception", dict(case_of("fs", cfg, None, "exception", tier), mesh="(union)"), repr(ex))
                    continue
                add_trace("fs", cfg, evs, un, p=cfg[0], bub=cfg[1], d=cfg[2], mode=cfg[3])
            t1 = time.time()
            for cfg in edc:
                try:
                    evs, _ = observe_edges(un, *cfg, stats, rep)
                except Exception as ex:
                    rep.fail("no_exception", dict(case_of("edge", cfg, None, "exception", tier), mesh="(union)"), repr(ex))
                    continue
                add_trace("edge", cfg, evs, un, p=cfg[0], bub=cfg[1], g=cfg[2])
            rep.coverage["timing_s"]["union%d_fs" % u] = round(t1 - t0, 1)
            rep.coverage["timing_s"]["union%d_edges" % u] = round(time.time() - t1, 1)
            rep.coverage["union%d" % u] = dict(elements=un.ne, nodes=len(un.coords), boundary_sides=len(un.edges),
                                                 sub_meshes=len(un.subs))
        evs, _ = observe_gauss(stats, rep)
        add_trace("gauss", None, evs, None)
        traces.append(oracle_trace(len(traces) + 1, lsubs, oracle, T["maxdeg"]))
        cases[len(traces)] = ("oracle", None, None)
        rep.coverage["function_spaces"] = len(fsc) * T["unions"]
        rep.coverage["edge_configurations"] = len(edc) * T["unions"]
        rep.coverage["events"] = sum(len(t["ev"]) for t in traces)
        rep.sample(dict(fs=traces[0]["ev"][0], header={k: traces[0][k] for k in ("p", "bub", "d", "mode")}))

    byk = {}

    def on_fail(tid, l, clause):
        kind, cfg, un = cases[tid]
        e = traces[tid - 1]["ev"][l - 1]
        if clause == "oracle_matches_spec":
            rep.machinery("trace spec: oracle of %s/%s differs from the spec" % (e["m"], e["s"]))
            return
        k = (clause, kind, e["c"])
        byk[k] = byk.get(k, 0) + 1
        if kind == "gauss":
            case = dict(kind="gauss", obs="g1d", gauss_degree=e["d"], variant=e["m"], tier=tier,
                        beyond_table=bool(e["m"] == "padded" and e["d"] > 9))      # the padded rules tabulate 1..5 points
            _, wit = observe_gauss(Stats(), common.Reporter(PID, tier), degrees=[e["d"]], detail=True)
            rep.fail(clause, case, wit.get((e["m"], e["d"])))
            return
        name = e["m"]
        if name == "(all)":
            sb, case = None, dict(case_of(kind, cfg, None, e["c"], tier), mesh="(all)")
        else:
            nm = name if not e["lat"] else "%s/%d" % (e["m"], e["s"])
            sb = [s for s in un.subs if s.name == nm][0]
            case = case_of(kind, cfg, sb, e["c"], rcase.get("tier", tier) if rcase else tier)
        if byk[k] > 8 and not replay:                    # every failure is counted; 8 per (clause, class) are written
            return
        det = None
        if sb is not None:
            try:
                one = Union([sb])
                quiet = common.Reporter(PID, tier)
                if kind == "fs":
                    _, wit = observe_fs(one, cfg[0], cfg[1], cfg[2], cfg[3], True, Stats(), quiet, detail=True)
                else:
                    _, wit = observe_edges(one, cfg[0], cfg[1], cfg[2], Stats(), quiet, detail=True)
                det = wit.get(e["c"])
            except Exception as ex:
                det = dict(witness_error=repr(ex))
            if det and "monomial" in det:
                case["monomial"] = det["monomial"]
        rep.fail(clause, case, det)

    t0 = time.time()
    trace.validate("PolyMeshTrace.tla", "PolyMeshTrace.cfg", traces, rep, on_fail=on_fail, chunk=40)
    if byk:
        rep.coverage["failures_by_clause_kind_class"] = {"/".join(k): v for k, v in sorted(byk.items())}
    rep.coverage.setdefault("timing_s", {})["trace_validation"] = round(time.time() - t0, 1)
    rep.coverage["max_error_over_allowance"] = {k: float("%.3g" % v) for k, v in sorted(stats.margin.items())}
    rep.coverage["sharpness"] = {k: "%d of %d inexact" % (v[0], v[1]) for k, v in sorted(stats.sharp.items())}
    if not replay:
        for c in CONTRACT:
            if rep.coverage["clauses_evaluated"].get(c, 0) < 100:
                rep.machinery("clause %s evaluated only %d times" % (c, rep.coverage["clauses_evaluated"].get(c, 0)))
    return rep.finish(
        rule="every (table mesh x cyclic shift) of PolyMesh.tla (TLC-emitted with exact integrals) plus scaled copies and "
             "seeded random float meshes, as blocks of one real Mesh, x element type (order 1..5, bubble) x quadrature "
             "degree x mode; one event per (sub-mesh, observation class) with code masks per polynomial degree; "
             "distinct = (sub-mesh, element type, rule, mode)",
        extra={"distinct_nontrivial": int(rep.coverage.get("function_spaces", 1)) *
               int(sum(rep.coverage.get("sub_meshes", {"x": 1}).values()))},
        exhaustive=(tier == "thorough" and not replay))


if __name__ == "__main__":
    sys.exit(main(common.tier()))
