"""C05 — Bound-constrained trust-region (SPG) solver stays feasible, descends, flags honestly.

(A) TrustRegion.tla with Bounded = TRUE (same convergence-first / ratio / accept skeleton, one trial per outer
    iteration) checked by TLC; BoxProjection.tla (exact lattice model of project / contract of project_onto_tr).
(B) TLC's reduction-ratio-class sequences replayed through the value-oracle proxy into the REAL
    bound_constrained_trust_region_minimize; every lattice instance TLC enumerates replayed (scaled by 10^k)
    into the real project / project_onto_tr.
(C) genuine solves on boxes (finite, one-sided, degenerate), starts in the interior / on faces / on vertices,
    monotone and non-monotone SPG; convex quadratics compared with active-set enumeration.
"""
import itertools
import json
import random
import sys

import numpy as onp

from harness import common, tlc, trace
from checks import trsolve
from checks.c01 import CODE

PID = "C05"

SETTING_VECTORS = [
    dict(),
    dict(spg_use_nonmonotone=False),
    dict(max_trust_iters=2),
    dict(tr_size=1e-3, min_tr_size=2e-4, max_trust_iters=8),
    dict(max_spg_iters=2, max_trust_iters=12),
    dict(eta1=1e-4, eta2=0.25, eta3=0.75, t1=0.5, t2=2.0, max_trust_iters=12),
    dict(tr_size=0.05, max_trust_iters=15, spg_use_nonmonotone=False),
    dict(max_trust_iters=1),
]


def settings_from(d):
    from optimism import TrustRegionSPG
    return TrustRegionSPG.get_settings(**d)


def random_box(rng, n, x_hint=None):
    lb, ub = [], []
    for i in range(n):
        r = rng.random()
        a, b = sorted([rng.uniform(-2, 2), rng.uniform(-2, 2)])
        if r < 0.15:
            a, b = -onp.inf, b
        elif r < 0.3:
            a, b = a, onp.inf
        elif r < 0.4:
            a, b = -onp.inf, onp.inf
        elif r < 0.5:
            b = a                      # degenerate lower == upper
        lb.append(a)
        ub.append(b)
    return onp.array(lb), onp.array(ub)


def feasible_start(rng, lb, ub):
    x = []
    for a, b in zip(lb, ub):
        r = rng.random()
        lo = a if onp.isfinite(a) else (b - 3 if onp.isfinite(b) else -3)
        hi = b if onp.isfinite(b) else (a + 3 if onp.isfinite(a) else 3)
        if r < 0.25 and onp.isfinite(a):
            x.append(a)                # on the lower face
        elif r < 0.5 and onp.isfinite(b):
            x.append(b)                # on the upper face
        else:
            x.append(rng.uniform(lo, hi))
    return x


def box_qp_minimizer(prob, lb, ub):
    """Independent reference for strictly convex quadratics: enumerate active sets (n <= 5)."""
    A = onp.array(prob["A"]); b = onp.array(prob["b"]); n = len(b)
    best, bestv = None, onp.inf
    for pattern in itertools.product((0, -1, 1), repeat=n):
        if any((s == -1 and not onp.isfinite(lb[i])) or (s == 1 and not onp.isfinite(ub[i])) for i, s in enumerate(pattern)):
            continue
        x = onp.zeros(n)
        free = [i for i, s in enumerate(pattern) if s == 0]
        fixed = [i for i, s in enumerate(pattern) if s != 0]
        for i in fixed:
            x[i] = lb[i] if pattern[i] == -1 else ub[i]
        if free:
            rhs = b[free] - A[onp.ix_(free, fixed)] @ x[fixed] if fixed else b[free]
            x[free] = onp.linalg.solve(A[onp.ix_(free, free)], rhs)
        if onp.any(x < lb - 1e-12) or onp.any(x > ub + 1e-12):
            continue
        v = 0.5 * x @ A @ x - b @ x
        if v < bestv:
            best, bestv = x, v
    return best


def build_cases(rep, tier, rng):
    cases = []
    cfg = "TrustRegionSPG_gen.cfg" if tier == "quick" else "TrustRegionSPG_gen_deep.cfg"
    res = tlc.run("TrustRegionGen.tla", cfg, workers=1, label="behaviours", coverage=False)
    scripts = []
    if tlc.require_ok(res, rep, "behaviour generation"):
        rep.add_tlc(res)
        seen = set()
        for b in res.payloads("BEH"):
            codes = tuple(CODE[t["rho"]] for t in b["trials"])
            if codes and codes not in seen:
                seen.add(codes)
                scripts.append(list(codes))
    rep.coverage["distinct_value_scripts"] = len(scripts)
    nset = 2 if tier == "quick" else 6
    i = 0
    for sc in scripts:
        for sv in [0, 3, 1, 5, 4, 6][:nset]:
            kind = ["convex", "indef", "wiggly"][i % 3]
            prob = trsolve.random_problem(rng, 3, kind)
            lb, ub = random_box(rng, 3)
            cases.append(dict(mode="scripted", prob=prob, x0=feasible_start(rng, lb, ub), settings=SETTING_VECTORS[sv],
                              lb=lb.tolist(), ub=ub.tolist(), script=sc))
            i += 1
    kinds = ["convex", "indef", "singular", "scaled_up", "wiggly", "scaled_down"]
    for i in range(50 if tier == "quick" else 2500):
        kind = kinds[i % len(kinds)]
        n = [2, 3, 5][(i // len(kinds)) % 3]
        prob = trsolve.random_problem(rng, n, kind)
        lb, ub = random_box(rng, n)
        sv = dict(SETTING_VECTORS[(i // 2) % len(SETTING_VECTORS)])
        if i % 7 == 3:
            sv["use_incremental_objective"] = True
        cases.append(dict(mode="genuine", prob=prob, x0=feasible_start(rng, lb, ub), settings=sv, lb=lb.tolist(),
                          ub=ub.tolist(), script=None))
    # monotone (exact) spectral line search with bounds / radius active on ill-conditioned problems
    for i in range(60 if tier == "quick" else 800):
        n = [3, 5][i % 2]
        prob = trsolve.random_problem(rng, n, ["indef", "scaled_up", "convex", "indef", "scaled_up", "wiggly"][(i // 2) % 6])
        x0 = [rng.uniform(-3, 3) for _ in range(n)]
        lb = onp.array([v - rng.choice([0.0, 0.02, 0.2, 0.5]) if rng.random() < 0.6 else -onp.inf for v in x0])
        ub = onp.array([v + rng.choice([0.0, 0.02, 0.2, 0.5]) if rng.random() < 0.6 else onp.inf for v in x0])
        cases.append(dict(mode="genuine", prob=prob, x0=x0, lb=lb.tolist(), ub=ub.tolist(), script=None,
                          settings=dict(spg_use_nonmonotone=False, tr_size=rng.choice([0.05, 0.05, 0.05, 0.3, 2.0, 50.0]), max_trust_iters=30)))
    # vertex starts in low dimension: every component of the start sits on one of its bounds, the objective is not
    # quadratic and the radius is large, so the first steps leave a bound and overshoot (the new gradient points back at it)
    for i in range(160 if tier == "quick" else 1600):
        n = [1, 2, 2, 3][i % 4]
        prob = trsolve.random_problem(rng, n, ["wiggly", "indef", "wiggly", "scaled_up"][(i // 4) % 4])
        x0 = [rng.uniform(-2, 2) for _ in range(n)]
        side = [rng.random() < 0.5 for _ in range(n)]
        w = [rng.choice([0.05, 0.3, 1.0, 3.0]) for _ in range(n)]
        lb = onp.array([v if sd else v - wi for v, sd, wi in zip(x0, side, w)])
        ub = onp.array([v + wi if sd else v for v, sd, wi in zip(x0, side, w)])
        cases.append(dict(mode="genuine", prob=prob, x0=x0, lb=lb.tolist(), ub=ub.tolist(), script=None,
                          settings=dict(tr_size=rng.choice([0.3, 2.0, 50.0]), max_trust_iters=40,
                                        spg_use_nonmonotone=bool(i % 2))))
    for i in range(24 if tier == "quick" else 400):
        n = [2, 3, 4][i % 3]
        prob = trsolve.random_problem(rng, n, "convex")
        prob["c4"] = 0.0
        lb, ub = random_box(rng, n)
        cases.append(dict(mode="convex_default", prob=prob, x0=feasible_start(rng, lb, ub), settings={},
                          lb=lb.tolist(), ub=ub.tolist(), script=None))
    cases.append(dict(mode="genuine", prob=trsolve.WITNESS_F1, x0=[0.0], settings={}, lb=[-5.0], ub=[5.0], script=None,
                      witness="F2"))
    return cases


def run_case(c, tid):
    s = dict(c["settings"])
    s.setdefault("debug_info", False)
    st = settings_from(s)
    lb = onp.array(c["lb"], dtype=float)
    ub = onp.array(c["ub"], dtype=float)
    ref = box_qp_minimizer(c["prob"], lb, ub) if c["mode"] == "convex_default" else None
    return trsolve.run("spg", c["prob"], c["x0"], st, script=c.get("script"),
                       bounds=onp.column_stack((lb, ub)), tid=tid, convex_ref=ref)


# ------------------------------------------------------------------ lattice replay of project / project_onto_tr
def projection_traces(rep, tier, rng):
    import jax.numpy as np
    from optimism import TrustRegionSPG
    des = tlc.run("BoxProjection.tla", "BoxProjection.cfg" if tier == "quick" else "BoxProjection_full.cfg",
                  label="BoxProjection-design", timeout=3000)
    if tlc.require_ok(des, rep, "BoxProjection design"):
        rep.add_tlc(des)
    if tier != "quick":
        # unbounded companion (Apalache / Z3): in-box, idempotent, fixes feasible points, nearest box point -- for ALL integer
        # points and boxes; machinery error on failure
        import subprocess
        r = subprocess.run([common.SPECS + "/apalache/run_generic.sh", "BoxProjectionAll.tla", "All", "NegControl"],
                           capture_output=True, text=True)
        rep.coverage["apalache"] = [l for l in r.stdout.splitlines() if l.startswith("APALACHE")]
        if r.returncode != 0:
            rep.machinery("apalache check of BoxProjectionAll.tla failed: %s" % r.stdout[-400:])
    gen = tlc.run("BoxProjection.tla", "BoxProjection_gen.cfg", workers=1, label="BoxProjection-instances", coverage=False)
    if not tlc.require_ok(gen, rep, "BoxProjection instances"):
        return [], {}
    rep.add_tlc(gen)
    inst = gen.payloads("BEH")
    rng.shuffle(inst)
    inst = inst[:1200 if tier == "quick" else len(inst)]
    traces, cases = [], {}
    scales = [10.0 ** k for k in range(-6, 7)]
    for i, b in enumerate(inst):
        sc = scales[i % len(scales)]
        def S(v):
            return -onp.inf if v == -1000 else (onp.inf if v == 1000 else v * sc)
        x = np.array([S(v) for v in b["x"]]); lb = [S(v) for v in b["lb"]]; ub = [S(v) for v in b["ub"]]
        xk = np.array([S(v) for v in b["xk"]])
        bounds = np.column_stack((np.array(lb), np.array(ub)))
        delta = float(onp.sqrt(b["dsq"])) * sc
        tid = 100000 + i
        cases[tid] = dict(mode="projection", inst=b, scale=sc)
        try:
            p = onp.asarray(TrustRegionSPG.project(x, bounds))
            r = onp.asarray(TrustRegionSPG.project_onto_tr(x, xk, bounds, delta))
        except Exception as ex:     # a projection that raises returns no point at all
            rep.fail("projection_raises", dict(cases[tid], what=repr(ex)[:200]))
            continue
        cand = sorted({v for v in (b["x"] + b["lb"] + b["ub"]) if abs(v) < 1000})
        proj = []
        for j in range(2):
            m = [v for v in cand if v * sc == p[j]]
            proj.append(m[0] if m else -999)
        inbox = bool(onp.all(r >= onp.array(lb)) and onp.all(r <= onp.array(ub)))
        inball = bool(onp.linalg.norm(r - onp.asarray(xk)) <= delta * (1 + 1e-9))
        eqp = bool(onp.all(r == p))
        traces.append(dict(id=tid, x=b["x"], lb=b["lb"], ub=b["ub"], xk=b["xk"], dsq=b["dsq"], proj=proj,
                           trInBox=inbox, trInBall=inball, trEqProj=eqp))
    return traces, cases


def main(tier, replay=None):
    common.setup_paths()
    rep = common.Reporter(PID, tier)
    rep.assumptions = [
        "dense sksparse shim (harness/shims) stands in for CHOLMOD",
        "value-oracle replays check only clauses valid for every environment (feasibility, descent on accepted iterates, returns-last, flag => recomputed optimality < tol)",
        "box membership exact (lb <= x <= ub on the float arrays); trust-region membership of project_onto_tr: ||r|| <= Delta (1+1e-9) (brentq xtol)",
        "convex class: strictly convex quadratics, default settings, reference = active-set enumeration; agreement ||x-x*|| <= 1e-6 (1+||x*||)",
        "a RuntimeError of find_generalized_cauchy_point is outside the contract (not a return): such a run has no Return clauses, but every iterate it reported before raising is judged"]
    rng = random.Random(common.seed())
    if replay:
        case = json.load(open(replay))["case"]
        if case["mode"] == "projection":
            print("projection instance:", case)
            cases = []
        else:
            cases = [case]
    else:
        for cfg in ("TrustRegionSPG_design.cfg", "TrustRegionSPG_incr.cfg") + (("TrustRegionSPG_design_big.cfg",) if tier == "thorough" else ()):
            res = tlc.run("TrustRegionGen.tla", cfg, label=cfg)
            tlc.require_ok(res, rep, "design " + cfg)
            rep.add_tlc(res)
        f2 = tlc.run("TrustRegionGen.tla", "TrustRegionSPG_f2.cfg", label="design-F2", coverage=False)
        rep.coverage["design_counterexample_NoUphillConvergence"] = ("NoUphillConvergence" in f2.violated)
        cases = build_cases(rep, tier, rng)
    traces, kept = [], []
    dropped = 0
    for i, c in enumerate(cases):
        t = run_case(c, i + 1)
        if t["ev"][-1]["e"] == "Raised" and t["ev"][-1].get("cauchy"):
            dropped += 1            # counted; the trace is kept: iterates reported before the raise are still judged
        traces.append(t)
        kept.append(c)
    rep.coverage["runs_ending_in_cauchy_runtimeerror"] = dropped
    ids = {t["id"]: c for t, c in zip(traces, kept)}
    by_id = {t["id"]: t for t in traces}
    for t in traces:
        for j, e in enumerate(t["ev"]):
            if e["e"] == "Report":
                nxt = t["ev"][j + 1] if j + 1 < len(t["ev"]) else {}
                cx = nxt.get("e") == "Return" and nxt.get("flag")
                rep.count_clause("descent_convexit" if cx else "descent", 0 if (t["incr"] or (cx and t["scripted"])) else 1)
                rep.count_clause("feasible")
                rep.count_clause("finite")
            elif e["e"] == "Return":
                rep.count_clause("returns_last")
                rep.count_clause("feasible")
                rep.count_clause("honest_flag", 1 if e["flag"] else 0)
                rep.count_clause("convex_succeeds", 1 if t["convex"] else 0)
            elif e["e"] == "Trial":
                rep.count_clause("drift_accept")
    exits = {}
    for t in traces:
        last = t["ev"][-1]
        k = "raised" if last["e"] != "Return" else ("success" if last["flag"] else "fail")
        exits[k] = exits.get(k, 0) + 1
    rep.coverage["exit_kinds"] = exits
    if traces:
        rep.sample(dict(case={k: v for k, v in kept[0].items() if k != "prob"}, events=traces[0]["ev"][:8]))

    def on_fail(tid, l, clause):
        c = dict(ids[tid]); c["event"] = l; c["events"] = by_id[tid]["ev"]
        if clause == "feasible":
            c["ulp_level"] = by_id[tid]["ev"][l - 1].get("feasClass") == "ulp"
        rep.fail(clause, c)
    for t in traces:
        t.pop("n_scripted", None)
    trace.validate("TrustRegionTrace.tla", "TrustRegionTrace.cfg", traces, rep, on_fail=on_fail)
    if not replay:
        ptraces, pcases = projection_traces(rep, tier, rng)
        for c in ("project_closest", "tr_in_box", "tr_in_ball", "tr_is_proj_when_inside"):
            rep.count_clause(c, len(ptraces))
        if ptraces:
            rep.sample(ptraces[0])
        trace.validate("BoxProjectionTrace.tla", "BoxProjectionTrace.cfg", ptraces, rep,
                       on_fail=lambda tid, l, clause: rep.fail(clause, pcases[tid]))
    nd = len({json.dumps([e.get("rho", e["e"]) for e in t["ev"]]) for t in traces})
    return rep.finish(rule="scripted: one real SPG solve per distinct reduction-ratio-class sequence emitted by TLC "
                           "(value-oracle proxy) x boxes; genuine: seeded family x boxes x setting vectors; lattice "
                           "projection instances enumerated by TLC; distinct = distinct abstract event sequences",
                      extra={"distinct_nontrivial": nd})


if __name__ == "__main__":
    sys.exit(main(common.tier()))
