"""C07 — Solution sensitivities equal implicit-function-theorem derivatives.

(A) Sensitivity.tla: forward/backward protocol over multi-step histories and the parameter-slot routing
    (which present slots receive a cotangent from which Jacobian; slots 3, 5 never), checked by TLC.
(B) every (present-slot set, number of steps) TLC explores is executed on the REAL
    inverse.NonlinearSolve.nonlinear_solve_with_state (and nonlinear_solve for the design slot): single solves
    through jax.vjp with random cotangents, chains of solves with a differentiable state update through jax.grad.
(C) cotangents are compared with dense implicit-function references (single step: -v^T H^-1 dg/dp with H, dg/dp
    from jax.jacfwd at the converged point; chains: the same chain with the solve replaced by an unrolled dense
    Newton iteration); helper vjps of MechanicsInverse vs dense Jacobian transposes; adjoint function space vs direct
    construction.  The equality judgement is alpha (rtol 1e-6); presence, routing and ordering are judged by
    SensitivityTrace.tla.
"""
import json
import random
import sys

import numpy as onp

from harness import common, tlc, trace
from harness.proxies import ObjectiveProxy, Silence, _fp

PID = "C07"
N = 4
RT = 1e-6
_OBJ = {}


def make_data(rng):
    Q, _ = onp.linalg.qr(onp.array([[rng.gauss(0, 1) for _ in range(N)] for _ in range(N)]))
    A = Q @ onp.diag([10 ** rng.uniform(0, 1) for _ in range(N)]) @ Q.T
    return dict(A=(0.5 * (A + A.T)).tolist(),
                B=[[rng.gauss(0, 1) for _ in range(2)] for _ in range(N)],
                C=[[rng.gauss(0, 1) for _ in range(3)] for _ in range(N)],
                G=[[rng.gauss(0, 0.5) for _ in range(N)] for _ in range(3)],
                w=[rng.gauss(0, 1) for _ in range(N)], c4=rng.uniform(0.02, 0.3))


DATA = {}


def energy(x, p):
    """Smooth parameterised energy with SPD Hessian; absent slots (None) simply drop their term."""
    import jax.numpy as np
    A, B, C, w, c4 = (np.array(DATA[k]) for k in ("A", "B", "C", "w", "c4"))
    e = 0.5 * x @ (A @ x) + c4 * np.sum(x ** 4) - x @ (B @ p[0])
    if p[1] is not None:
        e = e - x @ (C @ np.tanh(p[1]))
    if p[2] is not None:
        e = e + 0.5 * np.sum(np.exp(p[2]) * x * x)
    if p[4] is not None:
        e = e + p[4] * (w @ x)
    return e


def get_obj(present):
    """one real Objective per presence pattern (jit retraces per pytree structure anyway)"""
    import jax.numpy as np
    from optimism import Objective
    key = tuple(present)
    if key not in _OBJ:
        with Silence():
            _OBJ[key] = Objective.Objective(energy, np.zeros(N), make_params(present, [0.1, 0.1], [0.0] * 3, [0.0] * N, 0.5))
    return _OBJ[key]


def make_params(present, p0, p1, p2, p4):
    import jax.numpy as np
    from optimism import Objective
    return Objective.Params(bc_data=np.array(p0, dtype=float),
                            state_data=np.array(p1, dtype=float) if present[1] else None,
                            design_data=np.array(p2, dtype=float) if present[2] else None,
                            app_data=np.array([1.0, 2.0]) if present[3] else None,
                            time=np.array(float(p4)) if present[4] else None,
                            dynamic_data=np.array([3.0]) if present[5] else None)


def settings():
    from optimism import EquationSolver
    return EquationSolver.get_settings(tol=1e-12, cg_inexact_solve_ratio=1e-12, debug_info=False)


def close(a, b):
    a = onp.asarray(a, dtype=float); b = onp.asarray(b, dtype=float)
    scale = float(onp.max(onp.abs(b))) if b.size else 1.0
    return a.shape == b.shape and bool(onp.all(onp.abs(a - b) <= RT * scale + 1e-10 * max(scale, 1e-3)))


def backward_events(log, fps):
    """groups of vec_jac calls = backward rules; which step's parameters were installed"""
    ev, cur = [], None
    for it in log:
        if it[0] == "vec_jac":
            if cur is None:
                cur = dict(e="Bwd", k=fps.get(it[3], 0), reinstalled=it[3] in fps, calls=[])
            cur["calls"].append(it[1])
        elif it[0] in ("set_p", "update_precond") and cur is not None:
            ev.append(cur); cur = None
    if cur is not None:
        ev.append(cur)
    return ev


def single_step(present, rng, tid, which="with_state"):
    import jax
    import jax.numpy as np
    from optimism import Objective
    from optimism.inverse import NonlinearSolve
    real = get_obj(present)
    p = make_params(present, [rng.uniform(-1, 1) for _ in range(2)], [rng.uniform(-1, 1) for _ in range(3)],
                    [rng.uniform(-0.5, 0.5) for _ in range(N)], rng.uniform(-1, 1))
    real.p = make_params(present, [0.0, 0.0], [0.0] * 3, [0.0] * N, 0.0)
    proxy = ObjectiveProxy(real)
    st = settings()
    # "every cotangent vector": the pull-back is linear in it, also for cotangents much larger / smaller than the Hessian scale
    v = np.array([rng.gauss(0, 1) for _ in range(N)]) * 10.0 ** rng.choice([-2, 0, 0, 3])
    x0 = np.array([rng.uniform(-0.2, 0.2) for _ in range(N)])
    ev = [dict(e="Fwd", k=1)]
    try:
        with Silence():
            if which == "with_state":
                out, vjpf = jax.vjp(lambda g, pp: NonlinearSolve.nonlinear_solve_with_state(proxy, st, g, pp), x0, p)
                ctg, ctp = vjpf(v)
            else:
                real.p = p
                out, vjpf = jax.vjp(lambda g, d: NonlinearSolve.nonlinear_solve(proxy, st, g, d), x0, p[2])
                ctg, ct2 = vjpf(v)
                ctp = [None, None, ct2, None, None, None]
    except Exception as ex:  # noqa
        ev.append(dict(e="Raised", what=repr(ex)[:160]))
        return dict(id=tid, present=present, ev=ev)
    fps = {_fp(p): 1}
    ev += backward_events(proxy._log, fps)
    g = jax.grad(energy, 0)
    H = jax.hessian(energy, 0)(out, p)
    for slot in range(6):
        got = ctp[slot]
        if which == "design" and slot != 2:
            continue
        if present[slot] and slot in (0, 1, 2, 4):
            J = jax.jacfwd(lambda q: g(out, Objective.param_index_update(p, slot, q)))(p[slot])
            ref = -(v @ np.linalg.solve(H, J.reshape(N, -1))).reshape(np.shape(p[slot]))
            code = "EQ" if (got is not None and close(got, ref)) else "NE"
        else:
            # JAX turns the rule's None for a present leaf (app_data / dynamic_data) into a zero cotangent
            code = "none" if (got is None or (slot in (3, 5) and bool(onp.all(onp.asarray(got) == 0.0)))) else "unexpected"
        ev.append(dict(e="Cot", slot=slot, code=code))
    ev.append(dict(e="Guess", zero=bool(onp.all(onp.asarray(ctg) == 0.0))))
    return dict(id=tid, present=present, ev=ev)


def chain(present, K, rng, tid):
    """K load steps with a differentiable state update in between, differentiated with jax.grad."""
    import jax
    import jax.numpy as np
    from optimism.inverse import NonlinearSolve
    real = get_obj(present)
    proxy = ObjectiveProxy(real)
    st = settings()
    G = np.array(DATA["G"])
    wscale = 10.0 ** rng.choice([-2, 0, 0, 3])        # loss weights = cotangents seen by the solves
    cs = [np.array([rng.gauss(0, 1) for _ in range(N)]) * wscale for _ in range(K)]
    ds = [np.array([rng.gauss(0, 1) for _ in range(3)]) * wscale for _ in range(K)]
    th0 = np.array([rng.uniform(0.3, 1) for _ in range(2)]); s0 = np.array([rng.uniform(-0.5, 0.5) for _ in range(3)])
    th2 = np.array([rng.uniform(-0.5, 0.5) for _ in range(N)]); th4 = np.array(rng.uniform(0.2, 1))

    def run(solve, th0, s0, th2, th4):
        x = np.zeros(N); s = s0; loss = 0.0
        for k in range(1, K + 1):
            p = make_params_traced(present, th0 * (k / K), s, th2, th4 * k)
            x = solve(x, p)
            if present[1]:
                s = np.tanh(s + G @ x)
                loss = loss + ds[k - 1] @ s
            loss = loss + cs[k - 1] @ x
        return loss

    def lib_solve(x, p):
        return NonlinearSolve.nonlinear_solve_with_state(proxy, st, x, p)

    def ref_solve(x, p):            # dense Newton, unrolled: its derivative at convergence is the IFT derivative
        x = jax.lax.stop_gradient(x)
        for _ in range(30):
            x = x - np.linalg.solve(jax.hessian(energy, 0)(x, p), jax.grad(energy, 0)(x, p))
        return x
    ev = [dict(e="Fwd", k=k) for k in range(1, K + 1)]
    args = (th0, s0, th2, th4)
    argn = tuple(i for i, s in enumerate((0, 1, 2, 4)) if present[s])
    try:
        with Silence():
            real.p = make_params(present, [0.0, 0.0], [0.0] * 3, [0.0] * N, 0.0)
            glib = jax.grad(lambda *a: run(lib_solve, *a), argnums=argn)(*args)
    except Exception as ex:  # noqa
        ev.append(dict(e="Raised", what=repr(ex)[:160]))
        return dict(id=tid, present=present, ev=ev)
    gref = jax.grad(lambda *a: run(ref_solve, *a), argnums=argn)(*args)
    fps = {onp.asarray(th0 * (k / K), dtype=onp.float64).tobytes(): k for k in range(1, K + 1)}
    ev += backward_events(proxy._log, fps)
    for gi, slot in zip(range(len(argn)), [s for s in (0, 1, 2, 4) if present[s]]):
        ev.append(dict(e="Cot", slot=slot, code="EQ" if close(glib[gi], gref[gi]) else "NE"))
    for slot in range(6):
        if not (present[slot] and slot in (0, 1, 2, 4)):
            ev.append(dict(e="Cot", slot=slot, code="none"))
    return dict(id=tid, present=present, ev=ev)


def make_params_traced(present, p0, p1, p2, p4):
    import jax.numpy as np
    from optimism import Objective
    return Objective.Params(bc_data=p0, state_data=p1 if present[1] else None, design_data=p2 if present[2] else None,
                            app_data=np.array([1.0, 2.0]) if present[3] else None, time=p4 if present[4] else None,
                            dynamic_data=np.array([3.0]) if present[5] else None)


def update_events(tid):
    from optimism import Objective
    ev = []
    base = Objective.Params("a", "b", "c", "d", "e", "f")
    for s in range(6):
        q = Objective.param_index_update(base, s, "NEW")
        ok = q is not None and all((q[i] == "NEW") if i == s else (q[i] == base[i]) for i in range(6))
        ev.append(dict(e="Update", slot=s, ok=bool(ok)))
    return dict(id=tid, present=[True] * 6, ev=ev)


# ------------------------------------------------------------------ FE helpers (MechanicsInverse, AdjointFunctionSpace)
def fe_events(rng, tid, material="j2"):
    import jax
    import jax.numpy as np
    from optimism import Mesh, FunctionSpace, QuadratureRule, Mechanics, Interpolants
    from optimism.inverse import MechanicsInverse, AdjointFunctionSpace
    from optimism.material import J2Plastic, Neohookean
    ev = []
    mesh = Mesh.construct_structured_mesh(3, 3, [0.0, 1.0], [0.0, 1.0])
    coords0 = onp.asarray(mesh.coords)
    pert = onp.array([[rng.uniform(-0.05, 0.05) for _ in range(2)] for _ in range(coords0.shape[0])])
    quad = QuadratureRule.create_quadrature_rule_on_triangle(degree=2)
    DT = 0.0
    if material == "visco":
        # rate-dependent state update: every helper must be evaluated at the SAME non-zero time step
        from optimism.material import HyperViscoelastic
        mat = HyperViscoelastic.create_material_model_functions({'equilibrium bulk modulus': 25.0, 'equilibrium shear modulus': 5.0,
                                                                  'non equilibrium shear modulus': 8.0, 'relaxation time': 0.7})
        DT = 0.35
    elif material == "j2":
        props = {'elastic modulus': 100.0, 'poisson ratio': 0.3, 'yield strength': 3.0,
                 'kinematics': 'small deformations', 'hardening model': 'linear', 'hardening modulus': 5.0}
        mat = J2Plastic.create_material_model_functions(props)
    else:
        mat = Neohookean.create_material_model_functions({'elastic modulus': 10.0, 'poisson ratio': 0.3, 'version': 'coupled'})
    shapeOnRef = Interpolants.compute_shapes(mesh.parentElement, quad.xigauss)

    def direct_space(coords):
        m = Mesh.construct_mesh_from_basic_data(coords, mesh.conns, mesh.blocks, mesh.nodeSets, mesh.sideSets)
        return FunctionSpace.construct_function_space(m, quad)

    moved = np.array(coords0 + pert)
    fsA = AdjointFunctionSpace.construct_function_space_for_adjoint(moved, shapeOnRef, mesh, quad)
    fsD = direct_space(moved)
    same = all(bool(onp.allclose(onp.asarray(getattr(fsA, f)), onp.asarray(getattr(fsD, f)), rtol=0, atol=1e-14))
               for f in ("shapes", "vols", "shapeGrads")) and bool(onp.all(onp.asarray(fsA.mesh.coords) == onp.asarray(fsD.mesh.coords))) \
        and bool(onp.all(onp.asarray(fsA.mesh.conns) == onp.asarray(fsD.mesh.conns)))
    ev.append(dict(e="Space", code="EQ" if same else "NE"))

    fs = direct_space(np.array(coords0))
    mech = Mechanics.create_mechanics_functions(fs, "plane strain", mat)
    U = np.array([[0.08 * c[0] + 0.03 * c[1] + rng.uniform(-0.004, 0.004), -0.02 * c[0] + 0.09 * c[1] + rng.uniform(-0.004, 0.004)] for c in coords0])
    ivs0 = mech.compute_initial_state()
    ivs = mech.compute_updated_internal_variables(0.6 * U, ivs0, DT) if DT else mech.compute_updated_internal_variables(0.6 * U, ivs0)       # an admissible non-virgin state

    def upd_coords(Uf, iv, coords):
        mf = Mechanics.create_mechanics_functions(direct_space(coords), "plane strain", mat)
        return mf.compute_updated_internal_variables(Uf, iv, DT) if DT else mf.compute_updated_internal_variables(Uf, iv)

    def energy_coords(Uf, iv, coords):
        mf = Mechanics.create_mechanics_functions(direct_space(coords), "plane strain", mat)
        return mf.compute_strain_energy(Uf, iv, DT) if DT else mf.compute_strain_energy(Uf, iv)

    inv = MechanicsInverse.create_ivs_update_inverse_functions(fs, "plane strain", mat)
    av = np.array(onp.array([rng.gauss(0, 1) for _ in range(int(onp.prod(ivs.shape)))]).reshape(ivs.shape))
    c0 = np.array(coords0)
    # d ivs_new / d ivs_prev (block diagonal per quadrature point)
    got = inv.ivs_update_jac_ivs_prev(U, ivs, DT)
    Jfull = jax.jacfwd(lambda iv: upd_coords(U, iv, c0))(ivs)          # (ne,nq,ns, ne,nq,ns)
    ne, nq, ns = ivs.shape
    ref = onp.zeros((ne, nq, ns, ns))
    Jn = onp.asarray(Jfull)
    offdiag = 0.0
    for e in range(ne):
        for q in range(nq):
            ref[e, q] = Jn[e, q, :, e, q, :]
    tot = float(onp.abs(Jn).sum()); diag = float(onp.abs(ref).sum())
    ev.append(dict(e="Helper", name="ivs_update_jac_ivs_prev", code="EQ" if (close(got, ref) and abs(tot - diag) <= 1e-9 * (1 + tot)) else "NE"))
    got = inv.ivs_update_jac_disp_vjp(U, ivs, av, DT)
    ref = jax.vjp(lambda u: upd_coords(u, ivs, c0), U)[1](av)[0] if False else \
        onp.tensordot(onp.asarray(av), onp.asarray(jax.jacfwd(lambda u: upd_coords(u, ivs, c0))(U)), axes=3)
    ev.append(dict(e="Helper", name="ivs_update_jac_disp_vjp", code="EQ" if close(got, ref) else "NE"))
    got = inv.ivs_update_jac_coords_vjp(U, ivs, c0, av, DT)
    ref = onp.tensordot(onp.asarray(av), onp.asarray(jax.jacfwd(lambda x: upd_coords(U, ivs, x))(c0)), axes=3)
    ev.append(dict(e="Helper", name="ivs_update_jac_coords_vjp", code="EQ" if close(got, ref) else "NE"))

    def energy_adjoint(Uf, iv, x):
        # what a user passes to the helper factories: traceable under jit, built on the adjoint function space
        afs = AdjointFunctionSpace.construct_function_space_for_adjoint(x, shapeOnRef, mesh, quad)
        mfa = Mechanics.create_mechanics_functions(afs, "plane strain", mat)
        return mfa.compute_strain_energy(Uf, iv, DT) if DT else mfa.compute_strain_energy(Uf, iv)

    def efun(Uf, q, iv, x):
        return energy_adjoint(Uf, iv, x)
    rinv = MechanicsInverse.create_path_dependent_residual_inverse_functions(efun)
    vx = np.array(onp.array([rng.gauss(0, 1) for _ in range(U.size)]).reshape(U.shape))
    got = rinv.residual_jac_ivs_prev_vjp(U, None, ivs, c0, vx)
    Jr = jax.jacfwd(lambda iv: jax.grad(energy_coords, 0)(U, iv, c0))(ivs)
    ev.append(dict(e="Helper", name="residual_jac_ivs_prev_vjp", code="EQ" if close(got, onp.tensordot(onp.asarray(vx), onp.asarray(Jr), axes=2)) else "NE"))
    got = rinv.residual_jac_coords_vjp(U, None, ivs, c0, vx)
    Jr = jax.jacfwd(lambda x: jax.grad(energy_coords, 0)(U, ivs, x))(c0)
    ev.append(dict(e="Helper", name="residual_jac_coords_vjp", code="EQ" if close(got, onp.tensordot(onp.asarray(vx), onp.asarray(Jr), axes=2)) else "NE"))
    r2 = MechanicsInverse.create_residual_inverse_functions(lambda Uf, q, x: energy_adjoint(Uf, ivs, x))
    got = r2.residual_jac_coords_vjp(U, None, c0, vx)
    ev.append(dict(e="Helper", name="residual_jac_coords_vjp(stateless)", code="EQ" if close(got, onp.tensordot(onp.asarray(vx), onp.asarray(Jr), axes=2)) else "NE"))
    return dict(id=tid, present=[True] * 6, ev=ev)


def main(tier, replay=None):
    common.setup_paths()
    rep = common.Reporter(PID, tier)
    rep.assumptions = [
        "dense sksparse shim stands in for CHOLMOD",
        "equality of cotangents is judged by alpha with rtol 1e-6 (solver tol 1e-12, adjoint CG ratio 1e-12); the spec decides presence, routing and ordering",
        "reference for single solves: -v^T H^-1 dg/dp_slot with H and dg/dp from jax.jacfwd at the converged point; for chains: the same chain with the solve replaced by 30 unrolled dense Newton iterations",
        "helper vjps compared with dense jax.jacfwd Jacobians of the library's own forward functions built on a directly constructed function space"]
    rng = random.Random(common.seed())
    DATA.update(make_data(random.Random(common.seed() + 17)))
    traces, cases = [], {}
    if replay:
        c = json.load(open(replay))["case"]
        DATA.update(c["data"])
        r = random.Random(c["seed"])
        t = {"single": lambda: single_step(c["present"], r, 1, c.get("which", "with_state")),
             "chain": lambda: chain(c["present"], c["K"], r, 1),
             "update": lambda: update_events(1),
             "fe": lambda: fe_events(r, 1, c.get("material", "j2"))}[c["mode"]]()
        traces.append(t); cases[1] = c
    else:
        des = tlc.run("Sensitivity.tla", "Sensitivity.cfg" if tier == "quick" else "Sensitivity_all.cfg", workers=1, label="design")
        tlc.require_ok(des, rep, "design")
        rep.add_tlc(des)
        behs = des.payloads("BEH")
        rep.coverage["behaviours_from_tlc"] = len(behs)
        tid = 0
        seen = set()
        for b in behs:
            key = (tuple(b["present"]), b["steps"])
            if key in seen:
                continue
            seen.add(key)
            present, K = list(b["present"]), b["steps"]
            if tier == "quick" and ((K == 3 and sum(present) != 4) or (K == 2 and sum(present) not in (1, 3, 6))):
                continue                # quick: all single steps, four 2-step chains, one 3-step chain
            s = rng.randrange(1 << 30)
            tid += 1
            if K == 1:
                traces.append(single_step(present, random.Random(s), tid))
                cases[tid] = dict(mode="single", present=present, seed=s, data=dict(DATA))
                if present[2]:
                    s2 = rng.randrange(1 << 30); tid += 1
                    traces.append(single_step(present, random.Random(s2), tid, which="design"))
                    cases[tid] = dict(mode="single", which="design", present=present, seed=s2, data=dict(DATA))
            else:
                traces.append(chain(present, K, random.Random(s), tid))
                cases[tid] = dict(mode="chain", present=present, K=K, seed=s, data=dict(DATA))
        tid += 1
        traces.append(update_events(tid)); cases[tid] = dict(mode="update", data=dict(DATA), seed=0)
        for mat in (("j2", "visco") if tier == "quick" else ("j2", "neohookean", "visco", "j2", "neohookean", "visco")):
            s = rng.randrange(1 << 30); tid += 1
            traces.append(fe_events(random.Random(s), tid, mat))
            cases[tid] = dict(mode="fe", material=mat, seed=s, data=dict(DATA))
    for t in traces:
        for e in t["ev"]:
            name = {"Cot": "cotangent_equals_ift" if e.get("code") in ("EQ", "NE") else "absent_slot_has_none",
                    "Guess": "guess_cotangent_zero", "Helper": "helper_vjp_equals_dense_transpose",
                    "Space": "adjoint_space_identical", "Update": "param_update_exact_slot", "Bwd": "drift_routing"}.get(e["e"])
            if name:
                rep.count_clause(name)
    if traces:
        rep.sample(traces[0]); rep.sample(traces[len(traces) // 2]); rep.sample(traces[-1])

    def on_fail(tid, l, clause):
        c = dict(cases[tid]); c["event"] = l
        c["events"] = [t for t in traces if t["id"] == tid][0]["ev"]
        rep.fail(clause, c)
    trace.validate("SensitivityTrace.tla", "SensitivityTrace.cfg", traces, rep, on_fail=on_fail)
    nd = len({json.dumps([t["present"], [e["e"] for e in t["ev"]]]) for t in traces})
    return rep.finish(rule="one real differentiated computation per (present-slot set, number of load steps) explored "
                           "by TLC on Sensitivity.tla (single solves via jax.vjp, chains via jax.grad), plus helper-vjp "
                           "and adjoint-function-space comparisons on FE problems; distinct = distinct (presence, event "
                           "kinds) sequences", extra={"distinct_nontrivial": nd})


if __name__ == "__main__":
    sys.exit(main(common.tier()))
