"""C06 — Trust-region subproblem steps respect the radius and beat the Cauchy step.

Three real functions are driven directly with synthetic operators (no source hooks):

  optimism.EquationSolver.solve_trust_region_minimization   <-> specs/SteihaugCG.tla   (+ SubproblemGen.tla, SteihaugCGTrace.tla)
  optimism.EquationSolver.dogleg_step                       <-> specs/Dogleg.tla       (+ DoglegTrace.tla)
  optimism.treigen.treigen.solve                            <-> specs/TREigen.tla      (+ TREigenTrace.tla)

(A) TLC checks the three design specs exhaustively (plus design mutants it must reject: "-" root of the boundary
    quadratic, unfaithful norm tracking, row instead of column eigenvector in the hard case).
(B) TLC enumerates the path catalogue of the truncated-CG loop (inner-product mode x iteration cap x exit type x
    exit iteration) and the lattice instances (cc, nn, tt) of the dogleg; a seeded search over synthetic operators
    H = Q diag(sigma) Q^T, preconditioners and radii realises every catalogued CG path on the REAL solver; lattice
    dogleg instances are replayed with exactly representable vectors.
(C) every real call is observed through recording hess_vec / precond callables and its return value, abstracted
    (alpha below) to classes / comparison codes and judged by TLC in the trace specs.  Further seeded families
    (n = 1..40, spectra with repeated / zero / negative eigenvalues, gradients orthogonal to the lowest eigenspace,
    preconditioners exact .. poor, radii over 12 decades, general eigenbases) widen the input space.

Contract clauses (only these raise VIOLATION; every one is shown to be able to fail by corrupted copies of valid
traces validated in the same TLC run, see Binding):
  cg_returns cg_step_type   the call returns one of the four step types
  cg_inside                 norm in the configured inner product <= Delta (1 + 1e-8)
  cg_on_boundary            'boundary' / 'neg curve'  =>  |norm/Delta - 1| <= 1e-8
  cg_gross_norm             the two predicates above with allowance 5e-2 (separate name: not masked by a known finding)
  cg_never_increases        model(step) <= 0
  cg_beats_cauchy           iterations >= 1  =>  model(step) <= model(clipped Cauchy step)
  cg_newton_residual        'interior'  =>  |g + H z| <= sqrt(max(cg_tol^2, ratio^2 g.g)) and inside
  dog_returns dog_finite dog_inside dog_on_path
  tre_returns (terminates within TRE_TIMEOUT) tre_finite tre_inside
  tre_global_min            model(step) <= minimum over the ball (dense dual reference)
  tre_certificate           More-Sorensen certificate (A + lam I) s = -b, lam >= max(0, -lambda_min), lam (Delta - |s|) = 0
Mechanism clauses (drift_*, never fail the check): drift_path, drift_cauchy_out, drift_monotone, drift_tracking,
  drift_branch, drift_lattice, drift_case.
Case features for KNOWN_FINDINGS signatures: long_recurrence_path (cg); hard_case, near_hard, b_zero, zero_matrix,
  tre_case, basis (treigen).
"""
import contextlib
import io
import json
import math
import random
import signal
import sys

import numpy as onp

from harness import common, tlc, trace

PID = "C06"
EPS = 2.220446049250313e-16

# ------------------------------------------------------------------------------------------- alpha constants
NTOL = 1e-8            # |norm/Delta - 1| <= NTOL  <=> "on the boundary"; norm/Delta <= 1 + NTOL <=> inside
NTOL_GROSS = 5e-2      # backstop clause cg_gross_norm (kept separate so that a known finding on the 1e-8 clauses
                       # for long recurrence-mode paths cannot mask a gross error)
SHORT = 4              # = MaxCG of the TLC path catalogue; longer recurrence-mode paths carry long_recurrence_path=true
MODEL_RTOL = 1e-9      # model value comparison (CG)
TRE_MODEL_RTOL = 1e-8  # model value comparison (treigen: its own 1e-9 norm tolerance enters with factor <= 2)
ROUND = 64 * EPS       # rounding of evaluating g.z + z.Hz/2 in float64, times (|H| |z|^2 + |g| |z|)
RES_RTOL = 1e-6        # Newton residual: |g + H z| <= sqrt(cgTolSquared) (1 + RES_RTOL) + rounding
STAT_TOL = 1e-6        # treigen stationarity: |(A + lam I) s + b| <= STAT_TOL (|A| |s| + |b|)
LAM_TOL = 1e-6         # treigen multiplier classes relative to |A|
PATH_TOL = 1e-9        # dogleg: distance to the polyline <= PATH_TOL * max(|cp|, |newton|) (M-norm)
MAX_COND_M = 1e6       # conditioning of the preconditioner matrices generated (norm measurement is exact to cond*eps)
RADIUS_MIN, RADIUS_MAX = 1e-15, 1e15   # absolute radii generated (no overflow of squared quantities)
REL_RADIUS_MIN, REL_RADIUS_MAX = 1e-6, 1e6   # radius / (|g|/|H|): the twelve decades of the quantifier
TRE_TIMEOUT = 5.0      # CPU seconds before a treigen.solve call is declared non-terminating

ASSUMPTIONS = [
    "radii: Delta / (|g|/|H|) in [1e-6, 1e6] (configured norm), absolute values in [1e-15, 1e15]; cond(H) <= 1e8 for "
    "nonsingular spectra; singular spectra have exact zero eigenvalues",
    "synthetic operators H = Q diag(sigma) Q^T symmetrised; preconditioner P and its inverse M built from one "
    "eigen-form with cond(M) <= 1e6, so the M-norm is measured to ~1e-10 relative",
    "configured norm: use_preconditioned_inner_product_for_cg=False -> Euclidean; True -> sqrt(z.M z) with M = P^-1 "
    "(what trust_region_minimize passes as multiply_by_approx_hessian)",
    "norm allowance |norm/Delta-1| <= 1e-8 in both inner-product modes (clauses cg_inside, cg_on_boundary); the same "
    "two predicates with allowance 5e-2 form the separate backstop clause cg_gross_norm; failing cases carry the "
    "feature long_recurrence_path (recurrence mode and more than 4 CG iterations)",
    "model comparisons: rtol 1e-9 (treigen 1e-8) plus 64 eps (|H| |z|^2 + |g| |z|) evaluation rounding",
    "clipped Cauchy step = minimiser of the model along -P g inside the region measured in the configured norm, "
    "recomputed by the harness in numpy",
    "Newton residual recomputed as g + H z: |.| <= sqrt(max(cg_tol^2, ratio^2 g.g)) (1+1e-6) + 64 eps (iters+1) (|H||z|+|g|)",
    "treigen reference: dense dual/secular bisection on numpy.linalg.eigh of the same matrix (lower bound by weak "
    "duality for every admissible multiplier); certificate tolerances 1e-6 relative to |A||s|+|b| and |A|",
    "treigen.solve calls are given 5 s (normal calls take milliseconds); longer = did not return",
    "curvature signs / residual tests within 1e-13 relative of their threshold are read off the solver's behaviour",
]


def cmp_code(a, b, allow):
    if not (math.isfinite(a) and math.isfinite(b)):
        return "GT"
    if abs(a - b) <= allow:
        return "EQ"
    return "LT" if a < b else "GT"


# ------------------------------------------------------------------------------------------- synthetic operators
def orth(n, seed):
    rs = onp.random.RandomState(seed % (2 ** 31))
    Q, R = onp.linalg.qr(rs.randn(n, n))
    s = onp.sign(onp.diag(R))
    s[s == 0] = 1.0
    return Q * s


def basis(kind, n, seed):
    if kind == "diagonal" or n == 1:
        return onp.eye(n)
    if kind == "permutation":
        rs = onp.random.RandomState(seed % (2 ** 31))
        return onp.eye(n)[:, rs.permutation(n)]
    if kind == "blockdiag":          # 2x2 rotations on leading pairs, identity on the trailing coordinate(s); columns reversed so
        rs = onp.random.RandomState(seed % (2 ** 31))     # that the LOWEST eigenvalue sits on an exact unit vector (upstream-test shape)
        Q = onp.eye(n)
        for k in range(0, n - 2, 2):
            t = rs.uniform(0.2, 1.3)
            Q[k:k + 2, k:k + 2] = [[math.cos(t), -math.sin(t)], [math.sin(t), math.cos(t)]]
        return Q[:, ::-1].copy()
    return orth(n, seed)


def sym_from(Q, w):
    A = (Q * onp.asarray(w)) @ Q.T
    return 0.5 * (A + A.T)


def random_spectrum(rng, n, kind):
    kap = 10 ** rng.uniform(0, 8)
    mag = [10 ** rng.uniform(-math.log10(kap), 0) for _ in range(n)]
    if kind == "spd":
        sig = mag
    elif kind == "indef":
        sig = [m * rng.choice([-1, 1]) for m in mag]
        sig[rng.randrange(n)] = -abs(sig[0])
    elif kind == "traceless":      # eigenvalues summing to zero exactly (saddles, deviatoric tensors) or almost
        half = [10 ** rng.uniform(-2, 1) for _ in range(max(1, n // 2))]
        sig = [-h for h in half] + list(half)
        if n % 2 == 1:
            sig = ([0.0] + sig) if n > 1 else [0.0]
        if n >= 3 and rng.random() < 0.4:
            m = 10 ** rng.uniform(-1, 1)
            sig = [-2.0 * m, m, m] + [0.0] * (n - 3)
        if rng.random() < 0.3 and n >= 2:
            sig[-1] = sig[-1] * (1 + 1e-5)
        sig = sorted(sig)[:n] if len(sig) >= n else sorted(sig + [0.0] * (n - len(sig)))
    elif kind == "negdef":
        sig = [-m for m in mag]
    elif kind == "singular":
        sig = list(mag)
        for j in rng.sample(range(n), rng.randint(1, max(1, n // 3))):
            sig[j] = 0.0
        if rng.random() < 0.3:
            sig = [s * rng.choice([-1, 1]) for s in sig]
    elif kind.startswith("negclusters"):  # K-1 distinct positive eigenvalues and one negative one
        k = max(1, min(int(kind[11:]), n) - 1)
        vals = sorted(10 ** rng.uniform(-2, 0) * (1 + 3 * j) for j in range(k))
        sig = [vals[j % k] for j in range(n)]
        if n > 1 or k == 1:
            sig[0] = -10 ** rng.uniform(-2, 0)
    elif kind.startswith("clusters"):  # exactly K distinct positive eigenvalues: CG converges in K iterations
        k = min(int(kind[8:]), n)
        vals = sorted(10 ** rng.uniform(-2, 0) * (1 + 3 * j) for j in range(k))
        sig = [vals[j % k] for j in range(n)]
    else:                            # repeated: a few clusters (any sign, possibly zero)
        k = rng.randint(1, min(4, n))
        vals = [rng.choice([-1, 1, 1]) * 10 ** rng.uniform(-3, 0) for _ in range(k)]
        if k >= 2 and rng.random() < 0.25:
            vals[0] = 0.0
        sig = [vals[j % k] for j in range(n)]
    sc = 10 ** rng.uniform(-3, 3)
    return sorted(float(s * sc) for s in sig)


def precond_spec(rng, sig, allow_exact=True):
    """P^-1 = M from exact to poor (always SPD, cond <= MAX_COND_M)."""
    n = len(sig)
    top = max(abs(s) for s in sig) or 1.0
    kind = rng.choice(["identity", "shift", "shift", "random", "jacobi"] + (["exact"] if allow_exact else []))
    d = dict(pkind=kind)
    if kind in ("exact", "shift"):
        floor = top / MAX_COND_M
        sh = 0.0 if kind == "exact" else top * 10 ** rng.uniform(-6, 1)
        need = max(0.0, floor - (min(sig) + sh))         # smallest extra shift making M SPD with bounded conditioning
        d["shift"] = sh + need * (1.0 + (rng.random() if need > 0 else 0.0))
    elif kind == "random":
        d["mseed"] = rng.randrange(1 << 30)
        km = 10 ** rng.uniform(0, 5)
        d["mu"] = [top * 10 ** rng.uniform(-math.log10(km), 0) for _ in range(n)]
    elif kind == "jacobi":
        d["shift"] = top * 10 ** rng.uniform(-5, -1)
    return d


def gcoef_spec(rng, sig, kind, gscale):
    n = len(sig)
    c = [rng.gauss(0, 1) for _ in range(n)]
    if kind == "orth_low":          # exactly orthogonal to the lowest eigenspace
        lo = min(sig)
        c = [0.0 if s == lo else v for s, v in zip(sig, c)]
        if not any(c):
            c = [0.0] * n
    elif kind == "few":             # Krylov space of small dimension
        k = rng.randint(1, min(4, n))
        keep = set(rng.sample(range(n), k))
        c = [v if j in keep else 0.0 for j, v in enumerate(c)]
    elif kind == "few_neg":         # a few positive eigen-directions plus a small component on a negative one
        pos = [j for j, s in enumerate(sig) if s > 0]
        neg = [j for j, s in enumerate(sig) if s < 0]
        k = rng.randint(0, min(3, len(pos)))
        keep = set(rng.sample(pos, k)) if k else set()
        c = [v if j in keep else 0.0 for j, v in enumerate(c)]
        if neg:
            c[rng.choice(neg)] = 10 ** rng.uniform(-4, 0) * rng.choice([-1, 1])
    return [float(v * gscale) for v in c]


def build_cg(rec):
    """recipe -> literal arrays (deterministic)."""
    if "arrays" in rec:
        a = rec["arrays"]
        return {k: onp.array(a[k], dtype=float) for k in ("H", "M", "P", "g")}
    n = rec["n"]
    sig = onp.array(rec["sigma"], dtype=float)
    Q = basis(rec["basis"], n, rec["qseed"])
    H = sym_from(Q, sig)
    pk = rec["pkind"]
    if pk == "identity":
        QM, mu = onp.eye(n), onp.ones(n)
    elif pk in ("exact", "shift"):
        QM, mu = Q, sig + rec["shift"]
    elif pk == "random":
        QM, mu = orth(n, rec["mseed"]), onp.array(rec["mu"], dtype=float)
    else:                            # jacobi
        QM, mu = onp.eye(n), onp.abs(onp.diag(H)) + rec["shift"]
    M = sym_from(QM, mu)
    P = sym_from(QM, 1.0 / mu)
    g = Q @ onp.array(rec["gcoef"], dtype=float)
    return dict(H=H, M=M, P=P, g=g)


def random_cg_recipe(rng, ns, flavour=None):
    n = rng.choice(ns)
    flavour = flavour or rng.choice(["spd", "spd", "indef", "indef", "singular", "repeated", "negdef"])
    sig = random_spectrum(rng, n, flavour)
    gkind = rng.choice(["random", "random", "orth_low", "few", "few_neg"])
    gscale = 10 ** rng.uniform(-6, 6)
    rec = dict(n=n, basis=rng.choice(["general", "general", "general", "diagonal", "permutation"]),
               qseed=rng.randrange(1 << 30), sigma=sig, spectrum=flavour, gkind=gkind,
               gcoef=gcoef_spec(rng, sig, gkind, gscale))
    rec.update(precond_spec(rng, sig, allow_exact=min(sig) > 0))
    gn = math.sqrt(sum(v * v for v in rec["gcoef"])) or gscale
    rec["cg_tol"] = float(rng.choice([2e-9, gn * 10 ** rng.uniform(-12, -3), gn * 10 ** rng.uniform(-6, -1)]))
    rec["ratio"] = float(rng.choice([1e-5, 1e-5, 10 ** rng.uniform(-10, -1)]))
    return rec


# ------------------------------------------------------------------------------------------- real CG call + alpha
class Silence(contextlib.AbstractContextManager):
    def __enter__(self):
        self._cm = contextlib.redirect_stdout(io.StringIO())
        self._cm.__enter__()
        return self

    def __exit__(self, *a):
        return self._cm.__exit__(*a)


def call_cg(arr, delta, mode, cap, cg_tol, ratio):
    """One call of the REAL solver through recording callables.  Returns (z, cauchy, type, iters, log) or raises."""
    import jax.numpy as np
    from optimism import EquationSolver as ES
    Hj, Pj = np.array(arr["H"]), np.array(arr["P"])
    log = []

    def hess_vec(v):
        log.append(("h", onp.array(v, dtype=float)))
        return Hj @ v

    def precond(v):
        log.append(("p", onp.array(v, dtype=float)))
        return Pj @ v
    st = ES.get_settings(max_cg_iters=int(cap), cg_tol=float(cg_tol), cg_inexact_solve_ratio=float(ratio),
                         use_preconditioned_inner_product_for_cg=bool(mode), debug_info=False)
    n = len(arr["g"])
    with Silence():
        z, cp, typ, it = ES.solve_trust_region_minimization(np.zeros(n), np.array(arr["g"]), hess_vec, precond,
                                                            float(delta), st)
    return onp.array(z, dtype=float), onp.array(cp, dtype=float), str(typ), int(it), log


def cfg_norm(z, M, mode):
    if not onp.all(onp.isfinite(z)):
        return float("inf")
    return float(math.sqrt(max(0.0, z @ (M @ z)))) if mode else float(onp.linalg.norm(z))


def parse_log(log):
    """[(kind, vector)] -> list of iterations [(d, stepTaken, r_new or None)], r0; None if the log has another shape."""
    if not log:
        return [], None
    if log[0][0] != "p":
        return None, None
    r0 = log[0][1]
    its, k = [], 1
    while k < len(log):
        if log[k][0] != "h":
            return None, None
        d = log[k][1]
        if k + 2 < len(log) and log[k + 1][0] == "h" and log[k + 2][0] == "p":
            its.append((d, True, log[k + 2][1]))
            k += 3
        elif k + 1 == len(log):
            its.append((d, False, None))
            k += 1
        else:
            return None, None
    return its, r0


def norm_class(ratio, tol):
    if not math.isfinite(ratio):
        return "out"
    if ratio == 0.0:
        return "zero"
    if abs(ratio - 1.0) <= tol:
        return "on"
    return "in" if ratio < 1.0 else "out"


def abstract_cg(arr, delta, mode, cap, cg_tol, ratio, out):
    """alpha: (inputs, recorded calls, return value) -> events for SteihaugCGTrace.tla + numbers for the evidence."""
    z, cauchy, typ, it, log = out
    H, M, P, g = arr["H"], arr["M"], arr["P"], arr["g"]
    normH = float(onp.linalg.norm(H, 2)) if H.size else 0.0
    normg = float(onp.linalg.norm(g))
    tolsq = max(cg_tol ** 2, ratio * ratio * float(g @ g))
    long_rec = bool(mode) and it > SHORT
    ntol = NTOL

    def q(v):
        with onp.errstate(all="ignore"):
            return float(g @ v + 0.5 * (v @ (H @ v)))

    def qallow(*vs):
        m = max(float(onp.linalg.norm(v)) for v in vs)
        return ROUND * (normH * m * m + normg * m)

    ev = []
    its, r0 = parse_log(log)
    parsed = its is not None
    if parsed and not log:
        ev.append(dict(k="tiny"))
    elif parsed:
        ev.append(dict(k="begin"))
        zc = onp.zeros_like(g)
        rprev = r0
        for j, (d, step, rnew) in enumerate(its):
            Hd = H @ d
            curv = float(d @ Hd)
            amb = abs(curv) <= 1e-13 * normH * float(d @ d)
            if amb:
                pos = step or typ == "boundary"
            else:
                pos = curv > 0
            e = dict(k="it", curv="pos" if pos else "nonpos", step=bool(step), cross=False, small=False, dq="LT", tn="in")
            if step:
                den = float(Hd @ Hd)
                alpha = float((rnew - rprev) @ Hd) / den if den > 0 else 0.0
                znew = zc + alpha * d
                rr = float(rnew @ rnew)
                if abs(rr - tolsq) <= 1e-13 * tolsq:
                    small = (j == len(its) - 1 and typ == "interior")
                else:
                    small = rr < tolsq
                e["small"] = bool(small)
                e["dq"] = cmp_code(q(znew), q(zc), MODEL_RTOL * abs(q(zc)) + qallow(znew, zc))
                nz = cfg_norm(znew, M, mode) / delta
                e["tn"] = "in" if nz <= 1 + NTOL else "out"
                zc, rprev = znew, rnew
            else:
                e["cross"] = bool(pos)
                e["dq"] = cmp_code(q(z), q(zc), MODEL_RTOL * abs(q(zc)) + qallow(z, zc))
                e["tn"] = norm_class(cfg_norm(z, M, mode) / delta, ntol)
            ev.append(e)
    # ---- the returned step
    finite = bool(onp.all(onp.isfinite(z)))
    nrat = cfg_norm(z, M, mode) / delta
    d0 = -(P @ g)
    k0 = float(d0 @ (H @ d0))
    slope = float(g @ d0)                       # < 0
    tmax = delta / cfg_norm(d0, M, mode) if cfg_norm(d0, M, mode) > 0 else 0.0
    tC = min(-slope / k0, tmax) if k0 > 0 else tmax
    zC = tC * d0
    qz, qC = (q(z) if finite else float("inf")), q(zC)
    rt = g + H @ z if finite else onp.full_like(g, onp.inf)
    rnorm = float(onp.linalg.norm(rt))
    res_ok = rnorm <= math.sqrt(tolsq) * (1 + RES_RTOL) + ROUND * (it + 1) * (normH * float(onp.linalg.norm(z)) + normg) \
        if finite else False
    if it == 0 or not onp.any(cauchy):
        cout = "zero" if not onp.any(cauchy) else "other"
    else:
        cout = "unclipped" if float(onp.linalg.norm(cauchy - d0)) <= 1e-9 * float(onp.linalg.norm(d0)) else "other"
    ret = dict(k="ret", exit=typ, iters=it, nrm=norm_class(nrat, ntol) if finite else "out",
               nrmC=norm_class(nrat, NTOL_GROSS) if finite else "out", res=bool(res_ok),
               cmpC=cmp_code(qz, qC, MODEL_RTOL * abs(qC) + qallow(z if finite else zC, zC)),
               cmp0=cmp_code(qz, 0.0, qallow(z if finite else zC)), cauchyOut=cout)
    ev.append(ret)
    nums = dict(norm_ratio=nrat, q=qz, qCauchy=qC, res=rnorm, tol=math.sqrt(tolsq), parsed=parsed, long_rec=long_rec)
    return ev, nums


def probe_path(arr, mode, cap, cg_tol, ratio):
    """Unconstrained run (huge radius): configured norms of the iterates and the natural exit."""
    scale = max(1.0, float(onp.linalg.norm(arr["g"])))
    try:
        z, cp, typ, it, log = call_cg(arr, 1e120 * scale, mode, cap, cg_tol, ratio)
    except Exception:
        return None
    its, r0 = parse_log(log)
    if its is None or not log:
        return dict(norms=[], typ=typ, it=it)
    H = arr["H"]
    zc = onp.zeros_like(arr["g"])
    rprev, norms = r0, []
    for d, step, rnew in its:
        if not step:
            break
        Hd = H @ d
        den = float(Hd @ Hd)
        alpha = float((rnew - rprev) @ Hd) / den if den > 0 else 0.0
        zc = zc + alpha * d
        rprev = rnew
        norms.append(cfg_norm(zc, arr["M"], mode))
    return dict(norms=norms, typ=typ, it=it)


def natural_length(arr, mode):
    """Length scale of the subproblem, |g| / |H| measured in the configured norm; generated radii span the twelve
    decades [1e-6, 1e6] around it (the quantifier of the property)."""
    nh = float(onp.linalg.norm(arr["H"], 2))
    v = arr["g"] / nh if nh > 0 else arr["g"]
    L = cfg_norm(v, arr["M"], mode)
    return L if (L > 0 and math.isfinite(L)) else 1.0


def radius_ok(arr, mode, dl):
    L = natural_length(arr, mode)
    return math.isfinite(dl) and RADIUS_MIN <= dl <= RADIUS_MAX and REL_RADIUS_MIN <= dl / L <= REL_RADIUS_MAX


def clamp_radius(arr, mode, dl):
    L = natural_length(arr, mode)
    if not (math.isfinite(dl) and dl > 0):
        dl = L
    dl = min(REL_RADIUS_MAX * L, max(REL_RADIUS_MIN * L, dl))
    return min(RADIUS_MAX, max(RADIUS_MIN, dl))


def cg_case(rec, delta, mode, cap, origin):
    c = dict(family="cg", origin=origin, delta=float(delta), mode=bool(mode), cap=int(cap))
    c.update(rec)
    return c


def run_cg_case(c):
    arr = build_cg(c)
    try:
        out = call_cg(arr, c["delta"], c["mode"], c["cap"], c["cg_tol"], c["ratio"])
    except Exception as ex:
        return None, dict(raised=repr(ex)[:300]), arr
    ev, nums = abstract_cg(arr, c["delta"], c["mode"], c["cap"], c["cg_tol"], c["ratio"], out)
    return ev, nums, arr


def with_arrays(c, arr):
    c = dict(c)
    c["arrays"] = {k: onp.asarray(v).tolist() for k, v in arr.items()}
    return c


# ------------------------------------------------------------------------------------------- CG: catalogue search
def key_of(mode, cap, exit_, iters):
    return ("recurrence" if mode else "direct", int(cap), exit_, int(iters))


def search_catalogue(catalogue, per_key, budget, rng, ns, maxcg):
    """Seeded random-restart search: every probe of a random operator proposes concrete (radius, cap) choices for
    all catalogue keys it can reach; proposals are executed for real and kept when they land on a needed key."""
    need = {k: per_key for k in catalogue}
    found = []
    probes = 0
    flav = ["spd", "indef", "repeated", "singular", "negdef"]
    while probes < budget and any(v > 0 for v in need.values()):
        probes += 1
        mode = bool(probes % 2)
        mname = "recurrence" if mode else "direct"
        rec = random_cg_recipe(rng, ns, flavour=flav[probes % len(flav)] if probes % 3 else None)
        if probes % 7 == 3:                         # K eigenvalue clusters, commuting preconditioner: converges at iteration K
            k = 1 + (probes // 7) % maxcg
            rec = random_cg_recipe(rng, [n for n in ns if n >= k] or ns, flavour="clusters%d" % k)
            rec.update(pkind=rng.choice(["identity", "shift"]), shift=rec["sigma"][-1] * 10 ** rng.uniform(-2, 1),
                       ratio=10 ** rng.uniform(-7, -4))
            rec["gcoef"] = gcoef_spec(rng, rec["sigma"], "random", 10 ** rng.uniform(-6, 6))
            rec["cg_tol"] = 1e-150
        if probes % 7 == 5:                         # K-1 positive clusters + one negative eigenvalue: negative curvature at iteration <= K
            k = 1 + (probes // 7) % maxcg
            rec = random_cg_recipe(rng, [n for n in ns if n >= k] or ns, flavour="negclusters%d" % k)
            rec.update(pkind=rng.choice(["identity", "shift"]), ratio=1e-9, cg_tol=1e-150)
            rec["shift"] = (abs(rec["sigma"][0]) + rec["sigma"][-1]) * 10 ** rng.uniform(0.01, 1)
            gs = 10 ** rng.uniform(-6, 6)
            rec["gcoef"] = [gs * rng.gauss(0, 1) * (10 ** rng.uniform(-4, -0.5) if sg < 0 else 1.0) for sg in rec["sigma"]]
        if probes % 11 == 0:                        # tiny-residual exit: |g| below cg_tol
            gn = math.sqrt(sum(v * v for v in rec["gcoef"])) or 1.0
            rec["cg_tol"] = gn * 10 ** rng.uniform(0.1, 3)
        arr = build_cg(rec)
        pr = probe_path(arr, mode, maxcg + 2, rec["cg_tol"], rec["ratio"])
        if pr is None:
            continue
        norms, typN, K = pr["norms"], pr["typ"], pr["it"]
        m = len(norms)
        props = []
        big = (max(norms) if norms else float(onp.linalg.norm(arr["P"] @ arr["g"])) or 1.0) * 10 ** rng.uniform(0.2, 4)
        if typN in ("interior", "neg curve") and K <= maxcg:
            for cap in range(max(K, 1), maxcg + 1):
                props.append((key_of(mode, cap, typN, K), big, cap))
        for j in range(1, min(m, maxcg) + 1):
            lo = max(norms[:j - 1]) if j > 1 else 0.0
            hi = norms[j - 1]
            if hi > lo * (1 + 1e-6):
                dl = lo + (hi - lo) * rng.uniform(0.05, 0.95)
                for cap in range(j, maxcg + 1):
                    props.append((key_of(mode, cap, "boundary", j), dl, cap))
            if not (typN == "interior" and j == K):
                props.append((key_of(mode, j, "interior_", j), big, j))
        rng.shuffle(props)
        for k, dl, cap in props:
            if need.get(k, 0) <= 0 or not radius_ok(arr, mode, dl):
                continue
            c = cg_case(rec, dl, mode, cap, "catalogue")
            ev, nums, _ = run_cg_case(c)
            if ev is None:
                found.append((c, ev, nums))          # the solver raised: reported by the caller
                need[k] -= 1
                continue
            got = key_of(mode, cap, ev[-1]["exit"], ev[-1]["iters"])
            if got in need and need[got] > 0:
                need[got] -= 1
                found.append((c, ev, nums))
    missing = sorted(k for k, v in need.items() if v == per_key)
    return found, missing, probes


def free_cg_cases(rng, count, ns):
    out = []
    while len(out) < count:
        rec = random_cg_recipe(rng, ns)
        mode = bool(rng.getrandbits(1))
        cap = rng.choice([1, 2, 3, 5, 8, 12, 20, 50])
        arr = build_cg(rec)
        pr = probe_path(arr, mode, cap, rec["cg_tol"], rec["ratio"])
        if pr is None:
            out.append(cg_case(rec, clamp_radius(arr, mode, 1.0), mode, cap, "free"))
            continue
        norms = pr["norms"]
        base = (norms[-1] if norms else float(onp.linalg.norm(arr["P"] @ arr["g"]))) or 1.0
        r = rng.random()
        if r < 0.5 and norms:
            j = rng.randrange(len(norms))
            lo = max(norms[:j]) if j else 0.0
            dl = lo + (norms[j] - lo) * rng.uniform(0.02, 0.98) if norms[j] > lo else norms[j] * 0.9
        elif r < 0.75:
            dl = base * 10 ** rng.uniform(-6, 0)
        else:
            dl = base * 10 ** rng.uniform(0, 6)
        out.append(cg_case(rec, clamp_radius(arr, mode, dl), mode, cap, "free"))
    return out


def converge_cg_cases(rng, count, ns):
    """Positive (semi)definite operators, large radius, non-trivial preconditioners: the loop ends by the
    residual test after a gradual decrease (exit 'interior' at a late iteration) or at the cap."""
    out = []
    while len(out) < count:
        rec = random_cg_recipe(rng, [n for n in ns if n >= 3] or ns, flavour=rng.choice(["spd", "spd", "spd", "singular"]))
        if rec["spectrum"] == "singular":
            rec["sigma"] = sorted(abs(s) for s in rec["sigma"])
            rec["gkind"] = "orth_low"                      # gradient in the range of H
            rec["gcoef"] = gcoef_spec(rng, rec["sigma"], "orth_low", 10 ** rng.uniform(-6, 6))
            if not any(rec["gcoef"]):
                continue
        gn = math.sqrt(sum(v * v for v in rec["gcoef"])) or 1.0
        rec["ratio"] = 10 ** rng.uniform(-8, -2)
        rec["cg_tol"] = float(rng.choice([1e-150, gn * 10 ** rng.uniform(-9, -3)]))
        arr = build_cg(rec)
        mode = bool(rng.getrandbits(1))
        base = float(onp.linalg.norm(onp.linalg.pinv(arr["H"], rcond=1e-12) @ arr["g"])) or 1.0
        dl = clamp_radius(arr, mode, base * cfg_scale(arr["M"], mode) * 10 ** rng.uniform(0.5, 3))
        out.append(cg_case(rec, dl, mode, rng.choice([10, 20, 50, 100]), "converge"))
    return out


def cfg_scale(M, mode):
    return math.sqrt(float(onp.linalg.norm(M, 2))) if mode else 1.0


def longpath_cg_cases(rng, count, ns):
    """Boundary exits at a late iteration (mostly in recurrence mode): stresses the tracked-norm recurrences."""
    out, tries = [], 0
    while len(out) < count and tries < 20 * count:
        tries += 1
        rec = random_cg_recipe(rng, [n for n in ns if n >= 7] or ns, flavour=rng.choice(["spd", "spd", "indef"]))
        rec["ratio"], rec["cg_tol"] = 1e-14, 1e-150
        if rec["pkind"] == "exact":
            rec.update(pkind="shift", shift=rec["sigma"][-1] * 10 ** rng.uniform(-3, 0))
        arr = build_cg(rec)
        mode = rng.random() < 0.75
        cap = rng.choice([30, 60, 100, 200])
        pr = probe_path(arr, mode, cap, rec["cg_tol"], rec["ratio"])
        if pr is None or len(pr["norms"]) < 6:
            continue
        norms = pr["norms"]
        j = rng.randrange(5, len(norms))
        lo = max(norms[:j])
        dl = lo + (norms[j] - lo) * rng.uniform(0.02, 0.98)
        if not (norms[j] > lo and radius_ok(arr, mode, dl)):
            continue
        out.append(cg_case(rec, dl, mode, cap, "longpath"))
    return out


# ------------------------------------------------------------------------------------------- dogleg
def four_squares(v):
    r = range(-3, 4)
    return [(a, b, c, d) for a in r for b in r for c in r for d in r if a * a + b * b + c * c + d * d == v]


_FS = {}


def dogleg_lattice_case(inst, rng):
    for v in (inst["cc"], inst["nn"]):
        if v not in _FS:
            _FS[v] = four_squares(v)
    cp = list(rng.choice(_FS[inst["cc"]]))
    nw = list(rng.choice(_FS[inst["nn"]]))
    k, j = rng.randint(-20, 20), rng.randint(-5, 5)
    return dict(family="dogleg", origin="lattice", cc=inst["cc"], nn=inst["nn"], tt=inst["tt"],
                cp=[float(x) * 2.0 ** k for x in cp], nw=[float(x) * 2.0 ** k for x in nw],
                tr=float(math.isqrt(inst["tt"])) * 2.0 ** (k + j), mscale=4.0 ** j, mkind="scalar")


def dogleg_random_case(rng, ns):
    n = rng.choice(ns)
    tr = 10 ** rng.uniform(-6, 6)
    mk = rng.choice(["identity", "random", "random"])
    c = dict(family="dogleg", origin="random", cc=-1, nn=-1, tt=-1, n=n, tr=tr, mkind=mk,
             mseed=rng.randrange(1 << 30), vseed=rng.randrange(1 << 30),
             mu=[10 ** rng.uniform(-rng.uniform(0, 6), 0) for _ in range(n)],
             fc=10 ** (rng.uniform(-3, 3) if rng.random() < 0.5 else rng.uniform(-0.3, 0.3)),
             fn=10 ** (rng.uniform(-3, 3) if rng.random() < 0.5 else rng.uniform(-0.3, 0.3)),
             corr=rng.choice([0.0, 0.0, 0.5, 0.99, -0.7, 1.0]))
    return c


def build_dogleg(c):
    if "arrays" in c:
        a = c["arrays"]
        return onp.array(a["cp"], dtype=float), onp.array(a["nw"], dtype=float), float(c["tr"]), onp.array(a["M"], dtype=float)
    if c["origin"] == "lattice":
        n = len(c["cp"])
        return onp.array(c["cp"]), onp.array(c["nw"]), float(c["tr"]), c["mscale"] * onp.eye(n)
    n = c["n"]
    M = onp.eye(n) if c["mkind"] == "identity" else sym_from(orth(n, c["mseed"]), c["mu"])
    rs = onp.random.RandomState(c["vseed"] % (2 ** 31))
    u, w = rs.randn(n), rs.randn(n)
    w = c["corr"] * u + (1 - abs(c["corr"])) * w
    if not onp.any(w):
        w = u.copy()
    mn = lambda v: math.sqrt(float(v @ (M @ v)))
    cp = u * (c["tr"] * c["fc"] / mn(u))
    nw = w * (c["tr"] * c["fn"] / mn(w))
    return cp, nw, float(c["tr"]), M


def run_dogleg(c):
    import jax.numpy as np
    from optimism import EquationSolver as ES
    cp, nw, tr, M = build_dogleg(c)
    Mj = np.array(M)
    if c.get("mkind") == "scalar":
        ms = float(c["mscale"])
        mat_mul = lambda v: ms * v
    else:
        mat_mul = lambda v: Mj @ v
    cpj, nwj = np.array(cp), np.array(nw)
    try:
        with Silence():
            d = onp.array(ES.dogleg_step(cpj, nwj, tr, mat_mul), dtype=float)
    except Exception as ex:
        return None, dict(raised=repr(ex)[:300]), (cp, nw, tr, M)
    # the three comparisons exactly as the code makes them (same expressions, same library)
    cc = float(cpj @ mat_mul(cpj))
    nn = float(nwj @ mat_mul(nwj))
    tt = float(tr * tr)
    code = lambda a, b: "LT" if a < b else ("EQ" if a == b else "GT")
    finite = bool(onp.all(onp.isfinite(d)))
    mn = lambda v: math.sqrt(max(0.0, float(v @ (M @ v))))
    scale = max(mn(cp), mn(nw), 1e-300)
    tol = PATH_TOL * scale
    kinds, inside, on_path = [], False, False
    if finite:
        inside = mn(d) <= tr * (1 + NTOL)
        s = float(d @ (M @ cp)) / float(cp @ (M @ cp)) if onp.any(cp) else 0.0
        s = min(1.0, max(0.0, s))
        d1 = mn(d - s * cp)
        w = nw - cp
        t = float((d - cp) @ (M @ w)) / float(w @ (M @ w)) if onp.any(w) else 0.0
        t = min(1.0, max(0.0, t))
        d2 = mn(d - cp - t * w)
        on_path = min(d1, d2) <= tol
        if d1 <= tol:
            kinds.append("scaledCP")
        if mn(d - cp) <= tol:
            kinds.append("CP")
        if d2 <= tol:
            kinds.append("onSecondLeg")
        if mn(d - nw) <= tol:
            kinds.append("newton")
    obs = dict(cVt=code(cc, tt), cVn=code(cc, nn), nVt=code(nn, tt), inside=bool(inside), onPath=bool(on_path),
               kinds=kinds, finite=finite, cc=int(c["cc"]), nn=int(c["nn"]), tt=int(c["tt"]))
    return obs, dict(norm_ratio=mn(d) / tr if finite else float("inf")), (cp, nw, tr, M)


# ------------------------------------------------------------------------------------------- treigen
UPSTREAM_A = {
    "spd": [[1.0, 2.0, 0.3], [2.0, 4.5, 0.0], [0.3, 0.0, 5.0]],
    "indef": [[1.0, 2.0, 0.3], [2.0, 4.5, 0.0], [0.3, 0.0, -5.0]],
    "block": [[1.0, 2.0, 0.0], [2.0, 4.5, 0.0], [0.0, 0.0, -1.1]],
}


def tre_recipe(rng, ns, want):
    """want: interior | secular | hard | near_hard | hard_exact | b_zero | zero_matrix | any"""
    n = rng.choice(ns)
    if want in ("hard", "near_hard", "hard_exact") and n == 1 and len(ns) > 1:
        n = rng.choice([m for m in ns if m > 1])
    if want == "interior":
        fl = "spd"
    elif want in ("hard", "near_hard", "hard_exact", "b_zero"):
        fl = rng.choice(["indef", "negdef", "singular", "repeated", "traceless"])
    else:
        fl = rng.choice(["spd", "indef", "negdef", "singular", "repeated", "traceless"])
    if n == 1 and fl == "singular" and want != "zero_matrix" and rng.random() < 0.8:
        fl = "indef"
    sig = random_spectrum(rng, n, fl)
    if want in ("hard", "near_hard", "hard_exact", "b_zero") and min(sig) > 0:
        sig[0] = -sig[0]
        sig = sorted(sig)
    if want in ("hard", "near_hard", "hard_exact") and n >= 2 and sig[-1] == sig[0]:
        sig[-1] = abs(sig[-1]) * 2 + 1e-3                 # at least two distinct eigenvalues, so that b can be non-zero
        sig = sorted(sig)
    gscale = 10 ** rng.uniform(-4, 4)
    bk = "general"
    if want == "hard_exact":
        bk = rng.choice(["diagonal", "blockdiag", "permutation"])
    elif rng.random() < 0.15:
        bk = rng.choice(["diagonal", "permutation", "blockdiag"])
    rec = dict(family="treigen", origin="synthetic", want=want, n=n, sigma=sig, spectrum=fl, basis=bk,
               qseed=rng.randrange(1 << 30))
    if want == "zero_matrix":
        rec["sigma"] = [0.0] * n
    if want in ("hard", "near_hard", "hard_exact"):
        c = gcoef_spec(rng, rec["sigma"], "orth_low", gscale)
        if want == "near_hard":
            lo = min(rec["sigma"])
            j = rec["sigma"].index(lo)
            c[j] = gscale * 10 ** rng.uniform(-10.5, -8.5)
    elif want == "b_zero":
        c = [0.0] * n
    else:
        c = gcoef_spec(rng, rec["sigma"], rng.choice(["random", "random", "few", "orth_low"]), gscale)
    rec["gcoef"] = c
    # radius relative to |p(lam0)| (pseudo-inverse on the non-lowest part)
    sg = onp.array(rec["sigma"])
    lam0 = max(0.0, -float(sg.min()))
    tau = sg + lam0
    cc = onp.array(c)
    gap = tau > 1e-9 * (abs(sg).max() or 1.0)
    pn = math.sqrt(float(onp.sum((cc[gap] / tau[gap]) ** 2))) if gap.any() else 0.0
    ref = pn if pn > 0 else (gscale / (abs(sg).max() or 1.0))
    if want in ("hard", "near_hard", "hard_exact", "b_zero", "interior"):
        f = 10 ** rng.uniform(0.05, 6)
    elif want == "secular":
        f = 10 ** rng.uniform(-6, -0.05)
    else:
        f = 10 ** rng.uniform(-6, 6)
    rec["delta"] = float(ref * f)
    return rec


def build_tre(c):
    if "arrays" in c:
        return onp.array(c["arrays"]["A"], dtype=float), onp.array(c["arrays"]["b"], dtype=float), float(c["delta"])
    if c["origin"] == "upstream":
        return onp.array(UPSTREAM_A[c["matrix"]]), onp.array(c["b"], dtype=float), float(c["delta"])
    n = c["n"]
    Q = basis(c["basis"], n, c["qseed"])
    A = sym_from(Q, c["sigma"])
    b = Q @ onp.array(c["gcoef"], dtype=float)
    return A, b, float(c["delta"])


def trs_reference(A, b, delta):
    """Independent dense reference: maximise the dual  d(lam) = -1/2 b.(A+lam I)^+ b - 1/2 lam Delta^2  over
    lam >= max(0, -lambda_min) by bisection on its derivative, in the eigenbasis of numpy.linalg.eigh.
    Returns (minimum model value, lam, input class)."""
    sig, V = onp.linalg.eigh(A)
    c = V.T @ b
    top = float(onp.abs(sig).max()) if sig.size else 0.0
    lam0 = max(0.0, -float(sig[0]))
    tau = (sig - sig[0]) if sig[0] < 0 else sig.copy()      # spectrum of A + lam0 I, >= 0
    epsc = 1e-12 * float(onp.mean(onp.abs(sig)))
    lmin = "pos" if sig[0] > epsc else ("neg" if sig[0] < -epsc else "zero")
    low = tau <= 1e-9 * top if top > 0 else onp.ones_like(tau, dtype=bool)
    if lmin == "pos":
        low = onp.zeros_like(tau, dtype=bool)
    cn = float(onp.linalg.norm(c))
    # "b orthogonal to the lowest eigenspace" at this radius: its component there is too small to move the
    # multiplier away from lam0 by more than the code's own resolution eps = 1e-12 mean|sigma|
    perp = bool(float(onp.linalg.norm(c[low])) <= max(epsc * delta, 1e-14 * cn)) if low.any() else False
    if cn == 0.0:
        perp = True

    def phi(dl):       # |p(lam0 + dl)|^2
        den = tau + dl
        with onp.errstate(divide="ignore", invalid="ignore"):
            t = onp.where(c == 0.0, 0.0, (c / den) ** 2)
        return float(onp.sum(t))
    p0 = phi(0.0)
    if lmin == "pos":
        pn = "LT" if p0 < delta ** 2 * (1 - 1e-9) else ("GT" if p0 > delta ** 2 * (1 + 1e-9) else "EQ")
    elif not perp:
        pn = "INF"
    else:
        pp = float(onp.sum((c[~low] / tau[~low]) ** 2)) if (~low).any() else 0.0
        pn = "LT" if pp < delta ** 2 * (1 - 1e-9) else ("GT" if pp > delta ** 2 * (1 + 1e-9) else "EQ")
    # the branch the code's own tests select for this input (same formulas, numpy)
    with onp.errstate(divide="ignore", invalid="ignore"):
        if sig[0] > 0 and float(onp.linalg.norm(c / sig)) < delta:
            branch = "interior"
        else:
            lami = (-sig[0] + epsc) if sig[0] < epsc else 0.0
            branch = "hard" if (sig[0] < epsc and float(onp.linalg.norm(c / (sig + lami))) < delta) else "secular"
    if p0 <= delta ** 2:
        dl = 0.0
    else:
        lo, hi = 0.0, cn / delta + 1e-300
        for _ in range(400):
            mid = 0.5 * (lo + hi)
            if mid == lo or mid == hi:
                break
            if phi(mid) > delta ** 2:
                lo = mid
            else:
                hi = mid
        dl = hi
    den = tau + dl
    with onp.errstate(divide="ignore", invalid="ignore"):
        t = onp.where(c == 0.0, 0.0, c * c / den)
    lam = lam0 + dl
    val = -0.5 * float(onp.sum(t)) - 0.5 * lam * delta ** 2
    return val, lam, dict(lmin=lmin, perp=perp, pn=pn, sig=sig, V=V, lam0=lam0, top=top, branch=branch)


class _Timeout(Exception):
    pass


def _alarm(*a):
    raise _Timeout()


_WARM = set()


def call_treigen(A, b, delta):
    import jax.numpy as np
    from optimism.treigen import treigen
    n = len(b)
    if n not in _WARM:               # compile eigh etc. for this shape outside the timed region
        _WARM.add(n)
        try:
            treigen.solve(np.eye(n), np.ones(n), 10.0 * math.sqrt(n))
            treigen.solve(np.eye(n), np.ones(n), 0.1)
        except Exception:
            pass
    # CPU-time timer of this process (not wall clock): machine load cannot turn a terminating call into a "timeout"
    old = signal.signal(signal.SIGVTALRM, _alarm)
    signal.setitimer(signal.ITIMER_VIRTUAL, TRE_TIMEOUT)
    try:
        with Silence():
            s = treigen.solve(np.array(A), np.array(b), float(delta))
        return onp.array(s, dtype=float)
    finally:
        signal.setitimer(signal.ITIMER_VIRTUAL, 0)
        signal.signal(signal.SIGVTALRM, old)


def run_tre(c):
    A, b, delta = build_tre(c)
    val, lamref, cls = trs_reference(A, b, delta)
    sig, V = cls["sig"], cls["V"]
    symB = bool(onp.allclose(onp.abs(V[0, :]), onp.abs(V[:, 0]), atol=1e-12))
    # hard_case: the hard-case branch is (or, when the computed sig[0] is a rounding-level number, may be) taken
    feats = dict(tre_case=cls["branch"],
                 hard_case=bool(cls["branch"] == "hard" or (cls["lmin"] != "pos" and cls["pn"] == "LT")),
                 near_hard=bool(cls["branch"] == "secular" and cls["lam0"] > 0 and lamref - cls["lam0"] <= 1e-6 * cls["lam0"]))
    base = dict(lmin=cls["lmin"], perp=cls["perp"], pn=cls["pn"], symB=symB)
    try:
        s = call_treigen(A, b, delta)
    except _Timeout:
        return None, dict(timeout=True), feats, (A, b)
    except Exception as ex:
        return None, dict(raised=repr(ex)[:300]), feats, (A, b)
    finite = bool(s.shape == b.shape and onp.all(onp.isfinite(s)))
    obs = dict(base)
    obs.update(finite=finite, nrm="out", stat=False, lam="below", mcmp="GT")
    nums = dict(ref=val)
    if finite:
        normA = cls["top"]
        ns_, nb = float(onp.linalg.norm(s)), float(onp.linalg.norm(b))
        ratio = ns_ / delta
        obs["nrm"] = "on" if abs(ratio - 1) <= NTOL else ("in" if ratio < 1 else "out")
        r0 = A @ s + b
        if obs["nrm"] == "in" or ns_ == 0.0:
            lam = 0.0
        else:
            lam = -float(s @ r0) / (ns_ * ns_)
        stat = float(onp.linalg.norm(r0 + lam * s)) <= STAT_TOL * (normA * ns_ + nb) + 1e-300
        obs["stat"] = bool(stat)
        lt = LAM_TOL * normA
        lam0 = cls["lam0"]
        if lam < lam0 - lt:
            lc = "below"
        elif cls["lmin"] == "neg":                      # lam0 = -lambda_min > 0
            lc = "lam0" if lam <= lam0 + lt else "above"
        else:                                           # lam0 = 0 up to the code's eps
            lc = "zero" if lam <= lt else "above"
        obs["lam"] = lc
        m = float(0.5 * s @ (A @ s) + s @ b)
        rmax = max(ns_, delta if obs["nrm"] != "in" else ns_)
        allow = TRE_MODEL_RTOL * abs(val) + ROUND * (normA * rmax * rmax + nb * rmax)
        obs["mcmp"] = cmp_code(m, val, allow)
        nums.update(model=m, norm_ratio=ratio, lam=lam, lam_ref=lamref)
    return obs, nums, feats, (A, b)


def tre_cases(rng, tier, ns):
    plan = dict(interior=100, secular=220, hard=50, hard_exact=12, near_hard=3, b_zero=3, zero_matrix=2, any=200) \
        if tier == "quick" else \
        dict(interior=4000, secular=12000, hard=2400, hard_exact=400, near_hard=8, b_zero=10, zero_matrix=4, any=12000)
    cases = []
    for want, k in plan.items():
        for _ in range(k):
            cases.append(tre_recipe(rng, ns, want))
    # the upstream tests' own inputs (b random in [0,1)^3 there; seeded here)
    up = [("spd", None, 100.0), ("spd", None, 1e-4), ("indef", None, 1e-4), ("block", [0.0, 0.0, 1.0], 1e4),
          ("block", [2.0, 1.0, 0.0], 1e-2), ("block", [2.0, 1.0, 0.0], 1e3)]
    for name, b, dl in up:
        for rep_ in range(1 if b else (3 if tier == "quick" else 20)):
            bb = b or [rng.random() for _ in range(3)]
            cases.append(dict(family="treigen", origin="upstream", matrix=name, b=bb, delta=dl, n=3, want="upstream",
                              basis="upstream"))
    return cases


def subspace_tre_cases(rng, count, ns):
    """treigen inputs as EquationSolverSubspace.ModelProblem builds them: reduced Hessian / gradient on the
    orthonormalised vectors g, P g, H P g of a synthetic operator."""
    import jax.numpy as np
    from optimism import EquationSolverSubspace as ESS
    out = []
    tries = 0
    while len(out) < count and tries < 10 * count:
        tries += 1
        rec = random_cg_recipe(rng, [n for n in ns if n >= 4] or [4])
        arr = build_cg(rec)
        H, P, g = arr["H"], arr["P"], arr["g"]
        vs = [g, P @ g, H @ (P @ g)][: rng.choice([2, 3])]
        try:
            with Silence():
                mp = ESS.ModelProblem(np.array(g))
                for v in vs:
                    mp.add_vector(np.array(v), np.array(H @ v))
                mp.setup_system()
            Hr, gr = onp.array(mp.H, dtype=float), onp.array(mp.g, dtype=float)
        except Exception:
            continue
        if not (onp.all(onp.isfinite(Hr)) and onp.all(onp.isfinite(gr))):
            continue
        scale = float(onp.linalg.norm(gr)) / (float(onp.abs(onp.linalg.eigvalsh(Hr)).max()) or 1.0) or 1.0
        out.append(dict(family="treigen", origin="subspace", want="subspace", n=len(gr), basis="general",
                        delta=float(scale * 10 ** rng.uniform(-4, 4)),
                        arrays=dict(A=(0.5 * (Hr + Hr.T)).tolist(), b=gr.tolist())))
    return out


# ------------------------------------------------------------------------------------------- fixed witnesses
def witness_cases():
    """Deterministic inputs of the defects found with this check (kept in every run so that a known-finding entry
    or a fix is exercised every time)."""
    sig = [10 ** (4 * j / 19) for j in range(20)]
    cg = [dict(family="cg", origin="witness", n=20, basis="diagonal", qseed=0, sigma=sig, spectrum="spd", gkind="ones",
               gcoef=[1.0] * 20, pkind="identity", cg_tol=1e-150, ratio=1e-14, mode=True, cap=200,
               delta=0.99 * math.sqrt(sum(1.0 / s ** 2 for s in sig)))]
    tre = [
        # hard case, general eigenbasis (row instead of column eigenvector)
        dict(family="treigen", origin="synthetic", want="witness_hard", n=3, sigma=[-2.0, 1.0, 3.0], spectrum="indef",
             basis="general", qseed=7, gcoef=[0.0, 1.0, -0.5], delta=10.0),
        # hard case with p exactly orthogonal to z: sign(0) = 0 -> division by zero
        dict(family="treigen", origin="synthetic", want="witness_hard_exact", n=3, sigma=[-1.0, 2.0, 3.0], spectrum="indef",
             basis="diagonal", qseed=0, gcoef=[0.0, 1.0, 1.0], delta=5.0),
        # nearly hard case: the secular iteration cannot reach |p|/Delta - 1 <= 1e-9 and never stops
        dict(family="treigen", origin="synthetic", want="witness_near_hard", n=5, sigma=[-1.0, 0.5, 1.0, 3.0, 5.0],
             spectrum="indef", basis="general", qseed=0, gcoef=[1e-9, 0.3, -0.2, 0.1, 0.2], delta=1.0),
        # zero matrix: eps = 0
        dict(family="treigen", origin="synthetic", want="witness_zero_matrix", n=1, sigma=[0.0], spectrum="singular",
             basis="diagonal", qseed=0, gcoef=[1.0], delta=2.0),
    ]
    return cg, tre


# ------------------------------------------------------------------------------------------- binding self-test
SELFTEST_ID = 9000000


class Binding:
    """Corrupted copies of valid traces ride along in the same TLC validation; TLC must name the clause.
    (Vacuity control of the trace specs: a clause that cannot fail is a machinery error, exit 2.)"""

    def __init__(self):
        self.expect = {}     # id -> set of clause names that must be reported
        self.got = {}

    def add(self, traces, base, mutate, clauses):
        t = json.loads(json.dumps(base))
        mutate(t)
        t["id"] = SELFTEST_ID + len(self.expect)
        self.expect[t["id"]] = set(clauses)
        traces.append(t)

    def wrap(self, on_fail):
        def f(tid, l, clause):
            if tid >= SELFTEST_ID:
                self.got.setdefault(tid, set()).add(clause)
            else:
                on_fail(tid, l, clause)
        return f

    def finish(self, rep):
        missing = {t: sorted(c - self.got.get(t, set())) for t, c in self.expect.items() if c - self.got.get(t, set())}
        rep.coverage["binding_selftest"] = dict(corrupted_traces=len(self.expect), clauses_named=sum(len(v) for v in self.got.values()))
        rep.coverage["traces_validated_against_impl"] -= len(self.expect)
        if missing:
            rep.machinery("binding self-test: corrupted traces not rejected: %s" % missing)


# ------------------------------------------------------------------------------------------- main
def design_runs(rep, tier):
    runs = [("SteihaugCG.tla", "SteihaugCG_design.cfg"), ("Dogleg.tla", "Dogleg.cfg"), ("TREigen.tla", "TREigen.cfg")]
    for spec, cfg in runs:
        res = tlc.run(spec, cfg, label="design-" + cfg)
        if tlc.require_ok(res, rep, "design " + cfg):
            rep.add_tlc(res)
            zero = [a for a, n in res.action_counts.items() if n == 0]
            if zero:
                rep.machinery("design %s: actions never taken: %s" % (cfg, zero))
    # design mutants TLC must reject (sanity of the invariants; not evidence about the implementation)
    mut = {}
    for spec, cfg, inv in [("SteihaugCG.tla", "SteihaugCG_minusroot.cfg", "InvNeverIncreases"),
                           ("SteihaugCG.tla", "SteihaugCG_unfaithful.cfg", "InvInside"),
                           ("Dogleg.tla", "Dogleg_minusroot.cfg", "OnPath"),
                           ("TREigen.tla", "TREigen_f3.cfg", "Post")]:
        res = tlc.run(spec, cfg, label="mutant-" + cfg, coverage=False)
        mut[cfg] = res.violated
        if inv not in res.violated:
            rep.machinery("design mutant %s was not rejected by %s (violated=%s)" % (cfg, inv, res.violated))
    rep.coverage["design_mutants_rejected"] = mut


def main(tier, replay=None):
    common.setup_paths()
    rep = common.Reporter(PID, tier)
    rep.assumptions = list(ASSUMPTIONS)
    rng = random.Random(common.seed())
    ns_quick = [1, 2, 3, 4, 5, 7, 10, 16, 25, 40]
    ns = ns_quick if tier == "quick" else list(range(1, 41))
    cg_runs, dog_cases, tre = [], [], []
    if replay:
        case = json.load(open(replay))["case"]
        fam = case.get("family")
        if fam == "cg":
            ev, nums, arr = run_cg_case(case)
            cg_runs = [(case, ev, nums)]
        elif fam == "dogleg":
            dog_cases = [case]
        elif fam == "treigen":
            tre = [case]
        else:
            rep.machinery("unknown replay family %r" % fam)
    else:
        design_runs(rep, tier)
        # ---- (B) path catalogue of the CG loop
        maxcg = 4 if tier == "quick" else 6
        gen = tlc.run("SubproblemGen.tla", "SubproblemGen_paths.cfg" if tier == "quick" else "SubproblemGen_paths6.cfg",
                      workers=1, label="cg-path-catalogue", coverage=False)
        catalogue = set()
        if tlc.require_ok(gen, rep, "path catalogue"):
            rep.add_tlc(gen)
            for b in gen.payloads("BEH"):
                catalogue.add((b["mode"], b["cap"], b["exit"], b["iters"]))
        found, missing, probes = search_catalogue(catalogue, 4 if tier == "quick" else 25,
                                                  700 if tier == "quick" else 8000, rng, ns, maxcg)
        cg_runs += found
        rep.coverage["cg_catalogue"] = dict(entries=len(catalogue), realised=len(catalogue) - len(missing),
                                            uncovered=[list(k) for k in missing], probes=probes,
                                            runs=len(found))
        fam = free_cg_cases(rng, 300 if tier == "quick" else 24000, ns) \
            + converge_cg_cases(rng, 150 if tier == "quick" else 10000, ns) \
            + longpath_cg_cases(rng, 100 if tier == "quick" else 8000, ns)
        wcg, wtre = witness_cases()
        for c in fam + wcg:
            ev, nums, _ = run_cg_case(c)
            cg_runs.append((c, ev, nums))
        # ---- dogleg instances
        dg = tlc.run("Dogleg.tla", "Dogleg_gen.cfg" if tier == "quick" else "Dogleg_gen12.cfg", workers=1,
                     label="dogleg-lattice", coverage=False)
        if tlc.require_ok(dg, rep, "dogleg lattice"):
            rep.add_tlc(dg)
            insts = dg.payloads("BEH")
            rep.coverage["dogleg_lattice_instances"] = len(insts)
            for inst in insts:
                for _ in range(3 if tier == "quick" else 12):
                    dog_cases.append(dogleg_lattice_case(inst, rng))
        for _ in range(500 if tier == "quick" else 40000):
            dog_cases.append(dogleg_random_case(rng, ns))
        # ---- treigen instances
        tre = wtre + tre_cases(rng, tier, ns) + subspace_tre_cases(rng, 30 if tier == "quick" else 3000, ns)

    # =========================================================================== CG traces
    traces, cases = [], {}
    tid = 0
    exits, devmax, dev_gt = {}, 0.0, 0
    for c, ev, nums in cg_runs:
        tid += 1
        if ev is None:
            rep.count_clause("cg_returns")
            rep.fail("cg_returns", dict(c, what=nums.get("raised")))
            continue
        rep.count_clause("cg_returns")
        cases[tid] = c
        traces.append(dict(id=tid, mode="recurrence" if c["mode"] else "direct", cap=c["cap"], ev=ev))
        r = ev[-1]
        k = "%s@%s" % (r["exit"], "recurrence" if c["mode"] else "direct")
        exits[k] = exits.get(k, 0) + 1
        for cl in ("cg_inside", "cg_gross_norm", "cg_never_increases", "cg_step_type"):
            rep.count_clause(cl)
        rep.count_clause("cg_on_boundary", 1 if r["exit"] in ("boundary", "neg curve") else 0)
        rep.count_clause("cg_newton_residual", 1 if r["exit"] == "interior" else 0)
        rep.count_clause("cg_beats_cauchy", 1 if r["iters"] >= 1 else 0)
        if nums.get("long_rec") and r["exit"] in ("boundary", "neg curve") and math.isfinite(nums["norm_ratio"]):
            dv = abs(nums["norm_ratio"] - 1)
            devmax = max(devmax, dv)
            dev_gt += dv > NTOL
        if len(rep.coverage["samples"]) < 2:
            rep.sample(dict(family="cg", n=c["n"], spectrum=c.get("spectrum"), pkind=c.get("pkind"), delta=c["delta"],
                            mode=c["mode"], cap=c["cap"], events=ev[-3:], numbers={k: v for k, v in nums.items()}))
    rep.coverage["cg_exit_kinds"] = exits
    rep.coverage["cg_tiny_residual_exits"] = sum(1 for _, e, _ in cg_runs if e and e[0]["k"] == "tiny")
    rep.coverage["cg_origins"] = {o: sum(1 for c, _, _ in cg_runs if c.get("origin") == o)
                                  for o in ("catalogue", "free", "converge", "longpath", "witness")}
    rep.coverage["cg_iterations_max"] = max([e[-1]["iters"] for _, e, _ in cg_runs if e] or [0])
    rep.coverage["recurrence_norm_dev_max"] = devmax
    rep.coverage["recurrence_norm_dev_gt_1e-8"] = dev_gt

    def cg_fail(t, l, clause):
        c = cases[t]
        c2 = with_arrays(c, build_cg(c))
        c2["event"] = l
        tr_ = next(x for x in traces if x["id"] == t)
        c2["observed"] = tr_["ev"][-1]
        c2["long_recurrence_path"] = bool(c["mode"] and tr_["ev"][-1]["iters"] > SHORT)
        rep.fail(clause, c2)
    bind = Binding()
    if traces and not replay:
        def first(pred):
            return next((t for t in traces if t["id"] < SELFTEST_ID and pred(t["ev"][-1])), None)
        b = first(lambda r: r["exit"] == "boundary" and r["nrm"] == "on")
        if b:
            bind.add(traces, b, lambda t: t["ev"][-1].update(nrm="out"), ["cg_inside", "cg_on_boundary"])
            bind.add(traces, b, lambda t: t["ev"][-1].update(nrmC="out"), ["cg_gross_norm"])
            bind.add(traces, b, lambda t: t["ev"][-1].update(nrm="in"), ["cg_on_boundary"])
            bind.add(traces, b, lambda t: t["ev"][-1].update(cmpC="GT"), ["cg_beats_cauchy"])
            bind.add(traces, b, lambda t: t["ev"][-1].update(cmp0="GT"), ["cg_never_increases"])
            bind.add(traces, b, lambda t: t["ev"][-1].update(exit="interior", res=False), ["cg_newton_residual"])
            bind.add(traces, b, lambda t: t["ev"][-1].update(exit="elsewhere"), ["cg_step_type"])
    if traces:
        trace.validate("SteihaugCGTrace.tla", "SteihaugCGTrace.cfg", traces, rep, on_fail=bind.wrap(cg_fail), label="cg-trace")

    # =========================================================================== dogleg traces
    dtr, dcases = [], {}
    kinds = {}
    for c in dog_cases:
        tid += 1
        obs, nums, arrs = run_dogleg(c)
        rep.count_clause("dog_returns")
        if obs is None:
            rep.fail("dog_returns", dict(c, what=nums.get("raised")))
            continue
        obs["id"] = tid
        dcases[tid] = (c, arrs)
        dtr.append(obs)
        for cl in ("dog_finite", "dog_inside", "dog_on_path"):
            rep.count_clause(cl)
        kd = ("scaledCP" if obs["cVt"] in ("GT", "EQ") else "CP" if obs["cVn"] == "GT" else
              "onSecondLeg" if obs["nVt"] == "GT" else "newton")
        kinds[kd] = kinds.get(kd, 0) + 1
        if c["origin"] == "lattice" and not any(s.get("family") == "dogleg" for s in rep.coverage["samples"]):
            rep.sample(dict(family="dogleg", case=c, observed=obs))
    rep.coverage["dogleg_result_kinds"] = kinds

    def dog_fail(t, l, clause):
        c, (cp, nw, tr_, M) = dcases[t]
        c2 = dict(c)
        c2["arrays"] = dict(cp=cp.tolist(), nw=nw.tolist(), M=onp.asarray(M).tolist())
        c2["observed"] = {k: v for k, v in next(x for x in dtr if x["id"] == t).items() if k != "id"}
        rep.fail(clause, c2)
    if dtr and not replay:
        b = next((o for o in dtr if o["inside"] and o["onPath"] and o["finite"]), None)
        if b:
            bind.add(dtr, b, lambda t: t.update(inside=False), ["dog_inside"])
            bind.add(dtr, b, lambda t: t.update(onPath=False), ["dog_on_path"])
            bind.add(dtr, b, lambda t: t.update(finite=False), ["dog_finite"])
    if dtr:
        trace.validate("DoglegTrace.tla", "DoglegTrace.cfg", dtr, rep, on_fail=bind.wrap(dog_fail), label="dogleg-trace")

    # =========================================================================== treigen traces
    ttr, tcases = [], {}
    tcl = {}
    timeouts, skipped = 0, 0
    for c in tre:
        tid += 1
        if timeouts >= (3 if tier == "quick" else 8) and not replay:
            A_, b_, d_ = build_tre(c)          # after repeated non-termination, inputs of the same class are not run again
            v_, l_, cl_ = trs_reference(A_, b_, d_)
            if cl_["branch"] == "secular" and cl_["lam0"] > 0 and l_ - cl_["lam0"] <= 1e-6 * cl_["lam0"]:
                skipped += 1
                continue
        obs, nums, feats, (A, b) = run_tre(c)
        timeouts += 1 if (obs is None and nums.get("timeout")) else 0
        c2 = dict(c)
        c2.update(feats)
        c2["b_zero"] = not onp.any(b)
        c2["zero_matrix"] = not onp.any(A)
        rep.count_clause("tre_returns")
        if obs is None:
            c2["arrays"] = dict(A=A.tolist(), b=b.tolist())
            c2["what"] = "timeout" if nums.get("timeout") else nums.get("raised")
            rep.fail("tre_returns", c2)
            continue
        obs["id"] = tid
        tcases[tid] = (c2, A, b, nums)
        ttr.append(obs)
        key = feats["tre_case"]
        tcl[key] = tcl.get(key, 0) + 1
        for cl in ("tre_finite", "tre_inside", "tre_global_min", "tre_certificate"):
            rep.count_clause(cl)
        if not any(s.get("family") == "treigen" for s in rep.coverage["samples"]):
            rep.sample(dict(family="treigen", n=len(b), delta=c["delta"], observed=obs, numbers=nums))
    rep.coverage["treigen_cases"] = tcl
    rep.coverage["treigen_timeouts"] = timeouts
    rep.coverage["treigen_near_hard_skipped_after_timeouts"] = skipped

    def tre_fail(t, l, clause):
        c2, A, b, nums = tcases[t]
        c3 = dict(c2)
        c3["arrays"] = dict(A=A.tolist(), b=b.tolist())
        c3["observed"] = {k: v for k, v in next(x for x in ttr if x["id"] == t).items() if k != "id"}
        c3["numbers"] = nums
        rep.fail(clause, c3)
    if ttr and not replay:
        b = next((o for o in ttr if o["finite"] and o["stat"] and o["mcmp"] != "GT" and o["nrm"] == "on" and o["lam"] == "above"), None)
        if b:
            bind.add(ttr, b, lambda t: t.update(mcmp="GT"), ["tre_global_min"])
            bind.add(ttr, b, lambda t: t.update(stat=False), ["tre_certificate"])
            bind.add(ttr, b, lambda t: t.update(lam="below"), ["tre_certificate"])
            bind.add(ttr, b, lambda t: t.update(nrm="in"), ["tre_certificate"])
            bind.add(ttr, b, lambda t: t.update(nrm="out"), ["tre_inside", "tre_certificate"])
            bind.add(ttr, b, lambda t: t.update(finite=False), ["tre_finite"])
    if ttr:
        trace.validate("TREigenTrace.tla", "TREigenTrace.cfg", ttr, rep, on_fail=bind.wrap(tre_fail), label="treigen-trace")
    if not replay:
        bind.finish(rep)

    nd = len({json.dumps([e.get("exit", e.get("k")) for e in t["ev"]] + [t["mode"], t["cap"]]) for t in traces}) \
        + len({json.dumps([o["cVt"], o["cVn"], o["nVt"], o["kinds"]]) for o in dtr}) \
        + len({json.dumps([o["lmin"], o["perp"], o["pn"], o["nrm"], o["lam"]]) for o in ttr})
    return rep.finish(rule="CG: every (mode, cap, exit, iteration) path TLC enumerates is realised on the real solver by a "
                           "seeded search over synthetic operators (uncovered entries listed), plus seeded free runs; "
                           "dogleg: every lattice ordering of (cc, nn, tt) TLC enumerates with exactly representable "
                           "vectors, plus seeded random instances; treigen: seeded instances per input class "
                           "(interior / secular / hard / near-hard / degenerate) plus the upstream tests' matrices and "
                           "ModelProblem-built reduced systems; distinct = distinct abstract observations",
                      extra={"distinct_nontrivial": nd}, exhaustive=False)


if __name__ == "__main__":
    sys.exit(main(common.tier()))
