"""C19 — Load stepping: warm start is the exact linear predictor; scaling is transparent.

(A) LoadStep.tla: protocol of one load step for the four drivers + exact rational 1-D predictor model, TLC.
(B) load-step histories (driver, warm start on/off, preconditioner refresh on/off, parameter version) emitted by
    TLC are replayed into the REAL drivers (nonlinear_equation_solve, TrustRegionSPG.solve,
    augmented_lagrange_solve, bound_constrained_solve) through recording proxies.
(C) observed order of jvp / parameter assignment / refresh / first gradient, installed-parameter identity, the
    increment and the flag are abstracted and judged by LoadStepTrace.tla.
Also: warm_start_increment called directly for slots 0 and 2; ScaledObjective vs Objective solutions.
"""
import json
import random
import sys

import numpy as onp

from harness import common, tlc, trace
from harness.proxies import ObjectiveProxy, Silence, _key

PID = "C19"
N = 3
_CACHE = {}


def fam(x, p):
    """E(x; b=p[0], d=p[2], (A0, c4)=p[1]) = 1/2 x.A0 x + 1/2 sum d_i x_i^2 - b.x + c4 sum x_i^4"""
    import jax.numpy as np
    A0, c4 = p[1]
    return 0.5 * x @ (A0 @ x) + 0.5 * np.sum(p[2] * x * x) - p[0] @ x + c4 * np.sum(x ** 4)


def cons(x, p):
    import jax.numpy as np
    return np.array([x[0] + 50.0, 60.0 - x[1]])          # inactive: the AL solve reproduces the unconstrained one


def params(prob, b, d=None):
    import jax.numpy as np
    from optimism import Objective
    return Objective.Params(bc_data=np.array(b, dtype=float), state_data=(np.array(prob["A0"]), float(prob["c4"])),
                            design_data=np.array(prob["d"] if d is None else d, dtype=float))


def objects(prob0):
    import jax.numpy as np
    from optimism import Objective, ConstrainedObjective, BoundConstrainedObjective
    from scipy.sparse import csc_matrix
    if "obj" not in _CACHE:
        p0 = params(prob0, prob0["b0"])
        x0 = np.ones(N)
        with Silence():
            _CACHE["obj"] = Objective.Objective(fam, x0, p0)
            _CACHE["al"] = ConstrainedObjective.ConstrainedObjective(fam, cons, x0, p0, np.zeros(2), np.ones(2))
            _CACHE["bal"] = BoundConstrainedObjective.BoundConstrainedObjective(fam, x0, p0, np.array([0]))
            # diagonally scaled objective with a strongly non-uniform scaling (sqrt of a fixed stiffness diagonal)
            ps = Objective.PrecondStrategy(lambda x, p: csc_matrix(onp.diag([0.25, 9.0, 400.0])))
            _CACHE["sobj"] = Objective.ScaledObjective(fam, x0, p0, ps)
    return _CACHE


def make_prob(rng, quadratic):
    Q, _ = onp.linalg.qr(onp.array([[rng.gauss(0, 1) for _ in range(N)] for _ in range(N)]))
    A0 = Q @ onp.diag([10 ** rng.uniform(0, 1.5) for _ in range(N)]) @ Q.T
    A0 = 0.5 * (A0 + A0.T)
    d = [rng.uniform(0.5, 3) for _ in range(N)]
    xt = onp.array([rng.uniform(0.5, 2.0)] + [rng.uniform(-1, 1) for _ in range(N - 1)])
    H = A0 + onp.diag(d)
    b0 = H @ xt
    bdir = H @ onp.array([rng.uniform(0.05, 0.2)] + [rng.uniform(-0.3, 0.3) for _ in range(N - 1)])
    return dict(A0=A0.tolist(), d=d, c4=0.0 if quadratic else rng.uniform(0.02, 0.2), b0=b0.tolist(),
                bdir=bdir.tolist(), quadratic=quadratic)


def bvec(prob, v):
    return (onp.array(prob["b0"]) + v * onp.array(prob["bdir"])).tolist()


def ref_codes(prob, x0, p_old_b, p_new_b, x_start, d_old=None, d_new=None, index=0, sinv=None):
    """alpha for the predictor: independent dense Jacobians of the energy's gradient."""
    import jax
    import jax.numpy as np
    x0 = np.array(x0)
    pold = params(prob, p_old_b, d_old)
    g = lambda x, b, d: jax.grad(fam)(x, params(prob, b, d))
    H = onp.asarray(jax.jacfwd(lambda x: jax.grad(fam)(x, pold))(x0))
    if index == 0:
        Jp = onp.asarray(jax.jacfwd(lambda b: g(x0, b, pold[2]))(pold[0]))
        dp = onp.array(p_new_b) - onp.array(p_old_b)
    else:
        Jp = onp.asarray(jax.jacfwd(lambda d: g(x0, pold[0], d))(pold[2]))
        dp = onp.array(d_new) - onp.array(d_old)
    b_ref = -Jp @ dp                                   # minus the change of the gradient caused by the parameter change
    dx = onp.asarray(x_start) - onp.asarray(x0)
    # residuals are measured in the variables the linear solve ran in (x_bar = scaling * x for a scaled objective):
    # gradient-like vectors transform with invScaling
    wgt = onp.ones_like(b_ref) if sinv is None else onp.asarray(sinv, dtype=float) * onp.ones_like(b_ref)
    nb = float(onp.linalg.norm(wgt * b_ref))
    ws = "EQ" if float(onp.linalg.norm(wgt * (H @ dx - b_ref))) <= 1e-4 * nb + 1e-13 else "NE"
    lands = "NA"
    if prob["quadratic"] and index == 0:
        pnew = params(prob, p_new_b)
        gn = wgt * onp.asarray(jax.grad(fam)(np.array(x_start), pnew))
        # for a quadratic energy g(x0+dx; p_new) = g(x0; p_old) + (H dx - b_ref): x0 is a solution for p_old only to
        # the previous solve's tolerance, so its residual is part of the allowance
        g0 = float(onp.linalg.norm(wgt * onp.asarray(jax.grad(fam)(x0, pold))))
        lands = "EQ" if float(onp.linalg.norm(gn)) <= 1e-4 * nb + 1.000001 * g0 + 1e-12 else "NE"
    return ws, lands


def run_history(prob, hist, tid):
    """hist: list of dict(drv, warm, upd, p).  State x carried from step to step per driver call."""
    import jax
    import jax.numpy as np
    from optimism import EquationSolver, TrustRegionSPG, AlSolver, BoundConstrainedSolver
    O = objects(prob)
    ev = []
    pv = 0
    x = onp.linalg.solve(onp.array(prob["A0"]) + onp.diag(prob["d"]), onp.array(bvec(prob, pv)))
    if not prob["quadratic"]:
        pfull = params(prob, bvec(prob, pv))
        for _ in range(50):
            gx = jax.grad(fam)(np.array(x), pfull)
            x = x - onp.linalg.solve(onp.asarray(jax.hessian(fam)(np.array(x), pfull)), onp.asarray(gx))
    for st in hist:
        drv, warm, upd, v = st["drv"], bool(st["warm"]), bool(st["upd"]), st["p"]
        real = {"TR": O["obj"], "TRS": O["sobj"], "SPG": O["obj"], "AL": O["al"], "BAL": O["bal"]}[drv]
        p_old = params(prob, bvec(prob, pv))
        p_new = params(prob, bvec(prob, v))
        real.p = p_old
        x0 = np.array(x)
        with Silence():
            real.update_precond(x0 * real.scaling if drv in ("BAL", "TRS") else x0)
        if drv in ("AL", "BAL"):
            real.lam = np.zeros_like(real.lam)
            real.reset_kappa()
        proxy = ObjectiveProxy(real)
        proxy._log.clear()
        tol = 1e-8
        ret, flag, xr = "raised", None, None
        with Silence():
            try:
                if drv in ("TR", "TRS"):
                    s = EquationSolver.get_settings(debug_info=False, tol=tol)
                    xr, flag = EquationSolver.nonlinear_equation_solve(proxy, x0, p_new, s, useWarmStart=warm, updatePrecond=upd)
                    ret = "flagTrue" if flag else "flagFalse"
                elif drv == "SPG":
                    s = TrustRegionSPG.get_settings(debug_info=False, tol=tol)
                    xr, flag = TrustRegionSPG.solve(proxy, x0, p_new, -100 * np.ones(N), 100 * np.ones(N), s,
                                                    useWarmStart=warm, updatePrecond=upd)
                    ret = "flagTrue" if flag else "flagFalse"
                elif drv == "AL":
                    xr = AlSolver.augmented_lagrange_solve(proxy, x0, p_new, AlSolver.get_settings(tol=tol),
                                                           EquationSolver.get_settings(debug_info=False, tol=tol),
                                                           useWarmStart=warm, updatePrecond=upd,
                                                           updatePrecondBeforeWarmStart=upd)
                    ret = "normal"
                else:
                    xr = BoundConstrainedSolver.bound_constrained_solve(proxy, x0, p_new, AlSolver.get_settings(tol=tol),
                                                                        EquationSolver.get_settings(debug_info=False, tol=tol),
                                                                        useWarmStart=warm, updatePrecond=upd)
                    ret = "normal"
            except Exception as ex:  # noqa
                ret = "raised"
                ev_raise = repr(ex)[:120]
        # ---- abstract the proxy log
        ops, installed, x_start, jvp_at_old = [], False, None, True
        for item in proxy._log:
            if "solve" in ops:
                break
            if item[0] == "update_precond":
                ops.append("refresh")
            elif item[0] in ("jacobian_p_vec", "jacobian_p2_vec"):
                ops.append("jvp")
                jvp_at_old = (item[1] == id(p_old))
            elif item[0] == "set_p":
                ops.append("install")
                installed = True
            elif item[0] == "gradient" and installed:
                ops.append("solve")
                x_start = onp.frombuffer(item[1], dtype=onp.float64).copy()
        e = dict(e="Step", drv=drv, warm=warm, upd=upd, ops=ops, pIsNew=bool(real.p is p_new), jvpAtOld=bool(jvp_at_old),
                 ws="NA", lands="NA", startIsX0=True, ret=ret, gSmallNew=False)
        if x_start is not None:
            xs = x_start / onp.asarray(real.scaling) if drv in ("BAL", "TRS") else x_start
            if warm:
                e["ws"], e["lands"] = ref_codes(prob, x0, bvec(prob, pv), bvec(prob, v), xs,
                                                sinv=(onp.asarray(real.invScaling) if drv in ("TRS", "BAL") else None))
            else:
                e["startIsX0"] = bool(onp.all(xs == onp.asarray(x0)))
        if ret != "raised":
            pn = params(prob, bvec(prob, v))
            if drv == "TRS":         # the scaled objective's flag is about its own (scaled) gradient, under the NEW parameters
                sav = real.p
                real.p = pn
                gn = onp.asarray(real.gradient(np.array(xr) * real.scaling))
                real.p = sav
                e["gSmallNew"] = bool(onp.linalg.norm(gn) < tol * (1 + 1e-9))
            elif drv in ("TR", "SPG"):
                gn = onp.asarray(jax.grad(fam)(np.array(xr), pn))
                e["gSmallNew"] = bool(onp.linalg.norm(gn) < tol * (1 + 1e-9))
            else:
                sav = real.p
                real.p = pn
                res = onp.asarray(real.total_residual(np.array(xr) * real.scaling if drv == "BAL" else np.array(xr)))
                real.p = sav
                e["gSmallNew"] = bool(onp.linalg.norm(res) < tol * (1 + 1e-9))
            x = onp.asarray(xr)
            pv = v
        else:
            e["what"] = ev_raise
        ev.append(e)
    return dict(id=tid, ev=ev)


def direct_and_scaled(prob, rng, tid):
    """warm_start_increment called directly (slots 0 and 2) and ScaledObjective vs Objective."""
    import jax
    import jax.numpy as np
    from optimism import WarmStart, Objective, EquationSolver
    from scipy.sparse import csc_matrix
    O = objects(prob)
    real = O["obj"]
    ev = []
    b_old = bvec(prob, 0)
    x0 = onp.linalg.solve(onp.array(prob["A0"]) + onp.diag(prob["d"]), onp.array(b_old))
    for index in (0, 2):
        p_old = params(prob, b_old)
        real.p = p_old
        with Silence():
            real.update_precond(np.array(x0))
        if index == 0:
            b_new = bvec(prob, rng.choice([-2, -1, 1, 2])); d_new = prob["d"]
        else:
            b_new = b_old; d_new = [di * rng.uniform(0.7, 1.4) for di in prob["d"]]
        p_new = params(prob, b_new, d_new)
        with Silence():
            dx = WarmStart.warm_start_increment(real, np.array(x0), p_new, index=index)
        ws, lands = ref_codes(prob, x0, b_old, b_new, x0 + onp.asarray(dx), prob["d"], d_new, index=index)
        ev.append(dict(e="Direct", index=index, ws=ws, lands=lands))
    # scaled vs unscaled
    ps = Objective.PrecondStrategy(lambda x, p: csc_matrix(onp.asarray(jax.hessian(fam)(np.array(x), p))))
    p_old = params(prob, b_old)
    p_new = params(prob, bvec(prob, rng.choice([-2, -1, 1, 2])))
    key = "scaled"
    with Silence():
        so = Objective.ScaledObjective(fam, np.array(x0), p_old, ps)
        s = EquationSolver.get_settings(debug_info=False)
        warm = rng.random() < 0.5
        xs, fs = EquationSolver.nonlinear_equation_solve(so, np.array(x0), p_new, s, useWarmStart=warm)
        real.p = p_old
        xu, fu = EquationSolver.nonlinear_equation_solve(real, np.array(x0), p_new, s, useWarmStart=warm)
    agree = "EQ" if float(onp.linalg.norm(onp.asarray(xs) - onp.asarray(xu))) <= 1e-6 * (1 + float(onp.linalg.norm(onp.asarray(xu)))) else "NE"
    ev.append(dict(e="Scaled", agree=agree, flagS=bool(fs), flagU=bool(fu)))
    # the same through the bound-constrained driver, with finite bounds some of which are active at the solution
    from optimism import TrustRegionSPG
    xfree = onp.asarray(xu)
    lb = np.array([xfree[i] - (0.0 if i == 0 else 5.0) for i in range(N)]) - np.array([0.3, 0.0, 0.0])
    ub = np.array([xfree[i] + (5.0 if i != 1 else -0.2 * (1 + abs(xfree[1]))) for i in range(N)])    # upper bound active on dof 1
    xstart = np.minimum(np.maximum(np.array(x0), lb), ub)
    try:
        with Silence():
            ss = TrustRegionSPG.get_settings(debug_info=False)
            so.p = p_old
            xs2, fs2 = TrustRegionSPG.solve(so, np.array(xstart), p_new, lb, ub, ss, useWarmStart=False)
            real.p = p_old
            xu2, fu2 = TrustRegionSPG.solve(real, np.array(xstart), p_new, lb, ub, ss, useWarmStart=False)
        agree2 = "EQ" if float(onp.linalg.norm(onp.asarray(xs2) - onp.asarray(xu2))) <= 1e-6 * (1 + float(onp.linalg.norm(onp.asarray(xu2)))) else "NE"
        ev.append(dict(e="Scaled", agree=agree2, flagS=bool(fs2), flagU=bool(fu2), driver="SPG"))
    except RuntimeError as ex:          # find_generalized_cauchy_point may raise (outside the contract): no observation
        if "Cauchy" not in str(ex):
            raise
    return dict(id=tid, ev=ev)


def main(tier, replay=None):
    common.setup_paths()
    rep = common.Reporter(PID, tier)
    rep.assumptions = [
        "dense sksparse shim stands in for CHOLMOD",
        "predictor: ||H dx - b_ref|| <= 1e-4 ||b_ref|| (norms in the variables of the linear solve, i.e. weighted by invScaling for scaled objectives) with H, d grad/dp from independent jax.jacfwd (scipy cg default rtol 1e-5); quadratic energies: ||grad E(x0+dx; p_new)|| <= 1e-4 ||b_ref|| + ||grad E(x0; p_old)|| (the old point solves the old problem only to the previous tolerance)",
        "scaled vs unscaled solutions: ||x_s-x_u|| <= 1e-6 (1+||x_u||); flag recomputed under the NEW parameters with tol (1+1e-9)",
        "AL / bound-AL drivers are exercised with inactive constraints (the protocol, not the constraint handling, is the subject; C04 covers the latter)"]
    rng = random.Random(common.seed())
    traces, cases = [], {}
    if replay:
        c = json.load(open(replay))["case"]
        _CACHE.clear()
        t = run_history(c["prob"], c["hist"], 1) if c["mode"] == "history" else direct_and_scaled(c["prob"], random.Random(c["seed"]), 1)
        traces.append(t); cases[1] = c
    else:
        des = tlc.run("LoadStep.tla", "LoadStep.cfg", label="design")
        tlc.require_ok(des, rep, "design")
        rep.add_tlc(des)
        gen = tlc.run("LoadStepGen.tla", "LoadStep_gen.cfg", workers=1,
                      label="behaviours", coverage=False)
        hists = []
        if tlc.require_ok(gen, rep, "behaviours"):
            rep.add_tlc(gen)
            seen = set()
            for b in gen.payloads("BEH"):
                k = json.dumps(b["steps"], sort_keys=True)
                if k not in seen and b["steps"]:
                    seen.add(k); hists.append(b["steps"])
        rep.coverage["histories_from_tlc"] = len(hists)
        rng.shuffle(hists)
        hists = hists[:70 if tier == "quick" else 1500]
        rep.coverage["histories_replayed"] = len(hists)
        probs = [make_prob(rng, True), make_prob(rng, False)]
        # all objectives are built on the first problem's shapes; parameters go through .p
        tid = 0
        reps = 1
        for r in range(reps):
            for i, h in enumerate(hists):
                prob = make_prob(rng, quadratic=(i + r) % 2 == 0)
                tid += 1
                traces.append(run_history(prob, h, tid))
                cases[tid] = dict(mode="history", prob=prob, hist=h)
        for i in range(6 if tier == "quick" else 60):
            prob = make_prob(rng, quadratic=i % 2 == 0)
            tid += 1
            s = rng.randrange(1 << 30)
            traces.append(direct_and_scaled(prob, random.Random(s), tid))
            cases[tid] = dict(mode="direct", prob=prob, seed=s)
    for t in traces:
        for e in t["ev"]:
            if e["e"] == "Step":
                rep.count_clause("params_installed")
                rep.count_clause("flag_refers_to_new_params", 1 if e["ret"] in ("flagTrue", "normal") else 0)
                rep.count_clause("warm_start_is_linear_predictor", 1 if e["ws"] != "NA" else 0)
                rep.count_clause("warm_start_lands_for_quadratic", 1 if e["lands"] != "NA" else 0)
                k = "%s/%s" % (e["drv"], e["ret"])
                rep.coverage.setdefault("step_outcomes", {})
                rep.coverage["step_outcomes"][k] = rep.coverage["step_outcomes"].get(k, 0) + 1
            elif e["e"] == "Direct":
                rep.count_clause("warm_start_is_linear_predictor")
            else:
                rep.count_clause("scaling_transparent")
    if traces:
        rep.sample(traces[0]["ev"][:3])
        rep.sample(traces[-1]["ev"])

    def on_fail(tid, l, clause):
        c = dict(cases[tid]); c["event"] = l
        c["events"] = [t for t in traces if t["id"] == tid][0]["ev"]
        rep.fail(clause, c)
    trace.validate("LoadStepTrace.tla", "LoadStepTrace.cfg", traces, rep, on_fail=on_fail)
    nd = len({json.dumps(t["ev"], sort_keys=True, default=str) for t in traces})
    return rep.finish(rule="load-step histories emitted by TLC from LoadStep.tla replayed into the four real drivers on "
                           "seeded quadratic / quartic energies; direct warm-start calls for slots 0 and 2; scaled vs "
                           "unscaled solves; distinct = distinct abstract event sequences",
                      extra={"distinct_nontrivial": nd})


if __name__ == "__main__":
    sys.exit(main(common.tier()))
