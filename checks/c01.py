"""C01 — Trust-region minimizer never goes uphill and reports convergence honestly.

(A) TLC checks Descent / ReturnsLast / HonestFlag on TrustRegion.tla for every sequence of environment answers
    (and produces the expected counterexample to NoUphillConvergence = finding F1).
(B) every distinct sequence of reduction-ratio classes TLC emits is replayed through the value-oracle proxy into
    the REAL EquationSolver.trust_region_minimize under several setting vectors.
(C) genuine solves of a seeded smooth family (convex / indefinite / singular / badly scaled / wiggly) under
    setting vectors that force each exit path are recorded.
All traces are validated by TrustRegionTrace.tla (contract clauses -> VIOLATION, drift_ clauses -> drift).
"""
import json
import random
import sys

import numpy as onp

from harness import common, tlc, trace
from checks import trsolve

PID = "C01"
CODE = {"nan": "nan", "neg": "worse", "zero": "equal", "pos_lt_eta1": "pos_lt_eta1", "eta1_eta2": "eta1_eta2",
        "eta2_eta3": "eta2_eta3", "gt_eta3": "gt_eta3"}


def settings_from(d):
    from optimism import EquationSolver
    return EquationSolver.get_settings(**d)


SETTING_VECTORS = [
    dict(),                                                          # defaults
    dict(max_trust_iters=3),
    dict(max_trust_iters=1),
    dict(tr_size=1e-3, min_tr_size=2e-4, max_trust_iters=6),         # radius collapses after one shrink (E2 path)
    dict(max_cg_iters=1, max_cumulative_cg_iters=2, max_trust_iters=8),   # preconditioner refresh branch
    dict(use_preconditioned_inner_product_for_cg=True, max_trust_iters=8),
    dict(eta1=1e-4, eta2=0.25, eta3=0.75, t1=0.5, t2=2.0, max_trust_iters=8),
    dict(tr_size=0.05, max_trust_iters=10),
]


def design(rep, tier):
    ok = True
    for cfg in ("TrustRegion_design.cfg", "TrustRegion_incr.cfg") + (("TrustRegion_design_big.cfg",) if tier == "thorough" else ()):
        res = tlc.run("TrustRegionGen.tla", cfg, label=cfg)
        ok = tlc.require_ok(res, rep, "design " + cfg) and ok
        rep.add_tlc(res)
    f1 = tlc.run("TrustRegionGen.tla", "TrustRegion_f1.cfg", label="design-F1", coverage=False)
    rep.coverage["design_counterexample_NoUphillConvergence"] = ("NoUphillConvergence" in f1.violated)
    return ok


def scripts_from_tlc(rep, tier):
    cfg = "TrustRegion_gen.cfg" if tier == "quick" else "TrustRegion_gen_deep.cfg"
    res = tlc.run("TrustRegionGen.tla", cfg, workers=1, label="behaviours", coverage=False)
    if not tlc.require_ok(res, rep, "behaviour generation"):
        return []
    rep.add_tlc(res)
    seen, out = set(), []
    for b in res.payloads("BEH"):
        codes = tuple(CODE[t["rho"]] for t in b["trials"])
        if codes and codes not in seen:
            seen.add(codes)
            out.append(list(codes))
    rep.coverage["behaviours_emitted_by_tlc"] = len(res.payloads("BEH"))
    rep.coverage["distinct_value_scripts"] = len(out)
    return out


def build_cases(rep, tier, rng):
    cases = []
    # (B) scripted replays
    scripts = scripts_from_tlc(rep, tier)
    nset = 3 if tier == "quick" else len(SETTING_VECTORS)
    rng.shuffle(scripts)
    order = [0, 3, 4, 1, 6, 5, 7, 2]
    i = 0
    for sc in scripts:
        for sv in order[:nset]:
            kind = ["convex", "indef", "wiggly"][i % 3]
            prob = trsolve.random_problem(rng, 3, kind)
            x0 = [rng.uniform(-2, 2) for _ in range(3)]
            cases.append(dict(mode="scripted", prob=prob, x0=x0, settings=SETTING_VECTORS[sv], precond="exact", script=sc))
            i += 1
    # (C) genuine solves
    ngen = 160 if tier == "quick" else 2500
    kinds = ["convex", "indef", "singular", "scaled_up", "scaled_down", "wiggly"]
    for i in range(ngen):
        kind = kinds[i % len(kinds)]
        n = [2, 3, 5][(i // len(kinds)) % 3]
        prob = trsolve.random_problem(rng, n, kind)
        x0 = [rng.uniform(-3, 3) for _ in range(n)]
        sv = dict(SETTING_VECTORS[(i // 2) % len(SETTING_VECTORS)])
        if i % 7 == 3:
            sv["use_incremental_objective"] = True
        precond = ["exact", "stale", "identity"][(i // 3) % 3]
        c = dict(mode="genuine", prob=prob, x0=x0, settings=sv, precond=precond, script=None)
        if precond == "stale":
            c["precond_point"] = [rng.uniform(-3, 3) for _ in range(n)]
        cases.append(c)
    # well-conditioned strictly convex problems with DEFAULT settings: must succeed at the unique minimizer
    for i in range(40 if tier == "quick" else 400):
        n = [2, 3, 5][i % 3]
        prob = trsolve.random_problem(rng, n, "convex")
        cases.append(dict(mode="convex_default", prob=prob, x0=[rng.uniform(-3, 3) for _ in range(n)], settings={},
                          precond="exact", script=None))
    # saddle starts: strongly indefinite Hessian at x0 = 0, tiny gradient, quartic growth, default (shifted) preconditioner.
    # About 3% of these runs reach the "positive model objective" branch (rejected negative-curvature step, then a dogleg
    # between the unpreconditioned Cauchy point and the rejected point), whose re-signing of rho is what keeps an
    # uphill step from being accepted there.
    import numpy as _onp
    for i in range(220 if tier == "quick" else 3000):
        n = 3
        M = _onp.array([[rng.gauss(0, 1) for _ in range(n)] for _ in range(n)])
        A = (M + M.T) * rng.uniform(0.5, 3)
        ev = _onp.linalg.eigvalsh(A)
        if ev[0] > 0:
            A = A - _onp.eye(n) * (ev[0] + 1)
        prob = dict(A=A.tolist(), b=[-0.1 * rng.uniform(0.1, 1) * rng.choice([-1, 1]) for _ in range(n)], c3=0.0,
                    c4=rng.uniform(0.3, 10), s=0.0, w=[1.0] * n, kind="saddle_start", n=n)
        cases.append(dict(mode="genuine", prob=prob, x0=[0.0] * n, settings={}, precond="exact", script=None))
    # through the load-step driver: the objective still carries the previous step's parameters; the flag must refer
    # to the parameters the solve was asked for (warm start / preconditioner refresh on and off)
    for i in range(24 if tier == "quick" else 300):
        n = [2, 3, 5][i % 3]
        prob = trsolve.random_problem(rng, n, ["convex", "wiggly", "indef"][i % 3])
        old = dict(prob); old["b"] = [v + rng.uniform(-1, 1) for v in prob["b"]]
        cases.append(dict(mode="driver", prob=prob, prob_old=old, x0=[rng.uniform(-2, 2) for _ in range(n)], settings={},
                          precond="exact", script=None, warm=bool(i % 2), upd=bool((i // 2) % 2)))
    # the dyadic witness of finding F1 (convergence exit lands on a local maximum)
    cases.append(dict(mode="genuine", prob=trsolve.WITNESS_F1, x0=[0.0], settings={}, precond="exact", script=None,
                      witness="F1"))
    return cases


def run_case(c, tid):
    s = dict(c["settings"])
    s.setdefault("debug_info", False)
    st = settings_from(s)
    ref = trsolve.dense_minimizer(c["prob"]) if c["mode"] == "convex_default" else None
    if c["mode"] == "driver":
        return trsolve.run("nes", c["prob"], c["x0"], st, tid=tid, prob_old=c["prob_old"], warm=c["warm"], upd=c["upd"])
    return trsolve.run("tr", c["prob"], c["x0"], st, precond=c["precond"], script=c.get("script"),
                       precond_point=c.get("precond_point"), tid=tid, convex_ref=ref)


def main(tier, replay=None):
    common.setup_paths()
    rep = common.Reporter(PID, tier)
    rep.assumptions = [
        "dense sksparse shim (harness/shims) stands in for CHOLMOD",
        "value-oracle replays check only clauses valid for every environment (descent on accepted iterates, returns-last, flag => recomputed gradient norm < tol, finiteness)",
        "objective comparison on reported iterates is exact (same jitted value function); the convergence-exit report is allowed 64 eps",
        "honest flag: recomputed ||grad f(x_ret)|| < tol (1+1e-12)",
        "convex class: A with spectrum in [1,1e3] plus optional quartic, default settings; agreement ||x-x*|| <= 1e-6 (1+||x*||) with x* from dense Newton",
        "model change assumed non-zero unless the step is zero (TRRules.Consistent)"]
    rng = random.Random(common.seed())
    if replay:
        cases = [json.load(open(replay))["case"]]
    else:
        design(rep, tier)
        cases = build_cases(rep, tier, rng)
    traces = []
    for i, c in enumerate(cases):
        t = run_case(c, i + 1)
        traces.append(t)
    ids = {t["id"]: c for t, c in zip(traces, cases)}
    by_id = {t["id"]: t for t in traces}
    # clause evaluation counts (measured)
    for t in traces:
        for j, e in enumerate(t["ev"]):
            if e["e"] == "Report":
                nxt = t["ev"][j + 1] if j + 1 < len(t["ev"]) else {}
                cx = nxt.get("e") == "Return" and nxt.get("flag")
                rep.count_clause("descent_convexit" if cx else "descent",
                                 0 if (t["incr"] or (cx and t["scripted"])) else 1)
                rep.count_clause("finite")
            elif e["e"] == "Return":
                rep.count_clause("returns_last")
                rep.count_clause("honest_flag", 1 if e["flag"] else 0)
                rep.count_clause("convex_succeeds", 1 if t["convex"] else 0)
            elif e["e"] == "Trial":
                rep.count_clause("drift_accept")
    exits = {}
    for t in traces:
        last = t["ev"][-1]
        k = "raised" if last["e"] != "Return" else ("success" if last["flag"] else "fail")
        exits[k] = exits.get(k, 0) + 1
    rep.coverage["exit_kinds"] = exits
    rep.coverage["scripted_values_consumed"] = sum(t["n_scripted"] for t in traces)
    rep.coverage["trials_with_positive_model"] = sum(1 for t in traces for e in t["ev"] if e["e"] == "Trial" and e.get("modelPos"))
    rep.coverage["rho_classes_seen"] = sorted({e["rho"] for t in traces for e in t["ev"] if e["e"] == "Trial"})
    if traces:
        rep.sample(dict(case={k: v for k, v in cases[0].items() if k != "prob"}, events=traces[0]["ev"][:8]))
        rep.sample(dict(case="last", events=traces[-1]["ev"]))

    def on_fail(tid, l, clause):
        c = dict(ids[tid])
        c["event"] = l
        c["events"] = by_id[tid]["ev"]
        rep.fail(clause, c)
    for t in traces:
        t.pop("n_scripted", None)
    trace.validate("TrustRegionTrace.tla", "TrustRegionTrace.cfg", traces, rep, on_fail=on_fail)
    nd = len({json.dumps([e.get("rho", e["e"]) for e in t["ev"]]) for t in traces})
    return rep.finish(rule="scripted: one real solve per distinct reduction-ratio-class sequence emitted by TLC from "
                           "TrustRegion.tla (value-oracle proxy); genuine: seeded smooth family x setting vectors x "
                           "preconditioner kinds; distinct = distinct abstract event sequences observed",
                      extra={"distinct_nontrivial": nd})


if __name__ == "__main__":
    sys.exit(main(common.tier()))
