"""C18 - Smoothed min/max/abs and friction regularisation are tight, one-sided and C1.

(A) SmoothFn.tla is model-checked exhaustively: the clauses of C18 hold at EVERY point of an integer lattice in
    exact integer arithmetic, and on every switch surface the two branch formulas and their exact derivatives
    coincide.  The same run (SmoothFnGen.tla) is the exact ORACLE: it emits, for every lattice point, the exact
    rational value and derivative(s) and the point's class (inside / on / outside the switch).
(B) Every emitted lattice point is concretised on the real functions of /repo: scaled by the decades 10^k
    (k = -5..5, plus the exactly representable binary scales next to the negative decades), every argument perturbed
    by -1 / 0 / +1 ulp (27 resp. 9 neighbours), value and jax.grad evaluated vmapped+jitted (all points), and as
    single jitted / eager calls (seeded subset of the points on and next to the switches).  For min/max a second
    family offsets both arguments by M = +-e*10^q, q = 1..10 (arguments up to ten decades larger than the width).
(C) The observations are abstracted to sets of three-valued comparison codes per (lattice point, class of the
    actual float arguments) and SmoothFnTrace.tla judges the clauses of the property.

alpha / rounding allowances (u = 2^-52, S = largest |argument| incl. width w, all comparisons in 80-bit floats):
  values   : aV = 16 u S (+ 1e-9 w for min/max/abs: one billionth of the smoothing width), friction 32 u mu S
  exact-outside / symmetry : 16 u S
  spread of the value over the ulp-neighbourhood (continuity): 2 aV
  derivatives (O(1) quantities): aD = 1e-7 * dscale + 8 * (curvature bound of the blend) * (u S)
"""
import json
import math
import random
import sys

import numpy as onp

from harness import common, tlc, trace

PID = "C18"
U = 2.0 ** -52
LD = onp.longdouble
LT, EQ, GT, BAD = 1, 2, 4, 7
CLS = {"in": 1, "on": 2, "out": 4}
ACN = ["in", "on", "out"]
FIELDS = ("ub", "qt", "eq", "sy", "nn", "cv", "vj", "dj", "dv", "dd")
WIDTH_TERM = 1e-9
DTOL = 1e-7
TIER = {"quick": dict(E=8, R=8, N=16), "thorough": dict(E=16, R=16, N=32)}

# clause -> (field, fn -> allowed bit mask): used for counting and for picking a human readable witness only;
# the verdict is TLC's.
SUBLE, SUBGE, SUBEQ = LT | EQ, GT | EQ, EQ
CLAUSES = {
    "one_sided": ("ub", {"min": SUBLE, "max": SUBGE, "abs": SUBGE}, False),
    "quarter": ("qt", {"min": SUBLE, "max": SUBLE, "abs": SUBLE}, False),
    "outside_eq": ("eq", {"min": SUBEQ, "max": SUBEQ, "abs": SUBEQ}, True),
    "symmetric": ("sy", {"min": SUBEQ, "max": SUBEQ, "abs": SUBEQ}, False),
    "fric_nonneg": ("nn", {"fric": SUBGE}, False),
    "fric_coulomb": ("ub", {"fric": SUBLE}, False),
    "fric_offset": ("eq", {"fric": SUBEQ}, True),
    "fric_convex": ("cv", {"fric": SUBLE}, False),
    "c1_value": ("vj", {f: SUBEQ for f in ("min", "max", "abs", "ramp", "fric", "lin")}, False),
    "c1_deriv": ("dj", {f: SUBEQ for f in ("min", "max", "abs", "ramp", "fric", "lin")}, False),
}


# ----------------------------------------------------------------------------- alpha helpers
def cmp3(a, b, tol):
    a, b, tol = onp.broadcast_arrays(onp.asarray(a, LD), onp.asarray(b, LD), onp.asarray(tol, LD))
    out = onp.full(a.shape, EQ, onp.int8)
    out[a < b - tol] = LT
    out[a > b + tol] = GT
    out[~(onp.isfinite(a) & onp.isfinite(b))] = BAD
    return out


def pert(a, p):
    a, p = onp.broadcast_arrays(onp.asarray(a, onp.float64), p)
    return onp.where(p < 0, onp.nextafter(a, -onp.inf), onp.where(p > 0, onp.nextafter(a, onp.inf), a))


def cls3(d, w):
    """0 in / 1 on / 2 out for d (>= 0) against w, both long double."""
    return onp.where(d < w, 0, onp.where(d == w, 1, 2)).astype(onp.int8)


def spread(a, axis=-1):
    a = onp.asarray(a, LD)
    s = a.max(axis=axis, keepdims=True) - a.min(axis=axis, keepdims=True)
    s = onp.where(onp.isfinite(a).all(axis=axis, keepdims=True), s, onp.inf)
    return onp.broadcast_to(s, a.shape)


def amax(*xs):
    out = onp.abs(onp.asarray(xs[0], LD))
    for x in xs[1:]:
        out = onp.maximum(out, onp.abs(onp.asarray(x, LD)))
    return out


def perts(n):
    g = onp.array(onp.meshgrid(*([[-1, 0, 1]] * n), indexing="ij")).reshape(n, -1)
    return [g[i] for i in range(n)]


def lat_scales():
    """(label, factor, exact?) : fourteen decades 1e-10..1e3 (widths well below and above 1e-7) and binary scales next to some negative decades."""
    out = [("1e%d" % k, 10.0 ** k, k >= 0) for k in range(-10, 4)]
    out += [("2^%d" % round(k * math.log2(10)), 2.0 ** round(k * math.log2(10)), True) for k in range(-5, 0)]
    return out


def frac(nd):
    return LD(nd[0]) / LD(nd[1])


# ----------------------------------------------------------------------------- evaluators of the REAL functions
class Evaluator:
    """mode = vmap (jit(vmap(value_and_grad))), single (jitted scalar value_and_grad called once per
    sample) or eager (un-jitted value_and_grad called once per sample)."""

    def __init__(self, mode):
        import jax
        import jax.numpy as jnp
        from optimism import SmoothFunctions as SF
        from optimism.contact import Friction, MortarContact
        self.jax, self.jnp, self.mode = jax, jnp, mode

        def fric(s, mu, r):
            return Friction.compute_friction_energy_from_perp_slip(s, Friction.Params(mu, r))
        self.fns = {"min": SF.min, "max": SF.max, "abs": SF.abs, "ramp": SF.zmax, "fric": fric,
                    "lin": MortarContact.smooth_linear}
        self.argnums = {"min": (0, 1), "max": (0, 1), "abs": (0,), "ramp": (0,), "fric": (0,), "lin": (0,)}
        self.cache = {}
        self.calls = 0

    def _get(self, fn, grad):
        key = (fn, grad)
        if key not in self.cache:
            jax = self.jax
            f = self.fns[fn]
            g = jax.value_and_grad(f, argnums=self.argnums[fn]) if grad else f
            if self.mode == "vmap":
                g = jax.jit(jax.vmap(g))
            elif self.mode == "single":
                g = jax.jit(g)
            self.cache[key] = g
        return self.cache[key]

    def __call__(self, fn, args, grad=True):
        """args: list of numpy arrays with equal leading dimension. Returns (v, [grad arrays]) as float64."""
        n = len(args[0])
        self.calls += n
        g = self._get(fn, grad)
        if self.mode == "vmap":
            vs, gs = [], []
            B = 1 << 20
            for a0 in range(0, n, B):
                part = [onp.asarray(a[a0:a0 + B]) for a in args]
                m = len(part[0])
                size = 1024
                while size < m:
                    size *= 2
                padded = [onp.concatenate([p, onp.repeat(p[-1:], size - m, axis=0)]) if size > m else p for p in part]
                out = g(*padded)
                if grad:
                    vs.append(onp.asarray(out[0])[:m])
                    gs.append([onp.asarray(x)[:m] for x in out[1]])
                else:
                    vs.append(onp.asarray(out)[:m])
            v = onp.concatenate(vs)
            if not grad:
                return v, []
            return v, [onp.concatenate([c[i] for c in gs]) for i in range(len(gs[0]))]
        v = onp.empty(n)
        gr = None
        for i in range(n):
            a = [self.jnp.asarray(x[i]) if onp.ndim(x[i]) else float(x[i]) for x in args]
            out = g(*a)
            if grad:
                v[i] = float(out[0])
                gi = [onp.asarray(x, dtype=onp.float64) for x in out[1]]
                if gr is None:
                    gr = [onp.empty((n,) + x.shape) for x in gi]
                for k, x in enumerate(gi):
                    gr[k][i] = x
            else:
                v[i] = float(out)
        return v, (gr or [])


# ----------------------------------------------------------------------------- per-function observation cores
# Each core returns a dict:
#   codes : field -> int8 array (flat, one code per sample)      gid : group index per sample
#   ac    : actual class per sample (0 in / 1 on / 2 out)         exact0 : bool per sample (unperturbed & exact scale)
#   labels: per group (p, q, var)                                 args / out : sample arrays for witnesses
def core_minmax(fn, pts, fam, sub, ev):
    """fam 'lat': sub = list of (label, scale, exact); fam 'off': sub = list of (q, sign)."""
    X = onp.array([o["p"][0] for o in pts], onp.float64)
    Y = onp.array([o["p"][1] for o in pts], onp.float64)
    W = onp.array([o["p"][2] for o in pts], onp.float64)
    v0 = onp.array([frac(o["val"]) for o in pts], LD)
    d1 = onp.array([frac(o["d1"]) for o in pts], LD)
    d2 = onp.array([frac(o["d2"]) for o in pts], LD)
    P = len(pts)
    if fam == "lat":
        SC = onp.array([s[1] for s in sub])[None, :]
        M = onp.zeros((P, len(sub)))
        exact = onp.array([s[2] for s in sub])
        subidx = onp.zeros(len(sub), int)
        nsub, qlab = 1, [0]
    else:                        # 'off': both arguments shifted by M; 'dis': only x shifted (disparate magnitudes)
        SC = onp.ones((1, len(sub)))
        M = W[:, None] * onp.array([sg * 10.0 ** q for q, sg in sub])[None, :]
        exact = onp.ones(len(sub), bool)
        qs = sorted({q for q, _ in sub})
        subidx = onp.array([qs.index(q) for q, _ in sub])
        nsub, qlab = len(qs), qs
    px, py, pw = perts(3)
    T = len(px)
    shp = (P, SC.shape[1], T)
    x = pert((X[:, None] * SC + M)[:, :, None], px[None, None, :])
    y = pert((Y[:, None] * SC + (0 * M if fam == "dis" else M))[:, :, None], py[None, None, :])
    w = pert((W[:, None] * SC + 0 * M)[:, :, None], pw[None, None, :])
    v, (gx, gy) = ev(fn, [x.ravel(), y.ravel(), w.ravel()])
    v2, (g2x, g2y) = ev(fn, [y.ravel(), x.ravel(), w.ravel()])
    v, gx, gy, v2, g2x, g2y = (a.reshape(shp) for a in (v, gx, gy, v2, g2x, g2y))
    xl, yl, wl = x.astype(LD), y.astype(LD), w.astype(LD)
    ref = onp.minimum(xl, yl) if fn == "min" else onp.maximum(xl, yl)
    S = amax(xl, yl, wl)
    aE = 16 * U * S
    aV = aE + WIDTH_TERM * wl
    aD = DTOL + 8 * U * S / (2 * wl)
    ac = cls3(onp.abs(xl - yl), wl)
    orv = (v0[:, None] * SC.astype(LD) + M.astype(LD))[:, :, None]
    # on and outside the band the sharp value is one of the arguments: "equals" is judged relative to the RESULT
    # (2 ulp of it), not to the larger argument -- an error of one ulp of a huge discarded argument is not equality
    aQ = 2 * U * onp.abs(ref) + LD(onp.finfo(onp.float64).tiny)     # XLA flushes subnormals to zero
    if fam == "dis":
        orv = ref
        aV = onp.where(ac >= 1, aQ, aV)
    codes = dict(
        ub=cmp3(v, ref, aV), qt=cmp3(onp.abs(v.astype(LD) - ref), wl / 4, aV), eq=cmp3(v, ref, aQ),
        sy=cmp3(v, v2, aE) | cmp3(gx, g2y, aD) | cmp3(gy, g2x, aD),
        vj=cmp3(spread(v), 0, 2 * aV), dj=cmp3(spread(gx), 0, aD) | cmp3(spread(gy), 0, aD),
        dv=cmp3(v, orv, aV + aE), dd=cmp3(gx, d1[:, None, None], aD) | cmp3(gy, d2[:, None, None], aD))
    gid = onp.broadcast_to((onp.arange(P)[:, None] * nsub + subidx[None, :])[:, :, None], shp)
    exact0 = onp.broadcast_to(exact[None, :, None] & ((px == 0) & (py == 0) & (pw == 0))[None, None, :], shp)
    labels = [(o["p"], q, "") for o in pts for q in qlab]
    return dict(codes=codes, gid=gid, ac=ac, exact0=exact0, labels=labels,
                args=dict(x=x, y=y, eps=w), out=dict(value=v, ddx=gx, ddy=gy, sharp=ref.astype(onp.float64)))


def core_abs_ramp(fn, pts, sub, ev):
    half = 0.5 if fn == "abs" else 1.0
    X = onp.array([o["p"][0] for o in pts], onp.float64) * half
    W = onp.array([o["p"][1] for o in pts], onp.float64)
    v0 = onp.array([frac(o["val"]) for o in pts], LD)
    d1 = onp.array([frac(o["d1"]) for o in pts], LD)
    P = len(pts)
    SC = onp.array([s[1] for s in sub])[None, :]
    exact = onp.array([s[2] for s in sub])
    px, pw = perts(2)
    shp = (P, SC.shape[1], len(px))
    x = pert((X[:, None] * SC)[:, :, None], px[None, None, :])
    w = pert((W[:, None] * SC)[:, :, None], pw[None, None, :])
    v, (gx,) = ev(fn, [x.ravel(), w.ravel()])
    v, gx = v.reshape(shp), gx.reshape(shp)
    xl, wl = x.astype(LD), w.astype(LD)
    S = amax(xl, wl)
    aE = 16 * U * S
    orv = (v0[:, None] * SC.astype(LD))[:, :, None]
    if fn == "abs":
        v2, (g2,) = ev(fn, [(-x).ravel(), w.ravel()])
        v2, g2 = v2.reshape(shp), g2.reshape(shp)
        ref = onp.abs(xl)
        aV = aE + WIDTH_TERM * wl
        aD = DTOL + 8 * U * S * 2 / wl
        ac = cls3(2 * onp.abs(xl), wl)
        codes = dict(ub=cmp3(v, ref, aV), qt=cmp3(onp.abs(v.astype(LD) - ref), wl / 4, aV), eq=cmp3(v, ref, aE),
                     sy=cmp3(v, v2, aE) | cmp3(gx, -g2, aD))
        out = dict(value=v, ddx=gx, sharp=ref.astype(onp.float64))
    else:
        aV = aE
        aD = DTOL + 8 * U * S / (2 * wl)
        ac = cls3(onp.abs(xl), wl)
        codes = {}
        out = dict(value=v, ddx=gx)
    codes.update(vj=cmp3(spread(v), 0, 2 * aV), dj=cmp3(spread(gx), 0, aD),
                 dv=cmp3(v, orv, aV + aE), dd=cmp3(gx, d1[:, None, None], aD))
    gid = onp.broadcast_to(onp.arange(P)[:, None, None], shp)
    exact0 = onp.broadcast_to(exact[None, :, None] & ((px == 0) & (pw == 0))[None, None, :], shp)
    return dict(codes=codes, gid=gid, ac=ac, exact0=exact0, labels=[(o["p"], 0, "") for o in pts],
                args=dict(x=x, eps=w), out=out)


FRIC_VARS = {"1d": onp.array([[1.0]]), "x": onp.array([[1.0, 0.0]]), "y": onp.array([[0.0, 1.0]]),
             "d": onp.array([[0.6, 0.8]])}
FRIC_PERP = {"x": onp.array([0.0, 1.0]), "y": onp.array([1.0, 0.0]), "d": onp.array([-0.8, 0.6])}


def core_fric(pts, var, sub, ev):
    s0 = onp.array([o["p"][0] for o in pts], onp.float64)
    r0 = onp.array([o["p"][1] for o in pts], onp.float64)
    mu = onp.array([o["p"][2] for o in pts], onp.float64) / 4.0
    v0 = onp.array([frac(o["val"]) for o in pts], LD)
    d1 = onp.array([frac(o["d1"]) for o in pts], LD)
    P = len(pts)
    SC = onp.array([s[1] for s in sub])[None, :]
    exact = onp.array([s[2] for s in sub])
    ps, pr = perts(2)
    shp = (P, SC.shape[1], len(ps))
    n = P * SC.shape[1] * len(ps)
    s = pert((s0[:, None] * SC)[:, :, None], ps[None, None, :])
    r = pert((r0[:, None] * SC)[:, :, None], pr[None, None, :])
    m = onp.broadcast_to(mu[:, None, None], shp)
    d = FRIC_VARS[var]                                  # (1, dim)
    vec = s.reshape(-1, 1) * d                          # (n, dim) the actual sPerp handed to the code
    v, (g,) = ev("fric", [vec, m.ravel(), r.ravel()])
    v = v.reshape(shp)
    vl = vec.astype(LD)
    nrm = onp.sqrt((vl * vl).sum(axis=1)).reshape(shp)
    rl, ml = r.astype(LD), m.astype(LD)
    S = onp.maximum(nrm, rl)
    aV = 32 * U * ml * S
    aD = ml * (DTOL + 8 * U * S / rl)
    ac = cls3(nrm, rl)
    sc3 = onp.broadcast_to(SC[:, :, None], shp).ravel()
    # convexity: 2 phi(mid) <= phi(mid - h dir) + phi(mid + h dir) along the slip direction and across it
    cv = onp.zeros(shp, onp.int8)
    dirs = [d[0]] + ([FRIC_PERP[var]] if var in FRIC_PERP else [])
    ncv = 0
    for dr in dirs:
        for hf in (1.0, 0.25, 2.0 ** -12):
            h = (sc3 * hf)[:, None] * dr[None, :]
            va, _ = ev("fric", [vec - h, m.ravel(), r.ravel()], grad=False)
            vb, _ = ev("fric", [vec + h, m.ravel(), r.ravel()], grad=False)
            cv |= cmp3(2 * v.astype(LD), va.reshape(shp).astype(LD) + vb.reshape(shp), 4 * aV)
            ncv += 1
    dj = onp.zeros(shp, onp.int8)
    dd = onp.zeros(shp, onp.int8)
    for c in range(d.shape[1]):
        gc = g[:, c].reshape(shp)
        dj |= cmp3(spread(gc), 0, aD)
        dd |= cmp3(gc, d1[:, None, None] * LD(d[0, c]), aD)
    orv = (v0[:, None] * SC.astype(LD))[:, :, None]
    codes = dict(nn=cmp3(v, 0, aV), ub=cmp3(v, ml * nrm, aV), eq=cmp3(v, ml * (nrm - rl / 2), aV), cv=cv,
                 vj=cmp3(spread(v), 0, 2 * aV), dj=dj, dv=cmp3(v, orv, 2 * aV), dd=dd)
    gid = onp.broadcast_to(onp.arange(P)[:, None, None], shp)
    exact0 = onp.broadcast_to(exact[None, :, None] & ((ps == 0) & (pr == 0))[None, None, :], shp) & (var != "d")
    args = dict(sReg=r, mu=m)
    for c in range(d.shape[1]):
        args["sPerp[%d]" % c] = vec[:, c].reshape(shp)
    return dict(codes=codes, gid=gid, ac=ac, exact0=exact0, labels=[(o["p"], 0, var) for o in pts],
                args=args, out=dict(value=v), ncv=ncv)


def lin_decades(quick_subset=False):
    return [("1e%d" % k, 10.0 ** k, k == 0) for k in range(-9, 1)]


def core_lin(pts, N, sub, ev):
    I = onp.array([o["p"][0] for o in pts], onp.float64)
    J = onp.array([o["p"][1] for o in pts], onp.float64)
    v0 = onp.array([frac(o["val"]) for o in pts], LD)
    d1 = onp.array([frac(o["d1"]) for o in pts], LD)
    P = len(pts)
    SC = onp.array([s[1] for s in sub])[None, :]
    exact = onp.array([s[2] for s in sub])
    px, pl = perts(2)
    shp = (P, SC.shape[1], len(px))
    lb = (J / N)[:, None] * SC                                   # l = (j/N) 10^k
    lower = (I <= N / 2)[:, None] & onp.ones_like(lb, bool)
    # local coordinates: xi = l*(i/j) next to the lower switch, xi = 1 - l*(N-i)/j next to the upper one;
    # the switch points themselves are xi = l and xi = fl(1 - l) (the thresholds the code computes)
    xlo = onp.where((I == J)[:, None], lb, lb * I[:, None] / J[:, None])
    xhi = onp.where((N - I == J)[:, None], 1.0 - lb, 1.0 - lb * (N - I)[:, None] / J[:, None])
    xb = onp.where(lower, xlo, xhi)
    xi = pert(xb[:, :, None], px[None, None, :])
    l = pert(lb[:, :, None], pl[None, None, :])
    v, (gx,) = ev("lin", [xi.ravel(), l.ravel()])
    v, gx = v.reshape(shp), gx.reshape(shp)
    xil, ll = xi.astype(LD), l.astype(LD)
    low3 = onp.broadcast_to(lower[:, :, None], shp)
    S = onp.where(low3, amax(xil, ll), LD(1.0))
    aV = 16 * U * S
    aD = DTOL + 8 * U * S / ll
    thr = (1.0 - l).astype(LD)                                   # the code's own upper threshold
    on = (xil == ll) | (xil == thr)
    cap = (xil < ll) | (xil > thr)
    ac = onp.where(on, 1, onp.where(cap, 0, 2)).astype(onp.int8)
    scl = SC.astype(LD)
    orv = onp.where(lower, v0[:, None] * scl, 1 - scl * (1 - v0[:, None]))[:, :, None]
    codes = dict(vj=cmp3(spread(v), 0, 2 * aV), dj=cmp3(spread(gx), 0, aD),
                 dv=cmp3(v, orv, 2 * aV), dd=cmp3(gx, d1[:, None, None], aD))
    gid = onp.broadcast_to(onp.arange(P)[:, None, None], shp)
    exact0 = onp.broadcast_to(exact[None, :, None] & ((px == 0) & (pl == 0))[None, None, :], shp)
    return dict(codes=codes, gid=gid, ac=ac, exact0=exact0, labels=[(o["p"], 0, "") for o in pts],
                args=dict(xi=xi, l=l), out=dict(value=v, ddxi=gx))


# ----------------------------------------------------------------------------- grouping (alpha, last step)
def to_events(res):
    """One event per (group, actual class): bit masks of the codes seen."""
    gid = onp.asarray(res["gid"]).ravel().astype(onp.int64)
    ac = onp.asarray(res["ac"]).ravel().astype(onp.int64)
    K = len(res["labels"]) * 3
    key = gid * 3 + ac
    cnt = onp.bincount(key, minlength=K)
    masks = {}
    for f, c in res["codes"].items():
        b = onp.bincount(key * 8 + onp.asarray(c).ravel().astype(onp.int64), minlength=K * 8).reshape(K, 8) > 0
        m = onp.zeros(K, onp.int64)
        for code in range(1, 8):
            m |= onp.where(b[:, code], code, 0)
        masks[f] = m
    ex = onp.asarray(res["exact0"]).ravel()
    c0 = onp.zeros(len(res["labels"]), onp.int64)
    if ex.any():
        b = onp.bincount(gid[ex] * 3 + ac[ex], minlength=K).reshape(-1, 3) > 0
        c0 = b[:, 0] * 1 + b[:, 1] * 2 + b[:, 2] * 4
    evs = []
    for k in onp.nonzero(cnt)[0]:
        g, a = divmod(int(k), 3)
        p, q, var = res["labels"][g]
        e = dict(p=list(p), q=int(q), var=var, ac=ACN[a], n=int(cnt[k]), c0=int(c0[g]))
        for f in FIELDS:
            e[f] = int(masks[f][k]) if f in masks else 0
        evs.append(e)
    return evs


def find_witness(res, fn, clause, p, q, var, acname):
    """Human readable concrete witness (first offending sample) for a failing clause of one group."""
    if clause not in CLAUSES:
        return None
    field, allowed, _ = CLAUSES[clause]
    if field not in res["codes"] or fn not in allowed:
        return None
    g = [i for i, lab in enumerate(res["labels"]) if list(lab[0]) == list(p) and lab[1] == q and lab[2] == var]
    if not g:
        return None
    code = onp.asarray(res["codes"][field]).ravel()
    sel = (onp.asarray(res["gid"]).ravel() == g[0]) & (onp.asarray(res["ac"]).ravel() == ACN.index(acname)) \
        & ((code & ~allowed[fn]) != 0)
    idx = onp.nonzero(sel)[0]
    if not len(idx):
        return None
    i = int(idx[0])
    w = {k: float(onp.asarray(a).ravel()[i]) for k, a in res["args"].items()}
    w.update({k: float(onp.asarray(a).ravel()[i]) for k, a in res["out"].items()})
    w["code"] = int(code[i])
    w["offending_samples_in_group"] = int(len(idx))
    return w


# ----------------------------------------------------------------------------- work list
def run_unit(unit, evs):
    """unit: dict(fn, fam, mode, pts, sub, var, N). Returns core result."""
    ev = evs[unit["mode"]]
    fn = unit["fn"]
    if fn in ("min", "max"):
        return core_minmax(fn, unit["pts"], unit["fam"], unit["sub"], ev)
    if fn in ("abs", "ramp"):
        return core_abs_ramp(fn, unit["pts"], unit["sub"], ev)
    if fn == "fric":
        return core_fric(unit["pts"], unit["var"], unit["sub"], ev)
    return core_lin(unit["pts"], unit["N"], unit["sub"], ev)


def subs_for(fn, fam, mode, tier):
    if fam == "off":
        qs = range(1, 11)
        return [[q, sg] for q in qs for sg in (1, -1)]
    if fam == "dis":
        return [[q, sg] for q in (2, 5, 8, 11, 14, 17, 20) for sg in (1, -1)]
    sc = lin_decades() if fn == "lin" else lat_scales()
    if mode == "single":
        sc = [s for s in sc if s[0] in ("1e-5", "1e0", "1e5", "2^-17", "1e-9", "1e-4")]
    if mode == "eager":
        sc = [s for s in sc if s[0] in ("1e0", "1e-5", "1e-9")][:2]
    return [list(s) for s in sc]


def chunks(pts, per):
    for i in range(0, len(pts), per):
        yield pts[i:i + per]


def build_units(obs, tier, rng):
    """The work list: every lattice point emitted by TLC in vmap mode; seeded subsets of the points on / next
    to the switches as single jitted calls and as eager calls; the offset family for min/max."""
    N = TIER[tier]["N"]
    by = {}
    for o in obs:
        by.setdefault(o["fn"], []).append(o)
    for f in by:
        by[f].sort(key=lambda o: o["p"])
    units = []
    for fn in ("min", "max", "abs", "ramp", "fric", "lin"):
        pts = by.get(fn, [])
        nsamp = {"min": 27 * 16 * 2, "max": 27 * 16 * 2, "abs": 9 * 16 * 2, "ramp": 9 * 16, "fric": 9 * 16 * 13,
                 "lin": 90}[fn]
        per = max(8, 1500000 // nsamp)
        variants = ["1d", "x", "y", "d"] if fn == "fric" else [""]
        for var in variants:
            for c in chunks(pts, per):
                units.append(dict(fn=fn, fam="lat", mode="vmap", pts=c, var=var, N=N,
                                  sub=subs_for(fn, "lat", "vmap", tier)))
        near = [o for o in pts if o["near"]]
        rng.shuffle(near)
        on_first = sorted(near, key=lambda o: o["cls"] != "on")      # stable: switch points first
        ns, ne = (40, 4) if tier == "quick" else (400, 12)
        for var in variants:
            units.append(dict(fn=fn, fam="lat", mode="single", pts=on_first[:ns], var=var, N=N,
                              sub=subs_for(fn, "lat", "single", tier)))
            units.append(dict(fn=fn, fam="lat", mode="eager", pts=on_first[:ne], var=var, N=N,
                              sub=subs_for(fn, "lat", "eager", tier)))
        if fn in ("min", "max"):
            off = [o for o in pts if o["p"][1] == 0]
            for c in chunks(off, max(8, 1500000 // (27 * 20 * 2))):
                units.append(dict(fn=fn, fam="off", mode="vmap", pts=c, var="", N=N, sub=subs_for(fn, "off", "vmap", tier)))
            for c in chunks(off, max(8, 1500000 // (27 * 14 * 2))):
                units.append(dict(fn=fn, fam="dis", mode="vmap", pts=c, var="", N=N, sub=subs_for(fn, "dis", "vmap", tier)))
    return units


def count_clauses(rep, fn, fam, res):
    n_all = int(onp.asarray(res["gid"]).size)
    n_out = int((onp.asarray(res["ac"]) >= 1).sum())
    for clause, (field, allowed, outside_only) in CLAUSES.items():
        if fn in allowed and field in res["codes"]:
            n = n_out if outside_only else n_all
            if clause == "fric_convex":
                n = n_all * res.get("ncv", 1)
            rep.count_clause(clause, n)
            d = rep.coverage.setdefault("clauses_evaluated_by_function", {})
            k = clause + "@" + fn + ("/" + fam if fam in ("off", "dis") else "")
            d[k] = d.get(k, 0) + n


def regime(fam, q):
    if fam == "dis":
        return "disparate_magnitudes"
    if fam != "off":
        return "lattice"
    return "arguments_ge_1e4_widths" if q >= 4 else "arguments_le_1e3_widths"


# ----------------------------------------------------------------------------- main
def main(tier, replay=None):
    common.setup_paths()
    rep = common.Reporter(PID, tier)
    rep.assumptions = [
        "alpha: comparison codes LT/EQ/GT computed in 80-bit long double from the float64 results of the real functions",
        "value allowance aV = 16*u*S, u = 2^-52, S = max |argument| (width included); min/max/abs add 1e-9*width "
        "(one billionth of the smoothing width); friction 32*u*mu*S; equality outside the band and symmetry 16*u*S",
        "continuity: spread of the value over the 27 (9) ulp-neighbours of every point <= 2*aV; spread of every "
        "jax.grad component <= 1e-7*dscale + 8*(curvature bound: 1/(2w) min/max/ramp, 2/w abs, mu/r friction, "
        "1/l smooth_linear)*u*S",
        "smooth_linear: l = (j/N)*10^k, k = -9..0, l <= 1/2 (the two caps overlap for l > 1/2); the switch points are "
        "xi = l and xi = fl(1-l); friction mu = m/4, m = 1..3, sPerp = s*(1), s*(1,0), s*(0,1), s*(0.6,0.8)",
        "disparate family (min/max): x = d + e*10^q (q = 2..20 widths), y and the width of lattice size: one argument "
        "dwarfs the other; on and outside the band equality is judged to 2 ulp of the RESULT in every family",
        "offset family (min/max): x = M + d, y = M, M = +-e*10^q, q = 1..10, exact integer-valued floats; oracle "
        "smin(x+t, y+t) = smin(x, y) + t (invariant Translate of SmoothFn.tla)",
        "convexity of the friction potential: three-point test along and across the slip direction with steps "
        "1, 1/4 and 2^-12 lattice units, allowance 4*aV; the spec proves lattice convexity of the radial profile",
    ]
    rng = random.Random(common.seed())
    N = TIER[tier]["N"]
    cases = {}
    traces = []
    evs = {}

    def evaluator(mode):
        if mode not in evs:
            evs[mode] = Evaluator(mode)
        return evs[mode]

    class EvMap(dict):
        def __missing__(self, k):
            self[k] = evaluator(k)
            return self[k]
    evmap = EvMap()

    if replay:
        case = json.load(open(replay))["case"]
        tier_of_case = case.get("tier", tier)
        N = TIER[tier_of_case]["N"]
        unit = dict(fn=case["fn"], fam=case["fam"], mode=case["mode"], var=case.get("var", ""), N=N,
                    pts=[case["oracle"]], sub=case["sub"])
        units = [unit]
        cfg = "SmoothFnTrace_%s.cfg" % tier_of_case
        des = tlc.run("SmoothFn.tla", "SmoothFn_%s.cfg" % tier_of_case, label="design-" + tier_of_case, timeout=1800)
        if tlc.require_ok(des, rep, "design"):
            rep.add_tlc(des)
    else:
        gen = tlc.run("SmoothFnGen.tla", "SmoothFnGen_%s.cfg" % tier, workers=1, label="design+oracle-" + tier,
                      timeout=1800)
        if not tlc.require_ok(gen, rep, "design"):
            return rep.finish(rule="design run failed")
        rep.add_tlc(gen)
        for a in ("EvalMin", "EvalMax", "EvalAbs", "EvalRamp", "EvalFric", "EvalLin"):
            if gen.action_counts.get(a, 0) == 0:
                rep.machinery("design spec action %s was never taken" % a)
        if tier != "quick":
            # unbounded companion of the lattice run: Apalache / Z3 discharge the smoothed-min/max algebra for ALL integers and
            # widths (plus a refuted negative control); a failure is a machinery error, never a VIOLATION
            import subprocess
            r = subprocess.run([common.SPECS + "/apalache/run_smoothfn.sh"], capture_output=True, text=True)
            rep.coverage["apalache"] = [l for l in r.stdout.splitlines() if l.startswith("APALACHE")]
            if r.returncode != 0:
                rep.machinery("apalache check of SmoothFnAll.tla failed: %s" % r.stdout[-400:])
        obs = gen.payloads("OBS")
        rep.coverage["lattice_points_emitted_by_tlc"] = len(obs)
        rep.coverage["switch_points_emitted"] = sum(1 for o in obs if o["cls"] == "on")
        units = build_units(obs, tier, rng)
        cfg = "SmoothFnTrace_%s.cfg" % tier
        tier_of_case = tier

    tid = 0
    nsamples = 0
    for unit in units:
        if not unit["pts"]:
            continue
        try:
            res = run_unit(unit, evmap)
        except Exception as ex:                    # a public call raised
            rep.fail("no_exception", dict(fn=unit["fn"], fam=unit["fam"], mode=unit["mode"], var=unit["var"],
                                          sub=unit["sub"], oracle=unit["pts"][0], tier=tier_of_case,
                                          regime="exception"), repr(ex))
            continue
        events = to_events(res)
        if replay:                                 # the stored case = one (lattice point, class of actual arguments)
            events = [e for e in events if e["ac"] == case["ac"] and e["q"] == case["q"]]
        count_clauses(rep, unit["fn"], unit["fam"], res)
        nsamples += int(onp.asarray(res["gid"]).size)
        key = "%s/%s/%s" % (unit["fn"], unit["fam"], unit["mode"])
        rep.coverage.setdefault("evaluations_of_real_function_points", {}).setdefault(key, 0)
        rep.coverage["evaluations_of_real_function_points"][key] += int(onp.asarray(res["gid"]).size)
        tid += 1
        traces.append(dict(id=tid, fn=unit["fn"], fam=unit["fam"], mode=unit["mode"], ev=events))
        cases[tid] = unit
        if unit["mode"] == "vmap" and unit["fam"] == "lat" and events:
            rep.sample(dict(fn=unit["fn"], event=events[len(events) // 2]))
    rep.coverage["samples_evaluated"] = nsamples
    rep.coverage["events"] = sum(len(t["ev"]) for t in traces)
    rep.coverage["real_function_calls"] = {m: e.calls for m, e in evs.items()}

    byp = {}

    def on_fail(tid_, l, clause):
        unit = cases[tid_]
        e = traces[tid_ - 1]["ev"][l - 1]
        orc = [o for o in unit["pts"] if list(o["p"]) == list(e["p"])][0]
        sub = unit["sub"]
        if unit["fam"] in ("off", "dis"):
            sub = [s for s in sub if s[0] == e["q"]]
        case = dict(fn=unit["fn"], fam=unit["fam"], mode=unit["mode"], var=unit["var"], p=e["p"], q=e["q"],
                    ac=e["ac"], sub=sub, oracle=orc, tier=tier_of_case, regime=regime(unit["fam"], e["q"]))
        k = (clause, unit["fn"], unit["fam"], case["regime"])
        byp[k] = byp.get(k, 0) + 1
        if byp[k] > 12 and not replay:             # every failure is counted; 12 per (clause, fn, family, regime)
            return                                 # are written out as replayable cases with a concrete witness
        res = run_unit(dict(unit, pts=[orc], sub=sub), evmap)
        det = find_witness(res, unit["fn"], clause, e["p"], e["q"], unit["var"], e["ac"])
        rep.fail(clause, case, det)

    trace.validate("SmoothFnTrace.tla", cfg, traces, rep, on_fail=on_fail, chunk=60)
    if byp:
        rep.coverage["failures_by_clause_fn_family_regime"] = {"/".join(k): v for k, v in sorted(byp.items())}
    if not replay:
        for c in CLAUSES:
            if rep.coverage["clauses_evaluated"].get(c, 0) < 1000:
                rep.machinery("clause %s evaluated only %d times" % (c, rep.coverage["clauses_evaluated"].get(c, 0)))
    return rep.finish(
        rule="every lattice point of SmoothFn.tla (TLC-emitted, with exact rational value/derivative) x decades x "
             "{-1,0,+1 ulp}^args evaluated on the real functions and jax.grad; one event per (point, class of the "
             "actual arguments); distinct = lattice points",
        extra={"distinct_nontrivial": rep.coverage.get("lattice_points_emitted_by_tlc", 1)},
        exhaustive=True)


if __name__ == "__main__":
    sys.exit(main(common.tier()))
