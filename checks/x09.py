"""X09 (extension, not a listed property) — contact/EdgeIntersection.py and contact/Search.get_best_neighbor on an integer
lattice (RayTrace.tla).  TLC enumerates every edge / ray pair of the lattice with the exact hit parameters
(t, u) = (tn/den, un/den) and the validity of the hit; each is evaluated on the real compute_ray_trace_distance_and_location,
compute_valid_ray_trace_distance and compute_valid_ray_trace_distance_smoothed at scales 1e-6..1e6; seeded groups of
lattice edges are put on a real Mesh and Search.get_best_neighbor is asked for the nearest edge along a ray.
RayTraceTrace.tla judges hit_parameters, invalid_is_inf, smoothing and selects_nearest (exact rational comparison)."""
import json
import math
import random
import sys

import numpy as onp

from harness import common, tlc, trace

PID = "X09"
RT = 1e-12


def code(x, ref, scale):
    return "EQ" if (math.isfinite(x) and abs(x - ref) <= RT * max(1.0, abs(ref)) * scale) else "NE"


def singles(behs, rng):
    import jax
    import jax.numpy as np
    from optimism.contact import EdgeIntersection as EI
    f_loc = jax.jit(jax.vmap(EI.compute_ray_trace_distance_and_location))
    f_val = jax.jit(jax.vmap(EI.compute_valid_ray_trace_distance))
    f_smo = jax.jit(jax.vmap(lambda e, r: EI.compute_valid_ray_trace_distance_smoothed(e, r, 0.1)))
    sc = onp.array([10.0 ** rng.choice([-6, -3, 0, 0, 2, 6]) for _ in behs])
    P = onp.array([b["p"] for b in behs], float) * sc[:, None]
    R = onp.array([b["r"] for b in behs], float) * sc[:, None]
    Q = onp.array([b["q"] for b in behs], float) * sc[:, None]
    S = onp.array([b["s"] for b in behs], float)                       # ray direction: not scaled (u carries the length)
    edges = np.array(onp.stack([P, P + R], axis=1))
    rays = np.array(onp.stack([Q, S], axis=1))
    u, t = (onp.asarray(a) for a in f_loc(edges, rays))
    uv, tv = (onp.asarray(a) for a in f_val(edges, rays))
    us, ts = (onp.asarray(a) for a in f_smo(edges, rays))
    out = []
    for i, b in enumerate(behs):
        tref = b["tn"] / b["den"]
        uref = b["un"] / b["den"] * sc[i]
        over = (tref - 1.0) if tref > 1.0 else (-tref if tref < 0.0 else 0.0)
        sref = uref + 0.5 * over * over
        out.append(dict(kind="single", den=b["den"], tn=b["tn"], un=b["un"], valid=bool(b["valid"]), end=bool(b["end"]),
                        ct=code(float(t[i]), tref, 1.0), cu=code(float(u[i]), uref, 1.0),
                        inf=bool(math.isinf(float(uv[i])) and uv[i] > 0),
                        cs=code(float(us[i]), sref, 1.0)))
    return out


def select_case(rng, L=2):
    """A ray and 2..5 lattice edges (each the first side of its own triangle of a real mesh); one may be 'self'."""
    vec = [(a, b) for a in range(-L, L + 1) for b in range(-L, L + 1)]
    q = rng.choice(vec)
    s = rng.choice([v for v in vec if v != (0, 0)])
    edges = []
    while len(edges) < rng.randrange(2, 6):
        p = rng.choice(vec)
        r = rng.choice([v for v in vec if v != (0, 0)])
        if r[0] * s[1] - r[1] * s[0] != 0:
            edges.append((p, r))
    return dict(q=q, s=s, edges=edges, self=rng.randrange(len(edges)) if rng.random() < 0.5 else -1)


def run_select(c):
    import jax.numpy as np
    from optimism import Mesh
    from optimism.contact import Search
    coords, conns = [], []
    for (p, r) in c["edges"]:
        a = onp.array(p, float)
        b = a + onp.array(r, float)
        n = onp.array([-r[1], r[0]], float)
        k = len(coords)
        coords += [a, b, 0.5 * (a + b) + 0.37 * n]             # third node to the left: positive orientation
        conns.append([k, k + 1, k + 2])
    mesh = Mesh.construct_mesh_from_basic_data(np.array(onp.array(coords)), np.array(onp.array(conns)), {"b": onp.arange(len(conns))})
    lst = np.array([[e, 0] for e in range(len(conns))])
    me = np.array([c["self"], 0]) if c["self"] >= 0 else np.array([len(conns) + 7, 0])
    best = Search.get_best_neighbor(mesh, me, lst, np.array(c["s"], dtype=float), np.array(c["q"], dtype=float))
    cands = []
    for k, (p, r) in enumerate(c["edges"]):
        den = r[0] * c["s"][1] - r[1] * c["s"][0]
        qmp = (c["q"][0] - p[0], c["q"][1] - p[1])
        tn = qmp[0] * c["s"][1] - qmp[1] * c["s"][0]
        un = qmp[0] * r[1] - qmp[1] * r[0]
        sg = 1 if den > 0 else -1
        v = "end" if tn in (0, den) else ("yes" if 0 < tn * sg < den * sg else "no")
        cands.append(dict(valid=v, num=un, den=den, self=bool(k == c["self"])))
    return dict(kind="select", cands=cands, best=int(best[0]))


def main(tier, replay=None):
    common.setup_paths()
    rep = common.Reporter(PID, tier)
    rep.assumptions = ["extension beyond the listed properties: not registered in MANIFEST.json",
                       "parallel edge / ray pairs (regularised denominator) are not modelled",
                       "allowance %g relative for t, u and the smoothed distance (lattice coordinates scaled by 1e-6..1e6)" % RT]
    rng = random.Random(common.seed())
    traces, cases = [], {}
    if replay:
        c = json.load(open(replay))["case"]
        if c["kind"] == "single":
            traces = singles([c["beh"]], random.Random(c["seed"]))
        else:
            traces = [run_select(c["sel"])]
        traces[0]["id"] = 1
        cases[1] = c
    else:
        des = tlc.run("RayTrace.tla", "RayTrace.cfg", workers=1, label="design+oracle")
        tlc.require_ok(des, rep, "design")
        rep.add_tlc(des)
        behs = des.payloads("BEH")
        if tier != "quick":
            import subprocess
            r = subprocess.run([common.SPECS + "/apalache/run_generic.sh", "RayTraceAll.tla", "All", "NegControl"],
                               capture_output=True, text=True)
            rep.coverage["apalache"] = [l for l in r.stdout.splitlines() if l.startswith("APALACHE")]
            if r.returncode != 0:
                rep.machinery("apalache check of RayTraceAll.tla failed: %s" % r.stdout[-400:])
        if tier == "quick":
            behs = rng.sample(behs, min(6000, len(behs)))
        sseed = rng.randrange(1 << 30)
        srng = random.Random(sseed)
        for k, (b, t) in enumerate(zip(behs, singles(behs, srng))):
            t["id"] = k + 1
            traces.append(t)
            cases[k + 1] = dict(kind="single", beh=b, seed=sseed)
        rep.coverage["lattice_queries"] = len(behs)
        rep.coverage["valid_hits"] = sum(1 for b in behs if b["valid"])
        nsel = 300 if tier == "quick" else 4000
        for j in range(nsel):
            c = select_case(rng)
            t = run_select(c)
            t["id"] = len(traces) + 1
            traces.append(t)
            cases[t["id"]] = dict(kind="select", sel=c)
        rep.coverage["selection_cases"] = nsel
    for t in traces:
        if t["kind"] == "single":
            for c in ("hit_parameters", "invalid_is_inf", "smoothing"):
                rep.count_clause(c)
        else:
            rep.count_clause("selects_nearest")
    rep.sample(traces[0])
    rep.sample(traces[-1])
    trace.validate("RayTraceTrace.tla", "RayTraceTrace.cfg", traces, rep,
                   on_fail=lambda tid, l, clause: rep.fail(clause, cases[tid]))
    return rep.finish(rule="every edge/ray pair of the 5x5 lattice (TLC, exact) at seeded scales; seeded groups of 2-5 lattice edges on a real mesh",
                      extra={"distinct_nontrivial": len(traces)}, exhaustive=(tier != "quick"))


if __name__ == "__main__":
    sys.exit(main(common.tier()))
