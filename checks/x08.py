"""X08 (extension, not a listed property) — NewtonSolver.globalized_newton_step (NewtonGlobal.tla): the returned step is
either 0.0 (GMRES failed, not a descent direction, cut-backs exhausted) or the Newton step scaled by the product of the
cut-back factors, each in [0.01, 0.5], and it passed the sufficient-decrease test of 1/2|r|^2.  Real calls on a seeded
family of 2-5 dimensional residuals with exact, damped, over-relaxed and wrong-signed Jacobians are recorded through a
logging residual and a wrapped compute_min_p; NewtonGlobalTrace.tla replays the control flow and judges the clauses."""
import json
import math
import random
import sys

import numpy as onp

from harness import common, tlc, trace
from harness.proxies import Silence

PID = "X08"


def run_case(c, tid):
    import jax
    import jax.numpy as np
    from optimism import NewtonSolver as NS
    rs = onp.random.RandomState(c["seed"])
    n = c["n"]
    A = rs.normal(size=(n, n)) + c["diag"] * onp.eye(n)
    b = rs.normal(size=n) * c["bmag"]
    c3, sm, w = c["c3"], c["sin"], c["w"]

    def res(y):
        return np.array(A) @ y + c3 * y ** 3 + sm * np.sin(w * y) - np.array(b)
    x = np.array(rs.normal(size=n) * c["x0mag"])
    J = onp.asarray(jax.jacfwd(res)(x)) * c["jscale"]
    calls = []

    def residual(y):
        r = res(y)
        if not isinstance(y, jax.core.Tracer):
            calls.append(onp.asarray(y, dtype=float).copy())
        return r
    thetas = []
    orig = NS.compute_min_p

    def min_p(ps, bounds):
        th = orig(ps, bounds)
        a = ps[1] - ps[0] - ps[2]
        q = "in"
        if a > 0:
            qm = -ps[2] / (2 * a)
            q = "below" if qm < bounds[0] else ("above" if qm > bounds[1] else "in")
        thetas.append(dict(theta=float(th), aPos=bool(a > 0), e0lt1=bool(ps[0] < ps[1]), q=q))
        return th
    NS.compute_min_p = min_p
    try:
        with Silence():
            out = NS.globalized_newton_step(residual, lambda v: np.array(J) @ v, x, etak=c["eta"], t=c["t"],
                                            maxLinesearchIters=c["maxls"])
    finally:
        NS.compute_min_p = orig
    x0 = onp.asarray(x)
    E = lambda y: 0.5 * float(onp.linalg.norm(onp.asarray(res(np.array(y)))) ** 2)
    E0 = E(x0)
    trial = [y for y in calls if onp.abs(y - x0).max() > 0]          # evaluations at x + s_k
    zero = bool(onp.ndim(out) == 0 and float(out) == 0.0)
    ev = []
    gm_ok = len(trial) > 0
    ev.append(dict(e="Newton", ok=bool(gm_ok)))
    if gm_ok:
        s0 = trial[0] - x0
        eta = c["eta"]
        for k, y in enumerate(trial):
            if k == c["maxls"]:
                break                                               # the last cut-back is computed but never tested
            suff = E(y) < (1.0 - c["t"] * (1.0 - eta)) * E0
            ev.append(dict(e="Test", suff=bool(suff)))
            if suff:
                break
            if k < len(thetas):
                ev.append(dict(e="Slope", neg=True))
                th = thetas[k]
                ev.append(dict(e="Theta", num=int(round(th["theta"] * 1e6)), aPos=th["aPos"], e0lt1=th["e0lt1"], q=th["q"]))
                eta = 1.0 - th["theta"] * (1.0 - eta)
            else:
                ev.append(dict(e="Slope", neg=False))
                break
        prod = 1.0
        for th in thetas:
            prod *= th["theta"]
    scaled, dec = True, True
    if not zero:
        s = onp.asarray(out, dtype=float)
        scaled = bool(onp.abs(s - prod * s0).max() <= 1e-12 * max(1.0, onp.abs(s0).max()))
        dec = bool(E(x0 + s) < E0)
    ev.append(dict(e="Return", zero=zero, scaled=scaled, decreased=dec))
    return dict(id=tid, maxls=c["maxls"], ev=ev)


def main(tier, replay=None):
    common.setup_paths()
    rep = common.Reporter(PID, tier)
    rep.assumptions = ["extension beyond the listed properties: not registered in MANIFEST.json",
                       "the sufficient-decrease outcome of each trial is recomputed with the code's own expression from the logged "
                       "evaluation points; the slope sign is inferred from whether compute_min_p was reached"]
    rng = random.Random(common.seed())
    des = tlc.run("NewtonGlobal.tla", "NewtonGlobal.cfg", label="design")
    tlc.require_ok(des, rep, "design")
    rep.add_tlc(des)
    traces, cases = [], {}
    n = 150 if tier == "quick" else 2500
    kinds = {}
    for i in range(n):
        c = dict(seed=rng.randrange(1 << 30), n=rng.randrange(2, 6), diag=rng.choice([3.0, 1.0, 0.2]),
                 bmag=10 ** rng.uniform(-1, 1.5), c3=rng.choice([0.0, 0.3, 3.0]), sin=rng.choice([0.0, 1.0, 4.0]),
                 w=rng.choice([1.0, 3.0, 9.0]), x0mag=10 ** rng.uniform(-1, 0.7),
                 jscale=rng.choice([1.0, 1.0, 0.3, 0.05, 3.0, 20.0, -1.0]), eta=rng.choice([1e-3, 0.1, 0.5]),
                 t=rng.choice([1e-4, 0.1, 0.5]), maxls=rng.choice([4, 4, 2, 6]))
        if replay:
            c = json.load(open(replay))["case"]
        tr = run_case(c, i + 1)
        traces.append(tr); cases[i + 1] = c
        last = tr["ev"][-1]
        k = "zero" if last["zero"] else "step_after_%d_cutbacks" % sum(1 for e in tr["ev"] if e["e"] == "Theta")
        kinds[k] = kinds.get(k, 0) + 1
        if replay:
            break
    rep.coverage["outcomes"] = kinds
    for t in traces:
        for e in t["ev"]:
            rep.count_clause({"Newton": "control_flow", "Test": "control_flow", "Slope": "control_flow",
                              "Theta": "theta_in_bounds", "Return": "step_is_sufficient"}[e["e"]])
    rep.sample(traces[0])
    trace.validate("NewtonGlobalTrace.tla", "NewtonGlobalTrace.cfg", traces, rep,
                   on_fail=lambda tid, l, clause: rep.fail(clause, dict(cases[tid], event=l)))
    return rep.finish(rule="seeded residual family (linear + cubic + sine, n = 2..5) x Jacobian scalings {1, 0.3, 0.05, 3, 20, -1} x "
                           "(eta, t, max cut-backs)", extra={"distinct_nontrivial": len(traces)})


if __name__ == "__main__":
    sys.exit(main(common.tier()))
